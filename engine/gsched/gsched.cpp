// gsched -- schedule-owning runtime for TSan-instrumented code (engine E1).
//
// Code under test is compiled by clang with -fsanitize=thread (instrumentation
// only) and linked against THIS file instead of the TSan runtime.  Every
// atomic / volatile / plain access, every pthread mutex/condvar/barrier/
// create/join call arrives here; exactly one registered thread runs at a time
// (futex hand-off) and the scheduler decides at each scheduling point who
// continues.  A vector-clock happens-before tracker honours the declared
// memory orders and checks plain accesses to the harness' payload arena.
//
// Built with g++ without any sanitizer.
#include "gsched.h"

#include <atomic>
#include <cerrno>
#include <climits>
#include <cstdio>
#include <cstdlib>
#include <cstring>
#include <dlfcn.h>
#include <linux/futex.h>
#include <pthread.h>
#include <sys/mman.h>
#include <sys/syscall.h>
#include <unistd.h>
#include <unordered_map>
#include <vector>

namespace {

constexpr int MAXT = 24;
typedef uint32_t clk_t;
struct VC {
  clk_t c[MAXT];
  void clear() { memset(c, 0, sizeof(c)); }
  void join(const VC& o) {
    for (int i = 0; i < MAXT; ++i)
      if (o.c[i] > c[i])
        c[i] = o.c[i];
  }
};

enum St { RUN = 0, BLK = 1, FIN = 2 };
enum Kind { K_ATOMIC, K_VOLATILE, K_SYNC, K_SPIN, K_PLAIN, K_USER, K_FENCE };

struct Thr {
  int id;
  pthread_t pth;
  std::atomic<int> go;
  int st;
  const void* waitkey;
  bool timed;       // blocked in a timed wait (may time out)
  bool timedout;
  uint64_t spins;   // consecutive spin hooks without global state change
  uint64_t spin_mark;
  uint64_t idle_pts; // scheduling points since this thread changed state
  long prio;        // PCT priority
  int plain_ctr;
  int quiet;       // >0: harness bookkeeping, invisible to scheduler and HB
  VC clk, acqF, relF;
  bool has_relF;
  void* (*fn)(void*);
  void* arg;
  void* ret;
  int galois_tid;
};

Thr* thrs[MAXT];
int nthr = 0;
__thread Thr* me = nullptr;
bool enabled = false;
Thr* cur = nullptr;

gsched_config cfg;
uint64_t rng_s;
uint64_t steps = 0, switches = 0, preemptions = 0, state_changes = 0;
bool fair_tail = false;
int rr_left  = 0;
std::vector<uint64_t> pct_points;
size_t pct_next = 0;
long pct_low    = -1;

gsched_fail_fn fail_fn = nullptr;

inline uint64_t rnd() {
  // splitmix64
  uint64_t z = (rng_s += 0x9e3779b97f4a7c15ULL);
  z          = (z ^ (z >> 30)) * 0xbf58476d1ce4e5b9ULL;
  z          = (z ^ (z >> 27)) * 0x94d049bb133111ebULL;
  return z ^ (z >> 31);
}

void fail(const char* kind, const char* detail) {
  if (fail_fn)
    fail_fn(kind, detail);
  fprintf(stderr, "gsched: %s: %s\n", kind, detail);
  _exit(strcmp(kind, "budget") == 0 ? 4 : 3);
}

long futex(std::atomic<int>* a, int op, int v) {
  return syscall(SYS_futex, (int*)a, op, v, nullptr, nullptr, 0);
}

void switch_to(Thr* t, Thr* n) {
  ++switches;
  cur = n;
  n->go.store(1, std::memory_order_release);
  futex(&n->go, FUTEX_WAKE_PRIVATE, 1);
  while (!t->go.load(std::memory_order_acquire))
    futex(&t->go, FUTEX_WAIT_PRIVATE, 0);
  t->go.store(0, std::memory_order_relaxed);
}

void describe(char* buf, size_t n) {
  size_t o = 0;
  for (int i = 0; i < nthr && o + 40 < n; ++i) {
    Thr* t = thrs[i];
    o += snprintf(buf + o, n - o, "t%d(g%d):%s%s ", i, t->galois_tid,
                  t->st == RUN ? "run" : t->st == BLK ? "blk" : "fin",
                  t->st == RUN && t->spins ? "/spin" : "");
  }
}

[[noreturn]] void deadlock(const char* kind) {
  char buf[512];
  describe(buf, sizeof buf);
  fail(kind, buf);
  _exit(3);
}

// Pick a runnable thread other than `ex` (may be null); nullptr if none.
Thr* pick_other(Thr* ex) {
  Thr* cand[MAXT];
  int n = 0;
  for (int i = 0; i < nthr; ++i)
    if (thrs[i]->st == RUN && thrs[i] != ex)
      cand[n++] = thrs[i];
  if (!n)
    return nullptr;
  if (cfg.strategy == 1 && !fair_tail) {
    Thr* best = cand[0];
    for (int i = 1; i < n; ++i)
      if (cand[i]->prio > best->prio)
        best = cand[i];
    return best;
  }
  if (cfg.strategy == 2 || fair_tail) {
    // next in id order after ex (or after cur)
    int base = ex ? ex->id : (cur ? cur->id : 0);
    for (int k = 1; k <= nthr; ++k) {
      Thr* t = thrs[(base + k) % nthr];
      if (t->st == RUN && t != ex)
        return t;
    }
  }
  return cand[rnd() % n];
}

void check_spin_deadlock() {
  // every live thread is either blocked or has spun >= 2000 times with no
  // state change anywhere => the shared state is a fixpoint
  bool any = false;
  for (int i = 0; i < nthr; ++i) {
    Thr* t = thrs[i];
    if (t->st == RUN) {
      any = true;
      if (t->spin_mark != state_changes || t->spins < 2000)
        return;
    }
  }
  if (any)
    deadlock("spin-deadlock");
}

void budget_check() {
  if (cfg.hard_budget && steps > cfg.hard_budget) {
    char buf[512];
    describe(buf, sizeof buf);
    fail("budget", buf);
  }
  if (!fair_tail && cfg.step_budget && steps > cfg.step_budget) {
    fair_tail = true;
    rr_left   = 0;
  }
}

// the scheduling point
uint64_t live_fair_at = 0, live_fail_at = 0;

void sp(int kind) {
  Thr* t = me;
  if (!t || !enabled || t->quiet)
    return;
  ++steps;
  if (live_fail_at) {
    if (steps > live_fail_at) {
      char buf[512];
      describe(buf, sizeof buf);
      fail("liveness", buf);
    }
    if (!fair_tail && steps > live_fair_at) {
      fair_tail = true;
      rr_left   = 0;
    }
  }
  ++t->idle_pts;
  if ((steps & 1023) == 0)
    budget_check();
  Thr* n = t;
  if (kind == K_SPIN) {
    if (t->spin_mark != state_changes) {
      t->spin_mark = state_changes;
      t->spins     = 0;
    }
    if (++t->spins >= 2000 && (t->spins & 1023) == 0)
      check_spin_deadlock();
    if (cfg.strategy == 1 && !fair_tail) {
      // a spinning thread drops below everybody else
      t->prio = pct_low--;
    }
    Thr* o = pick_other(t);
    if (o)
      n = o;
  } else if (fair_tail || cfg.strategy == 2) {
    int q = fair_tail ? 3 : (cfg.param > 0 ? cfg.param : 1);
    if (++rr_left >= q) {
      rr_left = 0;
      Thr* o  = pick_other(t);
      if (o)
        n = o;
    }
  } else if (cfg.strategy == 1) {
    // PCT: highest priority runs; at change points the running thread drops
    if (pct_next < pct_points.size() && steps >= pct_points[pct_next]) {
      ++pct_next;
      t->prio = pct_low--;
    }
    if (t->idle_pts > 3000) { // livelock guard: demote threads that only poll
      t->prio     = pct_low--;
      t->idle_pts = 0;
    }
    Thr* o = pick_other(t);
    if (o && o->prio > t->prio)
      n = o;
  } else {
    int p = cfg.param > 0 ? cfg.param : 8;
    if (rnd() % p == 0) {
      Thr* o = pick_other(nullptr);
      if (o)
        n = o;
    }
  }
  if (n != t) {
    if (kind != K_SPIN)
      ++preemptions;
    switch_to(t, n);
  }
}

inline void changed(Thr* t) {
  ++state_changes;
  if (t)
    t->idle_pts = 0;
}

// block the calling thread until somebody makes it RUN again
void block(Thr* t, const void* key, bool timed = false) {
  t->st       = BLK;
  t->waitkey  = key;
  t->timed    = timed;
  t->timedout = false;
  ++steps;
  Thr* n = pick_other(t);
  if (!n) {
    // nobody can run: a timed waiter may time out, else deadlock
    for (int i = 0; i < nthr; ++i)
      if (thrs[i]->st == BLK && thrs[i]->timed) {
        n           = thrs[i];
        n->st       = RUN;
        n->timedout = true;
        break;
      }
    if (!n)
      deadlock("deadlock");
    if (n == t)
      return;
  }
  switch_to(t, n);
}

int wake(const void* key, bool all) {
  Thr* w[MAXT];
  int n = 0;
  for (int i = 0; i < nthr; ++i)
    if (thrs[i]->st == BLK && thrs[i]->waitkey == key)
      w[n++] = thrs[i];
  if (!n)
    return 0;
  if (all) {
    for (int i = 0; i < n; ++i)
      w[i]->st = RUN;
    return n;
  }
  w[rnd() % n]->st = RUN;
  return 1;
}

// ---------------------------------------------------------------- HB tracker
std::unordered_map<uintptr_t, VC>* Lmap; // release clocks per atomic address
std::unordered_map<const void*, VC>* Mclk; // per mutex
VC SCclk;

inline bool is_acq(int mo) { return mo == 1 || mo == 2 || mo == 4 || mo == 5; }
inline bool is_rel(int mo) { return mo == 3 || mo == 4 || mo == 5; }

void hb_load(Thr* t, const volatile void* a, int mo) {
  auto it = Lmap->find((uintptr_t)a);
  if (it == Lmap->end())
    return;
  if (is_acq(mo))
    t->clk.join(it->second);
  else
    t->acqF.join(it->second);
}
void hb_store(Thr* t, const volatile void* a, int mo) {
  VC& l = (*Lmap)[(uintptr_t)a];
  if (is_rel(mo)) {
    l = t->clk;
    t->clk.c[t->id]++;
  } else if (t->has_relF) {
    l = t->relF;
  } else {
    l.clear();
  }
}
void hb_rmw(Thr* t, const volatile void* a, int mo) {
  VC& l = (*Lmap)[(uintptr_t)a];
  if (is_acq(mo))
    t->clk.join(l);
  else
    t->acqF.join(l);
  if (is_rel(mo)) {
    l.join(t->clk);
    t->clk.c[t->id]++;
  } else if (t->has_relF) {
    l.join(t->relF);
  }
}
void hb_fence(Thr* t, int mo) {
  if (mo == 5) {
    t->clk.join(t->acqF);
    t->clk.join(SCclk);
    SCclk       = t->clk;
    t->relF     = t->clk;
    t->has_relF = true;
    t->clk.c[t->id]++;
    return;
  }
  if (is_acq(mo))
    t->clk.join(t->acqF);
  if (is_rel(mo)) {
    t->relF     = t->clk;
    t->has_relF = true;
    t->clk.c[t->id]++;
  }
}

// payload arena + shadow
constexpr size_t ARENA_BYTES = 1 << 20;
char* arena                  = nullptr;
size_t arena_used            = 0;
struct Shadow {
  uint32_t wtid_plus1;
  clk_t wclk;
  clk_t r[MAXT];
};
Shadow* shadow = nullptr;
bool hb_on     = true;

void arena_init() {
  if (arena)
    return;
  arena  = (char*)mmap(nullptr, ARENA_BYTES, PROT_READ | PROT_WRITE,
                       MAP_PRIVATE | MAP_ANONYMOUS, -1, 0);
  shadow = (Shadow*)mmap(nullptr, (ARENA_BYTES / 8) * sizeof(Shadow),
                         PROT_READ | PROT_WRITE,
                         MAP_PRIVATE | MAP_ANONYMOUS | MAP_NORESERVE, -1, 0);
}

void race(Thr* t, const void* addr, bool write, int other, const char* what) {
  char buf[256];
  snprintf(buf, sizeof buf,
           "%s of arena+%zu by t%d(g%d) not ordered after %s by t%d(g%d)",
           write ? "write" : "read", (size_t)((const char*)addr - arena), t->id,
           t->galois_tid, what, other, thrs[other]->galois_tid);
  fail("hb-race", buf);
}

void hb_access(Thr* t, const void* addr, size_t size, bool write) {
  size_t off = (const char*)addr - arena;
  size_t g0 = off / 8, g1 = (off + size - 1) / 8;
  for (size_t g = g0; g <= g1; ++g) {
    Shadow& s = shadow[g];
    if (s.wtid_plus1) {
      int w = s.wtid_plus1 - 1;
      if (w != t->id && s.wclk > t->clk.c[w])
        race(t, addr, write, w, "write");
    }
    if (write) {
      for (int u = 0; u < nthr; ++u)
        if (u != t->id && s.r[u] > t->clk.c[u])
          race(t, addr, write, u, "read");
      s.wtid_plus1 = t->id + 1;
      s.wclk       = t->clk.c[t->id];
      memset(s.r, 0, sizeof(s.r));
    } else {
      s.r[t->id] = t->clk.c[t->id];
    }
  }
}

inline void plain(const void* a, size_t size, bool write) {
  Thr* t = me;
  if (!t || !enabled || t->quiet)
    return;
  if ((size_t)((const char*)a - arena) < ARENA_BYTES && arena) {
    if (hb_on)
      hb_access(t, a, size, write);
    if (cfg.plain_gap) // arena cells are shared by construction: always a point
      sp(K_PLAIN);
    return;
  }
  if (cfg.plain_gap && --t->plain_ctr <= 0) {
    t->plain_ctr = 1 + (int)(rnd() % (2 * cfg.plain_gap));
    // skip the caller's own stack
    char here;
    ptrdiff_t d = (const char*)a - &here;
    if (d > -(1 << 16) && d < (1 << 20))
      return;
    sp(K_PLAIN);
  }
}

// ----------------------------------------------------------- real functions
template <typename F>
F real(const char* name) {
  void* p = dlsym(RTLD_NEXT, name);
  if (!p) {
    fprintf(stderr, "gsched: cannot resolve %s\n", name);
    abort();
  }
  return (F)p;
}
#define REAL(ret, name, ...)                                                   \
  static auto real_##name = real<ret (*)(__VA_ARGS__)>(#name)

struct MState {
  Thr* owner = nullptr;
  int count  = 0;
};
std::unordered_map<const void*, MState>* mtx;
struct BState {
  unsigned n = 0, arrived = 0;
  uint64_t gen = 0;
  VC clk;
};
std::unordered_map<const void*, BState>* bars;

void maps_init() {
  if (!Lmap) {
    Lmap = new std::unordered_map<uintptr_t, VC>();
    Mclk = new std::unordered_map<const void*, VC>();
    mtx  = new std::unordered_map<const void*, MState>();
    bars = new std::unordered_map<const void*, BState>();
  }
}

void m_lock_nosp(Thr* t, pthread_mutex_t* m) {
  MState* s = &(*mtx)[m];
  bool rec  = (m->__data.__kind & 3) == PTHREAD_MUTEX_RECURSIVE_NP;
  if (s->owner == t && rec) {
    ++s->count;
    return;
  }
  while (s->owner) {
    if (s->owner == t)
      deadlock("self-deadlock on mutex");
    block(t, m);
    s = &(*mtx)[m];
  }
  s->owner = t;
  s->count = 1;
  auto it  = Mclk->find(m);
  if (it != Mclk->end())
    t->clk.join(it->second);
  changed(t);
}
void m_unlock_nosp(Thr* t, pthread_mutex_t* m) {
  MState& s = (*mtx)[m];
  if (s.owner != t)
    return;
  if (--s.count > 0)
    return;
  s.owner    = nullptr;
  (*Mclk)[m] = t->clk;
  t->clk.c[t->id]++;
  wake(m, true);
  changed(t);
}

void* trampoline(void* p) {
  Thr* t = (Thr*)p;
  me     = t;
  while (!t->go.load(std::memory_order_acquire))
    futex(&t->go, FUTEX_WAIT_PRIVATE, 0);
  t->go.store(0, std::memory_order_relaxed);
  void* r = t->fn(t->arg);
  // thread exit
  t->ret = r;
  t->st  = FIN;
  wake(t, true);
  changed(t);
  me = nullptr;
  if (enabled) {
    Thr* n = pick_other(t);
    if (!n) {
      for (int i = 0; i < nthr; ++i)
        if (thrs[i]->st == BLK && thrs[i]->timed) {
          n           = thrs[i];
          n->st       = RUN;
          n->timedout = true;
          break;
        }
    }
    if (!n)
      deadlock("deadlock");
    ++switches;
    cur = n;
    n->go.store(1, std::memory_order_release);
    futex(&n->go, FUTEX_WAKE_PRIVATE, 1);
  }
  return r;
}

} // namespace

// ------------------------------------------------------------------ API
extern "C" {

void gsched_set_fail_handler(gsched_fail_fn fn) { fail_fn = fn; }

void gsched_start(const gsched_config* c) {
  maps_init();
  cfg   = *c;
  rng_s = c->seed * 0x2545F4914F6CDD1DULL + 0x1234567;
  Thr* t = new Thr();
  t->id  = nthr;
  t->pth = pthread_self();
  t->st  = RUN;
  t->galois_tid = 0;
  t->clk.clear();
  t->acqF.clear();
  t->relF.clear();
  t->clk.c[t->id] = 1;
  t->prio         = 1000 + (long)(rnd() % 1000);
  t->plain_ctr    = 1;
  thrs[nthr++]    = t;
  me              = t;
  cur             = t;
  SCclk.clear();
  if (cfg.strategy == 1) {
    uint64_t est = cfg.est_steps ? cfg.est_steps : 10000;
    for (int i = 0; i < cfg.param; ++i)
      pct_points.push_back(1 + rnd() % est);
    for (size_t i = 0; i < pct_points.size(); ++i)
      for (size_t j = i + 1; j < pct_points.size(); ++j)
        if (pct_points[j] < pct_points[i])
          std::swap(pct_points[i], pct_points[j]);
  }
  enabled = true;
}

void gsched_stop(void) { enabled = false; }
int gsched_enabled(void) { return enabled; }
void gsched_point(void) { sp(K_USER); }
int gsched_self(void) { return me ? me->id : -1; }
uint64_t gsched_now(void) { return steps; }
uint64_t gsched_switches(void) { return switches; }
uint64_t gsched_preemptions(void) { return preemptions; }
uint64_t gsched_state_changes(void) { return state_changes; }
void gsched_quiet(int delta) {
  if (me)
    me->quiet += delta;
}
void gsched_liveness_mark(uint64_t fair_after, uint64_t fail_after) {
  if (live_fail_at)
    return;
  live_fair_at = steps + fair_after;
  live_fail_at = steps + fair_after + fail_after;
}
void gsched_liveness_clear(void) { live_fair_at = live_fail_at = 0; }
void gsched_fair_from_now(void) {
  fair_tail = true;
  rr_left   = 0;
}
int gsched_in_fair_tail(void) { return fair_tail; }

void* gsched_arena_alloc(size_t bytes) {
  arena_init();
  bytes = (bytes + 7) & ~(size_t)7;
  if (arena_used + bytes > ARENA_BYTES) {
    fprintf(stderr, "gsched: arena exhausted\n");
    abort();
  }
  void* p = arena + arena_used;
  arena_used += bytes;
  return p;
}
void gsched_arena_reset(void) {
  if (!arena)
    return;
  memset(arena, 0, arena_used);
  memset(shadow, 0, (arena_used / 8) * sizeof(Shadow));
  arena_used = 0;
}
void gsched_arena_forget(void* p, size_t bytes) {
  size_t off = (char*)p - arena;
  memset(&shadow[off / 8], 0, ((bytes + 7) / 8) * sizeof(Shadow));
}
void gsched_hb_enable(int on) { hb_on = on; }

void galois_verif_spin(void) { sp(K_SPIN); }
void galois_verif_thread(unsigned tid, int) {
  if (me)
    me->galois_tid = (int)tid;
}

// ------------------------------------------------------------ pthread layer
int pthread_create(pthread_t* th, const pthread_attr_t* attr,
                   void* (*fn)(void*), void* arg) {
  REAL(int, pthread_create, pthread_t*, const pthread_attr_t*,
       void* (*)(void*), void*);
  Thr* c = me;
  if (!c || !enabled)
    return real_pthread_create(th, attr, fn, arg);
  if (nthr >= MAXT) {
    fprintf(stderr, "gsched: too many threads\n");
    abort();
  }
  Thr* t = new Thr();
  t->id  = nthr;
  t->st  = RUN;
  t->fn  = fn;
  t->arg = arg;
  t->go.store(0);
  t->galois_tid = -1;
  t->clk        = c->clk;
  t->acqF.clear();
  t->relF.clear();
  t->clk.c[t->id] = 1;
  c->clk.c[c->id]++;
  t->prio      = 1000 + (long)(rnd() % 1000);
  t->plain_ctr = 1;
  thrs[nthr++] = t;
  int r        = real_pthread_create(&t->pth, attr, trampoline, t);
  if (r) {
    --nthr;
    return r;
  }
  *th = t->pth;
  changed(c);
  sp(K_SYNC);
  return 0;
}

int pthread_join(pthread_t th, void** ret) {
  REAL(int, pthread_join, pthread_t, void**);
  Thr* c = me;
  if (!c || !enabled)
    return real_pthread_join(th, ret);
  Thr* t = nullptr;
  for (int i = 0; i < nthr; ++i)
    if (pthread_equal(thrs[i]->pth, th) && thrs[i] != c)
      t = thrs[i];
  if (!t)
    return real_pthread_join(th, ret);
  sp(K_SYNC);
  while (t->st != FIN)
    block(c, t);
  c->clk.join(t->clk);
  return real_pthread_join(th, ret);
}

int pthread_mutex_lock(pthread_mutex_t* m) {
  REAL(int, pthread_mutex_lock, pthread_mutex_t*);
  Thr* t = me;
  if (!t || !enabled)
    return real_pthread_mutex_lock(m);
  sp(K_SYNC);
  m_lock_nosp(t, m);
  return 0;
}
int pthread_mutex_trylock(pthread_mutex_t* m) {
  REAL(int, pthread_mutex_trylock, pthread_mutex_t*);
  Thr* t = me;
  if (!t || !enabled)
    return real_pthread_mutex_trylock(m);
  sp(K_SYNC);
  MState& s = (*mtx)[m];
  bool rec  = (m->__data.__kind & 3) == PTHREAD_MUTEX_RECURSIVE_NP;
  if (s.owner && !(s.owner == t && rec))
    return EBUSY;
  m_lock_nosp(t, m);
  return 0;
}
int pthread_mutex_unlock(pthread_mutex_t* m) {
  REAL(int, pthread_mutex_unlock, pthread_mutex_t*);
  Thr* t = me;
  if (!t || !enabled)
    return real_pthread_mutex_unlock(m);
  auto it = mtx->find(m);
  if (it == mtx->end() || it->second.owner != t)
    return real_pthread_mutex_unlock(m); // locked before we took control
  m_unlock_nosp(t, m);
  sp(K_SYNC);
  return 0;
}
int pthread_mutex_destroy(pthread_mutex_t* m) {
  REAL(int, pthread_mutex_destroy, pthread_mutex_t*);
  if (me && enabled && mtx) {
    mtx->erase(m);
    Mclk->erase(m);
  }
  return real_pthread_mutex_destroy(m);
}

static int cond_wait_impl(pthread_cond_t* cv, pthread_mutex_t* m, bool timed) {
  Thr* t = me;
  sp(K_SYNC);
  if (cfg.spurious && rnd() % 8 == 0) {
    m_unlock_nosp(t, m);
    sp(K_SYNC);
    m_lock_nosp(t, m);
    return 0;
  }
  m_unlock_nosp(t, m);
  block(t, cv, timed);
  bool to = t->timedout;
  t->timed = false;
  m_lock_nosp(t, m);
  return to ? ETIMEDOUT : 0;
}
int pthread_cond_wait(pthread_cond_t* cv, pthread_mutex_t* m) {
  REAL(int, pthread_cond_wait, pthread_cond_t*, pthread_mutex_t*);
  if (!me || !enabled)
    return real_pthread_cond_wait(cv, m);
  return cond_wait_impl(cv, m, false);
}
int pthread_cond_timedwait(pthread_cond_t* cv, pthread_mutex_t* m,
                           const struct timespec* ts) {
  REAL(int, pthread_cond_timedwait, pthread_cond_t*, pthread_mutex_t*,
       const struct timespec*);
  if (!me || !enabled)
    return real_pthread_cond_timedwait(cv, m, ts);
  return cond_wait_impl(cv, m, true);
}
int pthread_cond_clockwait(pthread_cond_t* cv, pthread_mutex_t* m, clockid_t c,
                           const struct timespec* ts) {
  REAL(int, pthread_cond_clockwait, pthread_cond_t*, pthread_mutex_t*,
       clockid_t, const struct timespec*);
  if (!me || !enabled)
    return real_pthread_cond_clockwait(cv, m, c, ts);
  return cond_wait_impl(cv, m, true);
}
int pthread_cond_signal(pthread_cond_t* cv) {
  REAL(int, pthread_cond_signal, pthread_cond_t*);
  Thr* t = me;
  if (!t || !enabled)
    return real_pthread_cond_signal(cv);
  sp(K_SYNC);
  if (wake(cv, false))
    changed(t);
  return 0;
}
int pthread_cond_broadcast(pthread_cond_t* cv) {
  REAL(int, pthread_cond_broadcast, pthread_cond_t*);
  Thr* t = me;
  if (!t || !enabled)
    return real_pthread_cond_broadcast(cv);
  sp(K_SYNC);
  if (wake(cv, true))
    changed(t);
  return 0;
}

int pthread_barrier_init(pthread_barrier_t* b, const pthread_barrierattr_t* a,
                         unsigned n) {
  REAL(int, pthread_barrier_init, pthread_barrier_t*,
       const pthread_barrierattr_t*, unsigned);
  if (me && enabled) {
    BState& s = (*bars)[b];
    s         = BState();
    s.n       = n;
    s.clk.clear();
  }
  return real_pthread_barrier_init(b, a, n);
}
int pthread_barrier_destroy(pthread_barrier_t* b) {
  REAL(int, pthread_barrier_destroy, pthread_barrier_t*);
  if (me && enabled && bars)
    bars->erase(b);
  return real_pthread_barrier_destroy(b);
}
int pthread_barrier_wait(pthread_barrier_t* b) {
  REAL(int, pthread_barrier_wait, pthread_barrier_t*);
  Thr* t = me;
  if (!t || !enabled)
    return real_pthread_barrier_wait(b);
  auto it = bars->find(b);
  if (it == bars->end())
    return real_pthread_barrier_wait(b);
  sp(K_SYNC);
  BState* s = &it->second;
  s->clk.join(t->clk);
  t->clk.c[t->id]++;
  changed(t);
  if (++s->arrived == s->n) {
    s->arrived = 0;
    ++s->gen;
    wake(b, true);
    t->clk.join(s->clk);
    sp(K_SYNC);
    return PTHREAD_BARRIER_SERIAL_THREAD;
  }
  uint64_t g = s->gen;
  while (true) {
    block(t, b);
    s = &(*bars)[b];
    if (s->gen != g)
      break;
  }
  t->clk.join(s->clk);
  return 0;
}

int sched_yield(void) {
  if (me && enabled) {
    sp(K_SPIN);
    return 0;
  }
  return (int)syscall(SYS_sched_yield);
}

// ---- function-local static guards (libstdc++ blocks on a real futex) -------
int __cxa_guard_acquire(long long* g) {
  char* b = (char*)g;
  if (__atomic_load_n(&b[0], __ATOMIC_ACQUIRE))
    return 0;
  Thr* t = me;
  if (t && enabled) {
    sp(K_SYNC);
    while (true) {
      if (b[0])
        return 0;
      if (!b[1]) {
        b[1] = 1;
        return 1;
      }
      block(t, g);
    }
  }
  while (true) {
    if (__atomic_load_n(&b[0], __ATOMIC_ACQUIRE))
      return 0;
    char z = 0;
    if (__atomic_compare_exchange_n(&b[1], &z, 1, false, __ATOMIC_ACQ_REL,
                                    __ATOMIC_ACQUIRE))
      return 1;
    syscall(SYS_sched_yield);
  }
}
void __cxa_guard_release(long long* g) {
  char* b = (char*)g;
  __atomic_store_n(&b[0], 1, __ATOMIC_RELEASE);
  __atomic_store_n(&b[1], 0, __ATOMIC_RELEASE);
  if (me && enabled) {
    // static initialisation is a synchronisation edge; model it as SC fence
    hb_fence(me, 5);
    wake(g, true);
  }
}
void __cxa_guard_abort(long long* g) {
  char* b = (char*)g;
  __atomic_store_n(&b[1], 0, __ATOMIC_RELEASE);
  if (me && enabled)
    wake(g, true);
}

// ------------------------------------------------------------- TSan ABI
void __tsan_init(void) {}
void __tsan_func_entry(void*) {}
void __tsan_func_exit(void) {}
void __tsan_ignore_thread_begin(void) {}
void __tsan_ignore_thread_end(void) {}

#define PLAIN(N)                                                               \
  void __tsan_read##N(void* a) { plain(a, N, false); }                         \
  void __tsan_write##N(void* a) { plain(a, N, true); }                         \
  void __tsan_unaligned_read##N(void* a) { plain(a, N, false); }               \
  void __tsan_unaligned_write##N(void* a) { plain(a, N, true); }               \
  void __tsan_volatile_read##N(void* a) {                                      \
    sp(K_VOLATILE);                                                            \
  }                                                                            \
  void __tsan_volatile_write##N(void* a) {                                     \
    sp(K_VOLATILE);                                                            \
    changed(me);                                                               \
  }                                                                            \
  void __tsan_unaligned_volatile_read##N(void* a) { sp(K_VOLATILE); }          \
  void __tsan_unaligned_volatile_write##N(void* a) {                           \
    sp(K_VOLATILE);                                                            \
    changed(me);                                                               \
  }
PLAIN(1)
PLAIN(2)
PLAIN(4)
PLAIN(8)
PLAIN(16)
void __tsan_vptr_update(void** p, void*) { plain(p, 8, true); }
void __tsan_vptr_read(void** p) { plain(p, 8, false); }
void __tsan_read_range(void* a, unsigned long n) {
  if (n)
    plain(a, n, false);
}
void __tsan_write_range(void* a, unsigned long n) {
  if (n)
    plain(a, n, true);
}

void __tsan_atomic_thread_fence(int mo) {
  sp(K_FENCE);
  if (me && enabled)
    hb_fence(me, mo);
}
void __tsan_atomic_signal_fence(int) {}

#define ATOMICS(N, T)                                                          \
  T __tsan_atomic##N##_load(const volatile T* a, int mo) {                     \
    sp(K_ATOMIC);                                                              \
    T v = __atomic_load_n(a, __ATOMIC_SEQ_CST);                                \
    if (me && enabled && !me->quiet)                                          \
      hb_load(me, a, mo);                                                      \
    return v;                                                                  \
  }                                                                            \
  void __tsan_atomic##N##_store(volatile T* a, T v, int mo) {                  \
    sp(K_ATOMIC);                                                              \
    if (me && enabled && !me->quiet) {                                        \
      hb_store(me, a, mo);                                                     \
      changed(me);                                                             \
    }                                                                          \
    __atomic_store_n(a, v, __ATOMIC_SEQ_CST);                                  \
    /* a second point AFTER a releasing store (an unlock): plain accesses that \
       follow it are otherwise glued to the store, and "shared data used after \
       the unlock" could never be overtaken by another thread */               \
    if (is_rel(mo))                                                            \
      sp(K_ATOMIC);                                                            \
  }                                                                            \
  T __tsan_atomic##N##_exchange(volatile T* a, T v, int mo) {                  \
    sp(K_ATOMIC);                                                              \
    if (me && enabled && !me->quiet) {                                        \
      hb_rmw(me, a, mo);                                                       \
      changed(me);                                                             \
    }                                                                          \
    return __atomic_exchange_n(a, v, __ATOMIC_SEQ_CST);                        \
  }                                                                            \
  int __tsan_atomic##N##_compare_exchange_strong(volatile T* a, T* c, T v,     \
                                                 int mo, int fmo) {            \
    sp(K_ATOMIC);                                                              \
    bool ok = __atomic_compare_exchange_n(a, c, v, false, __ATOMIC_SEQ_CST,    \
                                          __ATOMIC_SEQ_CST);                   \
    if (me && enabled && !me->quiet) {                                        \
      if (ok) {                                                                \
        hb_rmw(me, a, mo);                                                     \
        changed(me);                                                           \
      } else                                                                   \
        hb_load(me, a, fmo);                                                   \
    }                                                                          \
    return ok;                                                                 \
  }                                                                            \
  int __tsan_atomic##N##_compare_exchange_weak(volatile T* a, T* c, T v,       \
                                               int mo, int fmo) {              \
    return __tsan_atomic##N##_compare_exchange_strong(a, c, v, mo, fmo);       \
  }                                                                            \
  T __tsan_atomic##N##_compare_exchange_val(volatile T* a, T c, T v, int mo,   \
                                            int fmo) {                         \
    __tsan_atomic##N##_compare_exchange_strong(a, &c, v, mo, fmo);             \
    return c;                                                                  \
  }
#define RMW(N, T, name, builtin)                                               \
  T __tsan_atomic##N##_##name(volatile T* a, T v, int mo) {                    \
    sp(K_ATOMIC);                                                              \
    if (me && enabled && !me->quiet) {                                        \
      hb_rmw(me, a, mo);                                                       \
      changed(me);                                                             \
    }                                                                          \
    return builtin(a, v, __ATOMIC_SEQ_CST);                                    \
  }
#define ALL(N, T)                                                              \
  ATOMICS(N, T)                                                                \
  RMW(N, T, fetch_add, __atomic_fetch_add)                                     \
  RMW(N, T, fetch_sub, __atomic_fetch_sub)                                     \
  RMW(N, T, fetch_and, __atomic_fetch_and)                                     \
  RMW(N, T, fetch_or, __atomic_fetch_or)                                       \
  RMW(N, T, fetch_xor, __atomic_fetch_xor)                                     \
  RMW(N, T, fetch_nand, __atomic_fetch_nand)
ALL(8, uint8_t)
ALL(16, uint16_t)
ALL(32, uint32_t)
ALL(64, uint64_t)

} // extern "C"
