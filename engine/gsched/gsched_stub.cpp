// No-op implementation of the gsched API for harnesses that are built
// natively (real threads / in-process rapidcheck): nothing is scheduled.
#include "gsched.h"
#include <cstdlib>
#include <cstring>
extern "C" {
void gsched_start(const gsched_config*) {}
void gsched_stop(void) {}
int gsched_enabled(void) { return 0; }
void gsched_point(void) {}
int gsched_self(void) { return -1; }
uint64_t gsched_now(void) { return 0; }
uint64_t gsched_switches(void) { return 0; }
uint64_t gsched_state_changes(void) { return 0; }
uint64_t gsched_preemptions(void) { return 0; }
void gsched_fair_from_now(void) {}
void gsched_quiet(int) {}
void gsched_liveness_mark(uint64_t, uint64_t) {}
void gsched_liveness_clear(void) {}
int gsched_in_fair_tail(void) { return 0; }
void* gsched_arena_alloc(size_t bytes) { return calloc(1, bytes ? bytes : 1); }
void gsched_arena_reset(void) {}
void gsched_arena_forget(void*, size_t) {}
void gsched_hb_enable(int) {}
void gsched_set_fail_handler(gsched_fail_fn) {}
}
