// gsched -- schedule-owning runtime for TSan-instrumented code (engine E1).
// Harness-facing API.  See DESIGN.md section 3.1.
#pragma once
#include <cstddef>
#include <cstdint>

extern "C" {

struct gsched_config {
  uint64_t seed;         // schedule seed
  int strategy;          // 0 = random walk, 1 = PCT, 2 = round robin
  int param;             // rw: switch 1 in `param` points; pct: depth d; rr: quantum
  int plain_gap;         // 0 = never preempt at plain accesses, else mean gap
  int spurious;          // allow spurious condvar wake-ups
  uint64_t est_steps;    // pct: estimated run length for change points
  uint64_t step_budget;  // after this many steps the fair tail (rr) starts
  uint64_t hard_budget;  // after this many steps: inconclusive (callback)
};

// Registers the calling thread as thread 0 and takes over scheduling.
void gsched_start(const gsched_config* cfg);
// Releases control (all other registered threads should be finished/blocked).
void gsched_stop(void);
int gsched_enabled(void);

// explicit scheduling point placed by harnesses
void gsched_point(void);
// index (0..) of the calling thread in the engine, -1 if unregistered
int gsched_self(void);
// logical clock: number of scheduling steps so far
uint64_t gsched_now(void);
uint64_t gsched_switches(void);
uint64_t gsched_state_changes(void);
// Number of preemptions (switches away from a thread that could continue)
uint64_t gsched_preemptions(void);
// harness bookkeeping bracket: while >0 the calling thread's accesses are
// invisible to the scheduler (no scheduling points) and to the HB tracker
void gsched_quiet(int delta);
// bounded liveness: after `fair_after` more steps the schedule becomes round
// robin; if the run is still going `fail_after` steps later the fail handler is
// called with kind "liveness".  Cleared by gsched_liveness_clear().
void gsched_liveness_mark(uint64_t fair_after, uint64_t fail_after);
void gsched_liveness_clear(void);
// force the fair tail from now on
void gsched_fair_from_now(void);
int gsched_in_fair_tail(void);

// Payload arena: memory whose plain accesses are checked for happens-before
// races by the vector-clock tracker.  Zero-initialised.  Not freed.
void* gsched_arena_alloc(size_t bytes);
void gsched_arena_reset(void);
// Forget access history of a range (e.g. when harness reuses cells after a
// point that is known to be ordered, like a join of all threads).
void gsched_arena_forget(void* p, size_t bytes);
// 1 while HB race checking is on (default on once arena is used)
void gsched_hb_enable(int on);

// Failure callbacks.  Default handlers write a line to stderr and _exit.
// kind: "deadlock", "spin-deadlock", "hb-race", "budget" (inconclusive)
typedef void (*gsched_fail_fn)(const char* kind, const char* detail);
void gsched_set_fail_handler(gsched_fail_fn fn);

// weak hooks called by Galois (GALOIS_VERIF)
void galois_verif_spin(void);
void galois_verif_thread(unsigned tid, int begin);
}
