// C13 -- work-division routines return disjoint, ordered pieces that exactly
// cover the input.  In-process rapidcheck (E3).  DESIGN.md 4/C13.
#include "verif_e1.h"
#include "grfile.h"

#include "galois/Galois.h"
#include "galois/gstl.h"
#include "galois/graphs/GraphHelpers.h"
#include "galois/graphs/FileGraph.h"
#include "galois/graphs/OfflineGraph.h"
#include "galois/graphs/LC_CSR_Graph.h"
#include "galois/graphs/ReadGraph.h"
#include "galois/runtime/Range.h"

#include <list>

using namespace verif;

namespace verif {
const char* const HARNESS = "c13";
enum { F_FN = 0, F_TYPE, F_A, F_B, F_C, F_D, F_E, F_G, F_COUNT };
const std::vector<const char*> FIELDS = {"fn", "type", "a", "b", "c", "d", "e", "g"};
// tail x0.. : degree sequence / scale factors (fn dependent)

static const char* FN_NAMES[] = {"block_range_int", "block_range_iter", "divideNodesBinarySearch",
                                 "unitRangesPrefixSum", "unitRangesPrefixSumSub", "filegraph_divide",
                                 "csr_local_ranges"};
constexpr int NFN = 7;

static rc::Gen<int64_t> boundary64(int64_t maxv) {
  using namespace rc;
  return gen::oneOf(gen::map(gen::inRange<int64_t>(0, 65), [maxv](int64_t v) { return std::max<int64_t>(0, std::min(v, maxv)); }), gen::map(gen::inRange<int64_t>(0, 40), [maxv](int64_t k) { return std::max<int64_t>(0, maxv - k); }),
                    gen::map(gen::pair(gen::inRange(1, 63), gen::inRange<int64_t>(-2, 3)),
                             [maxv](std::pair<int, int64_t> p) {
                               int64_t v = (int64_t)((1ULL << p.first) + p.second);
                               return std::max<int64_t>(0, std::min(v, maxv));
                             }),
                    uni<int64_t>(0, std::max<int64_t>(1, maxv)));
}

Case generate() {
  using namespace rc;
  Case c;
  c.f.assign(F_COUNT, 0);
  int fn  = *gen::weightedElement<int>({{12, 0}, {4, 1}, {16, 2}, {8, 3}, {12, 4}, {4, 5}, {1, 6}});
  c[F_FN] = fn;
  if (fn == 0) {
    int ty     = *uni(0, 4); // u32, u64, size_t, long
    c[F_TYPE]  = ty;
    int64_t mx = ty == 0 ? 0xffffffffLL : INT64_MAX; // u64/size_t: stay below 2^63 (values kept in int64 fields)
    int64_t num = *gen::oneOf(gen::inRange<int64_t>(1, 65), gen::inRange<int64_t>(1, 1 << 16));
    // dist + num and begin + dist must be representable (the code's own overflow threshold)
    int64_t dist  = *boundary64(mx - num - 1);
    int64_t begin = *boundary64(mx - dist - num);
    if (excluded("none")) {
    }
    c[F_A] = begin;
    c[F_B] = dist;
    c[F_C] = num;
    return c;
  }
  if (fn == 1) {
    c[F_TYPE] = *uni(0, 2); // vector, list
    c[F_B]    = *gen::inRange<int64_t>(0, 200);
    c[F_C]    = *gen::inRange<int64_t>(1, 65);
    return c;
  }
  // graph-like: degree sequence in the tail
  int n = *gen::weightedElement<int>({{1, 0}, {1, 1}, {8, -1}});
  if (n < 0)
    n = *gen::inRange(2, 60);
  int shape = *uni(0, 4); // 0 random small, 1 with zeros, 2 one hub, 3 all zero
  std::vector<int64_t> deg(n);
  for (int i = 0; i < n; ++i) {
    switch (shape) {
    case 0:
      deg[i] = *gen::inRange<int64_t>(0, 9);
      break;
    case 1:
      deg[i] = *gen::weightedElement<int64_t>({{3, 0}, {1, 1}, {1, 5}});
      break;
    case 2:
      deg[i] = 0;
      break;
    default:
      deg[i] = 0;
    }
  }
  if (shape == 2 && n > 0)
    deg[*uni(0, n)] = *gen::inRange<int64_t>(1, 300);
  c[F_TYPE] = shape;
  c[F_A]    = n;
  c[F_B]    = *gen::inRange<int64_t>(1, 41); // parts / units
  if (fn == 2) {
    int wsel = *uni(0, 6);
    static const int NW[] = {0, 1, 1, 2, 8, 7};
    static const int EW[] = {1, 0, 1, 3, 12, 0};
    c[F_C]                = NW[wsel];
    c[F_D]                = EW[wsel];
    // sub-range [e, g) of the nodes (offsets); whole graph most of the time
    if (n > 0 && *gen::weightedElement<int>({{2, 0}, {1, 1}})) {
      int bn = *uni(0, n);
      int en = *uni(bn + 1, n + 1);
      c[F_E] = bn;
      c[F_G] = en;
    } else {
      c[F_E] = 0;
      c[F_G] = n;
    }
    // scale factors (optional): tail after the degrees, one per part
    bool sf = *gen::weightedElement<int>({{2, 0}, {1, 1}});
    for (auto d : deg)
      c.f.push_back(d);
    if (sf) {
      bool any = false;
      std::vector<int64_t> s;
      for (int i = 0; i < c[F_B]; ++i) {
        int64_t v = *gen::weightedElement<int64_t>({{1, 0}, {3, 1}, {1, 2}, {1, 3}});
        any |= v != 0;
        s.push_back(v);
      }
      if (!any)
        s[0] = 1; // all-zero scale factors divide by zero: outside the domain
      for (auto v : s)
        c.f.push_back(v);
    }
    return c;
  }
  if (fn == 3 || fn == 4) {
    c[F_C] = *gen::weightedElement<int64_t>({{2, 0}, {1, 1}, {1, 4}}); // nodeAlpha
    if (fn == 4) {
      int bn = n ? *uni(0, n + 1) : 0;
      int en = *uni(bn, n + 1);
      // known finding F3: more units than nodes with beginNode > 0
      if (excluded("C13/unitRangeCornerCase/begin>0") && bn > 0 && c[F_B] > en - bn && en != bn && c[F_B] != 1) {
        count_excluded();
        bn = 0;
      }
      c[F_E] = bn;
      c[F_G] = en;
    }
  }
  if (fn == 5) {
    c[F_C] = *uni(0, 4); // edge data width selector 0,4,8,12
    c[F_D] = *uni(0, 3); // 0 FileGraph::divideByNode, 1 FileGraph::divideByEdge, 2 OfflineGraph::divideByNode
  }
  if (fn == 6)
    c[F_B] = *uni(1, 9); // threads
  for (auto d : deg)
    c.f.push_back(d);
  return c;
}

// exhaustive small domain: every (type, size <= 48, parts <= 24) for the
// integral form (all ids are checked inside one case) and the iterator forms
void enumerate_cases(std::vector<Case>& out) {
  for (int ty = 0; ty < 4; ++ty)
    for (int64_t begin : {0, 5})
      for (int64_t size = 0; size <= 48; ++size)
        for (int64_t parts = 1; parts <= 24; ++parts) {
          Case c;
          c.f.assign(F_COUNT, 0);
          c[F_FN]   = 0;
          c[F_TYPE] = ty;
          c[F_A]    = begin;
          c[F_B]    = size;
          c[F_C]    = parts;
          out.push_back(c);
        }
  for (int ty = 0; ty < 2; ++ty)
    for (int64_t size = 0; size <= 48; ++size)
      for (int64_t parts = 1; parts <= 24; ++parts) {
        Case c;
        c.f.assign(F_COUNT, 0);
        c[F_FN]   = 1;
        c[F_TYPE] = ty;
        c[F_B]    = size;
        c[F_C]    = parts;
        out.push_back(c);
      }
}

std::string finding_key(const Case& c, const std::string& failkey) {
  int fn = (int)c[F_FN];
  if (fn == 4 && c[F_E] > 0 && c[F_B] > c[F_G] - c[F_E] && c[F_G] != c[F_E] && c[F_B] != 1)
    return "C13/unitRangeCornerCase/begin>0";
  return std::string("C13/") + FN_NAMES[fn] + "/" + failkey;
}

template <typename T>
static void check_block_range_int(int64_t begin, int64_t dist, int64_t num) {
  T b = (T)begin, e = (T)(begin + dist);
  T cur = b;
  for (int64_t id = 0; id < num; ++id) {
    auto p = galois::block_range(b, e, (unsigned)id, (unsigned)num);
    VCHECK(p.first == cur, "gap-or-overlap", "block_range(%lld,%lld,id=%lld,num=%lld): piece begins at %lld, previous ended at %lld",
           (long long)begin, (long long)(begin + dist), (long long)id, (long long)num, (long long)p.first, (long long)cur);
    VCHECK(p.first <= p.second && p.second <= e, "bad-piece", "block_range piece [%lld,%lld) outside [%lld,%lld)",
           (long long)p.first, (long long)p.second, (long long)b, (long long)e);
    cur = p.second;
    if (num > 4096 && id > 64 && id < num - 64) { // sample the middle of very large part counts
      id += (num - 128) / 61;
      auto q = galois::block_range(b, e, (unsigned)id, (unsigned)num);
      cur    = q.first; // re-anchor (continuity only checked on adjacent ids below)
      auto r = galois::block_range(b, e, (unsigned)id - 1, (unsigned)num);
      VCHECK(r.second == q.first, "gap-or-overlap", "block_range ids %lld/%lld of %lld not adjacent", (long long)id - 1,
             (long long)id, (long long)num);
      cur = q.second;
    }
  }
  VCHECK(cur == e, "not-covered", "block_range(%lld,+%lld,num=%lld): pieces end at %lld, input ends at %lld", (long long)begin,
         (long long)dist, (long long)num, (long long)cur, (long long)e);
}

template <typename C>
static void check_block_range_iter(size_t n, unsigned num) {
  C cont;
  for (size_t i = 0; i < n; ++i)
    cont.push_back((int)i);
  size_t cur = 0;
  for (unsigned id = 0; id < num; ++id) {
    auto p   = galois::block_range(cont.begin(), cont.end(), id, num);
    size_t a = std::distance(cont.begin(), p.first), b = std::distance(cont.begin(), p.second);
    VCHECK(a == cur && a <= b && b <= n, "gap-or-overlap", "iterator block_range(n=%zu,id=%u,num=%u) = [%zu,%zu), expected to start at %zu",
           n, id, num, a, b, cur);
    cur = b;
  }
  VCHECK(cur == n, "not-covered", "iterator block_range(n=%zu,num=%u) covers only %zu", n, num, cur);
}

static std::vector<uint64_t> prefix_of(const Case& c, size_t n) {
  std::vector<uint64_t> ps(n);
  uint64_t acc = 0;
  for (size_t i = 0; i < n; ++i) {
    acc += (uint64_t)c.f[F_COUNT + i];
    ps[i] = acc;
  }
  return ps;
}

static gr::Graph graph_of(const Case& c, size_t n, uint64_t width) {
  gr::Graph g;
  g.numNodes   = n;
  g.sizeofEdge = width;
  g.adj.resize(n);
  for (size_t i = 0; i < n; ++i)
    for (int64_t k = 0; k < c.f[F_COUNT + i]; ++k)
      g.adj[i].push_back({prf(7, i, k) % n, prf(9, i, k)});
  return g;
}

static std::string tmp_path(const char* suffix) {
  const char* d = getenv("VERIF_TMP");
  return std::string(d ? d : "/tmp") + "/c13-" + std::to_string(getpid()) + suffix;
}

void run(const Case& c) {
  int fn = (int)c[F_FN];
  label("fn", FN_NAMES[fn]);
  if (fn == 0) {
    int64_t begin = c[F_A], dist = c[F_B], num = c[F_C];
    switch (c[F_TYPE]) {
    case 0:
      check_block_range_int<uint32_t>(begin, dist, num);
      break;
    case 1:
      check_block_range_int<uint64_t>(begin, dist, num);
      break;
    case 2:
      check_block_range_int<size_t>(begin, dist, num);
      break;
    default:
      check_block_range_int<long>(begin, dist, num);
    }
    label("bigsize", dist > (1LL << 31));
    nontrivial(num >= 2 && (dist % num != 0 || num > dist));
    vok();
  }
  if (fn == 1) {
    if (c[F_TYPE] == 0)
      check_block_range_iter<std::vector<int>>((size_t)c[F_B], (unsigned)c[F_C]);
    else
      check_block_range_iter<std::list<int>>((size_t)c[F_B], (unsigned)c[F_C]);
    nontrivial(c[F_C] >= 2 && (c[F_B] % c[F_C] != 0 || c[F_C] > c[F_B]));
    vok();
  }
  size_t n    = (size_t)c[F_A];
  auto ps     = prefix_of(c, n);
  bool haszero = false;
  for (size_t i = 0; i < n; ++i)
    haszero |= c.f[F_COUNT + i] == 0;
  label("shape", c[F_TYPE]);
  if (fn == 2) {
    size_t total = (size_t)c[F_B];
    size_t nw = (size_t)c[F_C], ew = (size_t)c[F_D];
    uint64_t bn = (uint64_t)c[F_E], en = (uint64_t)c[F_G];
    std::vector<unsigned> sf;
    for (size_t i = F_COUNT + n; i < c.f.size(); ++i)
      sf.push_back((unsigned)c.f[i]);
    uint64_t numNodes = en - bn;
    uint64_t eo       = bn ? ps[bn - 1] : 0;
    uint64_t numEdges = numNodes ? ps[en - 1] - eo : 0;
    uint64_t cur      = 0;
    for (size_t id = 0; id < total; ++id) {
      auto r = galois::graphs::divideNodesBinarySearch<std::vector<uint64_t>, uint64_t>(numNodes, numEdges, nw, ew, id, total, ps, sf,
                                                                                        eo, bn);
      uint64_t a = *r.first.first, b = *r.first.second;
      VCHECK(a <= b && b <= numNodes, "bad-piece", "division %zu/%zu = [%llu,%llu) of %llu nodes", id, total,
             (unsigned long long)a, (unsigned long long)b, (unsigned long long)numNodes);
      if (a != b || numNodes == 0) {
        VCHECK(a == cur || numNodes == 0, "gap-or-overlap", "division %zu/%zu begins at %llu, previous non-empty piece ended at %llu",
               id, total, (unsigned long long)a, (unsigned long long)cur);
        cur = b;
      }
      uint64_t ea = *r.second.first, eb = *r.second.second;
      if (a == b) {
        VCHECK(ea == eb, "edge-image", "empty node piece %zu has edge range [%llu,%llu)", id, (unsigned long long)ea,
               (unsigned long long)eb);
      } else {
        uint64_t xa = (a + bn) ? ps[a - 1 + bn] - eo : 0;
        uint64_t xb = ps[b - 1 + bn] - eo;
        VCHECK(ea == xa && eb == xb, "edge-image", "piece %zu nodes [%llu,%llu): edges [%llu,%llu), prefix sums say [%llu,%llu)", id,
               (unsigned long long)a, (unsigned long long)b, (unsigned long long)ea, (unsigned long long)eb,
               (unsigned long long)xa, (unsigned long long)xb);
      }
    }
    VCHECK(cur == numNodes, "not-covered", "divisions cover [0,%llu) of %llu nodes", (unsigned long long)cur,
           (unsigned long long)numNodes);
    label("scaled", !sf.empty());
    label("subrange", bn != 0 || en != n);
    nontrivial(total >= 2 && (haszero || nw == 0 || ew == 0 || total > numNodes || bn != 0 || !sf.empty()));
    vok();
  }
  if (fn == 3 || fn == 4) {
    uint32_t units = (uint32_t)c[F_B];
    uint32_t alpha = (uint32_t)c[F_C];
    uint32_t bn = 0, en = (uint32_t)n;
    std::vector<uint32_t> r;
    if (fn == 3)
      r = galois::graphs::determineUnitRangesFromPrefixSum(units, ps, alpha);
    else {
      bn = (uint32_t)c[F_E];
      en = (uint32_t)c[F_G];
      r  = galois::graphs::determineUnitRangesFromPrefixSum(units, ps, bn, en, alpha);
    }
    VCHECK(r.size() == units + 1, "shape", "returned %zu boundaries for %u units", r.size(), units);
    VCHECK(r[0] == bn, "not-covered", "first boundary %u, range begins at %u", r[0], bn);
    for (uint32_t i = 0; i < units; ++i)
      VCHECK(r[i] <= r[i + 1] && r[i + 1] <= en, "gap-or-overlap", "unit %u = [%u,%u) in range [%u,%u) with %u units", i, r[i],
             r[i + 1], bn, en, units);
    VCHECK(r[units] == en, "not-covered", "last boundary %u, range [%u,%u) with %u units", r[units], bn, en, units);
    label("more_units_than_nodes", units > en - bn);
    nontrivial(units >= 2 && (haszero || units > en - bn || bn != 0));
    vok();
  }
  if (fn == 5) {
    static const uint64_t W[] = {0, 4, 8, 12};
    gr::Graph g               = graph_of(c, n, W[c[F_C]]);
    std::string path          = tmp_path(".gr");
    gr::write_file(path, gr::encode(g));
    size_t total = (size_t)c[F_B];
    uint64_t cur = 0, ecur = 0, ne = g.numEdges();
    int which = (int)c[F_D];
    galois::graphs::FileGraph fg;
    std::unique_ptr<galois::graphs::OfflineGraph> og;
    if (which == 2)
      og.reset(new galois::graphs::OfflineGraph(path));
    else
      fg.fromFile(path);
    for (size_t id = 0; id < total; ++id) {
      uint64_t a, b, ea, eb;
      if (which == 0) {
        auto r = fg.divideByNode(1, 1, id, total);
        a = *r.first.first, b = *r.first.second, ea = *r.second.first, eb = *r.second.second;
      } else if (which == 1) {
        auto r = fg.divideByEdge(0, 1, id, total);
        a = *r.first.first, b = *r.first.second, ea = *r.second.first, eb = *r.second.second;
      } else {
        auto r = og->divideByNode(1, 1, id, total);
        a = *r.first.first, b = *r.first.second, ea = *r.second.first, eb = *r.second.second;
      }
      VCHECK(a <= b && b <= n, "bad-piece", "file division %zu/%zu = [%llu,%llu)", id, total, (unsigned long long)a,
             (unsigned long long)b);
      if (which == 1) {
        // divideByEdge promises contiguous edge blocks; node ranges follow
        VCHECK(ea == ecur && ea <= eb && eb <= ne, "gap-or-overlap", "edge block %zu/%zu = [%llu,%llu), previous ended at %llu", id,
               total, (unsigned long long)ea, (unsigned long long)eb, (unsigned long long)ecur);
        ecur = eb;
      } else if (a != b) {
        VCHECK(a == cur, "gap-or-overlap", "file division %zu/%zu begins at %llu, previous ended at %llu", id, total,
               (unsigned long long)a, (unsigned long long)cur);
        cur = b;
        uint64_t xa = a ? ps[a - 1] : 0, xb = ps[b - 1];
        VCHECK(ea == xa && eb == xb, "edge-image", "file piece %zu: edges [%llu,%llu) vs prefix [%llu,%llu)", id,
               (unsigned long long)ea, (unsigned long long)eb, (unsigned long long)xa, (unsigned long long)xb);
      }
    }
    if (which == 1)
      VCHECK(ecur == ne, "not-covered", "edge blocks cover %llu of %llu edges", (unsigned long long)ecur, (unsigned long long)ne);
    else
      VCHECK(cur == n, "not-covered", "file divisions cover %llu of %zu nodes", (unsigned long long)cur, n);
    og.reset();
    unlink(path.c_str());
    label("which", which);
    nontrivial(total >= 2 && (haszero || total > n));
    vok();
  }
  if (fn == 6) {
    // LC_CSR_Graph per-thread ranges and SpecificRange clipping
    typedef galois::graphs::LC_CSR_Graph<int, void> G;
    gr::Graph g      = graph_of(c, n, 0);
    std::string path = tmp_path(".gr");
    gr::write_file(path, gr::encode(g));
    unsigned t = galois::setActiveThreads((unsigned)c[F_B]);
    {
      G graph;
      galois::graphs::readGraph(graph, path);
      std::vector<std::pair<uint64_t, uint64_t>> locals(t);
      galois::on_each([&](unsigned tid, unsigned) {
        locals[tid] = {(uint64_t)*graph.local_begin(), (uint64_t)*graph.local_end()};
      });
      uint64_t cur = 0;
      for (unsigned i = 0; i < t; ++i) {
        VCHECK(locals[i].first <= locals[i].second && locals[i].second <= n, "bad-piece", "thread %u local range [%llu,%llu)", i,
               (unsigned long long)locals[i].first, (unsigned long long)locals[i].second);
        if (locals[i].first != locals[i].second) {
          VCHECK(locals[i].first == cur, "gap-or-overlap", "thread %u local range starts at %llu, previous ended at %llu", i,
                 (unsigned long long)locals[i].first, (unsigned long long)cur);
          cur = locals[i].second;
        }
      }
      VCHECK(cur == n, "not-covered", "local ranges of %u threads cover %llu of %zu nodes", t, (unsigned long long)cur, n);
      // clipped per-thread ranges for every sub-range via SpecificRange
      auto tr = galois::graphs::determineUnitRangesFromGraph(graph, t);
      for (uint32_t gb = 0; gb <= n; gb += (n > 8 ? 1 + n / 4 : 1))
        for (uint32_t ge = gb; ge <= n; ge += (n > 8 ? 1 + n / 5 : 1)) {
          typedef boost::counting_iterator<uint32_t> It;
          galois::runtime::SpecificRange<It> sr(It(gb), It(ge), tr.data());
          std::vector<std::pair<uint32_t, uint32_t>> pieces(t);
          galois::on_each([&](unsigned tid, unsigned) {
            auto p      = sr.block_pair();
            pieces[tid] = {*p.first, *p.second};
          });
          uint64_t covered = 0;
          for (unsigned i = 0; i < t; ++i) {
            uint32_t lo = std::max(tr[i], gb), hi = std::min(tr[i + 1], ge);
            if (lo >= hi) {
              VCHECK(pieces[i].first == pieces[i].second, "clip", "thread %u owns nothing of [%u,%u) but got [%u,%u)", i, gb, ge,
                     pieces[i].first, pieces[i].second);
            } else {
              VCHECK(pieces[i].first == lo && pieces[i].second == hi, "clip", "thread %u clipped to [%u,%u), expected [%u,%u) for sub-range [%u,%u)",
                     i, pieces[i].first, pieces[i].second, lo, hi, gb, ge);
              covered += hi - lo;
            }
          }
          VCHECK(covered == ge - gb, "not-covered", "clipped ranges cover %llu of [%u,%u)", (unsigned long long)covered, gb, ge);
        }
    }
    unlink(path.c_str());
    label("threads", (long)t);
    nontrivial(t >= 2 && n >= 2);
    vok();
  }
  vok();
}
} // namespace verif

VERIF_INPROC_MAIN(galois::SharedMemSys G)
