// C14a -- Galois sequential containers behave like their standard
// counterparts: gdeque, FixedSizeRing, FixedSizeBag, ConcurrentFixedSizeBag,
// gslist, concurrent_gslist, InsertBag (single-threaded use).
// In-process rapidcheck; the same file is built as a libFuzzer target by the
// adapter in verif_e1.h.  DESIGN.md 4/C14.
//
// Case = named fields + a tail of operations, one value per operation:
//   kind = x & 15, arg = x >> 4, position field a = arg % 1024,
//   variant field var = arg / 1024 + step
// The meaning of the kinds depends on the container family (tables below).
// VERIF_TRACE=1 prints the decoded operation sequence to stderr.
#include "verif_e1.h"

#include "galois/Galois.h"
#include "galois/Bag.h"
#include "galois/FixedSizeRing.h"
#include "galois/gdeque.h"
#include "galois/gslist.h"
#include "galois/runtime/Mem.h"
#include "galois/runtime/PagePool.h"

#include <csetjmp>
#include <deque>
#include <memory>
#include <unordered_set>

using namespace verif;

// sanitizer reports must end in SIGABRT so that the in-process driver saves
// the running case; pool memory is never returned, leak checking is useless
extern "C" __attribute__((no_sanitize("address", "undefined"), used, visibility("default"))) const char*
__asan_default_options() {
  return "abort_on_error=1:detect_leaks=0";
}
extern "C" __attribute__((no_sanitize("address", "undefined"), used, visibility("default"))) const char*
__ubsan_default_options() {
  return "abort_on_error=1";
}

// ---- assertion capture: an assert() failing inside Galois while a case runs
// becomes a FAIL verdict (and can be shrunk) instead of killing the process
static jmp_buf g_jb;
static volatile bool g_jb_armed = false;
static char g_assert_msg[400];
extern "C" void __assert_fail(const char* expr, const char* file, unsigned int line, const char* func) noexcept(true)
    __attribute__((__noreturn__));
extern "C" void __assert_fail(const char* expr, const char* file, unsigned int line, const char* func) noexcept(true) {
  if (g_jb_armed) {
    const char* base = strrchr(file, '/');
    snprintf(g_assert_msg, sizeof g_assert_msg, "assertion '%s' failed at %s:%u", expr, base ? base + 1 : file, line);
    g_jb_armed = false;
    longjmp(g_jb, 1);
  }
  fprintf(stderr, "%s:%u: %s: Assertion `%s' failed.\n", file, line, func, expr);
  abort();
}

namespace verif {
const char* const HARNESS = "c14a";
enum { F_CONT = 0, F_CHUNK, F_ELEM, F_THREADS, F_PREFILL, F_COUNT };
const std::vector<const char*> FIELDS = {"cont", "chunk", "elem", "threads", "prefill"};

enum { C_GDEQUE = 0, C_RING, C_FSBAG, C_CFSBAG, C_GSLIST, C_CGSLIST, C_INSERTBAG, NCONT };
static const char* CONT_NAMES[] = {"gdeque",           "FixedSizeRing", "FixedSizeBag", "ConcurrentFixedSizeBag", "gslist",
                                   "concurrent_gslist", "InsertBag"};
// chunk sizes (InsertBag: block size in bytes, 0 = page sized blocks)
static const std::vector<int> CHUNKS[NCONT] = {{1, 2, 3, 4, 64}, {1, 2, 3, 4, 7, 64}, {1, 2, 3, 16}, {1, 2, 3, 16},
                                               {1, 2, 3, 16},    {1, 2, 3, 16},       {0, 64, 128, 256}};
constexpr int MAX_OPS     = 400;
constexpr int MAX_PREFILL = 140;

// known findings (exclusion keys == finding keys)
static const char* const K_GDEQUE_EMPLACE = "C14/gdeque/emplace-full-nonlast-block";
static const char* const K_CFSBAG_POP     = "C14/ConcurrentFixedSizeBag/pop-destroys-wrong-slot";
static const char* const K_BAG_POP        = "C14/InsertBag/pop-empties-block";
static const char* const K_GSLIST_FRONT   = "C14/gslist/front-on-emptied-first-block";
static const char* const K_RING_CREV      = "C14/FixedSizeRing/const-reverse-iterators";

// ------------------------------------------------------------- run context
struct Ctx {
  std::string shape; // known-defect operation shape executed in this case
  const char* subject = "";
  int chunk = 0, elem = 0;
  int step        = -1;
  const char* op  = "";
  size_t maxsize  = 0;
  long removals   = 0;
  bool crossed    = false; // block/chunk boundary crossed (family specific)
  long n_shape    = 0;     // executions of a known-defect shape
  long n_emplmid  = 0;     // emplace strictly inside
  long n_refused  = 0;     // insert into a full bounded container
  long n_moves    = 0;
  long n_ops      = 0;
  bool trace      = false;
  std::set<std::string> notes; // reached operation shapes (labels)
};
static Ctx X;
static inline void note(const char* n) { X.notes.insert(n); }

static void set_labels() {
  label("cont", X.subject);
  label("chunk", (long)X.chunk);
  label("elem", X.elem ? "Tracked" : "int");
  label("ops", X.n_ops == 0 ? "0" : X.n_ops < 10 ? "1-9" : X.n_ops < 50 ? "10-49" : X.n_ops < 150 ? "50-149" : "150+");
  label("crossed", (long)X.crossed);
  label("removal", (long)(X.removals > 0));
  label("known_shape", (long)(X.n_shape > 0));
  label("emplace_mid", (long)(X.n_emplmid > 0));
  label("refused_full", (long)(X.n_refused > 0));
  label("moved", (long)(X.n_moves > 0));
  bool nt = X.crossed && X.removals > 0;
  label("cont_chunk_nt", std::string(X.subject) + "/" + std::to_string(X.chunk) + "/" + (X.elem ? "T" : "i") + ":" + (nt ? "nt" : "triv"));
  for (auto& n : X.notes)
    label("reached_" + n, 1);
  nontrivial(nt);
}

[[noreturn]] static void failv(const char* raw, const char* fmt, ...) __attribute__((format(printf, 2, 3)));
[[noreturn]] static void failv(const char* raw, const char* fmt, ...) {
  g_jb_armed = false;
  char buf[600];
  va_list ap;
  va_start(ap, fmt);
  vsnprintf(buf, sizeof buf, fmt, ap);
  va_end(ap);
  char msg[900];
  snprintf(msg, sizeof msg, "%s<%s,%d> after op #%d (%s): %s%s%s%s", X.subject, X.elem ? "Tracked" : "int", X.chunk, X.step, X.op, buf,
           X.shape.empty() ? "" : " [check ", X.shape.empty() ? "" : raw, X.shape.empty() ? "" : "]");
  set_labels();
  // a failure after a known-defect shape was executed is attributed to it
  std::string key = X.shape.empty() ? std::string(raw) : "@" + X.shape;
  vfinish("FAIL", key, msg);
}
#define CK(cond, key, ...)                                                                                             \
  do {                                                                                                                 \
    if (!(cond))                                                                                                       \
      failv(key, __VA_ARGS__);                                                                                         \
  } while (0)

static void tr(const char* fmt, ...) __attribute__((format(printf, 1, 2)));
static void tr(const char* fmt, ...) {
  if (!X.trace)
    return;
  va_list ap;
  va_start(ap, fmt);
  fprintf(stderr, "  #%d ", X.step);
  vfprintf(stderr, fmt, ap);
  fprintf(stderr, "\n");
  va_end(ap);
}

// the decoder meets a known-finding shape: refuse it when the key is excluded,
// otherwise remember it for attribution
static bool shape_refused(const char* key) {
  if (excluded(key)) {
    count_excluded();
    tr("   (refused: excluded shape %s)", key);
    return true;
  }
  if (X.shape.empty())
    X.shape = key;
  ++X.n_shape;
  return false;
}

// ------------------------------------------------- element types
// Address registry: every constructor registers `this`, the destructor
// removes it.  Violations are recorded (a destructor must not throw) and
// turned into a verdict after the operation.
struct Registry {
  std::unordered_set<const void*> live;
  long ctors = 0, dtors = 0, copies = 0, moves = 0;
  bool bad = false;
  char key[40];
  char msg[200];
  void reset() {
    live.clear();
    ctors = dtors = copies = moves = 0;
    bad = false;
  }
  void violation(const char* k, const char* what, const void* p) {
    if (bad)
      return;
    bad = true;
    snprintf(key, sizeof key, "%s", k);
    snprintf(msg, sizeof msg, "%s (address %p; %ld constructions, %ld destructions so far)", what, p, ctors, dtors);
  }
  void born(const void* p) {
    ++ctors;
    if (!live.insert(p).second)
      violation("ctor-on-live", "element constructed on an address that holds a live element (never destroyed)", p);
  }
  bool die(const void* p) {
    ++dtors;
    if (!live.erase(p)) {
      violation("dtor-unregistered", "destructor ran on an address where no element was constructed (or twice)", p);
      return false;
    }
    return true;
  }
  bool is_live(const void* p) const { return live.count(p) != 0; }
};
static Registry R;

struct Tracked {
  static constexpr int64_t DEFAULTED = -7, MOVED = -5, DEAD = -3, UNREG = -999;
  int64_t v;
  Tracked() : v(DEFAULTED) { R.born(this); }
  Tracked(int64_t x) : v(x) { R.born(this); }
  Tracked(const Tracked& o) : v(o.read()) {
    R.born(this);
    ++R.copies;
  }
  Tracked(Tracked&& o) noexcept : v(o.read()) {
    R.born(this);
    ++R.moves;
    o.mark_moved();
  }
  Tracked& operator=(const Tracked& o) {
    int64_t x = o.read();
    if (R.is_live(this))
      v = x;
    else
      R.violation("assign-unregistered", "assignment to an address where no element is alive", this);
    ++R.copies;
    return *this;
  }
  Tracked& operator=(Tracked&& o) noexcept {
    int64_t x = o.read();
    if (R.is_live(this))
      v = x;
    else
      R.violation("assign-unregistered", "assignment to an address where no element is alive", this);
    if (&o != this)
      o.mark_moved();
    ++R.moves;
    return *this;
  }
  ~Tracked() {
    if (R.die(this))
      v = DEAD;
  }
  void mark_moved() {
    if (R.is_live(this))
      v = MOVED;
  }
  // never touches memory of an unregistered address
  int64_t read() const {
    if (!R.is_live(this)) {
      R.violation("read-unregistered", "value read from an address where no element is alive", this);
      return UNREG;
    }
    return v;
  }
};

template <class T>
struct El;
template <>
struct El<int> {
  static constexpr bool tracked = false;
  static int make(int64_t v) { return (int)v; }
  static int64_t val(const int& x) { return x; }
};
template <>
struct El<Tracked> {
  static constexpr bool tracked = true;
  static Tracked make(int64_t v) { return Tracked(v); }
  static int64_t val(const Tracked& x) { return x.read(); }
};

// element types whose size (12, 24 bytes) does not divide the 32-byte block header of InsertBag: the first
// element slot of a block is then not simply "header size / element size" slots in
struct E12 {
  int32_t v, a, b;
  E12() : v(0), a(~0), b(0) {}
  E12(int64_t x) : v((int32_t)x), a(~(int32_t)x), b((int32_t)x * 3) {}
};
struct E24 {
  int64_t v, a, b;
  E24() : v(0), a(~0LL), b(0) {}
  E24(int64_t x) : v(x), a(~x), b(x * 3) {}
};
static_assert(sizeof(E12) == 12 && sizeof(E24) == 24, "element sizes");
template <>
struct El<E12> {
  static constexpr bool tracked = false;
  static E12 make(int64_t v) { return E12(v); }
  static int64_t val(const E12& x) { return (x.a == ~x.v && x.b == x.v * 3) ? x.v : -987654321; }
};
template <>
struct El<E24> {
  static constexpr bool tracked = false;
  static E24 make(int64_t v) { return E24(v); }
  static int64_t val(const E24& x) { return (x.a == ~x.v && x.b == x.v * 3) ? x.v : -987654321; }
};

// after every operation: no registry violation, and exactly as many element
// objects alive as the model says the containers hold
template <class T>
static void reg_check(size_t expect_live) {
  if (!El<T>::tracked)
    return;
  if (R.bad)
    failv(R.key, "%s", R.msg);
  CK(R.live.size() == expect_live, "live-count", "%zu element objects are alive but the container(s) hold %zu elements", R.live.size(),
     expect_live);
}
template <class T>
static void reg_final() {
  if (!El<T>::tracked)
    return;
  if (R.bad)
    failv(R.key, "%s", R.msg);
  CK(R.live.empty(), "leak", "%zu element objects still alive after the container was destroyed", R.live.size());
}

// owner of a container under test: when a verdict exception unwinds the stack
// the (possibly corrupted) container is leaked instead of destroyed, so that a
// failing case cannot crash the process on the way out and stays shrinkable
template <class C>
struct Held {
  C* p;
  explicit Held(C* q = nullptr) : p(q) {}
  Held(const Held&) = delete;
  Held& operator=(const Held&) = delete;
  Held(Held&& o) : p(o.p) { o.p = nullptr; }
  Held& operator=(Held&& o) {
    if (this != &o) {
      reset();
      p   = o.p;
      o.p = nullptr;
    }
    return *this;
  }
  ~Held() {
    if (std::uncaught_exceptions() == 0)
      delete p;
  }
  void reset(C* q = nullptr) {
    C* old = p;
    p      = q;
    delete old;
  }
  C* operator->() const { return p; }
  C& operator*() const { return *p; }
};

struct Op {
  int kind;
  int64_t a;   // position field
  int64_t var; // variant field
};
static Op decode(int64_t x, int step) {
  uint64_t u = (uint64_t)x;
  Op o;
  o.kind       = (int)(u & 15);
  uint64_t arg = (u >> 4) & 0xffffffffULL;
  o.a          = (int64_t)(arg % 1024);
  o.var        = (int64_t)(arg / 1024) + step;
  return o;
}
static inline int64_t value_for(int step, int j = 0) { return (int64_t)(step + 2) * 128 + j; }

static std::string show(const std::deque<int64_t>& m) {
  std::string s = "[";
  for (size_t i = 0; i < m.size() && i < 12; ++i)
    s += (i ? "," : "") + std::to_string(m[i]);
  if (m.size() > 12)
    s += ",..";
  return s + "]";
}
static std::string show(const std::vector<int64_t>& m) { return show(std::deque<int64_t>(m.begin(), m.end())); }

// ================================================================ gdeque
// kinds: 0 push_back 1 push_front 2 pop_back 3 pop_front 4 emplace(pos)
//        5 emplace_back/front 6 clear 7 move ctor/assign 8 write through
//        iterator/front/back 9 const traversal 10 pop many 11 push many
//        12.. = kind % 12
static const char* GDEQUE_OPS[] = {"push_back", "push_front", "pop_back",   "pop_front", "emplace",  "emplace_bf",
                                   "clear",     "move",       "write",      "const",     "pop_many", "push_many"};

template <class D, class T>
static void gdeque_check(D& d, const std::deque<int64_t>& m, bool with_const) {
  typedef El<T> E;
  CK(d.size() == m.size(), "size", "size() = %zu, model %zu %s", (size_t)d.size(), m.size(), show(m).c_str());
  CK(d.empty() == m.empty(), "empty", "empty() = %d, model size %zu", (int)d.empty(), m.size());
  if (!m.empty()) {
    int64_t f = E::val(d.front()), b = E::val(d.back());
    CK(f == m.front(), "front", "front() = %lld, model %lld %s", (long long)f, (long long)m.front(), show(m).c_str());
    CK(b == m.back(), "back", "back() = %lld, model %lld %s", (long long)b, (long long)m.back(), show(m).c_str());
  }
  { // forward
    size_t i = 0;
    for (auto it = d.begin(), e = d.end(); it != e; ++it, ++i) {
      CK(i < m.size(), "fwd-long", "forward traversal yields more than the %zu elements of the model", m.size());
      int64_t v = E::val(*it);
      CK(v == m[i], "fwd", "forward traversal element %zu = %lld, model %lld %s", i, (long long)v, (long long)m[i], show(m).c_str());
    }
    CK(i == m.size(), "fwd-short", "forward traversal yields %zu elements, model %zu", i, m.size());
  }
  { // backward from end()
    size_t i = m.size();
    auto it = d.end(), b = d.begin();
    while (it != b) {
      CK(i > 0, "bwd-long", "backward traversal yields more than the %zu elements of the model", m.size());
      --it;
      --i;
      int64_t v = E::val(*it);
      CK(v == m[i], "bwd", "backward traversal element %zu = %lld, model %lld %s", i, (long long)v, (long long)m[i], show(m).c_str());
    }
    CK(i == 0, "bwd-short", "backward traversal stops %zu elements before the front", i);
  }
  { // reverse iterators
    size_t i = m.size();
    for (auto it = d.rbegin(), e = d.rend(); it != e; ++it) {
      CK(i > 0, "rev-long", "reverse traversal yields more than the %zu elements of the model", m.size());
      --i;
      int64_t v = E::val(*it);
      CK(v == m[i], "rev", "reverse traversal element %zu = %lld, model %lld %s", i, (long long)v, (long long)m[i], show(m).c_str());
    }
    CK(i == 0, "rev-short", "reverse traversal stops %zu elements before the front", i);
  }
  if (with_const) {
    const D& cd = d;
    CK(cd.size() == m.size() && cd.empty() == m.empty(), "const-size", "const size() = %zu, model %zu", (size_t)cd.size(), m.size());
    if (!m.empty())
      CK(E::val(cd.front()) == m.front() && E::val(cd.back()) == m.back(), "const-front-back", "const front()/back() = %lld/%lld, model %lld/%lld",
         (long long)E::val(cd.front()), (long long)E::val(cd.back()), (long long)m.front(), (long long)m.back());
    {
      typename D::const_iterator cb = d.begin(), ce = d.end(); // iterator -> const_iterator
      CK(cb == cd.begin() && ce == cd.end(), "const-conv", "const_iterator converted from begin()/end() differs from the const begin()/end()");
    }
    size_t i = 0;
    for (auto it = cd.begin(), e = cd.end(); it != e; ++it, ++i) {
      CK(i < m.size(), "const-fwd-long", "const forward traversal yields more than %zu elements", m.size());
      CK(E::val(*it) == m[i], "const-fwd", "const forward traversal element %zu = %lld, model %lld", i, (long long)E::val(*it), (long long)m[i]);
    }
    CK(i == m.size(), "const-fwd-short", "const forward traversal yields %zu elements, model %zu", i, m.size());
    i = m.size();
    for (auto it = cd.rbegin(), e = cd.rend(); it != e; ++it) {
      CK(i > 0, "const-rev-long", "const reverse traversal yields more than %zu elements", m.size());
      --i;
      CK(E::val(*it) == m[i], "const-rev", "const reverse traversal element %zu = %lld, model %lld", i, (long long)E::val(*it), (long long)m[i]);
    }
    CK(i == 0, "const-rev-short", "const reverse traversal stops %zu elements before the front", i);
  }
}

template <class T, unsigned N>
static void run_gdeque(const Case& c) {
  typedef galois::gdeque<T, N> D;
  typedef El<T> E;
  Held<D> d(new D());
  std::deque<int64_t> m;
  auto after = [&](bool with_const = false) {
    X.maxsize = std::max(X.maxsize, m.size());
    if (m.size() > N)
      X.crossed = true;
    gdeque_check<D, T>(*d, m, with_const);
    reg_check<T>(m.size());
  };
  X.op = "prefill";
  for (int64_t i = 0; i < c[F_PREFILL]; ++i) {
    d->push_back(E::make(i + 1));
    m.push_back(i + 1);
  }
  after();
  size_t nops = std::min<size_t>(c.f.size() - F_COUNT, MAX_OPS);
  for (size_t s = 0; s < nops; ++s) {
    Op o   = decode(c.f[F_COUNT + s], (int)s);
    int k  = o.kind % 12;
    X.step = (int)s;
    X.op   = GDEQUE_OPS[k];
    ++X.n_ops;
    int64_t v = value_for((int)s);
    switch (k) {
    case 0:
      tr("push_back(%lld)%s", (long long)v, (o.var & 1) ? " lvalue" : "");
      if (o.var & 1) {
        T t = E::make(v);
        d->push_back(t);
      } else
        d->push_back(E::make(v));
      m.push_back(v);
      break;
    case 1:
      tr("push_front(%lld)%s", (long long)v, (o.var & 1) ? " lvalue" : "");
      if (o.var & 1) {
        T t = E::make(v);
        d->push_front(t);
      } else
        d->push_front(E::make(v));
      m.push_front(v);
      break;
    case 2:
      if (m.empty())
        break; // precondition: not empty
      tr("pop_back");
      d->pop_back();
      m.pop_back();
      ++X.removals;
      break;
    case 3:
      if (m.empty())
        break;
      tr("pop_front");
      d->pop_front();
      m.pop_front();
      ++X.removals;
      break;
    case 4: {
      size_t pos = (size_t)o.a % (m.size() + 1);
      int sel    = (int)((o.var >> 1) & 3);
      if (sel == 1)
        pos = 0;
      else if (sel == 2)
        pos = m.size();
      bool from_end = o.var & 1;
      auto it       = d->begin();
      if (from_end) {
        it = d->end();
        for (size_t i = m.size(); i > pos; --i)
          --it;
      } else {
        if (pos == m.size())
          it = d->end();
        else
          for (size_t i = 0; i < pos; ++i)
            ++it;
      }
      // known finding: the target block is full and is not the last block
      // (and the position is not begin(), which takes the extend_first path)
      auto* blk = it.b;
      if (blk && pos != 0 && blk->full() && blk->next) {
        if (shape_refused(K_GDEQUE_EMPLACE))
          break;
        tr("   (emplace into a full block that is not the last block)");
      }
      tr("emplace(pos %zu of %zu, %lld)%s", pos, m.size(), (long long)v, from_end ? " iterator from end" : "");
      if (pos > 0 && pos < m.size())
        ++X.n_emplmid;
      if (blk && pos != 0) {
        bool inner = it.offset != 0;
        if (blk->full())
          note(blk->next ? "gdeque_split_full_nonlast_block" : inner ? "gdeque_split_full_last_block" : "gdeque_split_full_last_block_at_its_begin");
        else if (blk->next)
          note(inner ? "gdeque_emplace_inside_nonfull_nonlast_block" : "gdeque_emplace_at_begin_of_nonfull_nonlast_block");
        else
          note("gdeque_emplace_in_nonfull_last_block");
      } else if (pos == 0 && blk)
        note(blk->full() ? "gdeque_emplace_begin_first_block_full" : "gdeque_emplace_begin_first_block_nonfull");
      else if (!blk)
        note(m.empty() ? "gdeque_emplace_into_empty" : "gdeque_emplace_at_end");
      auto r = d->emplace(it, E::make(v));
      m.insert(m.begin() + pos, v);
      int64_t got = E::val(*r);
      CK(got == v, "emplace-ret", "emplace(pos %zu, %lld) returned an iterator to %lld", pos, (long long)v, (long long)got);
      auto w = d->begin();
      for (size_t i = 0; i < pos; ++i)
        ++w;
      CK(w == r, "emplace-ret-pos", "emplace(pos %zu, %lld) returned an iterator that is not begin()+%zu", pos, (long long)v, pos);
      break;
    }
    case 5:
      if (o.var & 1) {
        tr("emplace_front(%lld)", (long long)v);
        d->emplace_front(v);
        m.push_front(v);
      } else {
        tr("emplace_back(%lld)", (long long)v);
        d->emplace_back(v);
        m.push_back(v);
      }
      break;
    case 6:
      tr("clear");
      if (!m.empty())
        ++X.removals;
      d->clear();
      m.clear();
      break;
    case 7: {
      ++X.n_moves;
      if (o.var & 1) {
        tr("move construct");
        Held<D> n(new D(std::move(*d)));
        // the moved-from deque is valid but unspecified: it must be clearable and usable
        d->clear();
        CK(d->empty() && d->size() == 0, "moved-from", "moved-from deque is not empty after clear(): size %zu", (size_t)d->size());
        d->push_back(E::make(7));
        CK(d->size() == 1 && E::val(d->front()) == 7, "moved-from", "moved-from deque unusable after clear()+push_back: size %zu", (size_t)d->size());
        d = std::move(n);
      } else {
        int pre = (int)((o.var >> 1) & 3);
        tr("move assign into a deque holding %d elements", pre);
        Held<D> n(new D());
        for (int i = 0; i < pre; ++i)
          n->push_back(E::make(900 + i));
        *n = std::move(*d);
        d  = std::move(n); // destroys the moved-from deque
      }
      break;
    }
    case 8: {
      if (m.empty())
        break;
      int sel = (int)(o.var % 3);
      if (sel == 0) {
        tr("front() = %lld", (long long)v);
        d->front() = E::make(v);
        m.front()  = v;
      } else if (sel == 1) {
        tr("back() = %lld", (long long)v);
        d->back() = E::make(v);
        m.back()  = v;
      } else {
        size_t pos = (size_t)o.a % m.size();
        tr("*(begin()+%zu) = %lld", pos, (long long)v);
        auto it = d->begin();
        for (size_t i = 0; i < pos; ++i)
          ++it;
        *it    = E::make(v);
        m[pos] = v;
      }
      break;
    }
    case 9:
      tr("const traversal");
      after(true);
      continue;
    case 10: {
      size_t n = std::min<size_t>(m.size(), 1 + (size_t)o.a % (N + 1));
      tr("pop %zu from the %s", n, (o.var & 1) ? "front" : "back");
      for (size_t i = 0; i < n; ++i) {
        if (o.var & 1) {
          d->pop_front();
          m.pop_front();
        } else {
          d->pop_back();
          m.pop_back();
        }
        ++X.removals;
      }
      break;
    }
    default: {
      size_t n = 1 + (size_t)o.a % (N + 1);
      tr("push %zu at the %s", n, (o.var & 1) ? "front" : "back");
      for (size_t i = 0; i < n; ++i) {
        if (o.var & 1) {
          d->push_front(E::make(value_for((int)s, (int)i)));
          m.push_front(value_for((int)s, (int)i));
        } else {
          d->push_back(E::make(value_for((int)s, (int)i)));
          m.push_back(value_for((int)s, (int)i));
        }
      }
    }
    }
    after();
  }
  X.step = (int)nops;
  X.op   = "final";
  after(true);
  X.op = "destroy";
  d.reset();
  reg_final<T>();
}

// ========================================================= FixedSizeRing
// kinds: 0 push_back 1 push_front 2 pop_back 3 pop_front 4 emplace(pos)
//        5 emplace_back/front 6 clear 7 extract_front/back 8 write
//        9 const access 10 const reverse traversal 11 rebuild from range
//        12 iterator arithmetic 13.. = kind % 13
static const char* RING_OPS[] = {"push_back", "push_front", "pop_back", "pop_front", "emplace", "emplace_bf", "clear",
                                 "extract",   "write",      "const",    "const_rev", "range",   "iter_arith"};

// const rbegin()/rend(): run in a forked child, because the known defect is
// undefined behaviour that the sanitizer turns into an abort
template <class Rg, class T>
static char forked_const_reverse(const Rg& r, const std::deque<int64_t>& m, int* sig) {
  fflush(nullptr);
  int fds[2];
  *sig = 0;
  if (pipe(fds))
    return '?';
  pid_t pid = fork();
  if (pid < 0) {
    close(fds[0]);
    close(fds[1]);
    return '?';
  }
  if (pid == 0) {
    for (int s : {SIGABRT, SIGSEGV, SIGBUS, SIGFPE, SIGILL, SIGTRAP})
      signal(s, SIG_DFL);
    int dn = open("/dev/null", O_WRONLY);
    if (dn >= 0)
      dup2(dn, 2);
    close(fds[0]);
    alarm(10);
    char res = 'Y';
    size_t i = m.size();
    auto it = r.rbegin();
    auto e  = r.rend();
    for (; !(it == e); ++it) {
      if (i == 0) {
        res = 'L';
        break;
      }
      --i;
      if (El<T>::val(*it) != m[i]) {
        res = 'V';
        break;
      }
    }
    if (res == 'Y' && i != 0)
      res = 'S';
    ssize_t w = write(fds[1], &res, 1);
    (void)w;
    _exit(0);
  }
  close(fds[1]);
  char res  = 0;
  ssize_t n = read(fds[0], &res, 1);
  close(fds[0]);
  int st = 0;
  waitpid(pid, &st, 0);
  if (n != 1) {
    *sig = WIFSIGNALED(st) ? WTERMSIG(st) : -WEXITSTATUS(st);
    return 0;
  }
  return res;
}

template <class Rg, class T, unsigned N>
static void ring_check(Rg& r, const std::deque<int64_t>& m, bool with_const) {
  typedef El<T> E;
  CK(r.size() == m.size(), "size", "size() = %u, model %zu %s", r.size(), m.size(), show(m).c_str());
  CK(r.empty() == m.empty(), "empty", "empty() = %d, model size %zu", (int)r.empty(), m.size());
  CK(r.full() == (m.size() == N), "full", "full() = %d, model size %zu of %u", (int)r.full(), m.size(), N);
  if (!m.empty()) {
    int64_t f = E::val(r.front()), b = E::val(r.back());
    CK(f == m.front(), "front", "front() = %lld, model %lld %s", (long long)f, (long long)m.front(), show(m).c_str());
    CK(b == m.back(), "back", "back() = %lld, model %lld %s", (long long)b, (long long)m.back(), show(m).c_str());
    for (size_t i = 0; i < m.size(); ++i) {
      int64_t v = E::val(r.getAt((unsigned)i));
      CK(v == m[i], "getAt", "getAt(%zu) = %lld, model %lld %s", i, (long long)v, (long long)m[i], show(m).c_str());
    }
  }
  {
    size_t i = 0;
    for (auto it = r.begin(), e = r.end(); it != e; ++it, ++i) {
      CK(i < m.size(), "fwd-long", "forward traversal yields more than the %zu elements of the model", m.size());
      int64_t v = E::val(*it);
      CK(v == m[i], "fwd", "forward traversal element %zu = %lld, model %lld %s", i, (long long)v, (long long)m[i], show(m).c_str());
    }
    CK(i == m.size(), "fwd-short", "forward traversal yields %zu elements, model %zu", i, m.size());
  }
  {
    size_t i = m.size();
    auto it = r.end(), b = r.begin();
    while (it != b) {
      CK(i > 0, "bwd-long", "backward traversal yields more than the %zu elements of the model", m.size());
      --it;
      --i;
      int64_t v = E::val(*it);
      CK(v == m[i], "bwd", "backward traversal element %zu = %lld, model %lld %s", i, (long long)v, (long long)m[i], show(m).c_str());
    }
    CK(i == 0, "bwd-short", "backward traversal stops %zu elements before the front", i);
  }
  {
    size_t i = m.size();
    for (auto it = r.rbegin(), e = r.rend(); it != e; ++it) {
      CK(i > 0, "rev-long", "reverse traversal yields more than the %zu elements of the model", m.size());
      --i;
      int64_t v = E::val(*it);
      CK(v == m[i], "rev", "reverse traversal element %zu = %lld, model %lld %s", i, (long long)v, (long long)m[i], show(m).c_str());
    }
    CK(i == 0, "rev-short", "reverse traversal stops %zu elements before the front", i);
  }
  {
    ptrdiff_t dist = r.end() - r.begin();
    CK(dist == (ptrdiff_t)m.size(), "distance", "end() - begin() = %td, model size %zu", dist, m.size());
  }
  if (with_const) {
    const Rg& cr = r;
    // (the iterator -> const_iterator conversion of the ring does not compile:
    // the converting constructor reads private members of the other
    // specialisation; it cannot be part of the harness)
    CK(cr.size() == m.size() && cr.empty() == m.empty() && cr.full() == (m.size() == N), "const-size", "const size() = %u, model %zu", cr.size(),
       m.size());
    if (!m.empty()) {
      CK(E::val(cr.front()) == m.front() && E::val(cr.back()) == m.back(), "const-front-back", "const front()/back() = %lld/%lld, model %lld/%lld",
         (long long)E::val(cr.front()), (long long)E::val(cr.back()), (long long)m.front(), (long long)m.back());
      for (size_t i = 0; i < m.size(); ++i)
        CK(E::val(cr.getAt((unsigned)i)) == m[i], "const-getAt", "const getAt(%zu) = %lld, model %lld", i, (long long)E::val(cr.getAt((unsigned)i)),
           (long long)m[i]);
    }
    size_t i = 0;
    for (auto it = cr.begin(), e = cr.end(); it != e; ++it, ++i) {
      CK(i < m.size(), "const-fwd-long", "const forward traversal yields more than %zu elements", m.size());
      CK(E::val(*it) == m[i], "const-fwd", "const forward traversal element %zu = %lld, model %lld", i, (long long)E::val(*it), (long long)m[i]);
    }
    CK(i == m.size(), "const-fwd-short", "const forward traversal yields %zu elements, model %zu", i, m.size());
  }
}

template <class T, unsigned N>
static void run_ring(const Case& c) {
  typedef galois::FixedSizeRing<T, N> Rg;
  typedef El<T> E;
  Held<Rg> r(new Rg());
  std::deque<int64_t> m;
  unsigned mstart = 0; // model of the physical start slot (only for the labels)
  bool crev_done  = false;
  auto after = [&](bool with_const = false) {
    X.maxsize = std::max(X.maxsize, m.size());
    if (mstart + m.size() > N || X.n_refused > 0)
      X.crossed = true; // contents wrap around the end of the storage, or an insertion hit the bound
    ring_check<Rg, T, N>(*r, m, with_const);
    reg_check<T>(m.size());
  };
  X.op = "prefill";
  for (int64_t i = 0; i < c[F_PREFILL] && m.size() < N; ++i) {
    r->push_back(E::make(i + 1));
    m.push_back(i + 1);
  }
  after();
  size_t nops = std::min<size_t>(c.f.size() - F_COUNT, MAX_OPS);
  for (size_t s = 0; s < nops; ++s) {
    Op o   = decode(c.f[F_COUNT + s], (int)s);
    int k  = o.kind % 13;
    X.step = (int)s;
    X.op   = RING_OPS[k];
    ++X.n_ops;
    int64_t v = value_for((int)s);
    bool full = m.size() == N;
    switch (k) {
    case 0:
    case 1: {
      bool back = k == 0;
      tr("push_%s(%lld)%s%s", back ? "back" : "front", (long long)v, (o.var & 1) ? " lvalue" : "", full ? " [full]" : "");
      T* p;
      if (o.var & 1) {
        T t = E::make(v);
        p   = back ? r->push_back(t) : r->push_front(t);
      } else
        p = back ? r->push_back(E::make(v)) : r->push_front(E::make(v));
      CK((p != nullptr) == !full, "push-ret", "push_%s on a ring holding %zu of %u returned %s", back ? "back" : "front", m.size(), N,
         p ? "a pointer" : "null");
      if (full) {
        ++X.n_refused;
        break;
      }
      CK(E::val(*p) == v, "push-ret", "push_%s(%lld) returned a pointer to %lld", back ? "back" : "front", (long long)v, (long long)E::val(*p));
      if (back)
        m.push_back(v);
      else {
        m.push_front(v);
        mstart = (mstart + N - 1) % N;
      }
      break;
    }
    case 2:
      if (m.empty())
        break; // precondition
      tr("pop_back");
      r->pop_back();
      m.pop_back();
      ++X.removals;
      break;
    case 3:
      if (m.empty())
        break;
      tr("pop_front");
      r->pop_front();
      m.pop_front();
      mstart = (mstart + 1) % N;
      ++X.removals;
      break;
    case 4: {
      size_t pos = (size_t)o.a % (m.size() + 1);
      int sel    = (int)((o.var >> 1) & 3);
      if (sel == 1)
        pos = 0;
      else if (sel == 2)
        pos = m.size();
      auto it = (o.var & 1) ? r->end() - (ptrdiff_t)(m.size() - pos) : r->begin() + (ptrdiff_t)pos;
      tr("emplace(pos %zu of %zu, %lld)%s", pos, m.size(), (long long)v, full ? " [full]" : "");
      T* p = r->emplace(it, E::make(v));
      CK((p != nullptr) == !full, "emplace-ret", "emplace on a ring holding %zu of %u returned %s", m.size(), N, p ? "a pointer" : "null");
      if (full) {
        ++X.n_refused;
        break;
      }
      CK(E::val(*p) == v, "emplace-ret", "emplace(pos %zu, %lld) returned a pointer to %lld", pos, (long long)v, (long long)E::val(*p));
      if (pos > 0 && pos < m.size()) {
        ++X.n_emplmid;
        note(mstart + m.size() >= N ? "ring_emplace_mid_wrapped" : "ring_emplace_mid_linear");
      }
      if (pos == 0)
        mstart = (mstart + N - 1) % N;
      m.insert(m.begin() + pos, v);
      break;
    }
    case 5: {
      bool back = !(o.var & 1);
      tr("emplace_%s(%lld)%s", back ? "back" : "front", (long long)v, full ? " [full]" : "");
      T* p = back ? r->emplace_back(v) : r->emplace_front(v);
      CK((p != nullptr) == !full, "push-ret", "emplace_%s on a ring holding %zu of %u returned %s", back ? "back" : "front", m.size(), N,
         p ? "a pointer" : "null");
      if (full) {
        ++X.n_refused;
        break;
      }
      CK(E::val(*p) == v, "push-ret", "emplace_%s(%lld) returned a pointer to %lld", back ? "back" : "front", (long long)v, (long long)E::val(*p));
      if (back)
        m.push_back(v);
      else {
        m.push_front(v);
        mstart = (mstart + N - 1) % N;
      }
      break;
    }
    case 6:
      tr("clear");
      if (!m.empty())
        ++X.removals;
      r->clear();
      m.clear();
      mstart = 0;
      break;
    case 7: {
      bool back = !(o.var & 1);
      tr("extract_%s", back ? "back" : "front");
      {
        galois::optional<T> x = back ? r->extract_back() : r->extract_front();
        CK(x.is_initialized() == !m.empty(), "extract", "extract_%s on a ring holding %zu returned %s", back ? "back" : "front", m.size(),
           x.is_initialized() ? "a value" : "nothing");
        if (!m.empty()) {
          int64_t want = back ? m.back() : m.front();
          CK(E::val(x.get()) == want, "extract", "extract_%s returned %lld, model %lld", back ? "back" : "front", (long long)E::val(x.get()),
             (long long)want);
          if (back)
            m.pop_back();
          else {
            m.pop_front();
            mstart = (mstart + 1) % N;
          }
          ++X.removals;
        }
      }
      break;
    }
    case 8: {
      if (m.empty())
        break;
      size_t pos = (size_t)o.a % m.size();
      int sel    = (int)(o.var & 3);
      tr("write %lld at %zu via %s", (long long)v, pos, sel == 0 ? "getAt" : sel == 1 ? "iterator" : sel == 2 ? "front" : "back");
      if (sel == 0)
        r->getAt((unsigned)pos) = E::make(v);
      else if (sel == 1)
        r->begin()[(ptrdiff_t)pos] = E::make(v);
      else if (sel == 2) {
        pos        = 0;
        r->front() = E::make(v);
      } else {
        pos       = m.size() - 1;
        r->back() = E::make(v);
      }
      m[pos] = v;
      break;
    }
    case 9:
      tr("const access");
      after(true);
      continue;
    case 10: {
      if (crev_done)
        break; // one forked check per case
      if (shape_refused(K_RING_CREV))
        break;
      crev_done = true;
      tr("const reverse traversal (forked)");
      int sig  = 0;
      char res = forked_const_reverse<Rg, T>(*r, m, &sig);
      if (res == '?')
        break; // fork failed: nothing learnt
      CK(res != 0, "const-rbegin", "traversal with the const rbegin()/rend() of a ring holding %zu elements died (%s %d)", m.size(),
         sig > 0 ? "signal" : "exit", sig > 0 ? sig : -sig);
      CK(res == 'Y', "const-rbegin", "traversal with the const rbegin()/rend() differs from the model (%s)",
         res == 'L' ? "too long" : res == 'S' ? "too short" : "wrong value");
      break;
    }
    case 11: {
      tr("rebuild from a range of %zu", m.size());
      std::vector<T> vals;
      vals.reserve(m.size());
      for (auto x : m)
        vals.push_back(E::make(x));
      r.reset(new Rg(vals.begin(), vals.end()));
      mstart = 0;
      if (El<T>::tracked) {
        if (R.bad)
          failv(R.key, "%s", R.msg);
        CK(R.live.size() == 2 * m.size(), "live-count", "range constructor from %zu elements left %zu element objects alive (expected %zu)",
           m.size(), R.live.size(), 2 * m.size());
      }
      break;
    }
    default: {
      // iterator arithmetic on two positions
      size_t i = (size_t)o.a % (m.size() + 1), j = (size_t)(o.a / 32) % (m.size() + 1);
      tr("iterator arithmetic %zu %zu", i, j);
      auto bi = r->begin() + (ptrdiff_t)i, bj = r->begin() + (ptrdiff_t)j;
      CK(bj - bi == (ptrdiff_t)j - (ptrdiff_t)i, "iter-arith", "(begin()+%zu) - (begin()+%zu) = %td", j, i, bj - bi);
      CK((bi < bj) == (i < j) && (bi == bj) == (i == j), "iter-arith", "comparison of begin()+%zu and begin()+%zu: < %d, == %d", i, j, (int)(bi < bj),
         (int)(bi == bj));
      auto e = r->end();
      e -= (ptrdiff_t)(m.size() - i);
      CK(e == bi, "iter-arith", "end() - %zu != begin() + %zu", m.size() - i, i);
      auto w = bi;
      w += (ptrdiff_t)j - (ptrdiff_t)i;
      CK(w == bj, "iter-arith", "(begin()+%zu) += %td is not begin()+%zu", i, (ptrdiff_t)j - (ptrdiff_t)i, j);
      if (j < m.size())
        CK(E::val(*w) == m[j] && E::val(r->begin()[(ptrdiff_t)j]) == m[j], "iter-arith", "begin()[%zu] = %lld, model %lld", j,
           (long long)E::val(r->begin()[(ptrdiff_t)j]), (long long)m[j]);
    }
    }
    after();
  }
  X.step = (int)nops;
  X.op   = "final";
  after(true);
  X.op = "destroy";
  r.reset();
  reg_final<T>();
}

// ================================= FixedSizeBag / ConcurrentFixedSizeBag
// "Unordered collection of bounded size": contents are compared as a
// multiset; front()/back() name the element the next pop removes (the class'
// own extract_front relies on that); rbegin..rend is the reverse of begin..end.
// kinds: 0 push_back 1 push_front 2 pop_back 3 pop_front 4 emplace_back/front
//        5 extract_front/back 6 clear 7 write through front() 8 const access
//        9 rebuild from range 10 push many 11 pop many 12.. = kind % 12
static const char* FSBAG_OPS[] = {"push_back", "push_front", "pop_back", "pop_front", "emplace", "extract",
                                  "clear",     "write",      "const",    "range",     "push_many", "pop_many"};

template <class It, class T>
static std::vector<int64_t> collect_bounded(It it, It e, size_t bound, const char* key, const char* what) {
  std::vector<int64_t> out;
  for (; it != e; ++it) {
    CK(out.size() < bound, key, "%s yields more than the %zu elements of the model", what, bound);
    out.push_back(El<T>::val(*it));
  }
  return out;
}
static bool same_multiset(std::vector<int64_t> a, std::vector<int64_t> b) {
  std::sort(a.begin(), a.end());
  std::sort(b.begin(), b.end());
  return a == b;
}

template <class B, class T, unsigned N>
static void fsbag_check(B& b, const std::vector<int64_t>& m, bool with_const) {
  typedef El<T> E;
  CK(b.size() == m.size(), "size", "size() = %u, model %zu %s", (unsigned)b.size(), m.size(), show(m).c_str());
  CK(b.empty() == m.empty(), "empty", "empty() = %d, model size %zu", (int)b.empty(), m.size());
  CK(b.full() == (m.size() == N), "full", "full() = %d, model size %zu of %u", (int)b.full(), m.size(), N);
  if (!m.empty()) {
    int64_t f = E::val(b.front()), k = E::val(b.back());
    CK(f == m.back() && k == m.back(), "front", "front()/back() = %lld/%lld, the element the next pop removes is %lld %s", (long long)f, (long long)k,
       (long long)m.back(), show(m).c_str());
  }
  auto fw = collect_bounded<typename B::iterator, T>(b.begin(), b.end(), m.size(), "fwd-long", "forward traversal");
  CK(same_multiset(fw, m), "fwd", "forward traversal yields %s, model (as multiset) %s", show(fw).c_str(), show(m).c_str());
  auto bw = collect_bounded<typename B::reverse_iterator, T>(b.rbegin(), b.rend(), m.size(), "rev-long", "reverse traversal");
  std::reverse(bw.begin(), bw.end());
  CK(bw == fw, "rev", "reverse traversal is not the reverse of the forward traversal: %s vs %s", show(bw).c_str(), show(fw).c_str());
  if (with_const) {
    const B& cb = b;
    CK(cb.size() == m.size() && cb.empty() == m.empty() && cb.full() == (m.size() == N), "const-size", "const size() = %u, model %zu",
       (unsigned)cb.size(), m.size());
    if (!m.empty())
      CK(E::val(cb.front()) == m.back() && E::val(cb.back()) == m.back(), "const-front", "const front()/back() = %lld/%lld, model %lld",
         (long long)E::val(cb.front()), (long long)E::val(cb.back()), (long long)m.back());
    auto cf = collect_bounded<typename B::const_iterator, T>(cb.begin(), cb.end(), m.size(), "const-fwd-long", "const forward traversal");
    CK(cf == fw, "const-fwd", "const forward traversal %s differs from the non-const one %s", show(cf).c_str(), show(fw).c_str());
    auto cr = collect_bounded<typename B::const_reverse_iterator, T>(cb.rbegin(), cb.rend(), m.size(), "const-rev-long", "const reverse traversal");
    std::reverse(cr.begin(), cr.end());
    CK(cr == fw, "const-rev", "const reverse traversal is not the reverse of the forward traversal");
  }
}

template <class B, class T, bool Conc>
struct FsBagOps {
  static T* emplace(B& b, bool back, int64_t v) { return back ? b.emplace_back(v) : b.emplace_front(v); }
  static bool extract(B& b, bool back, int64_t& out) {
    galois::optional<T> x = back ? b.extract_back() : b.extract_front();
    if (x.is_initialized())
      out = El<T>::val(x.get());
    return x.is_initialized();
  }
};
template <class B, class T>
struct FsBagOps<B, T, true> { // not available for the concurrent variant: use push / front+pop
  static T* emplace(B& b, bool back, int64_t v) {
    T t = El<T>::make(v);
    return back ? b.push_back(t) : b.push_front(t);
  }
  static bool extract(B&, bool, int64_t&) { return false; }
};

template <class T, unsigned N, bool Conc>
static void run_fsbag(const Case& c) {
  typedef galois::FixedSizeBagBase<T, N, Conc> B;
  typedef El<T> E;
  Held<B> b(new B());
  std::vector<int64_t> m;
  auto after = [&](bool with_const = false) {
    X.maxsize = std::max(X.maxsize, m.size());
    if (m.size() == N)
      X.crossed = true; // filled to the bound
    fsbag_check<B, T, N>(*b, m, with_const);
    reg_check<T>(m.size());
  };
  // known finding: the concurrent pop destroys slot `top` instead of `top-1`
  // (only observable with a non-trivial destructor)
  auto pop_refused = [&]() { return Conc && E::tracked && !m.empty() && shape_refused(K_CFSBAG_POP); };
  X.op = "prefill";
  for (int64_t i = 0; i < c[F_PREFILL] && m.size() < N; ++i) {
    T t = E::make(i + 1);
    b->push_back(t);
    m.push_back(i + 1);
  }
  after();
  size_t nops = std::min<size_t>(c.f.size() - F_COUNT, MAX_OPS);
  for (size_t s = 0; s < nops; ++s) {
    Op o   = decode(c.f[F_COUNT + s], (int)s);
    int k  = o.kind % 12;
    X.step = (int)s;
    X.op   = FSBAG_OPS[k];
    ++X.n_ops;
    int64_t v = value_for((int)s);
    bool full = m.size() == N;
    switch (k) {
    case 0:
    case 1:
    case 4: {
      bool back = k == 0 || (k == 4 && !(o.var & 1));
      tr("%s_%s(%lld)%s", k == 4 ? "emplace" : "push", back ? "back" : "front", (long long)v, full ? " [full]" : "");
      T* p;
      if (k == 4)
        p = FsBagOps<B, T, Conc>::emplace(*b, back, v);
      else if ((o.var & 1) || Conc) {
        T t = E::make(v);
        p   = back ? b->push_back(t) : b->push_front(t);
      } else
        p = back ? b->push_back(E::make(v)) : b->push_front(E::make(v));
      CK((p != nullptr) == !full, "push-ret", "push on a bag holding %zu of %u returned %s", m.size(), N, p ? "a pointer" : "null");
      if (full) {
        ++X.n_refused;
        break;
      }
      CK(E::val(*p) == v, "push-ret", "push(%lld) returned a pointer to %lld", (long long)v, (long long)E::val(*p));
      m.push_back(v);
      break;
    }
    case 2:
    case 3: {
      if (pop_refused())
        break;
      tr("pop_%s%s", k == 2 ? "back" : "front", m.empty() ? " [empty]" : "");
      bool ok = k == 2 ? b->pop_back() : b->pop_front();
      CK(ok == !m.empty(), "pop-ret", "pop on a bag holding %zu elements returned %d", m.size(), (int)ok);
      if (!m.empty()) {
        m.pop_back();
        ++X.removals;
      }
      break;
    }
    case 5: {
      if (Conc) { // front() + pop_front() is what a client of the concurrent variant writes
        if (m.empty() || pop_refused())
          break;
        tr("front() + pop_front()");
        int64_t got = E::val(b->front());
        bool ok     = b->pop_front();
        CK(ok && got == m.back(), "extract", "front()+pop_front() gave %lld/%d, model %lld", (long long)got, (int)ok, (long long)m.back());
        m.pop_back();
        ++X.removals;
        break;
      }
      bool back = !(o.var & 1);
      tr("extract_%s%s", back ? "back" : "front", m.empty() ? " [empty]" : "");
      int64_t got = 0;
      bool has    = FsBagOps<B, T, Conc>::extract(*b, back, got);
      CK(has == !m.empty(), "extract", "extract on a bag holding %zu elements returned %s", m.size(), has ? "a value" : "nothing");
      if (has) {
        CK(got == m.back(), "extract", "extract returned %lld, model %lld", (long long)got, (long long)m.back());
        m.pop_back();
        ++X.removals;
      }
      break;
    }
    case 6:
      tr("clear");
      if (!m.empty())
        ++X.removals;
      b->clear();
      m.clear();
      break;
    case 7:
      if (m.empty())
        break;
      tr("front() = %lld", (long long)v);
      if (o.var & 1)
        b->front() = E::make(v);
      else
        b->back() = E::make(v);
      m.back() = v;
      break;
    case 8:
      tr("const access");
      after(true);
      continue;
    case 9: {
      tr("rebuild from a range of %zu", m.size());
      std::vector<T> vals;
      vals.reserve(m.size());
      for (auto x : m)
        vals.push_back(E::make(x));
      b.reset(new B(vals.begin(), vals.end()));
      if (E::tracked) {
        if (R.bad)
          failv(R.key, "%s", R.msg);
        CK(R.live.size() == 2 * m.size(), "live-count", "range constructor from %zu elements left %zu element objects alive (expected %zu)",
           m.size(), R.live.size(), 2 * m.size());
      }
      break;
    }
    case 10: {
      size_t n = 1 + (size_t)o.a % (N + 1);
      tr("push %zu", n);
      for (size_t i = 0; i < n; ++i) {
        T t  = E::make(value_for((int)s, (int)i));
        T* p = b->push_back(t);
        CK((p != nullptr) == (m.size() < N), "push-ret", "push on a bag holding %zu of %u returned %s", m.size(), N, p ? "a pointer" : "null");
        if (p)
          m.push_back(value_for((int)s, (int)i));
        else
          ++X.n_refused;
      }
      break;
    }
    default: {
      size_t n = std::min<size_t>(m.size(), 1 + (size_t)o.a % (N + 1));
      if (n == 0 || pop_refused())
        break;
      tr("pop %zu", n);
      for (size_t i = 0; i < n; ++i) {
        bool ok = b->pop_front();
        CK(ok, "pop-ret", "pop on a bag holding %zu elements returned false", m.size());
        m.pop_back();
        ++X.removals;
      }
    }
    }
    after();
  }
  X.step = (int)nops;
  X.op   = "final";
  after(true);
  X.op = "destroy";
  b.reset();
  reg_final<T>();
}

// =========================================== gslist / concurrent_gslist
// model: a stack (std::forward_list with push_front/pop_front).  gslist must
// iterate in list order; the concurrent variant documents an unspecified
// iteration order (multiset comparison).
// kinds: 0 push_front 1 emplace_front 2 pop_front(heap) 3 pop_front(promise)
//        4 clear(heap) 5 clear(promise) 6 move ctor/assign 7 const access
//        8 write through front() 9 push many 10 pop many 11.. = kind % 11
static const char* GSLIST_OPS[] = {"push_front", "emplace_front", "pop_front", "pop_front_promise", "clear", "clear_promise",
                                   "move",       "const",         "write",     "push_many",         "pop_many"};

template <class L, class T, bool Conc>
struct GslistOps {
  template <class H>
  static void emplace(L& l, H& h, int64_t v) {
    l.emplace_front(h, v);
  }
};
template <class L, class T>
struct GslistOps<L, T, true> {
  template <class H>
  static void emplace(L& l, H& h, int64_t v) {
    T t = El<T>::make(v);
    l.push_front(h, t);
  }
};

// model of the block structure (front block last); only used to recognise the
// known-finding shapes, never for the verdict
struct BlockModel {
  std::vector<unsigned> blocks;
  unsigned N;
  void push() {
    if (blocks.empty() || blocks.back() == N)
      blocks.push_back(1);
    else
      ++blocks.back();
  }
  void pop() {
    while (!blocks.empty()) {
      if (blocks.back() > 0) {
        --blocks.back();
        return;
      }
      blocks.pop_back();
    }
  }
  bool first_block_empty() const { return !blocks.empty() && blocks.back() == 0; }
};

template <class T, unsigned N, bool Conc>
static void run_gslist(const Case& c) {
  typedef galois::gslist_base<T, (int)N, Conc> L;
  typedef El<T> E;
  typedef typename L::promise_to_dealloc Promise;
  galois::runtime::FixedSizeHeap heap(sizeof(typename L::block_type));
  Held<L> l(new L());
  std::vector<int64_t> m; // back() is the front of the list
  BlockModel bm;
  bm.N = N;
  auto check = [&](bool with_const) {
    CK(l->empty() == m.empty(), "empty", "empty() = %d, model size %zu %s", (int)l->empty(), m.size(), show(m).c_str());
    std::vector<int64_t> want(m.rbegin(), m.rend());
    auto fw = collect_bounded<typename L::iterator, T>(l->begin(), l->end(), m.size(), "fwd-long", "forward traversal");
    if (Conc)
      CK(same_multiset(fw, want), "fwd", "traversal yields %s, model (as multiset) %s", show(fw).c_str(), show(want).c_str());
    else
      CK(fw == want, "fwd", "traversal yields %s, model %s", show(fw).c_str(), show(want).c_str());
    // known finding: front() looks into the first block even when a pop
    // emptied it and the elements are in the following blocks
    bool front_ok = !m.empty();
    if (front_ok && bm.first_block_empty() && shape_refused(K_GSLIST_FRONT))
      front_ok = false;
    if (front_ok) {
      if (bm.blocks.size() > 1)
        note(bm.blocks.back() == N ? "gslist_front_multiblock_first_full" : "gslist_front_multiblock_first_partial");
      int64_t f = E::val(l->front());
      CK(f == m.back(), "front", "front() = %lld, model %lld %s", (long long)f, (long long)m.back(), show(want).c_str());
    }
    if (with_const) {
      const L& cl = *l;
      CK(cl.empty() == m.empty(), "const-empty", "const empty() = %d, model size %zu", (int)cl.empty(), m.size());
      auto cf = collect_bounded<typename L::const_iterator, T>(cl.begin(), cl.end(), m.size(), "const-fwd-long", "const traversal");
      CK(cf == fw, "const-fwd", "const traversal %s differs from the non-const one %s", show(cf).c_str(), show(fw).c_str());
      if (front_ok) {
        int64_t f = E::val(cl.front());
        CK(f == m.back(), "const-front", "const front() = %lld, model %lld", (long long)f, (long long)m.back());
      }
    }
  };
  auto after = [&](bool with_const = false) {
    X.maxsize = std::max(X.maxsize, m.size());
    if (m.size() > N)
      X.crossed = true;
    check(with_const);
    reg_check<T>(m.size());
  };
  // known finding inherited from the concurrent fixed-size bag (block type of
  // the concurrent list): its pop destroys the wrong slot
  auto pop_refused = [&]() { return Conc && E::tracked && !m.empty() && shape_refused(K_CFSBAG_POP); };
  auto push = [&](int64_t v, bool lvalue) {
    if (lvalue || Conc) {
      T t = E::make(v);
      l->push_front(heap, t);
    } else
      l->push_front(heap, E::make(v));
    m.push_back(v);
    bm.push();
  };
  X.op = "prefill";
  for (int64_t i = 0; i < c[F_PREFILL]; ++i)
    push(i + 1, false);
  after();
  size_t nops = std::min<size_t>(c.f.size() - F_COUNT, MAX_OPS);
  for (size_t s = 0; s < nops; ++s) {
    Op o   = decode(c.f[F_COUNT + s], (int)s);
    int k  = o.kind % 11;
    X.step = (int)s;
    X.op   = GSLIST_OPS[k];
    ++X.n_ops;
    int64_t v = value_for((int)s);
    switch (k) {
    case 0:
      tr("push_front(%lld)%s", (long long)v, (o.var & 1) ? " lvalue" : "");
      push(v, o.var & 1);
      break;
    case 1:
      tr("emplace_front(%lld)", (long long)v);
      GslistOps<L, T, Conc>::emplace(*l, heap, v);
      m.push_back(v);
      bm.push();
      break;
    case 2:
    case 3: {
      if (pop_refused())
        break;
      tr("pop_front(%s)%s", k == 2 ? "heap" : "promise_to_dealloc", m.empty() ? " [empty]" : "");
      bool ok = k == 2 ? l->pop_front(heap) : l->pop_front(Promise());
      CK(ok == !m.empty(), "pop-ret", "pop_front on a list holding %zu elements returned %d", m.size(), (int)ok);
      bm.pop();
      if (!m.empty()) {
        m.pop_back();
        ++X.removals;
      }
      break;
    }
    case 4:
    case 5:
      tr("clear(%s)", k == 4 ? "heap" : "promise_to_dealloc");
      if (!m.empty())
        ++X.removals;
      if (k == 4)
        l->clear(heap);
      else
        l->clear(Promise());
      m.clear();
      bm.blocks.clear();
      break;
    case 6: {
      ++X.n_moves;
      if (o.var & 1) {
        tr("move construct");
        Held<L> n(new L(std::move(*l)));
        // moved-from: valid but unspecified; must be clearable and reusable
        l->clear(heap);
        CK(l->empty(), "moved-from", "moved-from list is not empty after clear()");
        {
          T t = E::make(7);
          l->push_front(heap, t);
        }
        CK(!l->empty() && E::val(l->front()) == 7, "moved-from", "moved-from list unusable after clear()+push_front");
        l->clear(heap);
        l = std::move(n);
      } else {
        int pre = (int)((o.var >> 1) & 3);
        tr("move assign into a list holding %d elements", pre);
        Held<L> n(new L());
        for (int i = 0; i < pre; ++i) {
          T t = E::make(900 + i);
          n->push_front(heap, t);
        }
        *n = std::move(*l);
        l->clear(heap); // whatever the moved-from list holds now
        l = std::move(n);
      }
      break;
    }
    case 7:
      tr("const access");
      after(true);
      continue;
    case 8:
      if (m.empty() || (bm.first_block_empty() && shape_refused(K_GSLIST_FRONT)))
        break;
      tr("front() = %lld", (long long)v);
      l->front() = E::make(v);
      m.back()   = v;
      break;
    case 9: {
      size_t n = 1 + (size_t)o.a % (N + 1);
      tr("push %zu", n);
      for (size_t i = 0; i < n; ++i)
        push(value_for((int)s, (int)i), false);
      break;
    }
    default: {
      size_t n = std::min<size_t>(m.size(), 1 + (size_t)o.a % (N + 1));
      if (n == 0 || pop_refused())
        break;
      tr("pop %zu", n);
      for (size_t i = 0; i < n; ++i) {
        bool ok = (o.var & 1) ? l->pop_front(heap) : l->pop_front(Promise());
        CK(ok, "pop-ret", "pop_front on a list holding %zu elements returned false", m.size());
        bm.pop();
        m.pop_back();
        ++X.removals;
      }
    }
    }
    after();
  }
  X.step = (int)nops;
  X.op   = "final";
  after(true);
  X.op = "destroy";
  if (nops & 1)
    l->clear(heap);
  l.reset(); // the destructor destroys the remaining elements (memory stays with the caller)
  reg_final<T>();
}

// ============================================================ InsertBag
// "Unordered collection": contents compared as a multiset; pop() removes the
// last element pushed by this thread, or throws std::out_of_range ("the
// number of consecutive pops supported is implementation dependent").
// kinds: 0 push 1 push_back 2 emplace/emplace_back 3 pop 4 clear
//        5 clear_serial 6 move ctor/assign 7 swap 8 const/local iteration
//        9 push many 10 pop many 11 bulk (page sized blocks only, when
//        a % 64 == 63: push more than one page of elements, pop, check, clear;
//        otherwise a push) 12.. = kind % 12
static const char* IBAG_OPS[] = {"push", "push_back", "emplace", "pop", "clear", "clear_serial", "move", "swap", "const", "push_many", "pop_many", "bulk"};

template <class T>
struct BagModel {
  std::vector<int64_t> m;
  // block structure seen through the addresses push returns (only used to
  // recognise the known-finding shape and for the non-triviality label)
  const T* last_end = nullptr; // one past the most recent element
  size_t in_last    = 0;       // elements in the block that receives pushes
  size_t blocks     = 0;
  void pushed(const T* p) {
    if (blocks > 0 && p == last_end)
      ++in_last;
    else {
      ++blocks;
      in_last = 1;
    }
    last_end = p + 1;
  }
  void popped() {
    --in_last;
    --last_end;
  }
  void cleared() {
    m.clear();
    last_end = nullptr;
    in_last = blocks = 0;
  }
};

template <class B, class T>
static void ibag_check(B& b, const BagModel<T>& bm, bool with_const) {
  const std::vector<int64_t>& m = bm.m;
  auto fw = collect_bounded<typename B::iterator, T>(b.begin(), b.end(), m.size(), "fwd-long", "traversal");
  CK(same_multiset(fw, m), "fwd", "traversal yields %s, model (as multiset) %s", show(fw).c_str(), show(m).c_str());
  CK(b.empty() == m.empty(), "empty", "empty() = %d, model size %zu %s", (int)b.empty(), m.size(), show(m).c_str());
  if (with_const) {
    const B& cb = b;
    // (InsertBag::begin() const / end() const do not compile -- they pass a
    // pointer to the const per-thread heads to a constructor taking a
    // non-const one -- so const traversal cannot be part of the harness)
    // the calling thread pushed everything: its local range is the whole bag
    auto lf = collect_bounded<typename B::local_iterator, T>(b.local_begin(), b.local_end(), m.size(), "local-long", "local traversal");
    CK(lf == fw, "local", "local_begin()..local_end() yields %s, the whole bag is %s", show(lf).c_str(), show(fw).c_str());
    CK(cb.empty() == m.empty(), "const-empty", "const empty() = %d, model size %zu", (int)cb.empty(), m.size());
  }
}

template <class T, unsigned BS>
static void run_insertbag(const Case& c) {
  typedef galois::InsertBag<T, BS> B;
  typedef El<T> E;
  galois::setActiveThreads((unsigned)c[F_THREADS]);
  Held<B> b(new B());
  BagModel<T> bm;
  auto after = [&](bool with_const = false) {
    X.maxsize = std::max(X.maxsize, bm.m.size());
    if (bm.blocks > 1)
      X.crossed = true;
    ibag_check<B, T>(*b, bm, with_const);
    reg_check<T>(bm.m.size());
  };
  auto push = [&](B& bag, BagModel<T>& mod, int64_t v, int how) {
    T* p;
    switch (how & 7) {
    case 0:
      p = &bag.push(E::make(v));
      break;
    case 1: {
      T t = E::make(v);
      p   = &bag.push(t);
      break;
    }
    case 2:
      p = &bag.push_back(E::make(v));
      break;
    case 3: {
      T t = E::make(v);
      p   = &bag.push_back(t);
      break;
    }
    case 4:
    case 5:
      p = &bag.emplace(v);
      break;
    default:
      p = &bag.emplace_back(v);
    }
    CK(E::val(*p) == v, "push-ret", "push(%lld) returned a reference to %lld", (long long)v, (long long)E::val(*p));
    mod.m.push_back(v);
    mod.pushed(p);
  };
  // returns false when the pop was refused (known finding excluded)
  auto pop = [&](B& bag, BagModel<T>& mod) {
    // known finding: a pop that empties the block leaves the empty block in
    // the chain; iteration and empty() do not expect it
    if (mod.in_last == 1 && shape_refused(K_BAG_POP))
      return false;
    bool threw = false;
    try {
      bag.pop();
    } catch (const std::out_of_range&) {
      threw = true; // allowed: implementation dependent number of pops
    }
    tr("   pop%s (block held %zu)", threw ? " threw out_of_range" : "", mod.in_last);
    note(threw ? "ibag_pop_threw" : mod.blocks > 1 ? "ibag_pop_ok_multiblock" : "ibag_pop_ok");
    if (!threw) {
      mod.m.pop_back();
      if (mod.in_last > 0)
        mod.popped();
      else
        mod.last_end = nullptr; // popped out of an earlier block: structure unknown from here
      ++X.removals;
    }
    return true;
  };
  bool bulk_done = false;
  X.op           = "prefill";
  for (int64_t i = 0; i < c[F_PREFILL]; ++i)
    push(*b, bm, i + 1, 0);
  after();
  size_t nops = std::min<size_t>(c.f.size() - F_COUNT, MAX_OPS);
  for (size_t s = 0; s < nops; ++s) {
    Op o   = decode(c.f[F_COUNT + s], (int)s);
    int k  = o.kind % 12;
    if (k == 11 && (BS != 0 || o.a % 64 != 63 || bulk_done))
      k = 0;
    X.step = (int)s;
    X.op   = IBAG_OPS[k];
    ++X.n_ops;
    int64_t v = value_for((int)s);
    switch (k) {
    case 0:
      tr("push(%lld)", (long long)v);
      push(*b, bm, v, (int)(o.var & 1));
      break;
    case 1:
      tr("push_back(%lld)", (long long)v);
      push(*b, bm, v, 2 + (int)(o.var & 1));
      break;
    case 2:
      tr("emplace(%lld)", (long long)v);
      push(*b, bm, v, 4 + (int)(o.var & 3));
      break;
    case 3:
      if (bm.m.empty())
        break; // precondition: this thread pushed something
      tr("pop");
      pop(*b, bm);
      break;
    case 4:
    case 5:
      tr("%s", k == 4 ? "clear" : "clear_serial");
      if (!bm.m.empty())
        ++X.removals;
      if (k == 4)
        b->clear();
      else
        b->clear_serial();
      bm.cleared();
      break;
    case 6: {
      ++X.n_moves;
      if (o.var & 1) {
        tr("move construct");
        Held<B> n(new B(std::move(*b)));
        b->clear(); // moved-from: valid but unspecified
        CK(b->empty() && b->begin() == b->end(), "moved-from", "moved-from bag is not empty after clear()");
        {
          BagModel<T> tmp;
          push(*b, tmp, 7, 0);
          auto fw = collect_bounded<typename B::iterator, T>(b->begin(), b->end(), 1, "moved-from", "traversal of the reused moved-from bag");
          CK(fw.size() == 1 && fw[0] == 7, "moved-from", "moved-from bag unusable after clear()+push");
        }
        b = std::move(n);
      } else {
        int pre = (int)((o.var >> 1) & 3);
        tr("move assign into a bag holding %d elements", pre);
        Held<B> n(new B());
        BagModel<T> tmp;
        for (int i = 0; i < pre; ++i)
          push(*n, tmp, 900 + i, 0);
        *n = std::move(*b);
        b  = std::move(n);
      }
      break;
    }
    case 7: {
      int pre   = (int)((o.var >> 1) & 7);
      bool keep = o.var & 1;
      tr("swap with a bag holding %d elements%s", pre, keep ? "" : " and swap back");
      Held<B> oh(new B());
      B& other = *oh;
      BagModel<T> om;
      for (int i = 0; i < pre; ++i)
        push(other, om, value_for((int)s, i), 0);
      b->swap(other);
      ibag_check<B, T>(*b, om, false);
      ibag_check<B, T>(other, bm, false);
      if (keep) {
        std::swap(bm, om);
        if (!om.m.empty())
          ++X.removals; // the previous contents are destroyed with `other`
      } else
        other.swap(*b);
      break; // `other` is destroyed with what it holds now
    }
    case 8:
      tr("const/local traversal");
      after(true);
      continue;
    case 9: {
      size_t n = 1 + (size_t)o.a % 12;
      tr("push %zu", n);
      for (size_t i = 0; i < n; ++i)
        push(*b, bm, value_for((int)s, (int)i), (int)(o.var + i));
      break;
    }
    case 11: {
      // page sized blocks: cross a block boundary once per case
      bulk_done = true;
      size_t n  = galois::runtime::pagePoolSize() / sizeof(T) + 16;
      tr("bulk: push %zu, pop 3, traverse, clear", n);
      for (size_t i = 0; i < n; ++i)
        push(*b, bm, (int64_t)(i % 100000) + 1000000, (int)(i & 7));
      CK(bm.blocks > 1, "bulk-blocks", "%zu elements went into %zu block(s) of %zu bytes", bm.m.size(), bm.blocks, (size_t)galois::runtime::pagePoolSize());
      for (int i = 0; i < 3; ++i)
        pop(*b, bm);
      after();
      b->clear();
      bm.cleared();
      break;
    }
    default: {
      size_t n = std::min<size_t>(bm.m.size(), 1 + (size_t)o.a % 12);
      tr("pop up to %zu", n);
      for (size_t i = 0; i < n; ++i) {
        size_t before = bm.m.size();
        if (!pop(*b, bm) || bm.m.size() == before)
          break; // refused or threw: stop
      }
    }
    }
    after();
  }
  X.step = (int)nops;
  X.op   = "final";
  after(true);
  X.op = "destroy";
  b.reset();
  reg_final<T>();
}

// ================================================================ driver
static int nchunks(int cont) { return (int)CHUNKS[cont].size(); }

void normalize_case(Case& c) {
  if (c.f.size() < (size_t)F_COUNT)
    c.f.resize(F_COUNT, 0);
  auto mod = [](int64_t v, int64_t n) { return (int64_t)((uint64_t)v % (uint64_t)n); };
  c[F_CONT]    = mod(c[F_CONT], NCONT);
  c[F_CHUNK]   = mod(c[F_CHUNK], nchunks((int)c[F_CONT]));
  c[F_ELEM]    = mod(c[F_ELEM], 4);
  if (c[F_CONT] != C_INSERTBAG)
    c[F_ELEM] = mod(c[F_ELEM], 2); // 12- and 24-byte elements only for InsertBag
  // implicit precondition: a block must hold its 32-byte header and at least one element slot behind it;
  // 64-byte blocks of 24-byte elements have no slot at all (every push would write past the block)
  if (c[F_CONT] == C_INSERTBAG && c[F_ELEM] == 3 && CHUNKS[C_INSERTBAG][mod(c[F_CHUNK], (int64_t)CHUNKS[C_INSERTBAG].size())] == 64)
    c[F_ELEM] = 2;
  c[F_THREADS] = c[F_CONT] == C_INSERTBAG ? 1 + mod(c[F_THREADS] - 1, 3) : 1;
  c[F_PREFILL] = mod(c[F_PREFILL], MAX_PREFILL + 1);
}

// op kind weights per family (index = kind)
static const std::vector<int> WEIGHTS[NCONT] = {
    /* gdeque   */ {8, 6, 4, 4, 9, 2, 1, 1, 1, 1, 2, 2},
    /* ring     */ {7, 6, 4, 4, 8, 2, 1, 2, 1, 1, 1, 1, 2},
    /* fsbag    */ {7, 5, 4, 4, 2, 2, 1, 1, 1, 1, 2, 2},
    /* cfsbag   */ {7, 5, 4, 4, 2, 2, 1, 1, 1, 1, 2, 2},
    /* gslist   */ {8, 3, 4, 3, 1, 1, 1, 1, 1, 2, 2},
    /* cgslist  */ {8, 3, 4, 3, 1, 1, 1, 1, 1, 2, 2},
    /* insertbag*/ {6, 3, 3, 6, 1, 1, 1, 1, 1, 2, 2, 1}};

Case generate() {
  using namespace rc;
  Case c;
  c.f.assign(F_COUNT, 0);
  int cont     = *gen::weightedElement<int>({{6, C_GDEQUE}, {5, C_RING}, {2, C_FSBAG}, {2, C_CFSBAG}, {3, C_GSLIST}, {3, C_CGSLIST}, {4, C_INSERTBAG}});
  c[F_CONT]    = cont;
  c[F_CHUNK]   = *uni(0, nchunks(cont));
  c[F_ELEM]    = cont == C_INSERTBAG ? *uni(0, 4) : *uni(0, 2);
  c[F_THREADS] = cont == C_INSERTBAG ? *uni(1, 4) : 1;
  int chunk    = CHUNKS[cont][c[F_CHUNK]];
  // prefill: none, or around one / two chunk boundaries
  int bound = chunk;
  if (cont == C_INSERTBAG) // elements per block: BlockSize / sizeof(T) minus the header slots
    bound = chunk == 0 ? 12 : c[F_ELEM] == 3 ? chunk / 24 - 2 : c[F_ELEM] == 2 ? chunk / 12 - 3 : c[F_ELEM] ? chunk / 8 - 5 : chunk / 4 - 9;
  switch (*gen::weightedElement<int>({{4, 0}, {3, 1}, {2, 2}})) {
  case 0:
    c[F_PREFILL] = 0;
    break;
  case 1:
    c[F_PREFILL] = std::min<int64_t>(MAX_PREFILL, *uni<int64_t>(0, bound + 3));
    break;
  default:
    c[F_PREFILL] = std::min<int64_t>(MAX_PREFILL, *uni<int64_t>(bound, 2 * bound + 3));
  }
  std::vector<int> table; // kind by cumulative weight; index 0 (shrink target) is kind 0
  for (size_t k = 0; k < WEIGHTS[cont].size(); ++k)
    table.insert(table.end(), WEIGHTS[cont][k], (int)k);
  auto kindgen = gen::map(uni<int>(0, (int)table.size()), [table](int i) { return table[i]; });
  // known finding without state: the const reverse iterators of the ring
  bool no_crev = cont == C_RING && excluded(K_RING_CREV);
  auto opgen   = gen::map(gen::tuple(kindgen, gen::inRange<int64_t>(0, 1024), uni<int64_t>(0, 8)),
                        [](const std::tuple<int, int64_t, int64_t>& t) { return (int64_t)std::get<0>(t) + 16 * (std::get<1>(t) + 1024 * std::get<2>(t)); });
  std::vector<int64_t> ops = *gen::scale(3.0, gen::container<std::vector<int64_t>>(opgen));
  for (auto x : ops) {
    if (no_crev && (x & 15) == 10) {
      count_excluded();
      continue;
    }
    c.f.push_back(x);
  }
  return c;
}

std::string finding_key(const Case& c, const std::string& failkey) {
  if (!failkey.empty() && failkey[0] == '@') // attributed to a known-defect shape by run()
    return failkey.substr(1);
  int cont = c.f.size() > (size_t)F_CONT ? (int)((uint64_t)c[F_CONT] % NCONT) : 0;
  return std::string("C14/") + CONT_NAMES[cont] + "/" + failkey;
}

#define CHUNK_DISPATCH(FN, ...)                                                                                        \
  if (elem == 0)                                                                                                       \
    FN<int, __VA_ARGS__>(c);                                                                                           \
  else                                                                                                                 \
    FN<Tracked, __VA_ARGS__>(c);

static void __attribute__((noinline)) dispatch(const Case& c) {
  int cont = (int)c[F_CONT], chunk = CHUNKS[cont][c[F_CHUNK]], elem = (int)c[F_ELEM];
  switch (cont) {
  case C_GDEQUE:
    switch (chunk) {
    case 1: CHUNK_DISPATCH(run_gdeque, 1) break;
    case 2: CHUNK_DISPATCH(run_gdeque, 2) break;
    case 3: CHUNK_DISPATCH(run_gdeque, 3) break;
    case 4: CHUNK_DISPATCH(run_gdeque, 4) break;
    default: CHUNK_DISPATCH(run_gdeque, 64)
    }
    break;
  case C_RING:
    switch (chunk) {
    case 1: CHUNK_DISPATCH(run_ring, 1) break;
    case 2: CHUNK_DISPATCH(run_ring, 2) break;
    case 3: CHUNK_DISPATCH(run_ring, 3) break;
    case 4: CHUNK_DISPATCH(run_ring, 4) break;
    case 7: CHUNK_DISPATCH(run_ring, 7) break;
    default: CHUNK_DISPATCH(run_ring, 64)
    }
    break;
  case C_FSBAG:
    switch (chunk) {
    case 1: CHUNK_DISPATCH(run_fsbag, 1, false) break;
    case 2: CHUNK_DISPATCH(run_fsbag, 2, false) break;
    case 3: CHUNK_DISPATCH(run_fsbag, 3, false) break;
    default: CHUNK_DISPATCH(run_fsbag, 16, false)
    }
    break;
  case C_CFSBAG:
    switch (chunk) {
    case 1: CHUNK_DISPATCH(run_fsbag, 1, true) break;
    case 2: CHUNK_DISPATCH(run_fsbag, 2, true) break;
    case 3: CHUNK_DISPATCH(run_fsbag, 3, true) break;
    default: CHUNK_DISPATCH(run_fsbag, 16, true)
    }
    break;
  case C_GSLIST:
    switch (chunk) {
    case 1: CHUNK_DISPATCH(run_gslist, 1, false) break;
    case 2: CHUNK_DISPATCH(run_gslist, 2, false) break;
    case 3: CHUNK_DISPATCH(run_gslist, 3, false) break;
    default: CHUNK_DISPATCH(run_gslist, 16, false)
    }
    break;
  case C_CGSLIST:
    switch (chunk) {
    case 1: CHUNK_DISPATCH(run_gslist, 1, true) break;
    case 2: CHUNK_DISPATCH(run_gslist, 2, true) break;
    case 3: CHUNK_DISPATCH(run_gslist, 3, true) break;
    default: CHUNK_DISPATCH(run_gslist, 16, true)
    }
    break;
  default:
#define IBAG_DISPATCH(BS)                                                                                              \
  if (elem == 0)                                                                                                       \
    run_insertbag<int, BS>(c);                                                                                         \
  else if (elem == 1)                                                                                                  \
    run_insertbag<Tracked, BS>(c);                                                                                     \
  else if (elem == 2)                                                                                                  \
    run_insertbag<E12, BS>(c);                                                                                         \
  else                                                                                                                 \
    run_insertbag<E24, BS>(c);
    switch (chunk) {
    case 0: IBAG_DISPATCH(0) break;
    case 64: IBAG_DISPATCH(64) break;
    case 128: IBAG_DISPATCH(128) break;
    default: IBAG_DISPATCH(256)
    }
  }
}

void run(const Case& c0) {
  Case c = c0;
  normalize_case(c);
  X         = Ctx();
  X.subject = CONT_NAMES[c[F_CONT]];
  X.chunk   = CHUNKS[c[F_CONT]][c[F_CHUNK]];
  X.elem    = (int)c[F_ELEM];
  X.trace   = getenv("VERIF_TRACE") != nullptr;
  R.reset();
  if (X.trace)
    fprintf(stderr, "case: %s<%s,%d> prefill %lld threads %lld, %zu ops\n", X.subject, X.elem ? "Tracked" : "int", X.chunk, (long long)c[F_PREFILL],
            (long long)c[F_THREADS], c.f.size() - F_COUNT);
  if (setjmp(g_jb)) // an assert() inside Galois failed during the case
    failv("assert", "%s", g_assert_msg);
  g_jb_armed = true;
  dispatch(c);
  g_jb_armed = false;
  set_labels();
  vok();
}

} // namespace verif

VERIF_INPROC_MAIN(galois::SharedMemSys G)
