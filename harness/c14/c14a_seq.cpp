// C14a -- Galois sequential containers behave like their standard
// counterparts: gdeque, FixedSizeRing, FixedSizeBag, ConcurrentFixedSizeBag,
// gslist, concurrent_gslist, InsertBag (single-threaded use).
// In-process rapidcheck; the same file is built as a libFuzzer target by the
// adapter in verif_e1.h.  DESIGN.md 4/C14.
//
// Case = named fields + a tail of operations, one value per operation:
//   kind = x & 15, arg = x >> 4, position field a = arg % 1024,
//   variant field var = arg / 1024 + step
// The meaning of the kinds depends on the container family (tables below).
// VERIF_TRACE=1 prints the decoded operation sequence to stderr.
#include "verif_e1.h"

#include "galois/Galois.h"
#include "galois/Bag.h"
#include "galois/FixedSizeRing.h"
#include "galois/gdeque.h"
#include "galois/gslist.h"
#include "galois/runtime/Mem.h"

#include <csetjmp>
#include <deque>
#include <memory>
#include <unordered_set>

using namespace verif;

// sanitizer reports must end in SIGABRT so that the in-process driver saves
// the running case; pool memory is never returned, leak checking is useless
extern "C" __attribute__((no_sanitize("address", "undefined"), used, visibility("default"))) const char*
__asan_default_options() {
  return "abort_on_error=1:detect_leaks=0";
}
extern "C" __attribute__((no_sanitize("address", "undefined"), used, visibility("default"))) const char*
__ubsan_default_options() {
  return "abort_on_error=1";
}

// ---- assertion capture: an assert() failing inside Galois while a case runs
// becomes a FAIL verdict (and can be shrunk) instead of killing the process
static jmp_buf g_jb;
static volatile bool g_jb_armed = false;
static char g_assert_msg[400];
extern "C" void __assert_fail(const char* expr, const char* file, unsigned int line, const char* func) noexcept(true)
    __attribute__((__noreturn__));
extern "C" void __assert_fail(const char* expr, const char* file, unsigned int line, const char* func) noexcept(true) {
  if (g_jb_armed) {
    const char* base = strrchr(file, '/');
    snprintf(g_assert_msg, sizeof g_assert_msg, "assertion '%s' failed at %s:%u", expr, base ? base + 1 : file, line);
    g_jb_armed = false;
    longjmp(g_jb, 1);
  }
  fprintf(stderr, "%s:%u: %s: Assertion `%s' failed.\n", file, line, func, expr);
  abort();
}

namespace verif {
const char* const HARNESS = "c14a";
enum { F_CONT = 0, F_CHUNK, F_ELEM, F_THREADS, F_PREFILL, F_COUNT };
const std::vector<const char*> FIELDS = {"cont", "chunk", "elem", "threads", "prefill"};

enum { C_GDEQUE = 0, C_RING, C_FSBAG, C_CFSBAG, C_GSLIST, C_CGSLIST, C_INSERTBAG, NCONT };
static const char* CONT_NAMES[] = {"gdeque",           "FixedSizeRing", "FixedSizeBag", "ConcurrentFixedSizeBag", "gslist",
                                   "concurrent_gslist", "InsertBag"};
// chunk sizes (InsertBag: block size in bytes, 0 = page sized blocks)
static const std::vector<int> CHUNKS[NCONT] = {{1, 2, 3, 4, 64}, {1, 2, 3, 4, 7, 64}, {1, 2, 3, 16}, {1, 2, 3, 16},
                                               {1, 2, 3, 16},    {1, 2, 3, 16},       {0, 64, 128}};
constexpr int MAX_OPS     = 400;
constexpr int MAX_PREFILL = 140;

// known findings (exclusion keys == finding keys)
static const char* const K_GDEQUE_EMPLACE = "C14/gdeque/emplace-full-nonlast-block";
static const char* const K_CFSBAG_POP     = "C14/ConcurrentFixedSizeBag/pop-destroys-wrong-slot";
static const char* const K_BAG_POP        = "C14/InsertBag/pop-empties-block";
static const char* const K_GSLIST_FRONT   = "C14/gslist/front-on-emptied-first-block";
static const char* const K_RING_CREV      = "C14/FixedSizeRing/const-reverse-iterators";

// ------------------------------------------------------------- run context
struct Ctx {
  std::string shape; // known-defect operation shape executed in this case
  const char* subject = "";
  int chunk = 0, elem = 0;
  int step        = -1;
  const char* op  = "";
  size_t maxsize  = 0;
  long removals   = 0;
  bool crossed    = false; // block/chunk boundary crossed (family specific)
  long n_shape    = 0;     // executions of a known-defect shape
  long n_emplmid  = 0;     // emplace strictly inside
  long n_refused  = 0;     // insert into a full bounded container
  long n_moves    = 0;
  long n_ops      = 0;
  bool trace      = false;
};
static Ctx X;

static void set_labels() {
  label("cont", X.subject);
  label("chunk", (long)X.chunk);
  label("elem", X.elem ? "Tracked" : "int");
  label("ops", X.n_ops == 0 ? "0" : X.n_ops < 10 ? "1-9" : X.n_ops < 50 ? "10-49" : X.n_ops < 150 ? "50-149" : "150+");
  label("crossed", (long)X.crossed);
  label("removal", (long)(X.removals > 0));
  label("known_shape", (long)(X.n_shape > 0));
  label("emplace_mid", (long)(X.n_emplmid > 0));
  label("refused_full", (long)(X.n_refused > 0));
  label("moved", (long)(X.n_moves > 0));
  nontrivial(X.crossed && X.removals > 0);
}

[[noreturn]] static void failv(const char* raw, const char* fmt, ...) __attribute__((format(printf, 2, 3)));
[[noreturn]] static void failv(const char* raw, const char* fmt, ...) {
  g_jb_armed = false;
  char buf[600];
  va_list ap;
  va_start(ap, fmt);
  vsnprintf(buf, sizeof buf, fmt, ap);
  va_end(ap);
  char msg[900];
  snprintf(msg, sizeof msg, "%s<%s,%d> after op #%d (%s): %s%s%s%s", X.subject, X.elem ? "Tracked" : "int", X.chunk, X.step, X.op, buf,
           X.shape.empty() ? "" : " [check ", X.shape.empty() ? "" : raw, X.shape.empty() ? "" : "]");
  set_labels();
  // a failure after a known-defect shape was executed is attributed to it
  std::string key = X.shape.empty() ? std::string(raw) : "@" + X.shape;
  vfinish("FAIL", key, msg);
}
#define CK(cond, key, ...)                                                                                             \
  do {                                                                                                                 \
    if (!(cond))                                                                                                       \
      failv(key, __VA_ARGS__);                                                                                         \
  } while (0)

static void tr(const char* fmt, ...) __attribute__((format(printf, 1, 2)));
static void tr(const char* fmt, ...) {
  if (!X.trace)
    return;
  va_list ap;
  va_start(ap, fmt);
  fprintf(stderr, "  #%d ", X.step);
  vfprintf(stderr, fmt, ap);
  fprintf(stderr, "\n");
  va_end(ap);
}

// the decoder meets a known-finding shape: refuse it when the key is excluded,
// otherwise remember it for attribution
static bool shape_refused(const char* key) {
  if (excluded(key)) {
    count_excluded();
    tr("   (refused: excluded shape %s)", key);
    return true;
  }
  if (X.shape.empty())
    X.shape = key;
  ++X.n_shape;
  return false;
}

// ------------------------------------------------- element types
// Address registry: every constructor registers `this`, the destructor
// removes it.  Violations are recorded (a destructor must not throw) and
// turned into a verdict after the operation.
struct Registry {
  std::unordered_set<const void*> live;
  long ctors = 0, dtors = 0, copies = 0, moves = 0;
  bool bad = false;
  char key[40];
  char msg[200];
  void reset() {
    live.clear();
    ctors = dtors = copies = moves = 0;
    bad = false;
  }
  void violation(const char* k, const char* what, const void* p) {
    if (bad)
      return;
    bad = true;
    snprintf(key, sizeof key, "%s", k);
    snprintf(msg, sizeof msg, "%s (address %p; %ld constructions, %ld destructions so far)", what, p, ctors, dtors);
  }
  void born(const void* p) {
    ++ctors;
    if (!live.insert(p).second)
      violation("ctor-on-live", "element constructed on an address that holds a live element (never destroyed)", p);
  }
  bool die(const void* p) {
    ++dtors;
    if (!live.erase(p)) {
      violation("dtor-unregistered", "destructor ran on an address where no element was constructed (or twice)", p);
      return false;
    }
    return true;
  }
  bool is_live(const void* p) const { return live.count(p) != 0; }
};
static Registry R;

struct Tracked {
  static constexpr int64_t DEFAULTED = -7, MOVED = -5, DEAD = -3, UNREG = -999;
  int64_t v;
  Tracked() : v(DEFAULTED) { R.born(this); }
  Tracked(int64_t x) : v(x) { R.born(this); }
  Tracked(const Tracked& o) : v(o.read()) {
    R.born(this);
    ++R.copies;
  }
  Tracked(Tracked&& o) noexcept : v(o.read()) {
    R.born(this);
    ++R.moves;
    o.mark_moved();
  }
  Tracked& operator=(const Tracked& o) {
    int64_t x = o.read();
    if (R.is_live(this))
      v = x;
    else
      R.violation("assign-unregistered", "assignment to an address where no element is alive", this);
    ++R.copies;
    return *this;
  }
  Tracked& operator=(Tracked&& o) noexcept {
    int64_t x = o.read();
    if (R.is_live(this))
      v = x;
    else
      R.violation("assign-unregistered", "assignment to an address where no element is alive", this);
    if (&o != this)
      o.mark_moved();
    ++R.moves;
    return *this;
  }
  ~Tracked() {
    if (R.die(this))
      v = DEAD;
  }
  void mark_moved() {
    if (R.is_live(this))
      v = MOVED;
  }
  // never touches memory of an unregistered address
  int64_t read() const {
    if (!R.is_live(this)) {
      R.violation("read-unregistered", "value read from an address where no element is alive", this);
      return UNREG;
    }
    return v;
  }
};

template <class T>
struct El;
template <>
struct El<int> {
  static constexpr bool tracked = false;
  static int make(int64_t v) { return (int)v; }
  static int64_t val(const int& x) { return x; }
};
template <>
struct El<Tracked> {
  static constexpr bool tracked = true;
  static Tracked make(int64_t v) { return Tracked(v); }
  static int64_t val(const Tracked& x) { return x.read(); }
};

// after every operation: no registry violation, and exactly as many element
// objects alive as the model says the containers hold
template <class T>
static void reg_check(size_t expect_live) {
  if (!El<T>::tracked)
    return;
  if (R.bad)
    failv(R.key, "%s", R.msg);
  CK(R.live.size() == expect_live, "live-count", "%zu element objects are alive but the container(s) hold %zu elements", R.live.size(),
     expect_live);
}
template <class T>
static void reg_final() {
  if (!El<T>::tracked)
    return;
  if (R.bad)
    failv(R.key, "%s", R.msg);
  CK(R.live.empty(), "leak", "%zu element objects still alive after the container was destroyed", R.live.size());
}

struct Op {
  int kind;
  int64_t a;   // position field
  int64_t var; // variant field
};
static Op decode(int64_t x, int step) {
  uint64_t u = (uint64_t)x;
  Op o;
  o.kind       = (int)(u & 15);
  uint64_t arg = (u >> 4) & 0xffffffffULL;
  o.a          = (int64_t)(arg % 1024);
  o.var        = (int64_t)(arg / 1024) + step;
  return o;
}
static inline int64_t value_for(int step, int j = 0) { return (int64_t)(step + 2) * 128 + j; }

static std::string show(const std::deque<int64_t>& m) {
  std::string s = "[";
  for (size_t i = 0; i < m.size() && i < 12; ++i)
    s += (i ? "," : "") + std::to_string(m[i]);
  if (m.size() > 12)
    s += ",..";
  return s + "]";
}
static std::string show(const std::vector<int64_t>& m) { return show(std::deque<int64_t>(m.begin(), m.end())); }

// ================================================================ gdeque
// kinds: 0 push_back 1 push_front 2 pop_back 3 pop_front 4 emplace(pos)
//        5 emplace_back/front 6 clear 7 move ctor/assign 8 write through
//        iterator/front/back 9 const traversal 10 pop many 11 push many
//        12.. = kind % 12
static const char* GDEQUE_OPS[] = {"push_back", "push_front", "pop_back",   "pop_front", "emplace",  "emplace_bf",
                                   "clear",     "move",       "write",      "const",     "pop_many", "push_many"};

template <class D, class T>
static void gdeque_check(D& d, const std::deque<int64_t>& m, bool with_const) {
  typedef El<T> E;
  CK(d.size() == m.size(), "size", "size() = %zu, model %zu %s", (size_t)d.size(), m.size(), show(m).c_str());
  CK(d.empty() == m.empty(), "empty", "empty() = %d, model size %zu", (int)d.empty(), m.size());
  if (!m.empty()) {
    int64_t f = E::val(d.front()), b = E::val(d.back());
    CK(f == m.front(), "front", "front() = %lld, model %lld %s", (long long)f, (long long)m.front(), show(m).c_str());
    CK(b == m.back(), "back", "back() = %lld, model %lld %s", (long long)b, (long long)m.back(), show(m).c_str());
  }
  { // forward
    size_t i = 0;
    for (auto it = d.begin(), e = d.end(); it != e; ++it, ++i) {
      CK(i < m.size(), "fwd-long", "forward traversal yields more than the %zu elements of the model", m.size());
      int64_t v = E::val(*it);
      CK(v == m[i], "fwd", "forward traversal element %zu = %lld, model %lld %s", i, (long long)v, (long long)m[i], show(m).c_str());
    }
    CK(i == m.size(), "fwd-short", "forward traversal yields %zu elements, model %zu", i, m.size());
  }
  { // backward from end()
    size_t i = m.size();
    auto it = d.end(), b = d.begin();
    while (it != b) {
      CK(i > 0, "bwd-long", "backward traversal yields more than the %zu elements of the model", m.size());
      --it;
      --i;
      int64_t v = E::val(*it);
      CK(v == m[i], "bwd", "backward traversal element %zu = %lld, model %lld %s", i, (long long)v, (long long)m[i], show(m).c_str());
    }
    CK(i == 0, "bwd-short", "backward traversal stops %zu elements before the front", i);
  }
  { // reverse iterators
    size_t i = m.size();
    for (auto it = d.rbegin(), e = d.rend(); it != e; ++it) {
      CK(i > 0, "rev-long", "reverse traversal yields more than the %zu elements of the model", m.size());
      --i;
      int64_t v = E::val(*it);
      CK(v == m[i], "rev", "reverse traversal element %zu = %lld, model %lld %s", i, (long long)v, (long long)m[i], show(m).c_str());
    }
    CK(i == 0, "rev-short", "reverse traversal stops %zu elements before the front", i);
  }
  if (with_const) {
    const D& cd = d;
    CK(cd.size() == m.size() && cd.empty() == m.empty(), "const-size", "const size() = %zu, model %zu", (size_t)cd.size(), m.size());
    if (!m.empty())
      CK(E::val(cd.front()) == m.front() && E::val(cd.back()) == m.back(), "const-front-back", "const front()/back() = %lld/%lld, model %lld/%lld",
         (long long)E::val(cd.front()), (long long)E::val(cd.back()), (long long)m.front(), (long long)m.back());
    size_t i = 0;
    for (auto it = cd.begin(), e = cd.end(); it != e; ++it, ++i) {
      CK(i < m.size(), "const-fwd-long", "const forward traversal yields more than %zu elements", m.size());
      CK(E::val(*it) == m[i], "const-fwd", "const forward traversal element %zu = %lld, model %lld", i, (long long)E::val(*it), (long long)m[i]);
    }
    CK(i == m.size(), "const-fwd-short", "const forward traversal yields %zu elements, model %zu", i, m.size());
    i = m.size();
    for (auto it = cd.rbegin(), e = cd.rend(); it != e; ++it) {
      CK(i > 0, "const-rev-long", "const reverse traversal yields more than %zu elements", m.size());
      --i;
      CK(E::val(*it) == m[i], "const-rev", "const reverse traversal element %zu = %lld, model %lld", i, (long long)E::val(*it), (long long)m[i]);
    }
    CK(i == 0, "const-rev-short", "const reverse traversal stops %zu elements before the front", i);
  }
}

template <class T, unsigned N>
static void run_gdeque(const Case& c) {
  typedef galois::gdeque<T, N> D;
  typedef El<T> E;
  std::unique_ptr<D> d(new D());
  std::deque<int64_t> m;
  auto after = [&](bool with_const = false) {
    X.maxsize = std::max(X.maxsize, m.size());
    if (m.size() > N)
      X.crossed = true;
    gdeque_check<D, T>(*d, m, with_const);
    reg_check<T>(m.size());
  };
  X.op = "prefill";
  for (int64_t i = 0; i < c[F_PREFILL]; ++i) {
    d->push_back(E::make(i + 1));
    m.push_back(i + 1);
  }
  after();
  size_t nops = std::min<size_t>(c.f.size() - F_COUNT, MAX_OPS);
  for (size_t s = 0; s < nops; ++s) {
    Op o   = decode(c.f[F_COUNT + s], (int)s);
    int k  = o.kind % 12;
    X.step = (int)s;
    X.op   = GDEQUE_OPS[k];
    ++X.n_ops;
    int64_t v = value_for((int)s);
    switch (k) {
    case 0:
      tr("push_back(%lld)%s", (long long)v, (o.var & 1) ? " lvalue" : "");
      if (o.var & 1) {
        T t = E::make(v);
        d->push_back(t);
      } else
        d->push_back(E::make(v));
      m.push_back(v);
      break;
    case 1:
      tr("push_front(%lld)%s", (long long)v, (o.var & 1) ? " lvalue" : "");
      if (o.var & 1) {
        T t = E::make(v);
        d->push_front(t);
      } else
        d->push_front(E::make(v));
      m.push_front(v);
      break;
    case 2:
      if (m.empty())
        break; // precondition: not empty
      tr("pop_back");
      d->pop_back();
      m.pop_back();
      ++X.removals;
      break;
    case 3:
      if (m.empty())
        break;
      tr("pop_front");
      d->pop_front();
      m.pop_front();
      ++X.removals;
      break;
    case 4: {
      size_t pos = (size_t)o.a % (m.size() + 1);
      int sel    = (int)((o.var >> 1) & 3);
      if (sel == 1)
        pos = 0;
      else if (sel == 2)
        pos = m.size();
      bool from_end = o.var & 1;
      auto it       = d->begin();
      if (from_end) {
        it = d->end();
        for (size_t i = m.size(); i > pos; --i)
          --it;
      } else {
        if (pos == m.size())
          it = d->end();
        else
          for (size_t i = 0; i < pos; ++i)
            ++it;
      }
      // known finding: the target block is full and is not the last block
      // (and the position is not begin(), which takes the extend_first path)
      auto* blk = it.b;
      if (blk && pos != 0 && blk->full() && blk->next) {
        if (shape_refused(K_GDEQUE_EMPLACE))
          break;
        tr("   (emplace into a full block that is not the last block)");
      }
      tr("emplace(pos %zu of %zu, %lld)%s", pos, m.size(), (long long)v, from_end ? " iterator from end" : "");
      if (pos > 0 && pos < m.size())
        ++X.n_emplmid;
      auto r = d->emplace(it, E::make(v));
      m.insert(m.begin() + pos, v);
      int64_t got = E::val(*r);
      CK(got == v, "emplace-ret", "emplace(pos %zu, %lld) returned an iterator to %lld", pos, (long long)v, (long long)got);
      auto w = d->begin();
      for (size_t i = 0; i < pos; ++i)
        ++w;
      CK(w == r, "emplace-ret-pos", "emplace(pos %zu, %lld) returned an iterator that is not begin()+%zu", pos, (long long)v, pos);
      break;
    }
    case 5:
      if (o.var & 1) {
        tr("emplace_front(%lld)", (long long)v);
        d->emplace_front(v);
        m.push_front(v);
      } else {
        tr("emplace_back(%lld)", (long long)v);
        d->emplace_back(v);
        m.push_back(v);
      }
      break;
    case 6:
      tr("clear");
      if (!m.empty())
        ++X.removals;
      d->clear();
      m.clear();
      break;
    case 7: {
      ++X.n_moves;
      if (o.var & 1) {
        tr("move construct");
        std::unique_ptr<D> n(new D(std::move(*d)));
        // the moved-from deque is valid but unspecified: it must be clearable and usable
        d->clear();
        CK(d->empty() && d->size() == 0, "moved-from", "moved-from deque is not empty after clear(): size %zu", (size_t)d->size());
        d->push_back(E::make(7));
        CK(d->size() == 1 && E::val(d->front()) == 7, "moved-from", "moved-from deque unusable after clear()+push_back: size %zu", (size_t)d->size());
        d = std::move(n);
      } else {
        int pre = (int)((o.var >> 1) & 3);
        tr("move assign into a deque holding %d elements", pre);
        std::unique_ptr<D> n(new D());
        for (int i = 0; i < pre; ++i)
          n->push_back(E::make(900 + i));
        *n = std::move(*d);
        d  = std::move(n); // destroys the moved-from deque
      }
      break;
    }
    case 8: {
      if (m.empty())
        break;
      int sel = (int)(o.var % 3);
      if (sel == 0) {
        tr("front() = %lld", (long long)v);
        d->front() = E::make(v);
        m.front()  = v;
      } else if (sel == 1) {
        tr("back() = %lld", (long long)v);
        d->back() = E::make(v);
        m.back()  = v;
      } else {
        size_t pos = (size_t)o.a % m.size();
        tr("*(begin()+%zu) = %lld", pos, (long long)v);
        auto it = d->begin();
        for (size_t i = 0; i < pos; ++i)
          ++it;
        *it    = E::make(v);
        m[pos] = v;
      }
      break;
    }
    case 9:
      tr("const traversal");
      after(true);
      continue;
    case 10: {
      size_t n = std::min<size_t>(m.size(), 1 + (size_t)o.a % (N + 1));
      tr("pop %zu from the %s", n, (o.var & 1) ? "front" : "back");
      for (size_t i = 0; i < n; ++i) {
        if (o.var & 1) {
          d->pop_front();
          m.pop_front();
        } else {
          d->pop_back();
          m.pop_back();
        }
        ++X.removals;
      }
      break;
    }
    default: {
      size_t n = 1 + (size_t)o.a % (N + 1);
      tr("push %zu at the %s", n, (o.var & 1) ? "front" : "back");
      for (size_t i = 0; i < n; ++i) {
        if (o.var & 1) {
          d->push_front(E::make(value_for((int)s, (int)i)));
          m.push_front(value_for((int)s, (int)i));
        } else {
          d->push_back(E::make(value_for((int)s, (int)i)));
          m.push_back(value_for((int)s, (int)i));
        }
      }
    }
    }
    after();
  }
  X.step = (int)nops;
  X.op   = "final";
  after(true);
  X.op = "destroy";
  d.reset();
  reg_final<T>();
}

//@@FAMILIES@@

} // namespace verif

VERIF_INPROC_MAIN(galois::SharedMemSys G)
