// C14 (part b) -- associative / array-like sequential containers behave like
// their standard counterparts: flat_map, PODResizeableArray, LazyArray /
// LazyObject, optional, the PriorityQueue.h family, TwoLevelIterator(A),
// LargeArray, CopyableTuple.  In-process rapidcheck; DESIGN.md 4/C14.
//
// Case = (fn, variant, init, n, p, seed) + tail.  fn selects the container,
// variant the element type / comparator / container shape, init the way the
// container is first built (default, range constructor, comparator-taking
// range constructor; allocation policy for LargeArray), n the number of
// initial elements (taken from the head of the tail), p a comparator
// direction / thread count.  The rest of the tail is a sequence of operations,
// three values each (opcode, a, b), decoded modulo the valid ranges.
//
// Oracle: std::map / std::vector(+defined flags) / std::optional /
// std::multiset / std::set / flattened std::vector, compared after every
// operation (return values, size/empty/front/back/top, bounded forward and
// backward traversal).  Element type Tracked registers every constructed
// address; reads/assignments/destructions of unregistered addresses,
// construction over a live element and left-over registrations are failures,
// and the number of live elements must equal the model size after every op.
// PODResizeableArray's realloc/free/memcpy are routed through checking
// wrappers (see below); MinHeap gets a container whose front() on an empty
// vector is recorded instead of undefined.
//
// Non-triviality: flat_map / heaps / ordered set: the container held >= 3
// elements at some point and the sequence contained >= 1 removal; POD array:
// >= 2 operations reallocated the storage and >= 1 removal (shrinking resize,
// clear, assign of a shorter range); LazyArray/LazyObject: >= 2 constructions
// and >= 1 destruction; optional: was set and reset; two-level iterators: >= 2
// non-empty and >= 1 empty inner range and >= 1 position operation;
// LargeArray: >= 2 elements and a destroy/re-construct or explicit tear-down;
// tuples: >= 2 value triples.
//
// Known-finding keys (VERIF_EXCLUDE): the decoder refuses exactly the
// operation shape of an excluded key and counts it (K_* constants below).
#include "verif_e1.h"

#include <algorithm>
#include <cassert>
#include <cstddef>
#include <cstdlib>
#include <cstring>
#include <forward_list>
#include <functional>
#include <iterator>
#include <list>
#include <map>
#include <memory>
#include <mutex>
#include <optional>
#include <set>
#include <stdexcept>
#include <tuple>
#include <type_traits>
#include <unordered_map>
#include <unordered_set>
#include <utility>

#include "galois/config.h"

// PODResizeableArray takes its storage from ::realloc.  The harness supplies a
// conforming realloc that always moves the block, scribbles over the old one
// and keeps it allocated until the end of the case: a read through a pointer
// into the old block (argument aliasing) then yields a deterministic wrong
// value instead of a sanitizer abort.  memcpy is wrapped to record calls with
// a null pointer argument.
namespace verif {
void* pod_realloc(void* p, size_t n);
void* pod_memcpy(void* d, const void* s, size_t n);
void pod_free(void* p);
} // namespace verif
#define realloc(p, n) ::verif::pod_realloc((p), (n))
#define free(p) ::verif::pod_free((p))
#define memcpy(d, s, n) ::verif::pod_memcpy((d), (s), (n))
#include "galois/PODResizeableArray.h"
#undef realloc
#undef memcpy
#undef free

#include "galois/Galois.h"
#include "galois/FlatMap.h"
#include "galois/LazyArray.h"
#include "galois/LazyObject.h"
#include "galois/optional.h"
#include "galois/PriorityQueue.h"
#include "galois/gstl.h"
#include "galois/TwoLevelIterator.h"
#include "galois/TwoLevelIteratorA.h"
#include "galois/LargeArray.h"
#include "galois/CopyableTuple.h"

// a sanitizer report must reach the driver's crash handler (SIGABRT)
extern "C" const char* __asan_default_options() { return "abort_on_error=1"; }
extern "C" const char* __ubsan_default_options() { return "abort_on_error=1:print_stacktrace=1"; }

using namespace verif;

namespace verif {
const char* const HARNESS = "c14b";
enum { F_FN = 0, F_VARIANT, F_INIT, F_N, F_P, F_SEED, F_COUNT };
const std::vector<const char*> FIELDS = {"fn", "variant", "init", "n", "p", "seed"};
// tail: [initial elements] then operations, three values per operation

enum { FN_FLATMAP = 0, FN_POD, FN_LAZY, FN_OPTIONAL, FN_HEAP, FN_OSET, FN_TL, FN_TLA, FN_LARGE, FN_TUPLE, NFN };
static const char* FN_NAMES[NFN] = {"flat_map", "PODResizeableArray", "LazyArray", "optional", "MinHeap",
                                    "ThreadSafeOrderedSet", "TwoLevelIterator", "TwoLevelIteratorA", "LargeArray",
                                    "CopyableTuple"};
static const int NVARIANTS[NFN] = {4, 2, 4, 2, 8, 4, 7, 13, 2, 1};
static const int NINIT[NFN]     = {3, 3, 1, 1, 3, 3, 1, 1, 7, 1};
static const int NOPS[NFN]      = {16, 14, 8, 9, 8, 8, 1, 1, 7, 1};
constexpr int MAXOPS            = 300;
#define COMMA ,

// known-finding keys introduced by this harness
static const char* const K_FM_DUP        = "C14/flat_map/range-ctor-duplicates";
static const char* const K_FM_CMP        = "C14/flat_map/range-ctor-comparator";
static const char* const K_POD_ALIAS     = "C14/PODResizeableArray/push_back-alias";
static const char* const K_POD_MEMCPY    = "C14/PODResizeableArray/assign-null-memcpy";
static const char* const K_HEAP_RANGE    = "C14/MinHeap/range-ctor-heapify";
static const char* const K_HEAP_REMOVE   = "C14/MinHeap/remove-on-empty";
static const char* const K_OSET_REMOVE   = "C14/ThreadSafeOrderedSet/remove-on-empty";
static const char* const K_LARGE_RVALUE  = "C14/LargeArray/construct-rvalue";
static const char* const K_LAZY_END      = "C14/LazyArray/end-member-call-past-the-end";
static const char* const K_TL_LESS_END   = "C14/TwoLevelIterator/less-at-end";
static const char* const K_TLA_BACKJUMP  = "C14/TwoLevelIteratorA/advance-backward";
static const char* const K_TLA_FWD_DECR  = "C14/TwoLevelIteratorA/decrement-forward-inner";

// ------------------------------------------------------------------ tail
struct Tail {
  const Case& c;
  size_t pos;
  explicit Tail(const Case& cc) : c(cc), pos(F_COUNT) {}
  bool more() const { return pos < c.f.size(); }
  uint64_t next() { return pos < c.f.size() ? (uint64_t)c.f[pos++] : 0; }
  int nexti(int m) { return (int)(next() % (uint64_t)m); }
};

// ------------------------------------------------ realloc / memcpy hooks
struct PodHooks {
  std::unordered_map<void*, size_t> sizes;
  std::vector<void*> graveyard;
  long reallocs = 0, null_memcpy = 0, bad_free = 0;
  ~PodHooks() { reset(); }
  void reset() {
    bad_free = 0;
    for (void* p : graveyard)
      free(p);
    graveyard.clear();
    sizes.clear();
    reallocs = null_memcpy = 0;
  }
};
static PodHooks g_pod;

void* pod_realloc(void* p, size_t n) {
  ++g_pod.reallocs;
  void* q = malloc(n ? n : 1);
  if (p) {
    auto it    = g_pod.sizes.find(p);
    size_t old = it == g_pod.sizes.end() ? 0 : it->second;
    if (old)
      ::memcpy(q, p, std::min(old, n));
    if (old)
      memset(p, 0xA5, old);
    g_pod.graveyard.push_back(p); // stays allocated until the case ends
    if (it != g_pod.sizes.end())
      g_pod.sizes.erase(it);
  }
  g_pod.sizes[q] = n;
  return q;
}
void pod_free(void* p) {
  if (!p)
    return;
  auto it = g_pod.sizes.find(p);
  if (it == g_pod.sizes.end()) { // not a live block of the array: double free or foreign pointer
    ++g_pod.bad_free;
    return;
  }
  g_pod.sizes.erase(it);
  free(p);
}
void* pod_memcpy(void* d, const void* s, size_t n) {
  if (!d || !s)
    ++g_pod.null_memcpy;
  if (n)
    ::memcpy(d, s, n);
  return d;
}

// ------------------------------------------ address-registry element type
struct Registry {
  std::mutex mu;
  std::unordered_set<const void*> live;
  std::string errkey, errmsg;
  long ctors = 0, dtors = 0, copies = 0, moves = 0;
  void reset() {
    std::lock_guard<std::mutex> g(mu);
    live.clear();
    errkey.clear();
    errmsg.clear();
    ctors = dtors = copies = moves = 0;
  }
  // caller holds mu
  void violation(const char* key, const void* p, const char* what) {
    if (errkey.empty()) {
      char b[200];
      snprintf(b, sizeof b, "%s (object address %p)", what, p);
      errkey = key;
      errmsg = b;
    }
  }
  size_t nlive() {
    std::lock_guard<std::mutex> g(mu);
    return live.size();
  }
};
static Registry g_reg;
constexpr int MOVED_FROM = -777777;
constexpr int UNREGISTERED = -888888;

struct Tracked {
  int v;
  void enter() {
    std::lock_guard<std::mutex> g(g_reg.mu);
    ++g_reg.ctors;
    if (!g_reg.live.insert(this).second)
      g_reg.violation("tracked-construct-over-live", this, "an element was constructed on top of a live element");
  }
  // value of a live object; an unregistered address is never dereferenced
  int read() const {
    std::lock_guard<std::mutex> g(g_reg.mu);
    if (!g_reg.live.count(this)) {
      g_reg.violation("tracked-read-unregistered", this, "a value was read from an address that holds no constructed element");
      return UNREGISTERED;
    }
    return v;
  }
  bool is_live() const {
    std::lock_guard<std::mutex> g(g_reg.mu);
    return g_reg.live.count(this) != 0;
  }
  void write(int x) {
    std::lock_guard<std::mutex> g(g_reg.mu);
    if (!g_reg.live.count(this)) {
      g_reg.violation("tracked-assign-unregistered", this, "an address that holds no constructed element was assigned to");
      return;
    }
    v = x;
  }
  Tracked() : v(0) { enter(); }
  Tracked(int x) : v(x) { enter(); }
  Tracked(const Tracked& o) : v(o.read()) {
    enter();
    ++g_reg.copies;
  }
  Tracked(Tracked&& o) noexcept : v(o.read()) {
    enter();
    ++g_reg.moves;
    if (o.is_live())
      o.v = MOVED_FROM;
  }
  Tracked& operator=(const Tracked& o) {
    write(o.read());
    return *this;
  }
  Tracked& operator=(Tracked&& o) noexcept {
    write(o.read());
    if (&o != this && o.is_live())
      o.v = MOVED_FROM;
    return *this;
  }
  ~Tracked() {
    std::lock_guard<std::mutex> g(g_reg.mu);
    ++g_reg.dtors;
    if (!g_reg.live.erase(this))
      g_reg.violation("tracked-destroy-unregistered", this, "a destructor ran on an address that holds no constructed element");
  }
  friend bool operator<(const Tracked& a, const Tracked& b) { return a.read() < b.read(); }
  friend bool operator==(const Tracked& a, const Tracked& b) {
    int x = a.read(), y = b.read();
    return x != UNREGISTERED && y != UNREGISTERED && x == y;
  }
};

static inline int val(int x) { return x; }
static inline int val(const Tracked& t) { return t.read(); }
template <class T>
static T mk(int v) {
  return T(v);
}
template <class T>
constexpr size_t tracked_count() {
  return std::is_same<T, Tracked>::value ? 1 : 0;
}

static void track_check(const char* where) {
  std::string k, m;
  {
    std::lock_guard<std::mutex> g(g_reg.mu);
    k = g_reg.errkey;
    m = g_reg.errmsg;
  }
  if (!k.empty())
    vfail(k.c_str(), "%s; detected after: %s", m.c_str(), where);
}
static void track_live(size_t expect, const char* where) {
  track_check(where);
  size_t n = g_reg.nlive();
  VCHECK(n == expect, n > expect ? "tracked-leak" : "tracked-live-count",
         "%zu constructed elements exist, the container(s) hold %zu; after: %s", n, expect, where);
}

// stateful comparators: ascending or descending
struct ModelCmp {
  bool desc = false;
  bool operator()(int a, int b) const { return desc ? b < a : a < b; }
};
struct DirCmp {
  bool desc = false;
  DirCmp() = default;
  explicit DirCmp(bool d) : desc(d) {}
  template <class K>
  bool operator()(const K& a, const K& b) const {
    int x = val(a), y = val(b);
    return desc ? y < x : x < y;
  }
};

// run-wide statistics for the non-triviality rule
struct Stats {
  size_t maxsize = 0;
  long removals = 0, ops = 0;
  void size(size_t s) { maxsize = std::max(maxsize, s); }
};

static const char* sizeclass(size_t n) { return n == 0 ? "0" : n < 3 ? "1-2" : n < 9 ? "3-8" : n < 33 ? "9-32" : ">32"; }

// =================================================================== flat_map
typedef std::map<int, int, ModelCmp> MapModel;
constexpr int KEYDOM = 24;
static int key_of(uint64_t a) { return (int)(a % KEYDOM) - 8; }

template <class K, class M, class Cmp>
struct FlatMapRun {
  typedef galois::flat_map<K, M, Cmp> FM;
  typedef typename FM::value_type VT;
  static constexpr size_t PER = tracked_count<K>() + tracked_count<M>();
  Stats st;

  static Cmp make_cmp(bool desc, std::true_type) { return Cmp(desc); }
  static Cmp make_cmp(bool, std::false_type) { return Cmp(); }
  static Cmp make_cmp(bool desc) { return make_cmp(desc, std::is_same<Cmp, DirCmp>()); }

  void check(FM& fm, const MapModel& mod, const char* what, const char* pfx = "") {
    track_check(what);
    std::string kf = std::string(pfx) + "iter-forward", kb = std::string(pfx) + "iter-backward";
    VCHECK(fm.size() == mod.size(), (std::string(pfx) + "size").c_str(), "flat_map::size() = %zu, std::map has %zu; after %s", fm.size(), mod.size(), what);
    VCHECK(fm.empty() == mod.empty(), (std::string(pfx) + "empty").c_str(), "flat_map::empty() = %d with model size %zu; after %s", (int)fm.empty(), mod.size(), what);
    size_t steps = 0;
    auto mi      = mod.begin();
    for (auto it = fm.begin(); it != fm.end(); ++it, ++mi, ++steps) {
      VCHECK(steps < mod.size(), kf.c_str(), "forward traversal yields more than the %zu elements of the model; after %s", mod.size(), what);
      VCHECK(val(it->first) == mi->first && val(it->second) == mi->second, kf.c_str(),
             "forward traversal element %zu is (%d,%d), std::map has (%d,%d); after %s", steps, val(it->first), val(it->second), mi->first, mi->second, what);
    }
    VCHECK(steps == mod.size(), kf.c_str(), "forward traversal yields %zu elements, model has %zu; after %s", steps, mod.size(), what);
    steps   = 0;
    auto ri = mod.rbegin();
    for (auto it = fm.rbegin(); it != fm.rend(); ++it, ++ri, ++steps) {
      VCHECK(steps < mod.size(), kb.c_str(), "backward traversal yields more than the %zu elements of the model; after %s", mod.size(), what);
      VCHECK(val(it->first) == ri->first && val(it->second) == ri->second, kb.c_str(),
             "backward traversal element %zu is (%d,%d), std::map has (%d,%d); after %s", steps, val(it->first), val(it->second), ri->first, ri->second, what);
    }
    VCHECK(steps == mod.size(), kb.c_str(), "backward traversal yields %zu elements, model has %zu; after %s", steps, mod.size(), what);
    const FM& cfm = fm;
    steps         = 0;
    mi            = mod.begin();
    for (auto it = cfm.cbegin(); it != cfm.cend(); ++it, ++mi, ++steps)
      VCHECK(steps < mod.size() && val(it->first) == mi->first, kf.c_str(), "const forward traversal differs at %zu; after %s", steps, what);
    VCHECK(steps == mod.size() && (size_t)(cfm.end() - cfm.begin()) == mod.size() && (size_t)(cfm.crend() - cfm.crbegin()) == mod.size(), kf.c_str(),
           "const traversal length %zu, model %zu; after %s", steps, mod.size(), what);
    st.size(mod.size());
  }

  void run(const Case& c) {
    Tail t(c);
    int init     = (int)c[F_INIT];
    bool desc    = std::is_same<Cmp, DirCmp>::value && c[F_P] != 0;
    size_t ninit = (size_t)c[F_N];
    std::vector<std::pair<int, int>> initv;
    for (size_t i = 0; i < ninit && t.more(); ++i) {
      int k = key_of(t.next());
      int v = t.nexti(1000);
      initv.push_back({k, v});
    }
    bool dup = false;
    {
      std::set<int> seen;
      for (auto& p : initv)
        dup |= !seen.insert(p.first).second;
    }
    if (init >= 1 && dup && excluded(K_FM_DUP)) { // range construction from a range with duplicate keys
      count_excluded();
      std::set<int> seen;
      std::vector<std::pair<int, int>> u;
      for (auto& p : initv)
        if (seen.insert(p.first).second)
          u.push_back(p);
      initv.swap(u);
      dup = false;
    }
    if (init == 2 && desc && excluded(K_FM_CMP)) { // comparator-taking range constructor with a non-default comparator
      count_excluded();
      init = 0;
    }
    label("dupkeys", dup && init >= 1);
    bool desc_eff = init == 1 ? false : desc;
    Cmp cmp       = make_cmp(desc_eff);
    std::unique_ptr<FM> mp;
    MapModel model(ModelCmp{desc_eff});
    {
      std::vector<VT> src;
      for (auto& p : initv)
        src.emplace_back(mk<K>(p.first), mk<M>(p.second));
      if (init == 1) {
        mp.reset(new FM(src.begin(), src.end()));
        model = MapModel(initv.begin(), initv.end(), ModelCmp{false});
      } else if (init == 2) {
        mp.reset(new FM(src.begin(), src.end(), cmp));
        model = MapModel(initv.begin(), initv.end(), ModelCmp{desc_eff});
      } else {
        mp.reset(new FM(cmp));
        mp->insert(src.begin(), src.end());
        model.insert(initv.begin(), initv.end());
      }
    }
    FM& fm = *mp;
    FM fm2(cmp);
    MapModel model2(ModelCmp{desc_eff});
    {
      // the map orders by the comparator it was given
      bool got = fm.key_comp()(mk<K>(1), mk<K>(2)), want = ModelCmp{desc_eff}(1, 2);
      VCHECK(got == want, init == 2 ? "range-ctor-comparator" : "key_comp",
             "flat_map constructed with a %s comparator (init mode %d): key_comp()(1,2) = %d", desc_eff ? "descending" : "ascending", init, (int)got);
      if (init >= 1) {
        VCHECK(fm.size() == model.size(), "range-ctor-duplicates",
               "flat_map(first,last%s) over %zu pairs%s holds %zu elements, std::map holds %zu", init == 2 ? ",cmp" : "", initv.size(),
               dup ? " with duplicate keys" : "", fm.size(), model.size());
        check(fm, model, "range construction", "range-ctor-");
      } else
        check(fm, model, "construction + insert(first,last)");
    }
    track_live(PER * (fm.size() + fm2.size()), "construction");

    int nops = 0;
    char what[96];
    while (t.more() && nops < MAXOPS) {
      ++nops;
      int op     = t.nexti(NOPS[FN_FLATMAP]);
      uint64_t a = t.next(), b = t.next();
      int k = key_of(a), v = (int)(b % 1000);
      snprintf(what, sizeof what, "op #%d kind %d (key %d, arg %d)", nops, op, k, v);
      switch (op) {
      case 0:   // insert(value_type&&)
      case 1:   // insert(const value_type&) / insert(convertible pair)
      case 2: { // emplace(k, v)
        std::pair<typename FM::iterator, bool> r;
        if (op == 0)
          r = fm.insert(VT(mk<K>(k), mk<M>(v)));
        else if (op == 1) {
          if (b & 1) {
            VT p(mk<K>(k), mk<M>(v));
            r = fm.insert(p);
          } else
            r = fm.insert(std::pair<int, int>(k, v));
        } else
          r = fm.emplace(mk<K>(k), mk<M>(v));
        auto mr = model.insert({k, v});
        VCHECK(r.second == mr.second, "insert", "insert/emplace of key %d returned inserted=%d, std::map %d; %s", k, (int)r.second, (int)mr.second, what);
        VCHECK(r.first != fm.end() && val(r.first->first) == k && val(r.first->second) == mr.first->second, "insert",
               "insert/emplace of (%d,%d) returned an iterator to (%d,%d), std::map's points to (%d,%d); %s", k, v,
               r.first != fm.end() ? val(r.first->first) : -1, r.first != fm.end() ? val(r.first->second) : -1, mr.first->first, mr.first->second, what);
        VCHECK(r.first - fm.begin() == (ptrdiff_t)std::distance(model.begin(), mr.first), "insert", "insert/emplace returned position %td, std::map %td; %s",
               r.first - fm.begin(), (ptrdiff_t)std::distance(model.begin(), mr.first), what);
        break;
      }
      case 3: { // m[key] = v
        K key   = mk<K>(k);
        fm[key] = mk<M>(v);
        model[k] = v;
        break;
      }
      case 4: { // read m[rvalue key] (default-inserts)
        M& r    = fm[mk<K>(k)];
        int got = val(r), want = model[k];
        VCHECK(got == want, "index", "m[%d] = %d, std::map gives %d; %s", k, got, want, what);
        break;
      }
      case 5: { // at
        K key   = mk<K>(k);
        auto mi = model.find(k);
        int got = -1, cgot = -1;
        bool threw = false, cthrew = false;
        try {
          got = val(fm.at(key));
        } catch (const std::out_of_range&) {
          threw = true;
        }
        try {
          cgot = val(static_cast<const FM&>(fm).at(key));
        } catch (const std::out_of_range&) {
          cthrew = true;
        }
        VCHECK(threw == (mi == model.end()) && cthrew == threw, "at", "at(%d) threw=%d/%d, key present in std::map: %d; %s", k, (int)threw, (int)cthrew,
               (int)(mi != model.end()), what);
        if (!threw)
          VCHECK(got == mi->second && cgot == got, "at", "at(%d) = %d/%d, std::map gives %d; %s", k, got, cgot, mi->second, what);
        break;
      }
      case 6: { // find / count
        K key   = mk<K>(k);
        auto mi = model.find(k);
        auto it = fm.find(key);
        auto ci = static_cast<const FM&>(fm).find(key);
        VCHECK((it == fm.end()) == (mi == model.end()) && (ci == fm.cend()) == (mi == model.end()), "find", "find(%d) found=%d, std::map found=%d; %s", k,
               (int)(it != fm.end()), (int)(mi != model.end()), what);
        if (mi != model.end())
          VCHECK(val(it->first) == k && val(it->second) == mi->second && ci - fm.cbegin() == it - fm.begin(), "find",
                 "find(%d) points to (%d,%d), std::map to (%d,%d); %s", k, val(it->first), val(it->second), mi->first, mi->second, what);
        VCHECK(fm.count(key) == model.count(k), "find", "count(%d) = %zu, std::map %zu; %s", k, fm.count(key), model.count(k), what);
        break;
      }
      case 7: { // lower_bound (upper_bound / equal_range do not compile)
        K key   = mk<K>(k);
        auto it = fm.lower_bound(key);
        auto ci = static_cast<const FM&>(fm).lower_bound(key);
        ptrdiff_t want = std::distance(model.begin(), model.lower_bound(k));
        VCHECK(it - fm.begin() == want && ci - fm.cbegin() == want, "bound", "lower_bound(%d) at position %td, std::map %td; %s", k, it - fm.begin(), want, what);
        break;
      }
      case 8: { // erase(key)
        K key    = mk<K>(k);
        size_t g = fm.erase(key), w = model.erase(k);
        VCHECK(g == w, "erase", "erase(key %d) returned %zu, std::map %zu; %s", k, g, w, what);
        st.removals += w;
        break;
      }
      case 9: { // erase(position)
        if (model.empty())
          break;
        size_t pos = a % model.size();
        typename FM::iterator r;
        if (b & 1)
          r = fm.erase(fm.begin() + pos);
        else
          r = fm.erase(fm.cbegin() + pos);
        model.erase(std::next(model.begin(), pos));
        VCHECK(r - fm.begin() == (ptrdiff_t)pos, "erase", "erase(position %zu) returned position %td; %s", pos, r - fm.begin(), what);
        ++st.removals;
        break;
      }
      case 10: { // erase(first, last)
        size_t lo = a % (model.size() + 1), hi = std::min(model.size(), lo + (size_t)(b % 4));
        auto r = fm.erase(fm.cbegin() + lo, fm.cbegin() + hi);
        model.erase(std::next(model.begin(), lo), std::next(model.begin(), hi));
        VCHECK(r - fm.begin() == (ptrdiff_t)lo, "erase", "erase([%zu,%zu)) returned position %td; %s", lo, hi, r - fm.begin(), what);
        st.removals += hi - lo;
        break;
      }
      case 11: { // insert(first, last)
        std::vector<VT> src;
        std::vector<std::pair<int, int>> msrc;
        int len = (int)(b % 6);
        for (int i = 0; i < len; ++i) {
          int kk = key_of((uint64_t)(k + 8) + (uint64_t)i * (1 + b % 5));
          src.emplace_back(mk<K>(kk), mk<M>(v + i));
          msrc.push_back({kk, v + i});
        }
        fm.insert(src.begin(), src.end());
        model.insert(msrc.begin(), msrc.end());
        break;
      }
      case 12: { // copies
        switch (b % 3) {
        case 0: {
          FM cp(fm);
          check(cp, model, "copy construction");
          fm2    = cp;
          model2 = model;
          break;
        }
        case 1:
          fm    = fm2;
          model = model2;
          break;
        default: {
          FM& self = fm;
          fm       = self;
        }
        }
        break;
      }
      case 13: { // moves
        if (b & 1) {
          FM tmp(std::move(fm));
          check(tmp, model, "move construction");
          fm = std::move(tmp);
        } else {
          fm2    = std::move(fm);
          model2 = model;
          fm.clear(); // a moved-from map is only required to be valid
          model.clear();
        }
        break;
      }
      case 14: // swap
        if (b & 1)
          fm.swap(fm2);
        else
          std::swap(fm, fm2);
        model.swap(model2);
        break;
      default: // clear
        st.removals += !model.empty();
        fm.clear();
        model.clear();
      }
      check(fm, model, what);
      if (op >= 12)
        check(fm2, model2, what);
      track_live(PER * (fm.size() + fm2.size()), what);
    }
    st.ops = nops;
    mp.reset();
    label("init", init);
    label("desc", desc_eff);
  }
};

// ========================================================= PODResizeableArray
struct Pod12 {
  int32_t a, b, c;
};
template <class T>
static T mkpod(int v);
template <>
int mkpod<int>(int v) {
  return v;
}
template <>
Pod12 mkpod<Pod12>(int v) {
  return Pod12{v, v * 3 + 1, ~v};
}
static bool podeq(int x, int v) { return x == v; }
static bool podeq(const Pod12& x, int v) { return x.a == v && x.b == v * 3 + 1 && x.c == ~v; }
static int podkey(int x) { return x; }
static int podkey(const Pod12& x) { return x.a; }

template <class T>
struct PodRun {
  typedef galois::PODResizeableArray<T> PA;
  typedef std::vector<std::pair<bool, int>> Model; // (defined?, value): resize leaves new elements indeterminate
  Stats st;
  long grow_reallocs = 0;
  bool alias_growth  = false;

  void check(PA& a, const Model& m, const char* what) {
    VCHECK(g_pod.null_memcpy == 0, "assign-null-memcpy", "memcpy was called with a null pointer argument; after %s", what);
    VCHECK(g_pod.bad_free == 0, "storage-free", "free() was called on a block that is not live storage of an array (double free?); after %s", what);
    VCHECK(a.size() == m.size(), "size", "size() = %zu, model %zu; after %s", a.size(), m.size(), what);
    VCHECK(a.empty() == m.empty(), "empty", "empty() = %d, model size %zu; after %s", (int)a.empty(), m.size(), what);
    VCHECK(a.max_size() >= a.size(), "capacity", "max_size() (capacity) = %zu < size() = %zu; after %s", a.max_size(), a.size(), what);
    const PA& ca = a;
    VCHECK((size_t)(a.end() - a.begin()) == m.size() && (size_t)(ca.cend() - ca.cbegin()) == m.size() && a.data() == a.begin() && ca.data() == ca.begin(), "iter-forward",
           "end()-begin() = %td, model size %zu; after %s", a.end() - a.begin(), m.size(), what);
    size_t i = 0;
    for (auto it = a.begin(); it != a.end(); ++it, ++i) {
      VCHECK(i < m.size(), "iter-forward", "forward traversal longer than model (%zu); after %s", m.size(), what);
      if (m[i].first)
        VCHECK(podeq(*it, m[i].second) && podeq(a[i], m[i].second) && podeq(ca[i], m[i].second) && podeq(a.at(i), m[i].second) && podeq(ca.at(i), m[i].second), "element",
               "element %zu is %d, model %d (size %zu); after %s", i, podkey(*it), m[i].second, m.size(), what);
    }
    i = m.size();
    size_t steps = 0;
    for (auto it = a.rbegin(); it != a.rend(); ++it, ++steps) {
      VCHECK(steps < m.size(), "iter-backward", "backward traversal longer than model (%zu); after %s", m.size(), what);
      --i;
      if (m[i].first)
        VCHECK(podeq(*it, m[i].second), "iter-backward", "backward traversal: element %zu is %d, model %d; after %s", i, podkey(*it), m[i].second, what);
    }
    VCHECK(steps == m.size() && (size_t)(ca.crend() - ca.crbegin()) == m.size(), "iter-backward", "backward traversal yields %zu elements, model %zu; after %s", steps, m.size(), what);
    if (!m.empty()) {
      if (m.front().first)
        VCHECK(podeq(a.front(), m.front().second) && podeq(ca.front(), m.front().second), "front", "front() = %d, model %d; after %s", podkey(a.front()), m.front().second, what);
      if (m.back().first)
        VCHECK(podeq(a.back(), m.back().second) && podeq(ca.back(), m.back().second), "back", "back() = %d, model %d; after %s", podkey(a.back()), m.back().second, what);
    }
    st.size(m.size());
  }

  void run(const Case& c) {
    Tail t(c);
    int init     = (int)c[F_INIT];
    size_t ninit = (size_t)c[F_N];
    static T buf[64]; // never-null source for pointer ranges
    std::unique_ptr<PA> ap;
    Model m;
    if (init == 1) {
      std::vector<T> src;
      for (size_t i = 0; i < ninit && t.more(); ++i) {
        int v = t.nexti(1000);
        src.push_back(mkpod<T>(v));
        m.push_back({true, v});
      }
      ap.reset(new PA(src.begin(), src.end()));
    } else if (init == 2) {
      ap.reset(new PA(ninit));
      m.assign(ninit, {false, 0});
    } else
      ap.reset(new PA());
    PA& a = *ap;
    PA b;
    Model mb;
    check(a, m, "construction");
    int nops = 0;
    char what[96];
    while (t.more() && nops < MAXOPS) {
      ++nops;
      int op      = t.nexti(NOPS[FN_POD]);
      uint64_t x = t.next(), y = t.next();
      int v = (int)(y % 1000);
      snprintf(what, sizeof what, "op #%d kind %d (args %llu,%llu)", nops, op, (unsigned long long)(x % 1000), (unsigned long long)(y % 1000));
      long r0 = g_pod.reallocs;
      switch (op) {
      case 0:
        a.push_back(mkpod<T>(v));
        m.push_back({true, v});
        break;
      case 1: { // push_back(a[i]): the argument aliases the array
        if (m.empty() || !m[x % m.size()].first) {
          a.push_back(mkpod<T>(v));
          m.push_back({true, v});
          break;
        }
        size_t i    = x % m.size();
        bool growth = a.size() == a.max_size(); // size == capacity: the push reallocates
        alias_growth |= growth;
        if (growth && excluded(K_POD_ALIAS)) {
          count_excluded();
          T tmp = a[i];
          a.push_back(tmp);
        } else
          a.push_back(a[i]);
        int want = m[i].second;
        m.push_back({true, want});
        VCHECK(podeq(a.back(), want), "push_back-alias", "push_back(a[%zu]) with a[%zu] = %d on an array of size %zu %s stored %d; %s", i, i, want, m.size() - 1,
               growth ? "at full capacity (reallocation)" : "below capacity", podkey(a.back()), what);
        break;
      }
      case 2: { // resize
        size_t n = (y & 1) ? x % 40 : (y & 2) ? x % 700 : m.size() + (x % 5) - std::min<size_t>(m.size(), 2);
        st.removals += n < m.size();
        a.resize(n);
        m.resize(n, {false, 0});
        break;
      }
      case 3: { // reserve never changes the contents; no reallocation when capacity suffices
        size_t n   = (y & 1) ? x % 40 : x % 700;
        size_t cap = a.max_size();
        a.reserve(n);
        VCHECK(a.max_size() >= n && a.max_size() >= cap, "capacity", "reserve(%zu) left capacity %zu (was %zu); %s", n, a.max_size(), cap, what);
        VCHECK(n > cap || g_pod.reallocs == r0, "capacity", "reserve(%zu) reallocated although the capacity was %zu; %s", n, cap, what);
        break;
      }
      case 4: { // insert at end() from a foreign range
        size_t len = x % 21;
        if (y & 1) {
          std::vector<T> src;
          for (size_t i = 0; i < len; ++i)
            src.push_back(mkpod<T>(v + (int)i));
          a.insert(a.end(), src.begin(), src.end());
        } else {
          for (size_t i = 0; i < len; ++i)
            buf[i] = mkpod<T>(v + (int)i);
          a.insert(a.end(), buf, buf + len);
        }
        for (size_t i = 0; i < len; ++i)
          m.push_back({true, v + (int)i});
        break;
      }
      case 5: { // assign from a foreign pointer range
        size_t len = x % 41;
        if (len == 0 && a.data() == nullptr && excluded(K_POD_MEMCPY)) { // empty range into a never-allocated array
          count_excluded();
          break;
        }
        for (size_t i = 0; i < len; ++i)
          buf[i] = mkpod<T>(v + 2 * (int)i);
        st.removals += len < m.size();
        a.assign(buf, buf + len);
        m.clear();
        for (size_t i = 0; i < len; ++i)
          m.push_back({true, v + 2 * (int)i});
        VCHECK(g_pod.null_memcpy == 0, "assign-null-memcpy", "assign(first,first+%zu) on an array with data() == %s passed a null pointer to memcpy; %s", len,
               "nullptr (never allocated)", what);
        break;
      }
      case 6: // swap
        a.swap(b);
        m.swap(mb);
        break;
      case 7:
        st.removals += !m.empty();
        a.clear();
        m.clear();
        break;
      case 8: { // move construction / assignment
        if (y & 1) {
          PA tmp(std::move(a));
          check(tmp, m, "move construction");
          a = std::move(tmp);
        } else {
          b  = std::move(a);
          mb = m;
          a.clear();
          m.clear();
        }
        break;
      }
      case 9: { // element writes
        if (m.empty())
          break;
        size_t i = x % m.size();
        switch (y % 4) {
        case 0:
          a[i] = mkpod<T>(v);
          break;
        case 1:
          a.at(i) = mkpod<T>(v);
          break;
        case 2:
          i         = 0;
          a.front() = mkpod<T>(v);
          break;
        default:
          i        = m.size() - 1;
          a.back() = mkpod<T>(v);
        }
        m[i] = {true, v};
        break;
      }
      case 10: { // at() out of range
        bool threw = false, cthrew = false;
        size_t i = m.size() + x % 3;
        try {
          (void)a.at(i);
        } catch (const std::out_of_range&) {
          threw = true;
        }
        try {
          (void)static_cast<const PA&>(a).at(i);
        } catch (const std::out_of_range&) {
          cthrew = true;
        }
        VCHECK(threw && cthrew, "at", "at(%zu) on size %zu did not throw std::out_of_range; %s", i, m.size(), what);
        break;
      }
      case 11: { // build the second array by range / size constructor
        size_t len = x % 21;
        if (y & 1) {
          for (size_t i = 0; i < len; ++i)
            buf[i] = mkpod<T>(v + (int)i);
          b = PA(buf, buf + len);
          mb.clear();
          for (size_t i = 0; i < len; ++i)
            mb.push_back({true, v + (int)i});
        } else {
          b = PA(len);
          mb.assign(len, {false, 0});
        }
        break;
      }
      case 12: // append the second array
        a.insert(a.end(), b.begin(), b.end());
        m.insert(m.end(), mb.begin(), mb.end());
        break;
      default: { // push a burst (crosses several capacity doublings)
        size_t len = 1 + x % 40;
        for (size_t i = 0; i < len; ++i) {
          a.push_back(mkpod<T>(v + (int)i));
          m.push_back({true, v + (int)i});
        }
      }
      }
      if (g_pod.reallocs != r0 && op != 11)
        ++grow_reallocs;
      check(a, m, what);
      if (op == 6 || op == 8 || op == 11)
        check(b, mb, what);
    }
    st.ops = nops;
  }
};

// ==================================================== LazyArray / LazyObject
template <class T, unsigned N>
struct LazyRun {
  Stats st;
  long constructs = 0, destroys = 0;
  void run(const Case& c) {
    Tail t(c);
    {
      galois::LazyArray<T, 0> z;
      VCHECK(z.size() == 0 && z.empty() && z.max_size() == 0 && z.begin() == z.end(), "size", "LazyArray<T,0>: size %zu empty %d", z.size(), (int)z.empty());
    }
    galois::LazyArray<T, N> arr;
    const galois::LazyArray<T, N>& carr = arr;
    galois::LazyObject<T> obj;
    std::vector<std::optional<int>> m(N);
    std::optional<int> mo;
    VCHECK(arr.size() == N && arr.max_size() == N && !arr.empty(), "size", "LazyArray<T,%u>::size() = %zu", N, arr.size());
    // end() (and everything derived from it) evaluates data_[_Size].get(): a member call on a non-object
    const bool use_end = !excluded(K_LAZY_END);
    if (!use_end)
      count_excluded();
    else
      VCHECK((size_t)(arr.end() - arr.begin()) == N && (size_t)(carr.cend() - carr.cbegin()) == N && (size_t)(arr.rend() - arr.rbegin()) == N, "iter-forward",
             "LazyArray<T,%u>: end()-begin() = %td", N, arr.end() - arr.begin());
    VCHECK(arr.data() == arr.begin() && carr.data() == carr.begin(), "slot-address", "LazyArray<T,%u>: data() != begin()", N);
    int nops = 0;
    char what[96];
    auto live = [&] {
      size_t k = mo.has_value();
      for (auto& o : m)
        k += o.has_value();
      return k;
    };
    while (t.more() && nops < MAXOPS) {
      ++nops;
      int op     = t.nexti(NOPS[FN_LAZY]);
      size_t s   = (size_t)(t.next() % N);
      int v      = t.nexti(1000);
      snprintf(what, sizeof what, "op #%d kind %d (slot %zu, value %d)", nops, op, s, v);
      switch (op) {
      case 0:
        if (!m[s]) {
          T* p = arr.emplace(s, v);
          VCHECK(p == &arr[s] && p == arr.data() + s && p == arr.begin() + s, "slot-address", "emplace(%zu) returned %p, &a[%zu] = %p; %s", s, (void*)p, s, (void*)&arr[s], what);
          ++constructs;
        } else
          arr[s] = mk<T>(v);
        m[s] = v;
        break;
      case 1:
        if (!m[s]) {
          T x  = mk<T>(v);
          T* p = arr.construct(s, x);
          VCHECK(p == &arr[s], "slot-address", "construct(%zu, const&) returned %p, &a[%zu] = %p; %s", s, (void*)p, s, (void*)&arr[s], what);
          m[s] = v;
          ++constructs;
        }
        break;
      case 2:
        if (!m[s]) {
          T* p = arr.construct(s, mk<T>(v));
          VCHECK(p == &arr[s], "slot-address", "construct(%zu, &&) returned %p, &a[%zu] = %p; %s", s, (void*)p, s, (void*)&arr[s], what);
          m[s] = v;
          ++constructs;
        }
        break;
      case 3:
        if (m[s]) {
          arr.destroy(s);
          m[s].reset();
          ++destroys;
        }
        break;
      case 4: // front / back
        if (m[0])
          VCHECK(val(arr.front()) == *m[0] && val(carr.front()) == *m[0], "front", "front() = %d, model %d; %s", val(arr.front()), *m[0], what);
        if (m[N - 1])
          VCHECK(val(arr.back()) == *m[N - 1] && val(carr.back()) == *m[N - 1], "back", "back() = %d, model %d; %s", val(arr.back()), *m[N - 1], what);
        break;
      case 5: // LazyObject construct
        if (!mo) {
          if (v & 1) {
            T x = mk<T>(v);
            obj.construct(static_cast<const T&>(x));
          } else
            obj.construct(v);
          ++constructs;
        } else
          obj.get() = mk<T>(v);
        mo = v;
        break;
      case 6:
        if (mo) {
          obj.destroy();
          mo.reset();
          ++destroys;
        }
        break;
      default: { // fill every slot, traverse both ways
        for (size_t i = 0; i < N; ++i)
          if (!m[i]) {
            arr.emplace(i, v + (int)i);
            m[i] = v + (int)i;
            ++constructs;
          }
        size_t i = 0;
        T* last = use_end ? arr.end() : arr.begin() + N;
        for (auto it = arr.begin(); it != last; ++it, ++i)
          VCHECK(i < N && val(*it) == *m[i], "iter-forward", "forward traversal element %zu is %d, model %d; %s", i, val(*it), i < N ? *m[i] : -1, what);
        VCHECK(i == N, "iter-forward", "forward traversal yields %zu of %u; %s", i, N, what);
        i = N;
        typedef std::reverse_iterator<const T*> RI;
        RI rb = use_end ? carr.crbegin() : RI(carr.begin() + N), re = RI(carr.begin());
        if (use_end)
          VCHECK(re == carr.crend(), "iter-backward", "crend() != reverse_iterator(begin()); %s", what);
        for (auto it = rb; it != re; ++it) {
          VCHECK(i > 0, "iter-backward", "backward traversal longer than %u; %s", N, what);
          --i;
          VCHECK(val(*it) == *m[i], "iter-backward", "backward traversal element %zu is %d, model %d; %s", i, val(*it), *m[i], what);
        }
        VCHECK(i == 0, "iter-backward", "backward traversal stopped at %zu; %s", i, what);
      }
      }
      for (size_t i = 0; i < N; ++i)
        if (m[i])
          VCHECK(val(arr[i]) == *m[i] && val(carr[i]) == *m[i] && val(*(arr.data() + i)) == *m[i], "element", "slot %zu holds %d, model %d; %s", i, val(arr[i]), *m[i], what);
      if (mo)
        VCHECK(val(obj.get()) == *mo && val(static_cast<const galois::LazyObject<T>&>(obj).get()) == *mo, "element", "LazyObject holds %d, model %d; %s", val(obj.get()), *mo,
               what);
      track_live(tracked_count<T>() * live(), what);
      st.size(live());
    }
    for (size_t i = 0; i < N; ++i)
      if (m[i]) {
        arr.destroy(i);
        ++destroys;
      }
    if (mo) {
      obj.destroy();
      ++destroys;
    }
    track_live(0, "destroying every constructed slot");
    st.ops      = nops;
    st.removals = destroys;
  }
};

// ================================================================== optional
template <class T>
struct OptionalRun {
  typedef galois::optional<T> O;
  Stats st;
  void run(const Case& c) {
    Tail t(c);
    constexpr int NS = 3;
    std::unique_ptr<O> o[NS];
    std::optional<int> m[NS];
    for (auto& p : o)
      p.reset(new O());
    int nops = 0;
    char what[96];
    long resets = 0, sets = 0;
    while (t.more() && nops < MAXOPS) {
      ++nops;
      int op = t.nexti(NOPS[FN_OPTIONAL]);
      uint64_t a = t.next();
      int i = (int)(a % NS), j = (int)((a / NS) % NS);
      int v = t.nexti(1000);
      snprintf(what, sizeof what, "op #%d kind %d (slot %d, other %d, value %d)", nops, op, i, j, v);
      bool had = m[i].has_value();
      switch (op) {
      case 0: {
        T x   = mk<T>(v);
        *o[i] = x;
        m[i]  = v;
        break;
      }
      case 1: {
        T x = mk<T>(v);
        o[i]->assign(x);
        m[i] = v;
        break;
      }
      case 2:
        *o[i] = static_cast<const O&>(*o[j]);
        m[i]  = m[j];
        break;
      case 3:
        o[i]->assign(static_cast<const O&>(*o[j]));
        m[i] = m[j];
        break;
      case 4: {
        O e;
        *o[i] = e;
        m[i].reset();
        break;
      }
      case 5: {
        T x = mk<T>(v);
        o[i].reset(new O(x));
        m[i] = v;
        break;
      }
      case 6: {
        if (i == j)
          break;
        o[i].reset(new O(static_cast<const O&>(*o[j])));
        m[i] = m[j];
        break;
      }
      case 7:
        o[i].reset(new O());
        m[i].reset();
        break;
      default: // write through the accessors
        if (m[i]) {
          if (v & 1)
            o[i]->get() = mk<T>(v);
          else
            **o[i] = mk<T>(v);
          m[i] = v;
        }
      }
      resets += had && !m[i];
      sets += !had && m[i];
      size_t live = 0;
      for (int k = 0; k < NS; ++k) {
        const O& co = *o[k];
        bool b1 = o[k]->is_initialized(), b2 = static_cast<bool>(co), b3 = !co;
        VCHECK(b1 == m[k].has_value() && b2 == b1 && b3 == !b1, "initialized", "optional %d: is_initialized() = %d, bool conversion %d, operator! %d, model %d; %s", k, (int)b1,
               (int)b2, (int)b3, (int)m[k].has_value(), what);
        if (m[k]) {
          ++live;
          VCHECK(val(o[k]->get()) == *m[k] && val(co.get()) == *m[k] && val(**o[k]) == *m[k] && val(*co) == *m[k] && val(*(o[k]->operator->())) == *m[k] &&
                     val(*(co.operator->())) == *m[k],
                 "value", "optional %d holds %d, model %d; %s", k, val(o[k]->get()), *m[k], what);
        }
      }
      track_live(tracked_count<T>() * live, what);
      st.size(live);
    }
    for (auto& p : o)
      p.reset();
    track_live(0, "destroying the optionals");
    st.ops      = nops;
    st.removals = resets;
    st.maxsize  = sets > 0 ? std::max<size_t>(st.maxsize, 1) : st.maxsize;
  }
};

// ====================================================== PriorityQueue.h family
// MinHeap's container parameter: std::vector whose front() on an empty vector
// is recorded (and answered with a sentinel) instead of being undefined.
static long g_front_on_empty = 0;
template <class T>
struct CheckedVec : std::vector<T> {
  typedef std::vector<T> B;
  using B::B;
  CheckedVec() = default;
  static T& sentinel() {
    static T s = mk<T>(-424242);
    return s;
  }
  const T& front() const {
    if (this->empty()) {
      ++g_front_on_empty;
      return sentinel();
    }
    return B::front();
  }
  T& front() {
    if (this->empty()) {
      ++g_front_on_empty;
      return sentinel();
    }
    return B::front();
  }
};

typedef std::multiset<int, ModelCmp> HeapModel;

// H: heap type, T: element type, Cmp: comparator; hooked: container is CheckedVec
template <class H, class T, class Cmp, bool Hooked>
struct HeapRun {
  Stats st;
  static Cmp make_cmp(bool desc, std::true_type) { return Cmp(desc); }
  static Cmp make_cmp(bool, std::false_type) { return Cmp(); }

  void check(H& h, const HeapModel& m, const char* what, const char* pfx = "") {
    track_check(what);
    VCHECK(h.size() == m.size(), (std::string(pfx) + "size").c_str(), "size() = %zu, model %zu; after %s", (size_t)h.size(), m.size(), what);
    VCHECK(h.empty() == m.empty(), (std::string(pfx) + "empty").c_str(), "empty() = %d, model size %zu; after %s", (int)h.empty(), m.size(), what);
    if (!m.empty()) {
      int top = val(h.top());
      VCHECK(top == *m.begin(), *pfx ? "range-ctor-heapify" : "top", "top() = %d, the least element under the comparator is %d (size %zu); after %s", top, *m.begin(), m.size(), what);
    }
    std::multiset<int> got, want(m.begin(), m.end());
    size_t steps = 0;
    for (auto it = h.begin(); it != h.end(); ++it, ++steps) {
      VCHECK(steps < m.size(), (std::string(pfx) + "contents").c_str(), "begin()..end() yields more than the %zu elements of the model; after %s", m.size(), what);
      got.insert(val(*it));
    }
    VCHECK(got == want, (std::string(pfx) + "contents").c_str(), "begin()..end() yields %zu elements which differ from the model's %zu as a multiset; after %s", got.size(), want.size(), what);
    st.size(m.size());
  }

  void run(const Case& c, bool stateful_desc, bool default_desc) {
    Tail t(c);
    int init     = (int)c[F_INIT];
    size_t ninit = (size_t)c[F_N];
    std::vector<int> initv;
    for (size_t i = 0; i < ninit && t.more(); ++i)
      initv.push_back(t.nexti(KEYDOM));
    bool desc_eff   = init == 1 ? default_desc : stateful_desc;
    size_t distinct = std::set<int>(initv.begin(), initv.end()).size();
    // range construction heapifies with operator<: only visible when the
    // comparator is not descending and two different values are present
    if (init >= 1 && !desc_eff && distinct >= 2 && excluded(K_HEAP_RANGE)) {
      count_excluded();
      init     = 0;
      desc_eff = stateful_desc;
    }
    Cmp cmp = make_cmp(desc_eff, std::is_same<Cmp, DirCmp>());
    std::unique_ptr<H> hp;
    HeapModel m(ModelCmp{desc_eff});
    {
      std::vector<T> src;
      for (int v : initv)
        src.push_back(mk<T>(v));
      if (init == 1)
        hp.reset(new H(src.begin(), src.end()));
      else if (init == 2)
        hp.reset(new H(src.begin(), src.end(), cmp));
      else {
        hp.reset(new H(cmp));
        for (auto& x : src)
          hp->push(x);
      }
      m.insert(initv.begin(), initv.end());
    }
    H& h = *hp;
    check(h, m, init ? "range construction" : "construction + pushes", init ? "range-ctor-" : "");
    track_live(tracked_count<T>() * m.size(), "construction");
    int nops = 0;
    char what[96];
    while (t.more() && nops < MAXOPS) {
      ++nops;
      int op     = t.nexti(NOPS[FN_HEAP]);
      uint64_t a = t.next(), b = t.next();
      int v = (int)(a % KEYDOM);
      snprintf(what, sizeof what, "op #%d kind %d (value %d, arg %d)", nops, op, v, (int)(b % 100));
      switch (op) {
      case 0: {
        T x = mk<T>(v);
        if (b % 3 == 0)
          h.push(x);
        else if (b % 3 == 1)
          h.push_back(x);
        else
          h.insert(x);
        m.insert(v);
        break;
      }
      case 1:
        if (!m.empty()) {
          int got = val(h.pop());
          VCHECK(got == *m.begin(), "pop", "pop() = %d, the least element under the comparator is %d (size %zu); %s", got, *m.begin(), m.size(), what);
          m.erase(m.begin());
          ++st.removals;
        }
        break;
      case 2:
        break; // top/size only (checked below)
      case 3: {
        T x = mk<T>(v);
        bool got = h.find(x), want = m.count(v) != 0;
        VCHECK(got == want, "find", "find(%d) = %d, model %d; %s", v, (int)got, (int)want, what);
        break;
      }
      case 4: { // remove(x)
        int x = v;
        if ((b & 1) && !m.empty())
          x = *std::next(m.begin(), (b / 2) % m.size()); // a present element
        if (m.count(x) > 1)
          break; // documented caveat: removes one or all duplicates depending on position
        if (m.empty()) {
          // remove() on an empty heap evaluates container.front(); observable only through the hooked container
          if (!Hooked || excluded(K_HEAP_REMOVE)) {
            if (Hooked)
              count_excluded();
            break;
          }
        }
        T xe        = mk<T>(x);
        long f0     = g_front_on_empty;
        bool got    = h.remove(xe);
        bool want   = m.count(x) != 0;
        VCHECK(g_front_on_empty == f0, "remove-on-empty", "remove(%d) on an empty heap read front() of the empty container; %s", x, what);
        VCHECK(got == want, "remove", "remove(%d) = %d, model %d; %s", x, (int)got, (int)want, what);
        if (want) {
          m.erase(m.find(x));
          ++st.removals;
        }
        break;
      }
      case 5:
        st.removals += !m.empty();
        h.clear();
        m.clear();
        break;
      case 6:
        h.reserve((size_t)(b % 200));
        break;
      default: { // burst of pushes
        int len = 1 + (int)(b % 12);
        for (int i = 0; i < len; ++i) {
          int x = (int)((a + (uint64_t)i * 7) % KEYDOM);
          h.push(mk<T>(x));
          m.insert(x);
        }
      }
      }
      check(h, m, what);
      track_live(tracked_count<T>() * m.size(), what);
    }
    // drain: the pop sequence is sorted under the comparator
    if (c[F_SEED] & 1) {
      while (!m.empty()) {
        int got = val(h.pop());
        VCHECK(got == *m.begin(), "pop", "draining: pop() = %d, expected %d with %zu elements left", got, *m.begin(), m.size());
        m.erase(m.begin());
      }
      VCHECK(h.empty() && h.size() == 0, "size", "heap not empty after draining");
    }
    hp.reset();
    st.ops = nops;
    label("init", init);
    label("desc", desc_eff);
  }
};

typedef std::set<int, ModelCmp> SetModel;
template <class T, class Cmp>
struct OSetRun {
  typedef galois::ThreadSafeOrderedSet<T, Cmp> S;
  Stats st;
  static Cmp make_cmp(bool desc, std::true_type) { return Cmp(desc); }
  static Cmp make_cmp(bool, std::false_type) { return Cmp(); }

  void check(S& s, const SetModel& m, const char* what) {
    track_check(what);
    VCHECK(s.size() == m.size(), "size", "size() = %zu, model %zu; after %s", (size_t)s.size(), m.size(), what);
    VCHECK(s.empty() == m.empty(), "empty", "empty() = %d, model size %zu; after %s", (int)s.empty(), m.size(), what);
    if (!m.empty()) {
      T top = s.top();
      VCHECK(val(top) == *m.begin(), "top", "top() = %d, model %d; after %s", val(top), *m.begin(), what);
    }
    size_t steps = 0;
    auto mi      = m.begin();
    for (auto it = s.begin(); it != s.end(); ++it, ++mi, ++steps) {
      VCHECK(steps < m.size(), "iter-forward", "begin()..end() yields more than %zu elements; after %s", m.size(), what);
      VCHECK(val(*it) == *mi, "iter-forward", "element %zu in order is %d, std::set has %d; after %s", steps, val(*it), *mi, what);
    }
    VCHECK(steps == m.size(), "iter-forward", "begin()..end() yields %zu elements, model %zu; after %s", steps, m.size(), what);
    st.size(m.size());
  }

  void run(const Case& c, bool stateful_desc, bool default_desc) {
    Tail t(c);
    int init     = (int)c[F_INIT];
    size_t ninit = (size_t)c[F_N];
    std::vector<int> initv;
    for (size_t i = 0; i < ninit && t.more(); ++i)
      initv.push_back(t.nexti(KEYDOM));
    bool desc_eff = init == 1 ? default_desc : stateful_desc;
    Cmp cmp       = make_cmp(desc_eff, std::is_same<Cmp, DirCmp>());
    std::unique_ptr<S> sp;
    SetModel m(ModelCmp{desc_eff});
    {
      std::vector<T> src;
      for (int v : initv)
        src.push_back(mk<T>(v));
      if (init == 1)
        sp.reset(new S(src.begin(), src.end()));
      else if (init == 2)
        sp.reset(new S(src.begin(), src.end(), cmp));
      else {
        sp.reset(new S(cmp));
        for (auto& x : src)
          sp->push(x);
      }
      m.insert(initv.begin(), initv.end());
    }
    S& s = *sp;
    check(s, m, init ? "range construction" : "construction + pushes");
    int nops = 0;
    char what[96];
    constexpr bool tracked = std::is_same<T, Tracked>::value;
    while (t.more() && nops < MAXOPS) {
      ++nops;
      int op     = t.nexti(NOPS[FN_OSET]);
      uint64_t a = t.next(), b = t.next();
      int v = (int)(a % KEYDOM);
      snprintf(what, sizeof what, "op #%d kind %d (value %d, arg %d)", nops, op, v, (int)(b % 100));
      switch (op) {
      case 0: {
        T x      = mk<T>(v);
        bool got = s.push(x), want = m.insert(v).second;
        VCHECK(got == want, "push", "push(%d) returned %d, std::set::insert %d; %s", v, (int)got, (int)want, what);
        break;
      }
      case 1: {
        T x = mk<T>(v);
        if (b & 1)
          s.push_back(x);
        else
          s.insert(x);
        m.insert(v);
        break;
      }
      case 2:
        if (!m.empty()) {
          T got = s.pop();
          VCHECK(val(got) == *m.begin(), "pop", "pop() = %d, model %d; %s", val(got), *m.begin(), what);
          m.erase(m.begin());
          ++st.removals;
        }
        break;
      case 3: {
        T x      = mk<T>(v);
        bool got = s.find(x), want = m.count(v) != 0;
        VCHECK(got == want, "find", "find(%d) = %d, model %d; %s", v, (int)got, (int)want, what);
        break;
      }
      case 4:
      case 5: { // remove
        int x = v;
        if (op == 5 && !m.empty())
          x = *std::next(m.begin(), b % m.size());
        if (m.empty()) {
          // remove() on an empty set dereferences begin() == end(); only the
          // address-registry element type observes that without undefined behaviour
          if (!tracked || excluded(K_OSET_REMOVE)) {
            if (tracked)
              count_excluded();
            break;
          }
        }
        bool got, want = m.count(x) != 0;
        {
          T xe = mk<T>(x);
          got  = s.remove(xe);
        }
        if (m.empty()) {
          std::string k;
          {
            std::lock_guard<std::mutex> g(g_reg.mu);
            k = g_reg.errkey;
          }
          VCHECK(k != "tracked-read-unregistered", "remove-on-empty", "remove(%d) on an empty set compared the argument with *begin() of the empty std::set; %s", x, what);
        }
        VCHECK(got == want, "remove", "remove(%d) = %d, model %d; %s", x, (int)got, (int)want, what);
        if (want) {
          m.erase(x);
          ++st.removals;
        }
        break;
      }
      case 6:
        st.removals += !m.empty();
        s.clear();
        m.clear();
        break;
      default: {
        int len = 1 + (int)(b % 12);
        for (int i = 0; i < len; ++i) {
          int x = (int)((a + (uint64_t)i * 7) % KEYDOM);
          s.push(mk<T>(x));
          m.insert(x);
        }
      }
      }
      check(s, m, what);
      track_live(tracked_count<T>() * m.size(), what);
    }
    sp.reset();
    st.ops = nops;
    label("init", init);
    label("desc", desc_eff);
  }
};

// ========================================================= two-level iterators
// shape: inner container sizes; element values identify their flat position
struct TLShape {
  std::vector<size_t> sizes;
  std::vector<int> flat;
  std::vector<size_t> outer_of, off_of; // per flat index
  size_t empties = 0, nonempties = 0;
};
static TLShape tl_shape(const Case& c, Tail& t) {
  TLShape s;
  size_t nout = (size_t)c[F_N];
  for (size_t i = 0; i < nout; ++i) {
    size_t k = t.more() ? (size_t)(t.next() % 6) : 0;
    s.sizes.push_back(k);
    (k ? s.nonempties : s.empties)++;
    for (size_t j = 0; j < k; ++j) {
      s.outer_of.push_back(i);
      s.off_of.push_back(j);
      s.flat.push_back((int)(s.flat.size() * 7 + 3));
    }
  }
  return s;
}
template <class D>
static void tl_fill(D& data, const TLShape& s) {
  // built back to front so that forward_list works too
  typedef typename D::value_type In;
  std::vector<In> tmp;
  size_t pos = 0;
  for (size_t k : s.sizes) {
    std::vector<int> vals(s.flat.begin() + pos, s.flat.begin() + pos + k);
    tmp.emplace_back(vals.begin(), vals.end());
    pos += k;
  }
  data = D(tmp.begin(), tmp.end());
}

struct NoLocate {
  template <class It>
  long operator()(const It&) const {
    return -2; // unknown: the position can only be observed by dereferencing
  }
};

// does a multi-step backward jump of TwoLevelIteratorA have to leave an inner
// range from a position other than its first element?  (exact shape of K_TLA_BACKJUMP)
static bool tla_backjump_shape(const TLShape& s, size_t i, size_t steps) {
  size_t n = s.flat.size();
  if (steps < 2 || steps > i)
    return false;
  size_t pos = i, r = steps;
  if (pos == n) { // from end: one single decrement first
    --pos;
    --r;
  }
  while (r > 0) {
    size_t off = s.off_of[pos];
    if (off == 0) { // single decrement into the previous range
      --pos;
      --r;
    } else
      return r > off - 0 ? true : false; // r <= off stays inside; r > off leaves from a non-first position
  }
  return false;
}

struct TLRun {
  Stats st;
  bool jumped_back = false;

  template <class It, class Locate>
  void check(const char* subject_family, It b, It e, const TLShape& s, Tail& t, bool outer_empty, Locate locate, bool tla_random_jump, bool less_end_excludable) {
    typedef typename std::iterator_traits<It>::iterator_category Cat;
    typedef typename std::iterator_traits<It>::difference_type Diff;
    constexpr bool bidir = std::is_base_of<std::bidirectional_iterator_tag, Cat>::value;
    constexpr bool rnd   = std::is_base_of<std::random_access_iterator_tag, Cat>::value;
    const std::vector<int>& flat = s.flat;
    const size_t n               = flat.size();
    (void)subject_family;
    auto at = [&](const It& it, size_t idx, const char* key, const char* how) {
      long loc = locate(it);
      if (loc != -2)
        VCHECK(loc == (long)idx, key, "%s: iterator is at flat position %ld (-1 = not a valid position), expected %zu of %zu", how, loc, idx, n);
      if (idx == n)
        VCHECK(it == e && !(it != e), key, "%s: iterator expected at end (position %zu) does not compare equal to end", how, n);
      else {
        VCHECK(!(it == e), key, "%s: iterator expected at position %zu of %zu compares equal to end", how, idx, n);
        VCHECK(*it == flat[idx], key, "%s: iterator expected at position %zu of %zu dereferences to %d, expected %d", how, idx, n, *it, flat[idx]);
      }
    };
    // forward
    {
      It it    = b;
      size_t k = 0;
      while (!(it == e)) {
        VCHECK(k < n, "forward", "forward traversal does not reach end after the %zu elements of the flattened sequence", n);
        long loc = locate(it);
        if (loc != -2)
          VCHECK(loc == (long)k, "forward", "forward traversal: after %zu increments the iterator is at flat position %ld (-1 = not a valid position)", k, loc);
        VCHECK(*it == flat[k], "forward", "forward traversal element %zu is %d, flattened sequence has %d", k, *it, flat[k]);
        if (k & 1)
          ++it;
        else
          it++;
        ++k;
      }
      VCHECK(k == n, "forward", "forward traversal yields %zu elements, flattened sequence has %zu", k, n);
    }
    VCHECK((b != e) == (n != 0) && (b == e) == (n == 0), "forward", "begin == end is %d with %zu elements", (int)(b == e), n);
    VCHECK((size_t)std::distance(b, e) == n, "distance", "std::distance(begin,end) = %td, flattened sequence has %zu", (ptrdiff_t)std::distance(b, e), n);
    if constexpr (bidir) {
      if (n > 0) {
        It it = e;
        for (size_t k = n; k-- > 0;) {
          if (k & 1)
            --it;
          else
            it--;
          long loc = locate(it);
          if (loc != -2)
            VCHECK(loc == (long)k, "backward", "backward traversal: after decrementing to position %zu the iterator is at %ld", k, loc);
          VCHECK(*it == flat[k], "backward", "backward traversal element %zu is %d, flattened sequence has %d", k, *it, flat[k]);
        }
        VCHECK(it == b, "backward", "backward traversal over %zu elements does not end at begin", n);
      }
    }
    int nops = 0;
    while (t.more() && nops < 100 && !outer_empty) {
      ++nops;
      size_t i = (size_t)(t.next() % (n + 1)), j = (size_t)(t.next() % (n + 1));
      uint64_t mode = t.next();
      It pi = b;
      std::advance(pi, (Diff)i);
      at(pi, i, "advance-forward", "std::advance(begin, i)");
      if (j < i && !bidir)
        std::swap(i, j), pi = b, std::advance(pi, (Diff)i);
      Diff d = (Diff)j - (Diff)i;
      It pj  = pi;
      bool stepwise = false;
      if (d < 0 && tla_random_jump && tla_backjump_shape(s, i, (size_t)-d)) {
        if (excluded(K_TLA_BACKJUMP)) {
          count_excluded();
          stepwise = true;
        } else
          jumped_back = true;
      }
      if (stepwise) {
        if constexpr (bidir)
          for (Diff k = d; k < 0; ++k)
            --pj;
      } else
        std::advance(pj, d);
      at(pj, j, d < 0 ? "advance-backward" : "advance-forward", d < 0 ? "std::advance(it, negative)" : "std::advance(it, positive)");
      if (d >= 0 || rnd)
        VCHECK(std::distance(pi, pj) == d, "distance", "std::distance between positions %zu and %zu = %td", i, j, (ptrdiff_t)std::distance(pi, pj));
      if constexpr (bidir) {
        if (mode & 1) { // reach i from end
          It q = e;
          bool sw = false;
          if (tla_random_jump && tla_backjump_shape(s, n, n - i)) {
            if (excluded(K_TLA_BACKJUMP)) {
              count_excluded();
              sw = true;
            } else
              jumped_back = true;
          }
          if (sw)
            for (size_t k = n; k > i; --k)
              --q;
          else
            std::advance(q, -(Diff)(n - i));
          at(q, i, n - i ? "advance-backward" : "advance-forward", "std::advance(end, -(n-i))");
          VCHECK(q == pi, "equality", "position %zu reached from begin and from end do not compare equal", i);
        }
      }
      if constexpr (rnd) {
        if (!stepwise) {
          It x = pi + d;
          at(x, j, d < 0 ? "advance-backward" : "advance-forward", "it + d");
          It y = pi;
          y += d;
          VCHECK(y == pj && x == pj, "equality", "it+d, it+=d and std::advance disagree for positions %zu -> %zu", i, j);
          It z = pj - d; // back to i
          bool zshape = d > 0 && tla_random_jump && tla_backjump_shape(s, j, (size_t)d);
          if (zshape && excluded(K_TLA_BACKJUMP)) {
            count_excluded();
          } else {
            if (zshape)
              jumped_back = true;
            at(z, i, d > 0 ? "advance-backward" : "advance-forward", "it - d");
            It w = pj;
            w -= d;
            VCHECK(w == pi, "equality", "it -= d from %zu does not give position %zu", j, i);
          }
          if (j < n) {
            int got = pi[d];
            VCHECK(got == flat[j], d < 0 ? "advance-backward" : "advance-forward", "it[%td] from position %zu = %d, expected %d", (ptrdiff_t)d, i, got, flat[j]);
          }
        }
        VCHECK(pj - pi == d && pi - pj == -d, "distance", "operator- between positions %zu and %zu gives %td / %td", i, j, (ptrdiff_t)(pj - pi), (ptrdiff_t)(pi - pj));
        VCHECK(e - pi == (Diff)(n - i) && pi - b == (Diff)i, "distance", "end - it = %td, it - begin = %td for position %zu of %zu", (ptrdiff_t)(e - pi), (ptrdiff_t)(pi - b), i, n);
        bool both_end = i == n && j == n;
        if (!(both_end && less_end_excludable && excluded(K_TL_LESS_END))) {
          const char* key = both_end ? "less-at-end" : "compare";
          VCHECK((pi < pj) == (i < j) && (pi <= pj) == (i <= j) && (pi > pj) == (i > j) && (pi >= pj) == (i >= j), key,
                 "relational operators between positions %zu and %zu of %zu: < %d <= %d > %d >= %d", i, j, n, (int)(pi < pj), (int)(pi <= pj), (int)(pi > pj), (int)(pi >= pj));
        } else
          count_excluded();
        if (!(i == n && less_end_excludable && excluded(K_TL_LESS_END))) {
          const char* key = i == n ? "less-at-end" : "compare";
          VCHECK((pi < e) == (i < n) && (e < pi) == false && (e <= pi) == (i == n) && (e >= pi) == true && (pi >= e) == (i == n) && (pi > e) == false && (e > pi) == (i < n) &&
                     (pi <= e) == true,
                 key, "relational operators between position %zu (reached by advancing) and the end iterator (n=%zu): it<e %d e<it %d e<=it %d e>=it %d it>=e %d it>e %d e>it %d it<=e %d",
                 i, n, (int)(pi < e), (int)(e < pi), (int)(e <= pi), (int)(e >= pi), (int)(pi >= e), (int)(pi > e), (int)(e > pi), (int)(pi <= e));
        } else
          count_excluded();
      }
    }
    st.ops     = nops;
    st.maxsize = n;
  }
};

// position of a TwoLevelIterator.h iterator from its (protected) state, without dereferencing it
template <class It>
struct TLPeek : It {
  static long locate(const It& it, size_t n) {
    auto ob = it.*(&TLPeek::m_beg_outer), oe = it.*(&TLPeek::m_end_outer), o = it.*(&TLPeek::m_outer);
    auto in = it.*(&TLPeek::m_inner);
    auto bf = it.*(&TLPeek::innerBegFn);
    auto ef = it.*(&TLPeek::innerEndFn);
    size_t base = 0;
    for (auto x = ob; x != oe; ++x) {
      auto ib = bf(*x), ie = ef(*x);
      if (x == o) {
        size_t off = 0;
        for (auto y = ib; y != ie; ++y, ++off)
          if (y == in)
            return (long)(base + off);
        return -1;
      }
      base += (size_t)std::distance(ib, ie);
    }
    return o == oe ? (long)n : -1;
  }
};
struct TLLocate {
  size_t n;
  template <class It>
  long operator()(const It& it) const {
    return TLPeek<It>::locate(it, n);
  }
};

struct VBeg {
  typedef std::vector<int>::iterator result_type;
  result_type operator()(std::vector<int>& v) const { return v.begin(); }
};
struct VEnd {
  typedef std::vector<int>::iterator result_type;
  result_type operator()(std::vector<int>& v) const { return v.end(); }
};

static void run_tl(const Case& c, TLRun& r, TLShape& s) {
  Tail t(c);
  s = tl_shape(c, t);
  bool oe = s.sizes.empty();
  typedef std::vector<std::vector<int>> VV;
  switch ((int)c[F_VARIANT]) {
  case 0: {
    VV d;
    tl_fill(d, s);
    r.check("TL", galois::stl_two_level_begin(d.begin(), d.end()), galois::stl_two_level_end(d.begin(), d.end()), s, t, oe, TLLocate{s.flat.size()}, false, true);
    break;
  }
  case 1: {
    VV d;
    tl_fill(d, s);
    r.check("TL", galois::stl_two_level_cbegin(d.cbegin(), d.cend()), galois::stl_two_level_cend(d.cbegin(), d.cend()), s, t, oe, TLLocate{s.flat.size()}, false, true);
    break;
  }
  case 2: { // reverse inner iterators over the reversed outer sequence: the flattened sequence backwards
    VV d;
    tl_fill(d, s);
    TLShape rs;
    rs.sizes.assign(s.sizes.rbegin(), s.sizes.rend());
    rs.flat.assign(s.flat.rbegin(), s.flat.rend());
    for (size_t i = 0; i < rs.sizes.size(); ++i)
      for (size_t j = 0; j < rs.sizes[i]; ++j) {
        rs.outer_of.push_back(i);
        rs.off_of.push_back(j);
      }
    r.check("TL", galois::stl_two_level_rbegin(d.rbegin(), d.rend()), galois::stl_two_level_rend(d.rbegin(), d.rend()), rs, t, oe, TLLocate{s.flat.size()}, false, true);
    break;
  }
  case 3: {
    VV d;
    tl_fill(d, s);
    r.check("TL", galois::make_two_level_begin(d.begin(), d.end(), VBeg(), VEnd()), galois::make_two_level_end(d.begin(), d.end(), VBeg(), VEnd()), s, t, oe, TLLocate{s.flat.size()}, false,
            true);
    break;
  }
  case 4: {
    std::list<std::list<int>> d;
    tl_fill(d, s);
    r.check("TL", galois::stl_two_level_begin(d.begin(), d.end()), galois::stl_two_level_end(d.begin(), d.end()), s, t, oe, TLLocate{s.flat.size()}, false, false);
    break;
  }
  case 5: {
    std::vector<std::forward_list<int>> d;
    tl_fill(d, s);
    r.check("TL", galois::stl_two_level_begin(d.begin(), d.end()), galois::stl_two_level_end(d.begin(), d.end()), s, t, oe, TLLocate{s.flat.size()}, false, false);
    break;
  }
  default: {
    std::forward_list<std::list<int>> d;
    tl_fill(d, s);
    r.check("TL", galois::stl_two_level_begin(d.begin(), d.end()), galois::stl_two_level_end(d.begin(), d.end()), s, t, oe, TLLocate{s.flat.size()}, false, false);
  }
  }
}

template <class D>
struct TLALocate {
  D* data;
  size_t n;
  template <class It>
  long operator()(const It& it) const {
    auto o      = it.get_outer_reference();
    size_t base = 0;
    for (auto oi = data->begin(); oi != data->end(); ++oi) {
      if (oi == o) {
        size_t off = 0;
        for (auto ii = oi->begin(); ii != oi->end(); ++ii, ++off)
          if (ii == it.get_inner_reference())
            return (long)(base + off);
        return -1;
      }
      base += (size_t)std::distance(oi->begin(), oi->end());
    }
    return o == data->end() ? (long)n : -1;
  }
};

template <class D, class Tag>
static void run_tla_one(const Case& c, TLRun& r, TLShape& s) {
  Tail t(c);
  s = tl_shape(c, t);
  D d;
  tl_fill(d, s);
  auto p = galois::make_two_level_iterator<Tag>(d.begin(), d.end());
  typedef typename D::value_type::iterator Inner;
  constexpr bool jump = std::is_base_of<std::random_access_iterator_tag, Tag>::value &&
                        std::is_base_of<std::random_access_iterator_tag, typename std::iterator_traits<Inner>::iterator_category>::value;
  r.check("TLA", p.first, p.second, s, t, false, TLALocate<D>{&d, s.flat.size()}, jump, false);
}
template <class D>
static void run_tla_d(const Case& c, TLRun& r, TLShape& s, int tag) {
  if (tag == 0)
    run_tla_one<D, std::forward_iterator_tag>(c, r, s);
  else if (tag == 1)
    run_tla_one<D, std::bidirectional_iterator_tag>(c, r, s);
  else
    run_tla_one<D, std::random_access_iterator_tag>(c, r, s);
}
static void run_tla(const Case& c, TLRun& r, TLShape& s) {
  int v = (int)c[F_VARIANT];
  switch (v / 3) {
  case 0:
    run_tla_d<std::vector<std::vector<int>>>(c, r, s, v % 3);
    break;
  case 1:
    run_tla_d<std::vector<std::list<int>>>(c, r, s, v % 3);
    break;
  case 2:
    run_tla_d<std::list<std::vector<int>>>(c, r, s, v % 3);
    break;
  case 3:
    run_tla_d<std::list<std::list<int>>>(c, r, s, v % 3);
    break;
  default: // forward-only inner iterators under a bidirectional two-level iterator
    if (excluded(K_TLA_FWD_DECR)) {
      count_excluded();
      run_tla_one<std::vector<std::forward_list<int>>, std::forward_iterator_tag>(c, r, s);
    } else
      run_tla_one<std::vector<std::forward_list<int>>, std::bidirectional_iterator_tag>(c, r, s);
  }
}

// ================================================================ LargeArray
static const char* ALLOC_NAMES[] = {"interleaved", "blocked", "local", "floating", "specified", "create", "wrap"};
template <class T>
struct LargeRun {
  typedef galois::LargeArray<T> LA;
  Stats st;
  void check(LA& la, const std::vector<int>& m, const char* what) {
    track_check(what);
    const LA& cla = la;
    VCHECK(la.size() == m.size() && (size_t)(la.end() - la.begin()) == m.size() && (size_t)(cla.end() - cla.begin()) == m.size() && la.data() == la.begin() &&
               cla.data() == cla.begin(),
           "size", "size() = %zu, end()-begin() = %td, model %zu; after %s", la.size(), la.end() - la.begin(), m.size(), what);
    size_t i = 0;
    for (auto it = la.begin(); it != la.end(); ++it, ++i) {
      VCHECK(i < m.size(), "iter-forward", "traversal longer than %zu; after %s", m.size(), what);
      VCHECK(val(*it) == m[i] && val(la[i]) == m[i] && val(cla[i]) == m[i] && val(la.at(i)) == m[i] && val(cla.at(i)) == m[i], "element", "element %zu is %d, model %d; after %s", i,
             val(*it), m[i], what);
    }
    VCHECK(i == m.size(), "iter-forward", "traversal yields %zu of %zu; after %s", i, m.size(), what);
  }
  // construct(args...) / create(n, args...) with an rvalue argument: every element must get the value
  template <class F>
  void fill(LA& la, size_t n, int v, std::vector<int>& m, const char* how, F call) {
    constexpr bool tracked = std::is_same<T, Tracked>::value;
    bool rvalue            = true;
    if (tracked && n >= 2 && excluded(K_LARGE_RVALUE)) {
      count_excluded();
      rvalue = false;
    }
    call(rvalue);
    m.assign(n, v);
    for (size_t i = 0; i < la.size() && i < n; ++i)
      VCHECK(val(la[i]) == v, rvalue ? "construct-rvalue" : "element", "%s with %s argument of value %d over %zu elements: element %zu holds %d%s", how,
             rvalue ? "an rvalue" : "an lvalue", v, n, i, val(la[i]), val(la[i]) == MOVED_FROM ? " (a moved-from value)" : "");
  }

  void run(const Case& c) {
    Tail t(c);
    int kind       = (int)c[F_INIT];
    size_t n       = (size_t)c[F_N];
    unsigned thr   = galois::setActiveThreads(1 + (unsigned)(c[F_P] % 4));
    uint64_t seed  = (uint64_t)c[F_SEED];
    std::unique_ptr<void, void (*)(void*)> wrapbuf(nullptr, ::free); // outlives the array that wraps it
    std::vector<int> m;
    {
      std::unique_ptr<LA> lp;
      if (kind == 6) {
        wrapbuf.reset(malloc(n * sizeof(T) + 1));
        lp.reset(new LA(wrapbuf.get(), n));
      } else
        lp.reset(new LA());
      LA& la = *lp;
      switch (kind) {
      case 0:
        la.allocateInterleaved(n);
        break;
      case 1:
        la.allocateBlocked(n);
        break;
      case 2:
        la.allocateLocal(n);
        break;
      case 3:
        la.allocateFloating(n);
        break;
      case 4: {
        std::vector<uint64_t> ranges(thr + 1);
        for (unsigned i = 0; i <= thr; ++i)
          ranges[i] = (uint64_t)n * i / thr;
        la.allocateSpecified(n, ranges);
        break;
      }
      case 5:
        fill(la, n, 7, m, "create(n, value)", [&](bool rv) {
          if (rv)
            la.create(n, mk<T>(7));
          else {
            T x = mk<T>(7);
            la.create(n, x);
          }
        });
        break;
      default:;
      }
      VCHECK(la.size() == n && (size_t)(la.end() - la.begin()) == n, "size", "after %s allocation of %zu elements size() = %zu", ALLOC_NAMES[kind], n, la.size());
      if (kind != 5) {
        if (seed & 1)
          fill(la, n, 9, m, "construct(value)", [&](bool rv) {
            if (rv)
              la.construct(mk<T>(9));
            else {
              T x = mk<T>(9);
              la.construct(x);
            }
          });
        else
          for (size_t i = 0; i < n; ++i) {
            int v = (int)(prf(seed, i) % 1000);
            la.constructAt(i, mk<T>(v));
            m.push_back(v);
          }
      }
      check(la, m, "allocation + construction");
      track_live(tracked_count<T>() * n, "allocation + construction");
      LA other;
      bool other_fresh = true; // allocate() requires an array that holds no storage
      std::vector<int> mo;
      int nops = 0;
      char what[96];
      while (t.more() && nops < MAXOPS) {
        ++nops;
        int op     = t.nexti(NOPS[FN_LARGE]);
        uint64_t a = t.next();
        int v      = t.nexti(1000);
        size_t i   = n ? (size_t)(a % n) : 0;
        snprintf(what, sizeof what, "op #%d kind %d (index %zu, value %d)", nops, op, i, v);
        switch (op) {
        case 0:
          if (m.size()) {
            i = a % m.size();
            la.set(i, mk<T>(v));
            m[i] = v;
          }
          break;
        case 1:
          if (m.size()) {
            i     = a % m.size();
            la[i] = mk<T>(v);
            m[i]  = v;
          }
          break;
        case 2:
          if (m.size()) {
            i        = a % m.size();
            la.at(i) = mk<T>(v);
            m[i]     = v;
          }
          break;
        case 3:
          if (m.size()) {
            i = a % m.size();
            la.destroyAt(i);
            la.constructAt(i, v);
            m[i] = v;
            ++st.removals;
          }
          break;
        case 4: {
          LA tmp(std::move(la));
          VCHECK(la.size() == 0 && la.begin() == la.end(), "move", "moved-from LargeArray has size %zu; %s", la.size(), what);
          check(tmp, m, "move construction");
          la = std::move(tmp);
          break;
        }
        case 5:
          swap(la, other);
          m.swap(mo);
          other_fresh = false;
          break;
        default: // (re)build the second array
          if (other_fresh) {
            other_fresh = false;
            size_t k    = a % 20;
            other.allocateFloating(k);
            for (size_t x = 0; x < k; ++x) {
              other.constructAt(x, mk<T>(v + (int)x));
              mo.push_back(v + (int)x);
            }
          }
        }
        check(la, m, what);
        check(other, mo, what);
        track_live(tracked_count<T>() * (m.size() + mo.size()), what);
      }
      st.ops = nops;
      if (seed & 2) { // explicit tear-down as the graph classes do it, then reuse
        la.destroy();
        la.deallocate();
        VCHECK(la.size() == 0 && la.begin() == la.end(), "size", "after destroy()+deallocate() size() = %zu", la.size());
        track_live(tracked_count<T>() * mo.size(), "destroy() + deallocate()");
        size_t k = seed % 5;
        la.allocateLocal(k);
        std::vector<int> m2;
        fill(la, k, 3, m2, "construct(value)", [&](bool rv) {
          if (rv)
            la.construct(mk<T>(3));
          else {
            T x = mk<T>(3);
            la.construct(x);
          }
        });
        check(la, m2, "re-allocation after deallocate()");
        ++st.removals;
      }
    } // destructors destroy every element and release the storage
    wrapbuf.reset();
    track_live(0, "destruction of the arrays");
    st.maxsize = n;
    label("alloc", ALLOC_NAMES[kind]);
    label("threads", (long)thr);
  }
};

// ============================================================ CopyableTuple
template <class A, class B>
static void check_pair(int x, int y) {
  typedef galois::Pair<A, B> P;
  static_assert(std::is_trivially_copyable<P>::value, "Pair of trivially copyable types must be trivially copyable");
  P p((A)x, (B)y);
  VCHECK(p.first == (A)x && p.second == (B)y, "fields", "Pair(%d,%d) holds (%lld,%lld)", x, y, (long long)p.first, (long long)p.second);
  P q = p, r;
  r   = q;
  VCHECK(r.first == (A)x && r.second == (B)y, "copy", "copied Pair(%d,%d) holds (%lld,%lld)", x, y, (long long)r.first, (long long)r.second);
  // contiguous layout: second directly follows first (up to its alignment), no tail beyond alignment
  size_t off2 = (sizeof(A) + alignof(B) - 1) / alignof(B) * alignof(B);
  size_t al   = std::max(alignof(A), alignof(B));
  size_t tot  = (off2 + sizeof(B) + al - 1) / al * al;
  VCHECK((size_t)((char*)&p.second - (char*)&p) == off2 && (char*)&p.first == (char*)&p && sizeof(P) == tot, "layout", "Pair<%zu,%zu bytes>: second at offset %td, sizeof %zu",
         sizeof(A), sizeof(B), (char*)&p.second - (char*)&p, sizeof(P));
  unsigned char raw[sizeof(P)];
  ::memcpy(raw, &p, sizeof(P));
  P back;
  ::memcpy(&back, raw, sizeof(P));
  VCHECK(back.first == p.first && back.second == p.second, "copy", "Pair does not survive a byte copy");
}
template <class A, class B, class C>
static void check_triple(int x, int y, int z) {
  typedef galois::TupleOfThree<A, B, C> P;
  static_assert(std::is_trivially_copyable<P>::value, "TupleOfThree of trivially copyable types must be trivially copyable");
  P p((A)x, (B)y, (C)z);
  VCHECK(p.first == (A)x && p.second == (B)y && p.third == (C)z, "fields", "TupleOfThree(%d,%d,%d) holds (%lld,%lld,%lld)", x, y, z, (long long)p.first, (long long)p.second,
         (long long)p.third);
  P q = p, r;
  r   = q;
  VCHECK(r.first == (A)x && r.second == (B)y && r.third == (C)z, "copy", "copied TupleOfThree(%d,%d,%d) differs", x, y, z);
  size_t off2 = (sizeof(A) + alignof(B) - 1) / alignof(B) * alignof(B);
  size_t off3 = (off2 + sizeof(B) + alignof(C) - 1) / alignof(C) * alignof(C);
  VCHECK((size_t)((char*)&p.second - (char*)&p) == off2 && (size_t)((char*)&p.third - (char*)&p) == off3, "layout", "TupleOfThree: offsets %td/%td, expected %zu/%zu",
         (char*)&p.second - (char*)&p, (char*)&p.third - (char*)&p, off2, off3);
}
static void run_tuple(const Case& c, Stats& st) {
  Tail t(c);
  int n = 0;
  do {
    int x = t.nexti(256) - 128, y = t.nexti(256) - 128, z = t.nexti(256) - 128;
    check_pair<int, int>(x, y);
    check_pair<char, int>(x, y);
    check_pair<uint64_t, uint32_t>(x + 128, y + 128);
    check_pair<uint32_t, double>(x + 128, y);
    check_triple<int, int, int>(x, y, z);
    check_triple<uint64_t, uint32_t, uint8_t>(x + 128, y + 128, z + 128);
    check_triple<char, short, long>(x, y, z);
    {
      galois::Pair<Tracked, Tracked> p{Tracked(x), Tracked(y)};
      VCHECK(val(p.first) == x && val(p.second) == y, "fields", "Pair<Tracked,Tracked>(%d,%d) holds (%d,%d)", x, y, val(p.first), val(p.second));
      galois::TupleOfThree<Tracked, int, Tracked> q{Tracked(x), y, Tracked(z)}, r;
      r = q;
      VCHECK(val(r.first) == x && r.second == y && val(r.third) == z, "copy", "TupleOfThree<Tracked,int,Tracked> copy differs");
      track_live(6, "tuple construction");
    }
    track_live(0, "tuple destruction");
    ++n;
  } while (t.more() && n < 50);
  st.ops = n;
}

// ================================================================= generator
static void gen_ops(Case& c, rc::Gen<int> opgen, int64_t arange, int64_t brange);
static void gen_ops(Case& c, int, std::initializer_list<std::pair<size_t, int>> weights, int64_t arange, int64_t brange) {
  gen_ops(c, rc::gen::weightedElement<int>(weights), arange, brange);
}
static void gen_ops(Case& c, rc::Gen<int> opgen, int64_t arange, int64_t brange) {
  using namespace rc;
  // a container generator: rapidcheck removes operations anywhere in the sequence when shrinking
  typedef std::tuple<int, int64_t, int64_t> Op;
  auto ops = *gen::scale(3.0, gen::container<std::vector<Op>>(gen::tuple(opgen, gen::inRange<int64_t>(0, arange), gen::inRange<int64_t>(0, brange))));
  if (ops.size() > (size_t)MAXOPS)
    ops.resize(MAXOPS);
  for (auto& o : ops) {
    c.f.push_back(std::get<0>(o));
    c.f.push_back(std::get<1>(o));
    c.f.push_back(std::get<2>(o));
  }
}

Case generate() {
  using namespace rc;
  Case c;
  c.f.assign(F_COUNT, 0);
  int fn = *gen::weightedElement<int>({{6, FN_FLATMAP}, {5, FN_POD}, {2, FN_LAZY}, {2, FN_OPTIONAL}, {5, FN_HEAP}, {3, FN_OSET}, {4, FN_TL}, {6, FN_TLA}, {2, FN_LARGE}, {1, FN_TUPLE}});
  c[F_FN]      = fn;
  c[F_VARIANT] = *uni(0, NVARIANTS[fn]);
  c[F_SEED]    = *uni(0, 1 << 20);
  c[F_P]       = *uni(0, 2);
  switch (fn) {
  case FN_FLATMAP: {
    c[F_INIT] = *gen::weightedElement<int>({{3, 0}, {1, 1}, {2, 2}});
    c[F_N]    = c[F_INIT] ? *gen::inRange<int64_t>(0, 13) : 0;
    for (int i = 0; i < c[F_N]; ++i) {
      c.f.push_back(*gen::inRange<int64_t>(0, KEYDOM));
      c.f.push_back(*gen::inRange<int64_t>(0, 1000));
    }
    gen_ops(c, fn, {{3, 0}, {2, 1}, {3, 2}, {3, 3}, {2, 4}, {1, 5}, {1, 6}, {1, 7}, {2, 8}, {2, 9}, {1, 10}, {1, 11}, {1, 12}, {1, 13}, {1, 14}, {1, 15}}, KEYDOM, 1000);
    break;
  }
  case FN_POD: {
    c[F_INIT] = *gen::weightedElement<int>({{3, 0}, {1, 1}, {1, 2}});
    c[F_N]    = c[F_INIT] ? *gen::inRange<int64_t>(0, 40) : 0;
    if (c[F_INIT] == 1)
      for (int i = 0; i < c[F_N]; ++i)
        c.f.push_back(*gen::inRange<int64_t>(0, 1000));
    gen_ops(c, fn, {{6, 0}, {5, 1}, {2, 2}, {2, 3}, {2, 4}, {1, 5}, {1, 6}, {1, 7}, {1, 8}, {2, 9}, {1, 10}, {1, 11}, {1, 12}, {1, 13}}, 1000, 1000);
    break;
  }
  case FN_LAZY:
    gen_ops(c, fn, {{3, 0}, {2, 1}, {2, 2}, {3, 3}, {1, 4}, {2, 5}, {2, 6}, {1, 7}}, 8, 1000);
    break;
  case FN_OPTIONAL:
    gen_ops(c, fn, {{2, 0}, {2, 1}, {2, 2}, {2, 3}, {2, 4}, {1, 5}, {1, 6}, {1, 7}, {2, 8}}, 9, 1000);
    break;
  case FN_HEAP:
  case FN_OSET: {
    c[F_INIT] = *gen::weightedElement<int>({{2, 0}, {1, 1}, {2, 2}});
    c[F_N]    = c[F_INIT] ? *gen::inRange<int64_t>(0, 16) : 0;
    for (int i = 0; i < c[F_N]; ++i)
      c.f.push_back(*gen::inRange<int64_t>(0, KEYDOM));
    if (fn == FN_HEAP)
      gen_ops(c, fn, {{6, 0}, {4, 1}, {1, 2}, {2, 3}, {4, 4}, {1, 5}, {1, 6}, {1, 7}}, KEYDOM, 1000);
    else
      gen_ops(c, fn, {{6, 0}, {2, 1}, {4, 2}, {2, 3}, {2, 4}, {2, 5}, {1, 6}, {1, 7}}, KEYDOM, 1000);
    break;
  }
  case FN_TL:
  case FN_TLA: {
    c[F_N] = *gen::inRange<int64_t>(0, 10);
    for (int i = 0; i < c[F_N]; ++i)
      c.f.push_back(*gen::weightedElement<int64_t>({{4, 0}, {2, 1}, {2, 2}, {2, 3}, {1, 4}, {1, 5}}));
    gen_ops(c, gen::inRange<int>(0, 51), 51, 2); // (position i, position j, mode), positions modulo n+1
    break;
  }
  case FN_LARGE:
    c[F_INIT] = *uni(0, 7);
    c[F_N]    = *gen::inRange<int64_t>(0, 300);
    c[F_P]    = *uni(0, 4);
    gen_ops(c, fn, {{2, 0}, {2, 1}, {2, 2}, {2, 3}, {1, 4}, {1, 5}, {1, 6}}, 300, 1000);
    if (c.f.size() > F_COUNT + 3 * 60)
      c.f.resize(F_COUNT + 3 * 60);
    break;
  default: {
    int n = *gen::inRange(0, 30);
    for (int i = 0; i < n; ++i)
      c.f.push_back(*gen::inRange<int64_t>(0, 256));
  }
  }
  return c;
}

void normalize_case(Case& c) {
  if (c.f.size() < (size_t)F_COUNT)
    c.f.resize(F_COUNT, 0);
  auto mod = [](int64_t v, int64_t m) { return (int64_t)((uint64_t)v % (uint64_t)m); };
  c[F_FN]      = mod(c[F_FN], NFN);
  int fn       = (int)c[F_FN];
  c[F_VARIANT] = mod(c[F_VARIANT], NVARIANTS[fn]);
  c[F_INIT]    = mod(c[F_INIT], NINIT[fn]);
  c[F_N]       = mod(c[F_N], fn == FN_LARGE ? 300 : fn == FN_POD ? 40 : fn == FN_TL || fn == FN_TLA ? 10 : 16);
  c[F_P]       = mod(c[F_P], 4);
  c[F_SEED]    = mod(c[F_SEED], 1 << 20);
}

std::string finding_key(const Case& c0, const std::string& failkey) {
  Case c = c0;
  normalize_case(c);
  int fn = (int)c[F_FN];
  if (fn == FN_LAZY && failkey == "crash" && !excluded(K_LAZY_END))
    return K_LAZY_END; // every LazyArray case evaluates end() first; UBSan aborts inside it
  if (fn == FN_TLA && c[F_VARIANT] == 12 && (failkey == "backward" || failkey == "advance-backward" || failkey == "equality") && !excluded(K_TLA_FWD_DECR))
    return K_TLA_FWD_DECR;
  return std::string("C14/") + FN_NAMES[fn] + "/" + failkey;
}

#ifndef VERIF_LIBFUZZER
struct AlarmGuard { // a library call that never returns is a failure, not a hang of the campaign
  AlarmGuard() {
    signal(SIGALRM, [](int) { abort(); });
    alarm(30);
  }
  ~AlarmGuard() { alarm(0); }
};
#else
struct AlarmGuard {};
#endif

void run(const Case& c0) {
  Case c = c0;
  normalize_case(c);
  AlarmGuard ag;
  (void)ag;
  g_reg.reset();
  g_pod.reset();
  g_front_on_empty = 0;
  int fn = (int)c[F_FN], variant = (int)c[F_VARIANT];
  bool p = c[F_P] & 1;
  label("fn", FN_NAMES[fn]);
  label("variant", std::string(FN_NAMES[fn]) + "#" + std::to_string(variant));
  Stats st;
  bool nt = false;
  switch (fn) {
  case FN_FLATMAP: {
#define FMRUN(K, M, C)                                                                                                 \
  {                                                                                                                    \
    FlatMapRun<K, M, C> r;                                                                                             \
    r.run(c);                                                                                                          \
    st = r.st;                                                                                                         \
  }
    if (variant == 0)
      FMRUN(int, int, std::less<int>)
    else if (variant == 1)
      FMRUN(int, int, DirCmp)
    else if (variant == 2)
      FMRUN(int, Tracked, DirCmp)
    else
      FMRUN(Tracked, int, DirCmp)
    nt = st.maxsize >= 3 && st.removals >= 1;
    break;
  }
  case FN_POD: {
    long reallocs;
    bool alias;
    if (variant == 0) {
      PodRun<int> r;
      r.run(c);
      st = r.st, reallocs = r.grow_reallocs, alias = r.alias_growth;
    } else {
      PodRun<Pod12> r;
      r.run(c);
      st = r.st, reallocs = r.grow_reallocs, alias = r.alias_growth;
    }
    VCHECK(g_pod.bad_free == 0, "storage-free", "free() was called on a block that is not live storage of an array (double free?)");
    VCHECK(g_pod.sizes.empty(), "storage-leak", "%zu storage blocks obtained from realloc were never freed after all arrays were destroyed", g_pod.sizes.size());
    label("alias_realloc", alias);
    label("reallocs", reallocs == 0 ? "0" : reallocs < 3 ? "1-2" : ">=3");
    nt = reallocs >= 2 && st.removals >= 1;
    g_pod.reset();
    break;
  }
  case FN_LAZY: {
#define LZRUN(T, N)                                                                                                    \
  {                                                                                                                    \
    LazyRun<T, N> r;                                                                                                   \
    r.run(c);                                                                                                          \
    st = r.st;                                                                                                         \
    nt = r.constructs >= 2 && r.destroys >= 1;                                                                         \
  }
    if (variant == 0)
      LZRUN(int, 4)
    else if (variant == 1)
      LZRUN(Tracked, 1)
    else if (variant == 2)
      LZRUN(Tracked, 5)
    else
      LZRUN(Tracked, 8)
    break;
  }
  case FN_OPTIONAL: {
    if (variant == 0) {
      OptionalRun<int> r;
      r.run(c);
      st = r.st;
    } else {
      OptionalRun<Tracked> r;
      r.run(c);
      st = r.st;
    }
    nt = st.maxsize >= 1 && st.removals >= 1;
    break;
  }
  case FN_HEAP: {
#define HPRUN(H, T, C, HOOK, SD, DD)                                                                                   \
  {                                                                                                                    \
    HeapRun<H, T, C, HOOK> r;                                                                                          \
    r.run(c, SD, DD);                                                                                                  \
    st = r.st;                                                                                                         \
  }
    typedef std::less<int> L;
    typedef std::greater<int> G;
    switch (variant) {
    case 0:
      HPRUN(galois::MinHeap<int COMMA L COMMA CheckedVec<int>>, int, L, true, false, false)
      break;
    case 1:
      HPRUN(galois::MinHeap<int COMMA G COMMA CheckedVec<int>>, int, G, true, true, true)
      break;
    case 2:
      HPRUN(galois::MinHeap<int COMMA L>, int, L, false, false, false)
      break;
    case 3:
      HPRUN(galois::ThreadSafeMinHeap<int COMMA L>, int, L, false, false, false)
      break;
    case 4:
      HPRUN(galois::ThreadSafeMinHeap<int COMMA G>, int, G, false, true, true)
      break;
    case 5:
      HPRUN(galois::MinHeap<Tracked COMMA std::less<Tracked>>, Tracked, std::less<Tracked>, false, false, false)
      break;
    case 6:
      HPRUN(galois::gstl::PQ<int COMMA L>, int, L, false, false, false)
      break;
    default:
      HPRUN(galois::MinHeap<int COMMA DirCmp COMMA CheckedVec<int>>, int, DirCmp, true, p, false)
    }
    nt = st.maxsize >= 3 && st.removals >= 1;
    break;
  }
  case FN_OSET: {
#define OSRUN(T, C, SD, DD)                                                                                            \
  {                                                                                                                    \
    OSetRun<T, C> r;                                                                                                   \
    r.run(c, SD, DD);                                                                                                  \
    st = r.st;                                                                                                         \
  }
    if (variant == 0)
      OSRUN(int, std::less<int>, false, false)
    else if (variant == 1)
      OSRUN(int, std::greater<int>, true, true)
    else if (variant == 2)
      OSRUN(int, DirCmp, p, false)
    else
      OSRUN(Tracked, std::less<Tracked>, false, false)
    nt = st.maxsize >= 3 && st.removals >= 1;
    break;
  }
  case FN_TL:
  case FN_TLA: {
    TLRun r;
    TLShape s;
    if (fn == FN_TL)
      run_tl(c, r, s);
    else
      run_tla(c, r, s);
    st = r.st;
    label("empties", s.empties == 0 ? "0" : s.empties < 3 ? "1-2" : ">=3");
    label("backjump_shape", r.jumped_back);
    // at least two non-empty inner ranges separated/accompanied by an empty one, and positions were exercised
    nt = s.nonempties >= 2 && s.empties >= 1 && st.ops >= 1;
    break;
  }
  case FN_LARGE: {
    if (variant == 0) {
      LargeRun<int> r;
      r.run(c);
      st = r.st;
    } else {
      LargeRun<Tracked> r;
      r.run(c);
      st = r.st;
    }
    nt = st.maxsize >= 2 && st.removals >= 1;
    break;
  }
  default:
    run_tuple(c, st);
    nt = st.ops >= 2;
  }
  track_live(0, "end of case");
  label("maxsize", sizeclass(st.maxsize));
  label("ops", st.ops == 0 ? "0" : st.ops < 10 ? "1-9" : st.ops < 100 ? "10-99" : ">=100");
  label("removal", st.removals > 0);
  nontrivial(nt);
  vok();
}

} // namespace verif

VERIF_INPROC_MAIN(galois::SharedMemSys G)
