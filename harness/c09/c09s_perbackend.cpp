// C09 (schedule-controlled part) -- the per-thread / per-socket storage
// offset allocator (PerBackend): a lock-free bump pointer with a locked,
// size-classed free list behind it.  Threads allocate and release offsets
// concurrently while the 2 MB page is almost full, under gsched (E1), so the
// window between the room check and the fetch_add, and between a release at
// the end of the page and a concurrent allocation, are scheduling decisions.
// Oracle: every offset handed out lies inside the page and is disjoint from
// every live block.  DESIGN.md 4/C09.
#include "verif_e1.h"

#include "galois/Galois.h"
#include "galois/substrate/PerThreadStorage.h"
#include "galois/substrate/PageAlloc.h"

#include <map>

using namespace verif;

namespace verif {
const char* const HARNESS = "c09s";
enum { F_THREADS = S_NFIELDS, F_ROOM, F_FREED, F_DELAY, F_OSEED, F_COUNT };
const std::vector<const char*> FIELDS = {VERIF_SCHED_FIELDS, "threads", "room", "freed", "delay", "oseed"};
// tail: one value per operation: thread + 8 * (kind + 2 * sizeclass); kind 0 = allocate, 1 = release this thread's oldest block

static const unsigned SIZES[] = {1, 64, 128, 129, 200, 256, 300, 512};

Case generate() {
  using namespace rc;
  Case c;
  c.f.assign(F_COUNT, 0);
  gen_schedule(c);
  c[F_THREADS] = *gen::weightedElement<int>({{4, 2}, {3, 3}, {2, 4}});
  c[F_ROOM]    = *uni(0, 6);  // free 128-byte slots left at the end of the page when the threads start
  c[F_FREED]   = *uni(0, 4);  // which blocks were released before: bit 0 a 128-byte block next to the end, bit 1 small blocks of several classes
  c[F_DELAY]   = *uni(0, 3);
  c[F_OSEED]   = *uni(0, 1 << 20);
  int nops     = *uni(2, 17);
  for (int i = 0; i < nops; ++i) {
    int thr  = *uni(0, 8);
    int kind = *gen::weightedElement<int>({{3, 0}, {1, 1}});
    int sc   = *gen::weightedElement<int>({{2, 0}, {1, 1}, {4, 2}, {1, 3}, {1, 4}, {2, 5}, {1, 6}, {1, 7}});
    c.f.push_back(thr + 8 * (kind + 2 * sc));
  }
  return c;
}

std::string finding_key(const Case&, const std::string& failkey) { return "C09/PerBackend-concurrent/" + failkey; }

struct Quiet {
  Quiet() { gsched_quiet(1); }
  ~Quiet() { gsched_quiet(-1); }
};

static unsigned rounded(unsigned sz) {
  unsigned s = 128;
  while (s < sz)
    s <<= 1;
  return s;
}

struct Op {
  int thr, kind, sc;
};

void run(const Case& c) {
  setenv("GALOIS_VERIF_TOPO", "4", 1);
  start_scheduler(c, 20000, 0, 60000000);
  galois::SharedMemSys G;
  auto& tp          = galois::substrate::getThreadPool();
  unsigned T        = galois::setActiveThreads((unsigned)c[F_THREADS]);
  const size_t PAGE = galois::substrate::allocSize();
  int delay         = (int)c[F_DELAY];
  uint64_t sd       = (uint64_t)c[F_OSEED];
  galois::substrate::PerBackend b;
  std::map<unsigned, unsigned> live; // offset -> rounded size (quiet bookkeeping)
  auto claim = [&](unsigned off, unsigned sz, const char* who, unsigned tid) {
    unsigned r = rounded(sz);
    if ((size_t)off + r > PAGE)
      vfail("outside-page", "%s: allocOffset(%u) on thread %u returned offset %u: the %u-byte block ends at %zu, the per-thread page has %zu bytes", who, sz, tid,
            off, r, (size_t)off + r, PAGE);
    if (off % 128)
      vfail("misaligned", "%s: allocOffset(%u) returned offset %u, not cache-line aligned", who, sz, off);
    auto it = live.upper_bound(off);
    if (it != live.end() && it->first < off + r)
      vfail("overlap", "%s: allocOffset(%u) on thread %u returned [%u,+%u) which overlaps the live block [%u,+%u)", who, sz, tid, off, r, it->first, it->second);
    if (it != live.begin()) {
      --it;
      if (it->first + it->second > off)
        vfail("overlap", "%s: allocOffset(%u) on thread %u returned [%u,+%u) which overlaps the live block [%u,+%u)", who, sz, tid, off, r, it->first,
              it->second);
    }
    live[off] = r;
  };
  // ---- single-threaded prefill: 2 MB - 1 KB in descending blocks, then 128-byte blocks until `room` slots remain
  std::vector<std::pair<unsigned, unsigned>> pre;
  for (unsigned sz = (unsigned)PAGE / 2; sz >= 1024; sz /= 2) {
    unsigned off = b.allocOffset(sz);
    claim(off, sz, "prefill", 0);
    pre.push_back({off, sz});
  }
  std::vector<unsigned> tailblocks;
  int room = (int)c[F_ROOM];
  for (int i = 0; i < 8 - room; ++i) {
    unsigned off = b.allocOffset(128);
    claim(off, 128, "prefill", 0);
    tailblocks.push_back(off);
  }
  // free-list content for the locked path (always enough for everything the threads can ask for)
  auto release = [&](unsigned off, unsigned sz) {
    live.erase(off);
    b.deallocOffset(off, sz);
  };
  release(pre[4].first, pre[4].second); // 64 KB block in the middle of the page
  if ((c[F_FREED] & 2)) {
    release(pre[8].first, pre[8].second);  // 4 KB
    release(pre[10].first, pre[10].second); // 1 KB
  }
  if ((c[F_FREED] & 1) && tailblocks.size() >= 2) {
    release(tailblocks[tailblocks.size() - 2], 128); // next to the last block: goes to the free list
    tailblocks.erase(tailblocks.end() - 2);
  }
  // ---- the concurrent part
  std::vector<std::vector<Op>> per(T);
  size_t nops = c.f.size() - F_COUNT;
  for (size_t i = 0; i < nops; ++i) {
    int64_t x = c.f[F_COUNT + i];
    Op o{(int)(x % 8) % (int)T, (int)((x / 8) % 2), (int)((x / 16) % 8)};
    per[o.thr].push_back(o);
  }
  // thread 0 owns the last prefilled block and may release it (the bump pointer then moves back)
  std::vector<std::vector<std::pair<unsigned, unsigned>>> mine(T);
  if (!tailblocks.empty())
    mine[0].push_back({tailblocks.back(), 128});
  unsigned busy = 0;
  long allocs = 0, end_races = 0;
  for (auto& v : per)
    busy += !v.empty();
  gsched_liveness_mark(400000, 4000000);
  tp.run(T, [&]() {
    unsigned tid = galois::substrate::ThreadPool::getTID();
    for (size_t i = 0; i < per[tid].size(); ++i) {
      Op o = per[tid][i];
      for (int d = (int)(prf(sd, tid, i) % (uint64_t)(delay + 1)); d > 0; --d)
        gsched_point();
      if (o.kind == 0) {
        unsigned sz  = SIZES[o.sc];
        unsigned off = b.allocOffset(sz);
        Quiet q;
        claim(off, sz, "concurrent phase", tid);
        mine[tid].push_back({off, sz});
        ++allocs;
        if ((size_t)off + rounded(sz) + 1024 >= PAGE)
          ++end_races;
      } else if (!mine[tid].empty()) {
        std::pair<unsigned, unsigned> blk;
        {
          Quiet q;
          blk = mine[tid].front();
          mine[tid].erase(mine[tid].begin());
          live.erase(blk.first);
        }
        b.deallocOffset(blk.first, blk.second);
      }
    }
  });
  gsched_liveness_clear();
  // ---- afterwards, sequentially: everything still allocatable is disjoint from what is live
  for (int i = 0; i < 6; ++i) {
    unsigned off = b.allocOffset(128);
    claim(off, 128, "after the concurrent phase", 0);
  }
  label("threads", (long)T);
  label("busy_threads", (long)busy);
  label("room_slots", (long)room);
  label("allocs_near_page_end", (long)std::min<long>(end_races, 3));
  label("strategy", c[S_STRATEGY]);
  nontrivial(busy >= 2 && allocs >= 2 && end_races >= 1 && gsched_switches() >= 2);
  vok();
}
} // namespace verif

VERIF_E1_MAIN
