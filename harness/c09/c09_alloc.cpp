// C09 -- allocators hand out disjoint, aligned, sufficiently large live blocks.
// Fork-per-case rapidcheck driver (several allocators are process-global and
// have no reset API): every case runs in a fresh child that creates its own
// galois::SharedMemSys.  DESIGN.md section 4/C09.
//
// Oracle: shadow interval map of live blocks (keyed by real address) + a
// per-block canary over the full requested size, re-verified after every step.
#include "verif_e1.h"

#include "galois/Galois.h"
#include "galois/LargeArray.h"
#include "galois/Mem.h"
#include "galois/gstl.h"
#include "galois/runtime/Mem.h"
#include "galois/runtime/PagePool.h"
#include "galois/substrate/NumaMem.h"
#include "galois/substrate/PerThreadStorage.h"

#include <atomic>
#include <memory>
#include <mutex>
#include <sys/mman.h>

#if defined(__has_feature)
#if __has_feature(address_sanitizer)
#define C09_HAVE_SANITIZER 1
extern "C" void __sanitizer_set_death_callback(void (*)(void));
#endif
#endif

using namespace verif;

namespace verif {
const char* const HARNESS = "c09";
enum { F_MODE = 0, F_VAR, F_TOPO, F_THREADS, F_ASEED, F_A, F_B, F_C, F_COUNT };
const std::vector<const char*> FIELDS = {"mode", "variant", "topo", "threads", "aseed", "a", "b", "c"};
// tail: one element per operation:  kind + 5 * (thread + 4 * arg)

enum { M_FIXED = 0, M_POW2, M_VARSIZE, M_BUMP, M_PERITER, M_PAGEPOOL, M_PTS, M_LARGE, M_CONC, NMODE };
static const char* MODE_NAMES[] = {"fixed", "pow2", "varsize", "bump", "periter", "pagepool", "pts", "large", "concurrent"};
static const int NVAR[NMODE]    = {2, 3, 1, 9, 1, 2, 1, 3, 9};

static const char* TOPOS[] = {"4", "2,2", "1,1,1,1", "3,1"};
constexpr int NTOPO        = 4;
constexpr int MAXT         = 4;

constexpr size_t PAGE    = 2u << 20;
constexpr size_t BUMPMAX = PAGE - 8; // largest one-argument request of a bump heap (block header is 8 bytes)
constexpr int MAXOPS     = 64;

// known findings (keys introduced by this harness)
static const char* const K_ALLOC2_FIRST  = "C09/BumpHeap/alloc2-first";
static const char* const K_ALLOC2_REFILL = "C09/BumpHeap/alloc2-refill-big";
static const char* const K_PSS_MOVE      = "C09/PerSocketStorage/move-double-release";

// element sizes of the typed variants
static const size_t FSA_SIZES[] = {1, 4, 8, 12, 24, 100, 4096};                          // FixedSizeAllocator<E<N>>
constexpr int NFSA              = 7;
static const size_t OBJ_SIZES[] = {1, 8, 100, 128, 129, 1000, 4096, 5000, 65536, 200000}; // Per{Thread,Socket}Storage<E<N>>
constexpr int NOBJ              = 10;

// concurrent-mode subjects
enum { CV_FIXED = 0, CV_POW2, CV_PAGEPOOL, CV_VARSIZE, CV_LOCKED, CV_SELFLOCK, CV_PAGEHEAP, CV_PTS, CV_LARGE };

// ------------------------------------------------------------------ specs
// static description of one heap under test (known to parent and child)
struct HeapSpec {
  const char* subject = "";
  bool frees          = true;  // deallocate() makes the block dead (false: bump style, live until clear)
  bool has2           = false; // two-argument (partial) allocate
  bool tpriv          = false; // bump state is per thread (ThreadPrivateHeap)
  int clearKind       = 0;     // 0 no clear(); 1 clear() invalidates every block; 2 clear() only drops the free list
  bool recreate       = false; // object can be destroyed and constructed again (invalidates every block)
  size_t fixed        = 0;     // != 0: the only size that may be requested
  size_t quant        = 1;     // requests are multiples of this (typed allocators)
  size_t minsize = 1, maxsize = 0, max2 = 0;
  size_t align     = 8;
  size_t poolBelow = 0;     // requests <= poolBelow are carved out of 2 MB pool pages (must not straddle one)
  bool zero        = false; // ZeroOut: block must read as zero
  bool special     = false; // pagePoolPreAlloc
  bool isPow2      = false;
  bool isPage      = false; // blocks are whole pool pages
};

static std::vector<HeapSpec> heap_specs(int mode, int var, int64_t A, int64_t B) {
  std::vector<HeapSpec> v;
  HeapSpec s;
  auto fixedsz = [](int64_t x) { return (size_t)std::max<int64_t>(1, std::min<int64_t>(4096, x)); };
  switch (mode) {
  case M_FIXED: {
    size_t a = var == 0 ? fixedsz(A) : FSA_SIZES[(uint64_t)A % NFSA];
    size_t b = var == 0 ? fixedsz(B) : FSA_SIZES[(uint64_t)B % NFSA];
    s.subject   = var == 0 ? "FixedSizeHeap" : "FixedSizeAllocator";
    s.tpriv     = true;
    s.poolBelow = PAGE;
    s.fixed = s.minsize = s.maxsize = a;
    v.push_back(s);
    s.fixed = s.minsize = s.maxsize = b;
    v.push_back(s);
    s.fixed = s.minsize = s.maxsize = a; // second handle for the same size
    v.push_back(s);
    break;
  }
  case M_POW2:
    s.subject   = var == 0 ? "Pow_2_BlockHeap" : "Pow_2_BlockAllocator";
    s.tpriv     = true;
    s.minsize   = 0;
    s.maxsize   = 70000;
    s.quant     = var == 2 ? 24 : 1;
    s.poolBelow = 65536; // larger requests fall back to malloc
    s.isPow2    = true;
    v.push_back(s);
    break;
  case M_VARSIZE:
    s.subject   = "VariableSizeHeap";
    s.frees     = false;
    s.has2      = true;
    s.tpriv     = true;
    s.clearKind = 1;
    s.recreate  = true;
    s.maxsize   = BUMPMAX;
    s.max2      = 5u << 20;
    s.poolBelow = SIZE_MAX;
    v.push_back(s);
    v.push_back(s);
    break;
  case M_BUMP:
    s.recreate  = true;
    s.poolBelow = SIZE_MAX;
    s.frees     = false;
    s.clearKind = 1;
    switch (var) {
    case 0:
      s.subject = "BumpHeap";
      s.has2    = true;
      s.maxsize = BUMPMAX;
      s.max2    = 5u << 20;
      break;
    case 1:
      s.subject   = "BumpWithMallocHeap";
      s.maxsize   = 3u << 20;
      s.poolBelow = BUMPMAX; // larger requests fall back to malloc
      break;
    case 2:
    case 3:
    case 4:
    case 5: {
      static const size_t ES[] = {24, 7, 4096, 1000000};
      s.subject                = "BlockHeap";
      s.fixed = s.minsize = s.maxsize = ES[var - 2];
      break;
    }
    case 6:
      s.subject   = "FreeListHeap-BlockHeap";
      s.frees     = true;
      s.clearKind = 2;
      s.fixed = s.minsize = s.maxsize = 40;
      break;
    case 7:
      s.subject   = "FreeListHeap-BumpHeap";
      s.frees     = true;
      s.clearKind = 2;
      s.fixed = s.minsize = s.maxsize = fixedsz(A);
      break;
    default:
      s.subject = "ZeroOut-BumpHeap";
      s.maxsize = BUMPMAX;
      s.zero    = true;
      break;
    }
    v.push_back(s);
    v.push_back(s);
    break;
  case M_PAGEPOOL:
    s.subject   = var == 0 ? "pagePool" : "PageHeap";
    s.align     = PAGE;
    s.poolBelow = PAGE;
    s.isPage    = true;
    if (var == 0) {
      s.fixed = s.minsize = s.maxsize = PAGE;
      s.special                       = true;
    } else {
      s.tpriv   = true;
      s.maxsize = PAGE;
    }
    v.push_back(s);
    break;
  case M_CONC:
    switch (var) {
    case CV_FIXED:
      return heap_specs(M_FIXED, 0, A, B);
    case CV_POW2:
      return heap_specs(M_POW2, 0, A, B);
    case CV_PAGEPOOL:
      v = heap_specs(M_PAGEPOOL, 0, A, B);
      v[0].special = false;
      return v;
    case CV_VARSIZE:
      return heap_specs(M_VARSIZE, 0, A, B);
    case CV_LOCKED:
      s.subject   = "LockedHeap-FreeListHeap-BumpHeap";
      s.poolBelow = SIZE_MAX;
      s.fixed = s.minsize = s.maxsize = fixedsz(A);
      v.push_back(s);
      break;
    case CV_SELFLOCK:
      s.subject   = "SelfLockFreeListHeap";
      s.align     = PAGE;
      s.poolBelow = PAGE;
      s.isPage    = true;
      s.fixed = s.minsize = s.maxsize = PAGE;
      v.push_back(s);
      break;
    case CV_PAGEHEAP:
      return heap_specs(M_PAGEPOOL, 1, A, B);
    case CV_LARGE:
      s.subject = "largeMalloc";
      s.align   = 4096;
      s.maxsize = 3 * PAGE;
      s.minsize = 1;
      v.push_back(s);
      break;
    default:
      break; // CV_PTS has its own engine
    }
    break;
  default:
    break;
  }
  return v;
}

static std::string subject_name(int mode, int var) {
  switch (mode) {
  case M_PERITER:
    return "PerIterAlloc";
  case M_PTS:
    return "PerBackend";
  case M_LARGE:
    return var == 0 ? "largeMalloc" : var == 1 ? "LargeArray" : "SerialNumaHeap";
  case M_CONC:
    if (var == CV_PTS)
      return "PerBackend";
    break;
  default:
    break;
  }
  auto v = heap_specs(mode, var, 8, 8);
  return v.empty() ? std::string(MODE_NAMES[mode]) : std::string(v[0].subject);
}

// ----------------------------------------------------------- size decoding
static std::vector<size_t> size_table(const HeapSpec& s, bool two) {
  std::vector<size_t> t;
  size_t mx = two ? s.max2 : s.maxsize;
  auto add  = [&](size_t x) {
    if (x >= s.minsize && x <= mx)
      t.push_back(x);
  };
  if (s.fixed) {
    t.push_back(s.fixed);
    return t;
  }
  if (two) { // most interesting first (libFuzzer bytes only reach the first few)
    for (size_t x : {(size_t)1, PAGE + 1, (size_t)(3u << 20), PAGE, PAGE - 7, BUMPMAX, (size_t)4096, PAGE - 9, PAGE - 16, (size_t)(5u << 20), (size_t)8,
                     (size_t)9, (size_t)65536, (size_t)(1u << 20), (size_t)(1u << 20) + 1})
      add(x);
    return t;
  }
  if (s.isPow2) {
    add(0);
    add(1);
    for (int k = 3; k <= 16; ++k) {
      add(((size_t)1 << k) - 1);
      add((size_t)1 << k);
      add(((size_t)1 << k) + 1);
    }
    add(70000);
    return t;
  }
  for (size_t x : {(size_t)1, (size_t)8, mx, (size_t)7, (size_t)9, (size_t)4096, mx - 1, mx - 7, mx - 8, (size_t)15, (size_t)16, (size_t)17,
                   (size_t)4095, (size_t)4097, (size_t)65535, (size_t)65536, (size_t)65537, (size_t)(1u << 20), BUMPMAX, BUMPMAX + 1, PAGE, PAGE + 1})
    add(x);
  return t;
}
static size_t decode_size(const HeapSpec& s, bool two, uint64_t sz) {
  auto t = size_table(s, two);
  size_t r;
  if (sz < t.size())
    r = t[sz];
  else {
    size_t mx = two ? s.max2 : s.maxsize;
    r         = (size_t)((sz - t.size()) % (mx + 1));
    if (r < s.minsize)
      r = s.minsize;
  }
  if (two && r == 0)
    r = 1;
  return r / s.quant * s.quant;
}
static bool is_boundary(size_t x) {
  if (x < 7)
    return x <= 1;
  for (size_t y : {x - 1, x, x + 1})
    if ((y & (y - 1)) == 0)
      return true;
  return x + 16 >= PAGE && x <= PAGE + 8; // around the page limit of the bump heaps
}
static int log2class(size_t x, int lo) {
  int i = lo;
  while (((size_t)1 << i) < x)
    ++i;
  return i;
}
static long size_class(const HeapSpec& s, size_t x) {
  if (s.isPow2)
    return x > 65536 ? 17 : log2class(x, 3);
  if (s.fixed)
    return (long)s.fixed;
  return -1;
}

// ------------------------------------------------------------ op decoding
enum { K_NOP = 0, K_ALLOC, K_FREE, K_ALLOCB, K_SPECIAL };
struct Raw {
  int kind, thr;
  uint64_t arg;
};
static Raw raw_of(int64_t v) {
  uint64_t u = v < 0 ? (uint64_t)(-(v + 1)) : (uint64_t)v;
  return Raw{(int)(u % 5), (int)((u / 5) % 4), u / 20};
}
static int64_t enc(int kind, int thr, uint64_t arg) { return (int64_t)(kind + 5 * (thr + 4 * arg)); }

static size_t ntail(const Case& c) { return std::min<size_t>(c.f.size() > F_COUNT ? c.f.size() - F_COUNT : 0, MAXOPS); }

// bump-pointer model (intended semantics) -- only used to recognise the
// operation shapes of the known findings, never as an oracle
struct BumpSim {
  bool has   = false;
  size_t off = 0;
};
static size_t al8(size_t s) { return (s + 7) & ~(size_t)7; }
static void sim_alloc1(BumpSim& s, size_t size) {
  size_t a = al8(size);
  if (!s.has || s.off + a > PAGE) {
    s.has = true;
    s.off = 8;
  }
  s.off += a;
}
// returns the shape: 0 ordinary, 1 no current block, 2 full block + request that does not fit a fresh one
static int sim_alloc2(BumpSim& s, size_t size) {
  int shape = 0;
  size_t a  = std::min(al8(size), PAGE);
  if (!s.has) {
    shape = 1;
    s.has = true;
    s.off = 8;
  }
  if (s.off + a > PAGE) {
    size_t rem = PAGE - s.off;
    if (rem == 0) {
      if (a > PAGE - 8 && !shape)
        shape = 2;
      s.off = 8;
      a     = std::min(a, PAGE - 8);
    } else
      a = rem;
  }
  s.off += a;
  return shape;
}

// planned operation of a heap history
enum { O_NOP = 0, O_ALLOC, O_ALLOC2, O_FREE, O_CLEAR, O_RECREATE, O_SPECIAL };
struct POp {
  int op = O_NOP, thr = 0, heap = 0;
  size_t size  = 0;
  int target   = -1; // index of the allocation (in allocation order) to free
  int shape    = 0;
  bool changed = false; // rewritten because of a listed known finding
  unsigned n   = 0;
  int idx      = -1; // position in the tail
};
struct PBlk {
  int heap;
  bool alive, dcalled;
};
struct HeapPlanner {
  const std::vector<HeapSpec>& specs;
  int T;
  std::vector<PBlk> blks;
  std::vector<std::array<BumpSim, MAXT>> sim;
  HeapPlanner(const std::vector<HeapSpec>& s, int t) : specs(s), T(t), sim(s.size()) {}
  BumpSim& st(int h, int thr) { return sim[h][specs[h].tpriv ? thr : 0]; }
  // concurrent mode: `avail` restricts the blocks a free may pick
  POp step(const Raw& r, const std::vector<int>* avail = nullptr) {
    POp o;
    o.thr  = r.thr % T;
    int nh = (int)specs.size();
    if (r.kind == K_ALLOC || r.kind == K_ALLOCB) {
      o.heap            = (int)(r.arg % 4) % nh;
      const HeapSpec& s = specs[o.heap];
      bool two          = r.kind == K_ALLOCB && s.has2;
      o.op              = two ? O_ALLOC2 : O_ALLOC;
      o.size            = decode_size(s, two, r.arg / 4);
      if (s.has2) {
        BumpSim& b = st(o.heap, o.thr);
        if (two) {
          BumpSim save = b;
          o.shape      = sim_alloc2(b, o.size);
          if (o.shape == 1 && excluded(K_ALLOC2_FIRST)) {
            b      = save;
            o.op   = O_ALLOC;
            o.size = std::min(o.size, BUMPMAX);
            sim_alloc1(b, o.size);
            o.shape   = 0;
            o.changed = true;
          } else if (o.shape == 2 && excluded(K_ALLOC2_REFILL)) {
            b         = save;
            o.size    = BUMPMAX;
            o.shape   = sim_alloc2(b, o.size);
            o.changed = true;
          }
        } else
          sim_alloc1(b, o.size);
      }
      blks.push_back(PBlk{o.heap, true, false});
      return o;
    }
    if (r.kind == K_FREE) {
      std::vector<int> cand;
      if (avail) {
        for (int i : *avail)
          if (blks[i].alive && !blks[i].dcalled)
            cand.push_back(i);
      } else
        for (int i = 0; i < (int)blks.size(); ++i)
          if (blks[i].alive && !blks[i].dcalled)
            cand.push_back(i);
      if (cand.empty())
        return o;
      o.op                   = O_FREE;
      o.target               = cand[r.arg % cand.size()];
      o.heap                 = blks[o.target].heap;
      blks[o.target].dcalled = true;
      if (specs[o.heap].frees)
        blks[o.target].alive = false;
      return o;
    }
    if (r.kind == K_SPECIAL) {
      o.heap            = (int)((r.arg / 2) % nh);
      const HeapSpec& s = specs[o.heap];
      if (s.special) {
        o.op = O_SPECIAL;
        o.n  = (unsigned)((r.arg / 2) % 3) + 1;
        return o;
      }
      bool rec = (r.arg & 1) != 0;
      if (rec && s.recreate)
        o.op = O_RECREATE;
      else if (s.clearKind)
        o.op = O_CLEAR;
      else if (s.recreate)
        o.op = O_RECREATE;
      else
        return o;
      if (o.op == O_RECREATE || s.clearKind == 1) {
        for (auto& b : blks)
          if (b.heap == o.heap)
            b.alive = false;
        for (auto& b : sim[o.heap])
          b = BumpSim();
      }
      return o;
    }
    return o;
  }
};

static std::vector<POp> plan_heaps(const Case& c, const std::vector<HeapSpec>& specs, int T) {
  HeapPlanner P(specs, T);
  std::vector<POp> ops;
  for (size_t i = 0; i < ntail(c); ++i) {
    ops.push_back(P.step(raw_of(c.f[F_COUNT + i])));
    ops.back().idx = (int)i;
  }
  return ops;
}

// ---- per-thread-storage histories
enum { P_NOP = 0, P_RAW, P_OBJ, P_FREE, P_MOVE };
static const size_t PTS_TABLE[] = {1,    128,  129,  262144, 131072, 65536, 200000, 127,   255,   256,   257,    511,   512,
                                   513,  1023, 1024, 1025,   4095,   4096,  4097,   16384, 65535, 65537, 131073, 32768, 100000};
constexpr int NPTS_TABLE        = sizeof(PTS_TABLE) / sizeof(PTS_TABLE[0]);
constexpr size_t PTS_MAX        = 262144;
struct PtsOp {
  int op = P_NOP, thr = 0, backend = 0, k = 0, target = -1;
  size_t size  = 0;
  bool changed = false;
  bool filler  = false; // up-front block that is only allocated if it still fits the bump region
  int idx      = -1;
};
struct PtsPlanner {
  int T;
  struct H {
    int backend;
    bool obj, alive;
  };
  std::vector<H> hs;
  explicit PtsPlanner(int t) : T(t) {}
  // implicit leading operations: `pre` raw 256 KB allocations per backend, so
  // that the bump region gets exhausted and later requests are served from
  // the free lists (exact fit or split of a bigger chunk)
  // With `fill`, a descending series 128 KB .. 128 B follows; run() allocates
  // each of them only if it still fits below 2 MB (the handle exists either
  // way), which leaves a bump remainder of less than one cache line.
  std::vector<PtsOp> prefill(int pre, int nbackends, bool fill = false) {
    std::vector<PtsOp> v;
    for (int i = 0; i < pre + (fill ? 11 : 0); ++i)
      for (int b = 0; b < nbackends; ++b) {
        PtsOp o;
        o.op      = P_RAW;
        o.backend = b;
        o.size    = i < pre ? PTS_MAX : (size_t)1 << (17 - (i - pre));
        o.filler  = i >= pre;
        hs.push_back(H{b, false, true});
        v.push_back(o);
      }
    return v;
  }
  PtsOp step(const Raw& r, const std::vector<int>* avail = nullptr, bool allow_move = true) {
    PtsOp o;
    o.thr = r.thr % T;
    if (r.kind == K_ALLOC) {
      o.op        = P_RAW;
      o.backend   = (int)(r.arg & 1);
      uint64_t sz = r.arg >> 1;
      o.size      = sz < (uint64_t)NPTS_TABLE ? PTS_TABLE[sz] : (size_t)((sz - NPTS_TABLE) % PTS_MAX) + 1;
      hs.push_back(H{o.backend, false, true});
    } else if (r.kind == K_ALLOCB) {
      o.op      = P_OBJ;
      o.backend = (int)(r.arg & 1);
      o.k       = (int)((r.arg >> 1) % NOBJ);
      o.size    = OBJ_SIZES[o.k];
      hs.push_back(H{o.backend, true, true});
    } else if (r.kind == K_FREE || r.kind == K_SPECIAL) {
      std::vector<int> cand;
      if (avail) {
        for (int i : *avail)
          if (hs[i].alive)
            cand.push_back(i);
      } else
        for (int i = 0; i < (int)hs.size(); ++i)
          if (hs[i].alive)
            cand.push_back(i);
      if (cand.empty())
        return o;
      int t = cand[r.arg % cand.size()];
      if (r.kind == K_FREE) {
        o.op        = P_FREE;
        o.target    = t;
        hs[t].alive = false;
      } else if (hs[t].obj && allow_move) {
        if (hs[t].backend == 1 && excluded(K_PSS_MOVE)) {
          o.changed = true;
          return o;
        }
        o.op     = P_MOVE;
        o.target = t;
      }
    }
    return o;
  }
};

// ---- large allocations
enum { L_NOP = 0, L_ALLOC, L_FREE };
static const size_t LARGE_TABLE[] = {1,        PAGE,         PAGE + 1, 0,           4096, PAGE - 1, PAGE - 16, 2 * PAGE - 16,
                                     2 * PAGE, 2 * PAGE + 1, 3 * PAGE, 100000};
constexpr int NLARGE_TABLE        = sizeof(LARGE_TABLE) / sizeof(LARGE_TABLE[0]);
struct LOp {
  int op = L_NOP, sub = 0, target = -1, nt = 1;
  size_t size = 0;
};
static std::vector<LOp> plan_large(const Case& c, int T) {
  std::vector<LOp> ops;
  struct H {
    size_t pages;
    bool alive;
  };
  std::vector<H> hs;
  size_t livepages = 0;
  for (size_t i = 0; i < ntail(c); ++i) {
    Raw r = raw_of(c.f[F_COUNT + i]);
    LOp o;
    if (r.kind == K_ALLOC || r.kind == K_ALLOCB) {
      o.sub       = (int)(r.arg % 8);
      uint64_t sz = r.arg / 8;
      o.size      = sz < (uint64_t)NLARGE_TABLE ? LARGE_TABLE[sz] : (size_t)((sz - NLARGE_TABLE) % (3 * PAGE + 1));
      o.nt        = 1 + (int)(r.thr % T);
      size_t pg   = (o.size + 16 + PAGE - 1) / PAGE;
      if (livepages + pg <= 24) { // memory budget: at most 48 MB live
        o.op = L_ALLOC;
        livepages += pg;
        hs.push_back(H{pg, true});
      }
    } else if (r.kind == K_FREE || r.kind == K_SPECIAL) {
      std::vector<int> cand;
      for (int j = 0; j < (int)hs.size(); ++j)
        if (hs[j].alive)
          cand.push_back(j);
      if (!cand.empty()) {
        o.op               = L_FREE;
        o.target           = cand[r.arg % cand.size()];
        hs[o.target].alive = false;
        livepages -= hs[o.target].pages;
      }
    }
    ops.push_back(o);
  }
  return ops;
}

// ---- per-iteration allocator
static const size_t PIA_TABLE[] = {1, 8, 24, 100, 1000, 4096, 65536, 1u << 20, BUMPMAX - 8, BUMPMAX, BUMPMAX + 1, PAGE, PAGE + 4096, 17, 4097};
constexpr int NPIA_TABLE        = sizeof(PIA_TABLE) / sizeof(PIA_TABLE[0]);

// ---- concurrent rounds: ops [r*K, (r+1)*K) form round r; a clear/recreate is
// only honoured as the first op of a round (done by the main thread between
// rounds); frees only target blocks that were live when the round started
struct Round {
  POp pre;              // O_NOP / O_CLEAR / O_RECREATE executed by main before the round
  std::vector<POp> ops; // executed concurrently, per thread in this order
};
static std::vector<Round> plan_conc_heaps(const Case& c, const std::vector<HeapSpec>& specs, int T, int K) {
  HeapPlanner P(specs, T);
  std::vector<Round> rounds;
  size_t n = ntail(c);
  for (size_t b = 0; b < n; b += K) {
    Round R;
    std::vector<int> avail;
    size_t first = b;
    Raw r0       = raw_of(c.f[F_COUNT + b]);
    if (r0.kind == K_SPECIAL) {
      R.pre = P.step(r0);
      if (R.pre.op == O_SPECIAL)
        R.pre.op = O_NOP;
      first = b + 1;
    }
    for (int i = 0; i < (int)P.blks.size(); ++i)
      if (P.blks[i].alive && !P.blks[i].dcalled)
        avail.push_back(i);
    for (size_t i = first; i < std::min(n, b + K); ++i) {
      Raw r = raw_of(c.f[F_COUNT + i]);
      if (r.kind == K_SPECIAL)
        r.kind = K_NOP;
      R.ops.push_back(P.step(r, &avail));
      R.ops.back().idx = (int)i;
    }
    rounds.push_back(R);
  }
  return rounds;
}
static int pts_prefill(const Case& c) { return (int)(c[F_B] % 8); }
static bool pts_fill(const Case& c) { return ((c[F_B] / 8) & 1) != 0; }
static std::vector<std::vector<PtsOp>> plan_conc_pts(const Case& c, int T, int K) {
  PtsPlanner P(T);
  std::vector<std::vector<PtsOp>> rounds;
  rounds.push_back(P.prefill(pts_prefill(c), 1)); // round 0: sequential, thread 0
  size_t n = ntail(c);
  for (size_t b = 0; b < n; b += K) {
    std::vector<int> avail;
    for (int i = 0; i < (int)P.hs.size(); ++i)
      if (P.hs[i].alive)
        avail.push_back(i);
    std::vector<PtsOp> R;
    for (size_t i = b; i < std::min(n, b + K); ++i) {
      PtsOp o = P.step(raw_of(c.f[F_COUNT + i]), &avail, false);
      if (o.op == P_FREE) // one free per target and round
        avail.erase(std::find(avail.begin(), avail.end(), o.target));
      if (o.op == P_RAW || o.op == P_OBJ)
        o.backend = 0; // per-thread backend only (shared by all threads)
      o.idx = (int)i;
      R.push_back(o);
    }
    rounds.push_back(R);
  }
  return rounds;
}

// --------------------------------------------------------------- the case
void normalize_case(Case& c) {
  if (c.f.size() < F_COUNT)
    c.f.resize(F_COUNT, 0);
  auto clampf = [&](int f, int64_t lo, int64_t hi) { // [lo, hi]
    int64_t v = c[f];
    if (v < lo || v > hi) {
      uint64_t u = v < 0 ? (uint64_t)(-(v + 1)) : (uint64_t)v;
      v          = lo + (int64_t)(u % (uint64_t)(hi - lo + 1));
    }
    c[f] = v;
  };
  clampf(F_MODE, 0, NMODE - 1);
  clampf(F_VAR, 0, NVAR[c[F_MODE]] - 1);
  clampf(F_TOPO, 0, NTOPO - 1);
  clampf(F_THREADS, c[F_MODE] == M_CONC ? 2 : 1, MAXT);
  clampf(F_ASEED, 0, (1 << 20) - 1);
  clampf(F_A, 0, 4096);
  clampf(F_B, 0, 4096);
  clampf(F_C, 1, 16);
  if (c.f.size() > F_COUNT + MAXOPS)
    c.f.resize(F_COUNT + MAXOPS);
}

// Known findings are excluded by construction: the planner replaces exactly the
// operations that have a listed shape (run() uses the same planner, so neither
// shrinking nor a fuzzer can re-introduce them); the generator additionally
// writes the replacement back into the tail.  Returns the number of rewrites.
static int fix_excluded(Case& c) {
  int mode = (int)c[F_MODE], var = (int)c[F_VAR], T = (int)c[F_THREADS], n = 0;
  auto rewrite_heap = [&](const POp& o, const std::vector<HeapSpec>& specs) {
    if (!o.changed)
      return;
    Raw r                = raw_of(c.f[F_COUNT + o.idx]);
    bool two             = o.op == O_ALLOC2;
    size_t nt            = size_table(specs[o.heap], two).size();
    c.f[F_COUNT + o.idx] = enc(two ? K_ALLOCB : K_ALLOC, r.thr, (uint64_t)o.heap + 4 * (uint64_t)(nt + o.size));
    ++n;
  };
  if (mode == M_PTS) {
    PtsPlanner P(T);
    P.prefill(pts_prefill(c), 2, pts_fill(c));
    for (size_t i = 0; i < ntail(c); ++i) {
      Raw r = raw_of(c.f[F_COUNT + i]);
      if (P.step(r).changed) {
        c.f[F_COUNT + i] = enc(K_NOP, r.thr, 0);
        ++n;
      }
    }
  } else if (mode == M_CONC && var != CV_PTS) {
    auto specs = heap_specs(mode, var, c[F_A], c[F_B]);
    for (auto& R : plan_conc_heaps(c, specs, T, (int)c[F_C]))
      for (auto& o : R.ops)
        rewrite_heap(o, specs);
  } else if (mode == M_VARSIZE || mode == M_BUMP) {
    auto specs = heap_specs(mode, var, c[F_A], c[F_B]);
    for (auto& o : plan_heaps(c, specs, T))
      rewrite_heap(o, specs);
  }
  return n;
}

static rc::Gen<uint64_t> sizearg_gen(const HeapSpec& s, bool two) {
  using namespace rc;
  size_t nt = size_table(s, two).size();
  size_t mx = two ? s.max2 : s.maxsize;
  if (s.fixed)
    return gen::just<uint64_t>(0);
  return gen::oneOf(uni<uint64_t>(0, nt), gen::map(gen::inRange<uint64_t>(1, 300), [nt](uint64_t v) { return nt + v; }),
                    gen::map(uni<uint64_t>(0, mx + 1), [nt](uint64_t v) { return nt + v; }));
}

Case generate() {
  using namespace rc;
  Case c;
  c.f.assign(F_COUNT, 0);
  int mode     = *gen::weightedElement<int>({{3, M_FIXED}, {3, M_POW2}, {4, M_VARSIZE}, {4, M_BUMP}, {2, M_PERITER}, {2, M_PAGEPOOL}, {4, M_PTS}, {1, M_LARGE}, {5, M_CONC}});
  c[F_MODE]    = mode;
  int var      = mode == M_BUMP ? *gen::weightedElement<int>({{5, 0}, {3, 1}, {1, 2}, {1, 3}, {1, 4}, {1, 5}, {2, 6}, {2, 7}, {1, 8}}) : *uni(0, NVAR[mode]);
  c[F_VAR]     = var;
  c[F_TOPO]    = *uni(0, NTOPO);
  int T        = mode == M_CONC ? *uni(2, MAXT + 1) : *uni(1, MAXT + 1);
  c[F_THREADS] = T;
  c[F_ASEED]   = *uni(0, 1 << 20);
  // fixed sizes: below 8, around multiples of 8 and powers of two, anything up to 4096
  auto fsz = gen::oneOf(uni<int64_t>(1, 10), gen::map(gen::pair(uni(3, 13), uni<int64_t>(-1, 2)), [](std::pair<int, int64_t> p) { return std::min<int64_t>(4096, (1LL << p.first) + p.second); }),
                        uni<int64_t>(1, 4097));
  int64_t A = *fsz;
  int64_t B = *gen::oneOf(gen::just(A), gen::just(std::min<int64_t>(4096, A + 1)), gen::just(std::max<int64_t>(1, A - 1)), gen::just(std::max<int64_t>(1, A / 8 * 8)),
                          gen::just(std::min<int64_t>(4096, A / 8 * 8 + 7)), fsz);
  c[F_A]    = A;
  c[F_B]    = B;
  c[F_C]    = *uni(1, 13);
  if (mode == M_PTS || (mode == M_CONC && var == CV_PTS)) // b: number of 256 KB blocks allocated up front (per backend)
    c[F_B] = *gen::weightedElement<int64_t>({{2, 0}, {1, 3}, {1, 5}, {2, 6}, {2, 7}, {1, 8 + 0}, {2, 8 + 5}, {2, 8 + 6}, {3, 8 + 7}}); // +8: fill the region exactly
  if (mode == M_PERITER) {
    int n = *gen::inRange(0, 41);
    for (int i = 0; i < n; ++i)
      c.f.push_back((int64_t)*uni<uint64_t>(0, 24 * NPIA_TABLE));
    return c;
  }
  int maxn = mode == M_LARGE ? 21 : 61;
  int n    = *gen::inRange(0, maxn);
  if (mode == M_PTS || (mode == M_CONC && var == CV_PTS)) {
    for (int i = 0; i < n; ++i) {
      int kind = *gen::weightedElement<int>({{1, K_NOP}, {5, K_ALLOC}, {4, K_FREE}, {3, K_ALLOCB}, {1, K_SPECIAL}});
      int thr  = *uni(0, T);
      uint64_t arg;
      if (kind == K_ALLOC) {
        // mostly small and medium sizes: the up-front 256 KB blocks already fill
        // the region, big requests would only end the case with "out of memory"
        uint64_t sz = *gen::weightedOneOf<uint64_t>({{6, uni<uint64_t>(0, NPTS_TABLE)},
                                                      {6, gen::map(gen::inRange<uint64_t>(0, 2000), [](uint64_t v) { return NPTS_TABLE + v; })},
                                                      {5, gen::map(uni<uint64_t>(0, 40000), [](uint64_t v) { return NPTS_TABLE + v; })},
                                                      {1, gen::map(uni<uint64_t>(0, PTS_MAX), [](uint64_t v) { return NPTS_TABLE + v; })}});
        arg         = (uint64_t)*uni(0, 2) + 2 * sz;
      } else if (kind == K_ALLOCB)
        arg = (uint64_t)*uni(0, 2) + 2 * (uint64_t)*uni(0, NOBJ);
      else
        arg = *gen::inRange<uint64_t>(0, 64);
      c.f.push_back(enc(kind, thr, arg));
    }
  } else if (mode == M_LARGE) {
    for (int i = 0; i < n; ++i) {
      int kind = *gen::weightedElement<int>({{1, K_NOP}, {3, K_ALLOC}, {2, K_FREE}});
      int thr  = *uni(0, T);
      uint64_t arg;
      if (kind == K_ALLOC)
        arg = (uint64_t)*uni(0, 8) +
              8 * *gen::oneOf(uni<uint64_t>(0, NLARGE_TABLE), gen::map(uni<uint64_t>(0, 3 * PAGE + 1), [](uint64_t v) { return NLARGE_TABLE + v; }));
      else
        arg = *gen::inRange<uint64_t>(0, 64);
      c.f.push_back(enc(kind, thr, arg));
    }
  } else {
    auto specs  = heap_specs(mode, var, A, B);
    bool any2   = false, anyclear = false;
    for (auto& s : specs) {
      any2 |= s.has2;
      anyclear |= s.clearKind || s.recreate || s.special;
    }
    for (int i = 0; i < n; ++i) {
      int kind = *gen::weightedElement<int>({{1, K_NOP}, {5, K_ALLOC}, {4, K_FREE}, {any2 ? 4 : 0, K_ALLOCB}, {anyclear ? 1 : 0, K_SPECIAL}});
      int thr  = *uni(0, T);
      uint64_t arg;
      if (kind == K_ALLOC || kind == K_ALLOCB) {
        int h = *uni(0, (int)specs.size());
        arg   = (uint64_t)h + 4 * *sizearg_gen(specs[h], kind == K_ALLOCB && specs[h].has2);
      } else
        arg = *gen::inRange<uint64_t>(0, 64);
      c.f.push_back(enc(kind, thr, arg));
    }
  }
  // known findings are avoided by construction: the planner (shared with
  // run()) replaces exactly the operations that have a listed shape
  for (int k = fix_excluded(c); k > 0; --k)
    count_excluded();
  return c;
}

// exhaustive small domain (--enum): every Pow_2 class boundary 2^k-1, 2^k,
// 2^k+1 (k = 3..16, plus 0, 1 and the malloc fallback) and every fixed size
// 1..64, each as allocate x2 / free all / allocate again, on one and on two
// threads (the second thread frees)
void enumerate_cases(std::vector<Case>& out) {
  auto base = [](int mode, int var, int threads, int64_t a) {
    Case c;
    c.f.assign(F_COUNT, 0);
    c[F_MODE]    = mode;
    c[F_VAR]     = var;
    c[F_THREADS] = threads;
    c[F_A] = c[F_B] = a;
    c[F_C]          = 1;
    return c;
  };
  for (int var = 0; var < 2; ++var)
    for (int threads = 1; threads <= 2; ++threads) {
      auto spec = heap_specs(M_POW2, var, 0, 0)[0];
      auto tab  = size_table(spec, false);
      for (size_t g = 0; g < tab.size(); g += 3) {
        Case c   = base(M_POW2, var, threads, 8);
        size_t e = std::min(tab.size(), g + 3);
        for (int rep = 0; rep < 2; ++rep)
          for (size_t i = g; i < e; ++i)
            c.f.push_back(enc(K_ALLOC, 0, 4 * i));
        for (size_t i = 0; i < 2 * (e - g); ++i)
          c.f.push_back(enc(K_FREE, threads - 1, 0));
        for (size_t i = g; i < e; ++i)
          c.f.push_back(enc(K_ALLOC, 0, 4 * i));
        out.push_back(c);
      }
    }
  for (int threads = 1; threads <= 2; ++threads)
    for (int64_t a = 1; a <= 64; ++a) {
      Case c = base(M_FIXED, 0, threads, a);
      c[F_B] = a + 1;
      for (int i = 0; i < 4; ++i)
        c.f.push_back(enc(K_ALLOC, 0, i % 2));
      for (int i = 0; i < 3; ++i)
        c.f.push_back(enc(K_FREE, threads - 1, 0));
      for (int i = 0; i < 4; ++i)
        c.f.push_back(enc(K_ALLOC, 0, i % 2));
      out.push_back(c);
    }
}

std::string finding_key(const Case& c0, const std::string& failkey) {
  if (failkey == "alloc2-first" || failkey == "alloc2-refill-big")
    return std::string("C09/BumpHeap/") + failkey;
  if (failkey == "move-double-release")
    return K_PSS_MOVE;
  Case c = c0;
  normalize_case(c);
  return "C09/" + subject_name((int)c[F_MODE], (int)c[F_VAR]) + "/" + failkey;
}

// ===================================================================== child
// ---- crash / abort reporting: a verdict with the operation in flight
static char g_ctx[320]                = "start-up";
static thread_local const char* g_shapekey = nullptr; // fail key of the op in flight when it has a known-finding shape
static const char* volatile g_stickykey    = nullptr; // set once an operation with a delayed effect was executed
static std::atomic<int> g_oom_guard{0};           // >0: inside PerBackend::allocOffset (may die with "out of memory")
static int g_errfd = -1;                          // memfd that captures stderr in the per-thread-storage modes
static bool g_pagealigned = false;                // raw mmap(2 MB) is 2 MB aligned in this environment

// classification state (labels are emitted by finish())
static bool g_reuse = false, g_xfree = false, g_boundary = false, g_pts_split = false, g_partial = false, g_fallback = false;
static size_t g_maxsize = 0;
static long g_allocs = 0, g_frees = 0, g_clears = 0;
static int g_threads_used = 0;

static void emit_labels() {
  label("reuse", g_reuse);
  label("xfree", g_xfree);
  label("boundary", g_boundary);
  label("sizeclass", g_maxsize == 0 ? "none" : g_maxsize < 8 ? "lt8" : g_maxsize < 4096 ? "small" : g_maxsize < 65536 ? "mid" : g_maxsize <= BUMPMAX ? "big" : "overpage");
  label("allocs", g_allocs == 0 ? "0" : g_allocs < 5 ? "1-4" : g_allocs < 20 ? "5-19" : "20+");
  label("frees", g_frees == 0 ? "0" : g_frees < 5 ? "1-4" : "5+");
  if (g_clears)
    label("clears", g_clears > 2 ? 3 : g_clears);
  if (g_partial)
    label("partial", 1);
  if (g_fallback)
    label("malloc_fallback", 1);
  label("pagealigned", g_pagealigned);
  label("threads_used", g_threads_used);
  // NT: a free followed by a later allocation of the same size class, or a
  // cross-thread free, or a size on a class boundary
  nontrivial(g_reuse || g_xfree || g_boundary);
}
[[noreturn]] static void finish() {
  emit_labels();
  vok();
}
[[noreturn]] static void failop(const char* key, const char* fmt, ...) __attribute__((format(printf, 2, 3)));
[[noreturn]] static void failop(const char* key, const char* fmt, ...) {
  char buf[700];
  va_list ap;
  va_start(ap, fmt);
  vsnprintf(buf, sizeof buf, fmt, ap);
  va_end(ap);
  emit_labels();
  const char* sk = g_shapekey ? g_shapekey : g_stickykey;
  vfail(sk ? sk : key, "%s [%s] (%s)", buf, key, g_ctx);
}
#define OPCHECK(cond, key, ...)                                                                                        \
  do {                                                                                                                 \
    if (!(cond))                                                                                                       \
      failop(key, __VA_ARGS__);                                                                                        \
  } while (0)

static bool stderr_has_oom() {
  if (g_errfd < 0)
    return false;
  static char buf[16384];
  off_t end = lseek(g_errfd, 0, SEEK_END);
  if (end <= 0)
    return false;
  off_t start = end > (off_t)sizeof(buf) - 1 ? end - ((off_t)sizeof(buf) - 1) : 0;
  ssize_t n   = pread(g_errfd, buf, sizeof(buf) - 1, start);
  if (n <= 0)
    return false;
  buf[n] = 0;
  return strstr(buf, "per-thread storage out of memory") != nullptr;
}
static void on_abort(int) {
  if (g_oom_guard.load() > 0 && stderr_has_oom()) {
    // documented limitation (PerThreadStorage.cpp: "simplify bookkeeping at
    // the expense of fragmentation"): the 2 MB region is exhausted
    label("pts_oom", 1);
    finish();
  }
  failop("crash", "abort() -- failed assertion or GALOIS_DIE");
}
__attribute__((unused)) static void on_death() { failop("crash", "sanitizer (ASan/UBSan) error report"); }

static void set_ctx(const char* fmt, ...) __attribute__((format(printf, 1, 2)));
static void set_ctx(const char* fmt, ...) {
  va_list ap;
  va_start(ap, fmt);
  vsnprintf(g_ctx, sizeof g_ctx, fmt, ap);
  va_end(ap);
}

static bool is_mapped(const void* p, size_t n) {
  if (n == 0)
    n = 1;
  uintptr_t a = (uintptr_t)p & ~(uintptr_t)4095;
  uintptr_t e = ((uintptr_t)p + n + 4095) & ~(uintptr_t)4095;
  if (e <= a)
    return false;
  thread_local unsigned char vec[4096];
  size_t len = std::min<size_t>(e - a, (size_t)4096 * 4096);
  return mincore((void*)a, len, vec) == 0;
}

// ---- canaries
static inline uint8_t cbyte(uint64_t id, size_t j) { return (uint8_t)(id * 151 + j * 29 + (j >> 8) * 7 + 0x3b); }
// full coverage up to 64 KB; beyond that head, tail and 64 bytes of every 4 KB
template <typename F>
static void canary_ranges(size_t n, F f) {
  if (n <= 65536) {
    f((size_t)0, n);
    return;
  }
  f((size_t)0, (size_t)4096);
  for (size_t o = 4096; o + 64 <= n - 4096; o += 4096)
    f(o, (size_t)64);
  f(n - 4096, (size_t)4096);
}
static void canary_fill(char* p, size_t n, uint64_t id) {
  canary_ranges(n, [&](size_t o, size_t len) {
    for (size_t j = o; j < o + len; ++j)
      p[j] = (char)cbyte(id, j);
  });
}
// returns -1 if intact, else the first damaged byte
static long canary_check(const char* p, size_t n, uint64_t id) {
  long bad = -1;
  canary_ranges(n, [&](size_t o, size_t len) {
    if (bad >= 0)
      return;
    for (size_t j = o; j < o + len; ++j)
      if ((uint8_t)p[j] != cbyte(id, j)) {
        bad = (long)j;
        return;
      }
  });
  return bad;
}

// ---- shadow interval map of live blocks
struct Blk {
  char* p        = nullptr;
  size_t req     = 0; // usable bytes promised to the caller (canary covers all of them)
  size_t asked   = 0; // size passed to allocate / needed for deallocate
  uint64_t id    = 0;
  int heap       = 0;
  int thr        = 0;
  int step       = 0;
  bool live      = false;
  bool pool      = false; // must lie inside one 2 MB pool page
};
struct Shadow {
  std::map<uintptr_t, Blk*> live;
  // nullptr if [p, p+n) is disjoint from every live block
  Blk* overlap(const char* p, size_t n) const {
    uintptr_t a = (uintptr_t)p, e = a + n;
    auto it = live.lower_bound(a);
    if (it != live.end() && it->first < e)
      return it->second;
    if (it != live.begin()) {
      --it;
      if (it->first + it->second->req > a)
        return it->second;
    }
    return nullptr;
  }
  void add(Blk* b) {
    if (b->req)
      live[(uintptr_t)b->p] = b;
  }
  void remove(Blk* b) {
    auto it = live.find((uintptr_t)b->p);
    if (it != live.end() && it->second == b)
      live.erase(it);
  }
  void verify_all(const char* when) const {
    for (auto& kv : live) {
      Blk* b   = kv.second;
      long bad = canary_check(b->p, b->req, b->id);
      if (bad >= 0)
        failop("canary", "live block #%llu (%zu bytes at %p, handed out in step %d on thread %d) was overwritten at byte %ld %s",
               (unsigned long long)b->id, b->req, (void*)b->p, b->step, b->thr, bad, when);
    }
  }
};

// checks on a block that was just handed out (before it is entered into the map)
static void check_new_block(const Shadow& sh, const Blk& b, size_t align, const char* what) {
  if (b.req == 0)
    return; // zero-size request: nothing is promised
  OPCHECK(b.p != nullptr, "null", "%s returned a null pointer for %zu bytes", what, b.req);
  OPCHECK(((uintptr_t)b.p % align) == 0, "misaligned", "%s returned %p for %zu bytes: not aligned to %zu", what, (void*)b.p, b.req, align);
  OPCHECK(is_mapped(b.p, b.req), "unmapped", "%s returned %p for %zu bytes: not (entirely) mapped memory", what, (void*)b.p, b.req);
  if (b.pool && g_pagealigned)
    OPCHECK((uintptr_t)b.p / PAGE == ((uintptr_t)b.p + b.req - 1) / PAGE, "straddles-page",
            "%s returned [%p,+%zu): crosses the end of its 2 MB pool page by %zu bytes", what, (void*)b.p, b.req,
            (size_t)(((uintptr_t)b.p + b.req) % PAGE));
  if (Blk* o = sh.overlap(b.p, b.req))
    failop("overlap", "%s returned [%p,+%zu) which overlaps live block #%llu [%p,+%zu) (step %d, thread %d)", what, (void*)b.p, b.req,
           (unsigned long long)o->id, (void*)o->p, o->req, o->step, o->thr);
}

template <class F>
static void on_thread(unsigned t, F&& f) {
  if (t == 0) {
    f();
    return;
  }
  galois::on_each([&](unsigned tid, unsigned) {
    if (tid == t)
      f();
  });
}

// ---- heap adapters
template <size_t N>
struct E {
  unsigned char b[N];
};
struct Rec24 {
  uint64_t a, b, c;
};

struct Heap {
  virtual ~Heap() {}
  virtual void* alloc(size_t n) = 0;
  virtual void* alloc2(size_t, size_t& got) {
    got = 0;
    return nullptr;
  }
  virtual void dealloc(void* p, size_t n) = 0;
  virtual void clear() {}
  virtual void recreate() {}
  virtual void special(unsigned) {}
};
template <class H, bool Has2 = false>
struct ObjHeap : Heap {
  std::unique_ptr<H> h{new H()};
  void* alloc(size_t n) override { return h->allocate(n); }
  void* alloc2(size_t n, size_t& got) override {
    if constexpr (Has2)
      return h->allocate(n, got);
    else
      return Heap::alloc2(n, got);
  }
  void dealloc(void* p, size_t) override { h->deallocate(p); }
  void clear() override { h->clear(); }
  void recreate() override {
    h.reset();
    h.reset(new H());
  }
};
struct FixedH : Heap {
  galois::runtime::FixedSizeHeap h;
  explicit FixedH(size_t s) : h(s) {}
  void* alloc(size_t n) override { return h.allocate(n); }
  void dealloc(void* p, size_t) override { h.deallocate(p); }
};
template <size_t N>
struct FixedAllocH : Heap {
  galois::FixedSizeAllocator<E<N>> a;
  void* alloc(size_t) override {
    E<N>* p = a.allocate(1);
    a.construct(p);
    return p;
  }
  void dealloc(void* p, size_t) override {
    a.destroy((E<N>*)p);
    a.deallocate((E<N>*)p, 1);
  }
};
static Heap* make_fixed_alloc(size_t n) {
  switch (n) {
  case 1:
    return new FixedAllocH<1>();
  case 4:
    return new FixedAllocH<4>();
  case 8:
    return new FixedAllocH<8>();
  case 12:
    return new FixedAllocH<12>();
  case 24:
    return new FixedAllocH<24>();
  case 100:
    return new FixedAllocH<100>();
  default:
    return new FixedAllocH<4096>();
  }
}
struct Pow2H : Heap {
  galois::runtime::Pow_2_BlockHeap* h = galois::runtime::Pow_2_BlockHeap::getInstance();
  void* alloc(size_t n) override { return h->allocateBlock(n); }
  void dealloc(void* p, size_t n) override { h->deallocateBlock(p, n); }
};
template <class T>
struct Pow2AllocH : Heap {
  galois::Pow_2_VarSizeAlloc<T> a;
  void* alloc(size_t n) override { return a.allocate(n / sizeof(T)); }
  void dealloc(void* p, size_t n) override { a.deallocate((T*)p, n / sizeof(T)); }
};
struct PagePoolH : Heap {
  void* alloc(size_t) override { return galois::runtime::pagePoolAlloc(); }
  void dealloc(void* p, size_t) override { galois::runtime::pagePoolFree(p); }
  void special(unsigned n) override { galois::runtime::pagePoolPreAlloc(n); }
};
struct PageHeapH : Heap {
  galois::runtime::PageHeap* h = galois::runtime::PageHeap::getInstance();
  void* alloc(size_t n) override { return h->allocate(n); }
  void dealloc(void* p, size_t) override { h->deallocate(p); }
};
struct LargeH : Heap { // concurrent use: largeMallocLocal / largeMallocFloating
  std::mutex m;
  std::map<void*, galois::substrate::LAptr> held;
  void* alloc(size_t n) override {
    galois::substrate::LAptr p = (n & 1) ? galois::substrate::largeMallocLocal(n) : galois::substrate::largeMallocFloating(n);
    void* r                    = p.get();
    std::lock_guard<std::mutex> g(m);
    held[r] = std::move(p);
    return r;
  }
  void dealloc(void* p, size_t) override {
    galois::substrate::LAptr x;
    {
      std::lock_guard<std::mutex> g(m);
      auto it = held.find(p);
      x       = std::move(it->second);
      held.erase(it);
    }
    x.reset();
  }
};

static std::vector<std::unique_ptr<Heap>> make_heaps(int mode, int var, const std::vector<HeapSpec>& specs) {
  using namespace galois::runtime;
  std::vector<std::unique_ptr<Heap>> v;
  auto two = [&](auto mk) {
    v.emplace_back(mk());
    v.emplace_back(mk());
  };
  switch (mode) {
  case M_FIXED:
    for (auto& s : specs)
      v.emplace_back(var == 0 ? (Heap*)new FixedH(s.fixed) : make_fixed_alloc(s.fixed));
    break;
  case M_POW2:
    v.emplace_back(var == 0 ? (Heap*)new Pow2H() : var == 1 ? (Heap*)new Pow2AllocH<char>() : (Heap*)new Pow2AllocH<Rec24>());
    break;
  case M_VARSIZE:
    two([] { return (Heap*)new ObjHeap<VariableSizeHeap, true>(); });
    break;
  case M_BUMP:
    switch (var) {
    case 0:
      two([] { return (Heap*)new ObjHeap<BumpHeap<SystemHeap>, true>(); });
      break;
    case 1:
      two([] { return (Heap*)new ObjHeap<galois::IterAllocBaseTy>(); });
      break;
    case 2:
      two([] { return (Heap*)new ObjHeap<BlockHeap<24, SystemHeap>>(); });
      break;
    case 3:
      two([] { return (Heap*)new ObjHeap<BlockHeap<7, SystemHeap>>(); });
      break;
    case 4:
      two([] { return (Heap*)new ObjHeap<BlockHeap<4096, SystemHeap>>(); });
      break;
    case 5:
      two([] { return (Heap*)new ObjHeap<BlockHeap<1000000, SystemHeap>>(); });
      break;
    case 6:
      two([] { return (Heap*)new ObjHeap<FreeListHeap<BlockHeap<40, SystemHeap>>>(); });
      break;
    case 7:
      two([] { return (Heap*)new ObjHeap<FreeListHeap<BumpHeap<SystemHeap>>>(); });
      break;
    default:
      two([] { return (Heap*)new ObjHeap<ZeroOut<BumpHeap<SystemHeap>>>(); });
      break;
    }
    break;
  case M_PAGEPOOL:
    v.emplace_back(var == 0 ? (Heap*)new PagePoolH() : (Heap*)new PageHeapH());
    break;
  case M_CONC:
    switch (var) {
    case CV_FIXED:
      return make_heaps(M_FIXED, 0, specs);
    case CV_POW2:
      return make_heaps(M_POW2, 0, specs);
    case CV_PAGEPOOL:
      return make_heaps(M_PAGEPOOL, 0, specs);
    case CV_VARSIZE:
      return make_heaps(M_VARSIZE, 0, specs);
    case CV_LOCKED:
      v.emplace_back(new ObjHeap<LockedHeap<FreeListHeap<BumpHeap<SystemHeap>>>>());
      break;
    case CV_SELFLOCK:
      v.emplace_back(new ObjHeap<SelfLockFreeListHeap<SystemHeap>>());
      break;
    case CV_PAGEHEAP:
      return make_heaps(M_PAGEPOOL, 1, specs);
    case CV_LARGE:
      v.emplace_back(new LargeH());
      break;
    default:
      break;
    }
    break;
  default:
    break;
  }
  return v;
}

// ------------------------------------------------------ heap histories
static const char* opname(int op) {
  static const char* N[] = {"nop", "allocate", "allocate2", "deallocate", "clear", "recreate", "preAlloc"};
  return N[op];
}
static size_t eff_align(const HeapSpec& s) { return s.align == PAGE && !g_pagealigned ? 4096 : s.align; }

// performs one allocation and every check that does not need the shared map
// (runs on the allocating thread)
static void do_alloc(Heap* h, const HeapSpec& s, const POp& o, Blk& b, uint64_t id, int step) {
  g_shapekey = o.shape == 1 ? "alloc2-first" : o.shape == 2 ? "alloc2-refill-big" : nullptr;
  bool two   = o.op == O_ALLOC2;
  size_t got = o.size;
  void* p    = two ? h->alloc2(o.size, got) : h->alloc(o.size);
  b.p        = (char*)p;
  b.asked    = o.size;
  b.req      = got;
  b.id       = id;
  b.heap     = o.heap;
  b.thr      = o.thr;
  b.step     = step;
  b.pool     = two || o.size <= s.poolBelow;
  char what[96];
  snprintf(what, sizeof what, "%s %s(%zu) on thread %d", s.subject, opname(o.op), o.size, o.thr);
  if (two) {
    OPCHECK(got <= o.size, "alloc2-more-than-asked", "%s reports %zu usable bytes", what, got);
    OPCHECK(got > 0, "alloc2-nothing", "%s reports 0 usable bytes", what);
  }
  if (b.req == 0) {
    g_shapekey = nullptr;
    return;
  }
  Shadow none;
  check_new_block(none, b, eff_align(s), what);
  if (s.zero)
    for (size_t j = 0; j < b.req; ++j)
      if (b.p[j] != 0)
        failop("not-zeroed", "%s: byte %zu of the block is %d", what, j, (int)b.p[j]);
  canary_fill(b.p, b.req, b.id);
  g_shapekey = nullptr;
}

struct Classifier {
  std::set<std::pair<int, long>> freed; // (heap kind, size class) that saw a free
  std::vector<char> cleared;
  explicit Classifier(size_t nh) : cleared(nh, 0) {}
  void on_alloc(const HeapSpec& s, const POp& o, const Blk& b) {
    ++g_allocs;
    g_maxsize = std::max(g_maxsize, o.size);
    g_boundary |= is_boundary(o.size) || (s.fixed && s.fixed < 8);
    if (s.frees ? freed.count({s.isPow2 ? 1 : 0, size_class(s, o.size)}) != 0 : cleared[o.heap] != 0)
      g_reuse = true;
    if (o.size > s.poolBelow)
      g_fallback = true;
    if (o.op == O_ALLOC2 && b.req < o.size)
      g_partial = true;
  }
  void on_free(const HeapSpec& s, const POp& o, const Blk& b) {
    ++g_frees;
    if (!s.frees)
      return;
    freed.insert({s.isPow2 ? 1 : 0, size_class(s, b.asked)});
    if (o.thr != b.thr)
      g_xfree = true;
  }
};

static void run_heap_history(const Case& c, int mode, int var, int T) {
  auto specs = heap_specs(mode, var, c[F_A], c[F_B]);
  auto heaps = make_heaps(mode, var, specs);
  auto ops   = plan_heaps(c, specs, T);
  Shadow sh;
  std::vector<std::unique_ptr<Blk>> blks; // in allocation order (= planner's numbering)
  Classifier cl(specs.size());
  int step = 0;
  for (auto& o : ops) {
    ++step;
    const HeapSpec& s = specs[o.heap];
    Heap* h           = heaps[o.heap].get();
    set_ctx("step %d: %s #%d %s(%zu) on thread %d", step, s.subject, o.heap, opname(o.op), o.op == O_FREE ? blks[o.target]->asked : o.size, o.thr);
    g_threads_used = std::max(g_threads_used, o.thr + 1);
    switch (o.op) {
    case O_ALLOC:
    case O_ALLOC2: {
      blks.emplace_back(new Blk());
      Blk& b = *blks.back();
      on_thread(o.thr, [&] { do_alloc(h, s, o, b, (uint64_t)blks.size(), step); });
      if (b.req) {
        g_shapekey = o.shape == 1 ? "alloc2-first" : o.shape == 2 ? "alloc2-refill-big" : nullptr;
        if (Blk* x = sh.overlap(b.p, b.req))
          failop("overlap", "%s %s(%zu) returned [%p,+%zu) which overlaps live block #%llu [%p,+%zu) (step %d, thread %d)", s.subject, opname(o.op),
                 o.size, (void*)b.p, b.req, (unsigned long long)x->id, (void*)x->p, x->req, x->step, x->thr);
        g_shapekey = nullptr;
        b.live     = true;
        sh.add(&b);
      }
      cl.on_alloc(s, o, b);
      break;
    }
    case O_FREE: {
      Blk& b = *blks[o.target];
      on_thread(o.thr, [&] { h->dealloc(b.p, b.asked); });
      cl.on_free(s, o, b);
      if (s.frees && b.live) {
        sh.remove(&b);
        b.live = false;
      }
      break;
    }
    case O_CLEAR:
    case O_RECREATE:
      on_thread(o.thr, [&] {
        if (o.op == O_CLEAR)
          h->clear();
        else
          h->recreate();
      });
      ++g_clears;
      if (o.op == O_RECREATE || s.clearKind == 1) {
        for (auto& b : blks)
          if (b->heap == o.heap && b->live) {
            sh.remove(b.get());
            b->live = false;
          }
        cl.cleared[o.heap] = 1;
      }
      break;
    case O_SPECIAL:
      on_thread(o.thr, [&] { h->special(o.n); });
      break;
    default:
      break;
    }
    sh.verify_all("by this step");
  }
  set_ctx("end of the history");
  label("subject", specs[0].subject);
  finish();
}

// ---- concurrent rounds over the same adapters
static void run_conc_heaps(const Case& c, int var, int T) {
  auto specs  = heap_specs(M_CONC, var, c[F_A], c[F_B]);
  auto heaps  = make_heaps(M_CONC, var, specs);
  auto rounds = plan_conc_heaps(c, specs, T, (int)c[F_C]);
  Shadow sh;
  std::vector<std::unique_ptr<Blk>> blks;
  Classifier cl(specs.size());
  struct Job {
    const POp* o;
    Blk* b;
    uint64_t id;
  };
  int rno = 0;
  for (auto& R : rounds) {
    ++rno;
    if (R.pre.op == O_CLEAR || R.pre.op == O_RECREATE) {
      const POp& o = R.pre;
      set_ctx("before round %d: %s #%d %s", rno, specs[o.heap].subject, o.heap, opname(o.op));
      if (o.op == O_CLEAR)
        heaps[o.heap]->clear();
      else
        heaps[o.heap]->recreate();
      ++g_clears;
      if (o.op == O_RECREATE || specs[o.heap].clearKind == 1) {
        for (auto& b : blks)
          if (b->heap == o.heap && b->live) {
            sh.remove(b.get());
            b->live = false;
          }
        cl.cleared[o.heap] = 1;
      }
    }
    std::vector<Job> jobs[MAXT];
    std::vector<Blk*> newb, freed;
    for (auto& o : R.ops) {
      if (o.op == O_ALLOC || o.op == O_ALLOC2) {
        blks.emplace_back(new Blk());
        jobs[o.thr].push_back(Job{&o, blks.back().get(), (uint64_t)blks.size()});
        newb.push_back(blks.back().get());
      } else if (o.op == O_FREE) {
        jobs[o.thr].push_back(Job{&o, blks[o.target].get(), 0});
        freed.push_back(blks[o.target].get());
      }
    }
    set_ctx("concurrent round %d of %s on %d threads", rno, specs[0].subject, T);
    galois::on_each([&](unsigned tid, unsigned) {
      if (tid >= (unsigned)T)
        return;
      for (auto& j : jobs[tid]) {
        const HeapSpec& s = specs[j.o->heap];
        Heap* h           = heaps[j.o->heap].get();
        if (j.o->op == O_FREE) {
          // live since an earlier round: nobody may have touched it
          long bad = j.b->live && j.b->req ? canary_check(j.b->p, j.b->req, j.b->id) : -1;
          if (bad >= 0)
            failop("canary", "live block #%llu (%zu bytes at %p, round %d, thread %d) was overwritten at byte %ld before thread %u freed it",
                   (unsigned long long)j.b->id, j.b->req, (void*)j.b->p, j.b->step, j.b->thr, bad, tid);
          h->dealloc(j.b->p, j.b->asked);
        } else
          do_alloc(h, s, *j.o, *j.b, j.id, rno);
      }
    });
    // merge (schedule independent): blocks freed in this round may have been
    // reused by this round's allocations; everything else must be disjoint
    size_t fi = 0;
    for (auto& o : R.ops)
      if (o.op == O_FREE) {
        Blk* b = freed[fi++];
        cl.on_free(specs[o.heap], o, *b);
        if (specs[o.heap].frees && b->live) {
          sh.remove(b);
          b->live = false;
        }
      }
    size_t ni = 0;
    for (auto& o : R.ops)
      if (o.op == O_ALLOC || o.op == O_ALLOC2) {
        Blk* b = newb[ni++];
        cl.on_alloc(specs[o.heap], o, *b);
        g_threads_used = std::max(g_threads_used, o.thr + 1);
        if (!b->req)
          continue;
        g_shapekey = o.shape == 1 ? "alloc2-first" : o.shape == 2 ? "alloc2-refill-big" : nullptr;
        if (Blk* x = sh.overlap(b->p, b->req))
          failop("overlap", "%s %s(%zu) on thread %d returned [%p,+%zu) which overlaps live block #%llu [%p,+%zu) (round %d, thread %d)",
                 specs[o.heap].subject, opname(o.op), o.size, o.thr, (void*)b->p, b->req, (unsigned long long)x->id, (void*)x->p, x->req, x->step, x->thr);
        g_shapekey = nullptr;
        b->live    = true;
        sh.add(b);
      }
    sh.verify_all("after this round");
  }
  set_ctx("end of the history");
  label("subject", specs[0].subject);
  label("rounds", rounds.size() > 4 ? 5 : (long)rounds.size());
  finish();
}

// ------------------------------------------- per-thread / per-socket storage
struct ObjBase {
  virtual ~ObjBase() {}
  virtual void* remote(unsigned t) = 0;
  virtual ObjBase* move_to_new()   = 0;
};
template <class S>
struct ObjT : ObjBase {
  S s;
  ObjT() {}
  ObjT(ObjT&& o) : s(std::move(o.s)) {}
  void* remote(unsigned t) override { return s.getRemote(t); }
  ObjBase* move_to_new() override { return new ObjT(std::move(*this)); }
};
template <template <class> class St>
static ObjBase* make_obj(int k) {
  switch (k) {
  case 0:
    return new ObjT<St<E<1>>>();
  case 1:
    return new ObjT<St<E<8>>>();
  case 2:
    return new ObjT<St<E<100>>>();
  case 3:
    return new ObjT<St<E<128>>>();
  case 4:
    return new ObjT<St<E<129>>>();
  case 5:
    return new ObjT<St<E<1000>>>();
  case 6:
    return new ObjT<St<E<4096>>>();
  case 7:
    return new ObjT<St<E<5000>>>();
  case 8:
    return new ObjT<St<E<65536>>>();
  default:
    return new ObjT<St<E<200000>>>();
  }
}

struct PHandle {
  int backend = 0, k = 0, thr = 0, step = 0;
  bool obj = false, alive = false;
  unsigned off = 0;
  size_t size  = 0;
  ObjBase* o   = nullptr;
  std::vector<std::unique_ptr<Blk>> blks; // one per thread (backend 0) / per socket (backend 1)
};
struct PtsEnv {
  std::vector<unsigned> owners[2]; // thread ids whose copy of the storage is a distinct block
  galois::substrate::PerBackend* be[2];
  PtsEnv() {
    auto& tp = galois::substrate::getThreadPool();
    for (unsigned t = 0; t < tp.getMaxThreads(); ++t)
      owners[0].push_back(t);
    for (unsigned s = 0; s < tp.getMaxSockets(); ++s)
      owners[1].push_back(tp.getLeaderForSocket(s));
    be[0] = &galois::substrate::getPTSBackend();
    be[1] = &galois::substrate::getPPSBackend();
  }
};
static const char* BE_NAME[] = {"per-thread", "per-socket"};

// allocation part of a handle (runs on the allocating thread); everything
// except the shared-map checks
static void pts_create(PtsEnv& env, const PtsOp& o, PHandle& h, uint64_t idbase, int step) {
  h.backend = o.backend;
  h.obj     = o.op == P_OBJ;
  h.k       = o.k;
  h.size    = o.size;
  h.thr     = o.thr;
  h.step    = step;
  auto* be  = env.be[o.backend];
  g_oom_guard.fetch_add(1);
  if (h.obj) {
    h.o         = o.backend == 0 ? make_obj<galois::substrate::PerThreadStorage>(o.k) : make_obj<galois::substrate::PerSocketStorage>(o.k);
    unsigned t0 = env.owners[o.backend][0];
    h.off       = (unsigned)((char*)h.o->remote(t0) - (char*)be->getRemote(t0, 0));
  } else
    h.off = be->allocOffset((unsigned)o.size);
  g_oom_guard.fetch_sub(1);
  char what[128];
  snprintf(what, sizeof what, "%s %s(%zu bytes) on thread %d", BE_NAME[o.backend], h.obj ? "storage object" : "allocOffset", o.size, o.thr);
  OPCHECK(h.off % 128 == 0, "misaligned", "%s: offset %u is not cache-line (128 B) aligned", what, h.off);
  OPCHECK((size_t)h.off + o.size <= PAGE, "beyond-page", "%s: offset %u + size exceeds the 2 MB per-thread region", what, h.off);
  Shadow none;
  size_t i = 0;
  for (unsigned t : env.owners[o.backend]) {
    h.blks.emplace_back(new Blk());
    Blk& b = *h.blks.back();
    b.p    = h.obj ? (char*)h.o->remote(t) : (char*)be->getRemote(t, h.off);
    b.req = b.asked = o.size;
    b.id            = idbase * 8 + i++;
    b.thr           = o.thr;
    b.step          = step;
    if (h.obj)
      OPCHECK(b.p == (char*)be->getRemote(t, h.off), "remote-mismatch", "%s: getRemote(%u) = %p, expected region base + %u = %p", what, t, (void*)b.p,
              h.off, be->getRemote(t, h.off));
    check_new_block(none, b, 128, what);
    canary_fill(b.p, b.req, b.id);
  }
}
static void pts_destroy(PtsEnv& env, PHandle& h) {
  if (h.obj) {
    delete h.o;
    h.o = nullptr;
  } else
    env.be[h.backend]->deallocOffset(h.off, (unsigned)h.size);
}
static bool g_pts_freelist = false;
struct PtsClassifier {
  std::set<std::pair<int, int>> freedcls;
  std::vector<std::array<size_t, 3>> freedrng; // backend, off, class size
  // maxLiveEnd: largest offset+size of the blocks of this backend that were
  // live when the request was made.  Live blocks lie below the bump frontier,
  // so if maxLiveEnd + rounded size > 2 MB the bump path was impossible and
  // the offset came from a free list.
  void on_alloc(const PHandle& h, size_t maxLiveEnd) {
    bool fl = maxLiveEnd + ((size_t)1 << log2class(h.size, 7)) > PAGE;
    g_pts_freelist |= fl;
    ++g_allocs;
    g_maxsize = std::max(g_maxsize, h.size);
    g_boundary |= is_boundary(h.size);
    int cls = log2class(h.size, 7);
    if (freedcls.count({h.backend, cls}))
      g_reuse = true;
    for (auto& f : freedrng)
      if (fl && (int)f[0] == h.backend && f[2] > ((size_t)1 << cls) && h.off >= f[1] && h.off + ((size_t)1 << cls) <= f[1] + f[2])
        g_pts_split = true; // carved out of a bigger freed chunk
  }
  void on_free(const PHandle& h, int thr) {
    ++g_frees;
    int cls = log2class(h.size, 7);
    freedcls.insert({h.backend, cls});
    freedrng.push_back({(size_t)h.backend, (size_t)h.off, (size_t)1 << cls});
    if (thr != h.thr)
      g_xfree = true;
  }
};
static size_t max_live_end(const std::vector<std::unique_ptr<PHandle>>& hs, int backend) {
  size_t m = 0;
  for (auto& h : hs)
    if (h->alive && h->backend == backend)
      m = std::max(m, (size_t)h->off + h->size);
  return m;
}
static void pts_register(Shadow& sh, PHandle& h, const char* subject) {
  for (auto& b : h.blks) {
    if (Blk* x = sh.overlap(b->p, b->req))
      failop("overlap", "%s %s of %zu bytes got offset %u = [%p,+%zu) which overlaps live block #%llu [%p,+%zu) (step %d, thread %d)", BE_NAME[h.backend], subject,
             h.size, h.off, (void*)b->p, b->req, (unsigned long long)x->id, (void*)x->p, x->req, x->step, x->thr);
    b->live = true;
    sh.add(b.get());
  }
  h.alive = true;
}
static void pts_unregister(Shadow& sh, PHandle& h) {
  for (auto& b : h.blks) {
    sh.remove(b.get());
    b->live = false;
  }
  h.alive = false;
}
static void capture_stderr() {
  g_errfd = memfd_create("c09-stderr", 0);
  if (g_errfd >= 0)
    dup2(g_errfd, 2);
}

static void run_pts_history(const Case& c, int T) {
  capture_stderr();
  PtsEnv env;
  PtsPlanner P(T);
  Shadow sh;
  PtsClassifier cl;
  std::vector<std::unique_ptr<PHandle>> hs;
  int step = 0, moves = 0;
  bool fill              = pts_fill(c);
  std::vector<PtsOp> pre = P.prefill(pts_prefill(c), 2, fill);
  // steering only (never an oracle): in fill mode the region is exhausted, a
  // request can only succeed out of space released earlier.  `credit` mirrors
  // the change-making of the free lists; requests it cannot serve are skipped
  // instead of ending the case with "out of memory".
  size_t hw[2] = {0, 0};
  std::array<int, 32> credit[2];
  credit[0].fill(0);
  credit[1].fill(0);
  long skipped = 0;
  for (size_t i = 0; i < pre.size() + ntail(c); ++i) {
    PtsOp o = i < pre.size() ? pre[i] : P.step(raw_of(c.f[F_COUNT + i - pre.size()]));
    ++step;
    g_threads_used = std::max(g_threads_used, o.thr + 1);
    if (o.op == P_RAW || o.op == P_OBJ) {
      set_ctx("step %d: %s %s of %zu bytes on thread %d", step, BE_NAME[o.backend], o.op == P_OBJ ? "storage object" : "allocOffset", o.size, o.thr);
      size_t mle = max_live_end(hs, o.backend);
      hs.emplace_back(new PHandle());
      PHandle& h = *hs.back();
      int cls    = log2class(o.size, 7);
      if (o.filler && hw[o.backend] + o.size > PAGE)
        continue; // does not fit any more: the handle stays empty
      if (fill && i >= pre.size()) {
        int cc = cls;
        while (cc < 32 && !credit[o.backend][cc])
          ++cc;
        if (cc == 32) {
          ++skipped;
          continue;
        }
        --credit[o.backend][cc];
        for (int k = cls; k < cc; ++k)
          ++credit[o.backend][k];
      }
      on_thread(o.thr, [&] { pts_create(env, o, h, hs.size(), step); });
      pts_register(sh, h, o.op == P_OBJ ? "storage object" : "allocOffset");
      hw[o.backend] = std::max(hw[o.backend], (size_t)h.off + ((size_t)1 << cls));
      if (i >= pre.size())
        cl.on_alloc(h, mle);
    } else if (o.op == P_FREE) {
      PHandle& h = *hs[o.target];
      if (!h.alive)
        continue; // never allocated (see above)
      set_ctx("step %d: release %s %s of %zu bytes (offset %u) on thread %d", step, BE_NAME[h.backend], h.obj ? "storage object" : "offset", h.size, h.off, o.thr);
      on_thread(o.thr, [&] { pts_destroy(env, h); });
      pts_unregister(sh, h);
      ++credit[h.backend][log2class(h.size, 7)];
      cl.on_free(h, o.thr);
    } else if (o.op == P_MOVE) {
      PHandle& h = *hs[o.target];
      if (!h.alive)
        continue;
      set_ctx("step %d: move-construct %s storage object of %zu bytes (offset %u) and destroy the source, on thread %d", step, BE_NAME[h.backend], h.size,
              h.off, o.thr);
      on_thread(o.thr, [&] {
        ObjBase* n = h.o->move_to_new();
        delete h.o;
        h.o = n;
      });
      ++moves;
      if (h.backend == 1)
        g_stickykey = "move-double-release"; // the damage shows at a later allocation
      size_t j = 0;
      for (unsigned t : env.owners[h.backend]) {
        OPCHECK((char*)h.o->remote(t) == h.blks[j]->p, "moved-storage", "after the move getRemote(%u) = %p, before %p", t, h.o->remote(t), (void*)h.blks[j]->p);
        ++j;
      }
    }
    sh.verify_all("by this step");
  }
  set_ctx("end of the history");
  label("subject", "PerBackend");
  label("pts_split", g_pts_split);
  label("pts_freelist", g_pts_freelist);
  label("pts_fill", fill);
  label("pts_skipped", skipped > 0);
  label("moves", moves > 0);
  finish();
}

static void run_conc_pts(const Case& c, int T) {
  capture_stderr();
  PtsEnv env;
  auto rounds = plan_conc_pts(c, T, (int)c[F_C]);
  Shadow sh;
  PtsClassifier cl;
  std::vector<std::unique_ptr<PHandle>> hs;
  struct Job {
    const PtsOp* o;
    PHandle* h;
    uint64_t id;
  };
  int rno = 0;
  for (auto& R : rounds) {
    ++rno;
    std::vector<Job> jobs[MAXT];
    for (auto& o : R) {
      if (o.op == P_RAW || o.op == P_OBJ) {
        hs.emplace_back(new PHandle());
        jobs[o.thr].push_back(Job{&o, hs.back().get(), (uint64_t)hs.size()});
      } else if (o.op == P_FREE)
        jobs[o.thr].push_back(Job{&o, hs[o.target].get(), 0});
    }
    set_ctx("concurrent round %d of per-thread storage creation/destruction on %d threads", rno, T);
    galois::on_each([&](unsigned tid, unsigned) {
      if (tid >= (unsigned)T)
        return;
      for (auto& j : jobs[tid]) {
        if (j.o->op == P_FREE) {
          for (auto& b : j.h->blks) {
            long bad = canary_check(b->p, b->req, b->id);
            if (bad >= 0)
              failop("canary", "live per-thread block #%llu (%zu bytes at %p, offset %u, round %d) was overwritten at byte %ld before thread %u released it",
                     (unsigned long long)b->id, b->req, (void*)b->p, j.h->off, b->step, bad, tid);
          }
          pts_destroy(env, *j.h);
        } else
          pts_create(env, *j.o, *j.h, j.id, rno);
      }
    });
    for (auto& o : R)
      if (o.op == P_FREE) {
        pts_unregister(sh, *hs[o.target]);
        cl.on_free(*hs[o.target], o.thr);
      }
    size_t mle = max_live_end(hs, 0); // blocks that were live during the whole round
    for (auto& jl : jobs)
      for (auto& j : jl)
        if (j.o->op != P_FREE) {
          g_threads_used = std::max(g_threads_used, j.o->thr + 1);
          pts_register(sh, *j.h, j.o->op == P_OBJ ? "storage object" : "allocOffset");
          cl.on_alloc(*j.h, mle);
        }
    sh.verify_all("after this round");
  }
  set_ctx("end of the history");
  label("subject", "PerBackend");
  label("pts_split", g_pts_split);
  label("pts_freelist", g_pts_freelist);
  label("rounds", rounds.size() > 4 ? 5 : (long)rounds.size());
  finish();
}

// ----------------------------------------------------- large allocations
struct ArrBase {
  virtual ~ArrBase() {}
  virtual void* alloc(int kind, size_t bytes, int nt) = 0;
  virtual void dealloc()                              = 0;
};
template <class T>
struct ArrT : ArrBase {
  galois::LargeArray<T> a;
  void* alloc(int kind, size_t bytes, int nt) override {
    size_t n = bytes / sizeof(T);
    switch (kind) {
    case 0:
      a.allocateInterleaved(n);
      break;
    case 1:
      a.allocateBlocked(n);
      break;
    case 2:
      a.allocateLocal(n);
      break;
    case 3:
      a.allocateFloating(n);
      break;
    default: {
      std::vector<uint64_t> r(nt + 1);
      for (int i = 0; i <= nt; ++i)
        r[i] = n * i / nt;
      a.allocateSpecified(n, r);
    }
    }
    return a.data();
  }
  void dealloc() override { a.deallocate(); }
};
struct LHandle {
  galois::substrate::LAptr la;
  std::unique_ptr<ArrBase> arr;
  galois::runtime::SerialNumaHeap* sh = nullptr;
  galois::runtime::SerialNumaAllocator<uint64_t>* sa = nullptr;
  Blk b;
};
static void run_large_history(const Case& c, int var, int T) {
  using namespace galois::substrate;
  auto ops = plan_large(c, T);
  Shadow sh;
  std::vector<std::unique_ptr<LHandle>> hs;
  galois::runtime::SerialNumaHeap snh;
  galois::runtime::SerialNumaAllocator<uint64_t> sna;
  std::set<size_t> freedpages;
  static const char* LM[] = {"largeMallocLocal", "largeMallocFloating", "largeMallocInterleaved", "largeMallocBlocked", "largeMallocSpecified<u32>",
                             "largeMallocSpecified<u64>"};
  static const char* LA[] = {"allocateInterleaved", "allocateBlocked", "allocateLocal", "allocateFloating", "allocateSpecified"};
  int step                = 0;
  // one block around 4 GiB (sizes need more than 32 bits once rounded to the 2 MiB page): not paged in by the
  // library (floating), and the harness touches only its first, middle and last page
  if (var == 0 && prf((uint64_t)c[F_ASEED], 4242) % 4 == 0) {
    static const int64_t DELTA[] = {-(int64_t)PAGE - 1, -1, 0, 1, (int64_t)PAGE, (int64_t)PAGE + 1, 1LL << 30};
    size_t big = (size_t)((4LL << 30) + DELTA[prf((uint64_t)c[F_ASEED], 4243) % 7]);
    set_ctx("largeMallocFloating(%zu bytes)", big);
    LAptr huge = largeMallocFloating(big);
    char* p    = (char*)huge.get();
    if (!p)
      failop("null", "largeMallocFloating(%zu) returned nullptr", big);
    // every page of the block must be mapped: probe the last one before touching it
    unsigned char vec[1];
    char* lastpage = (char*)((uintptr_t)(p + big - 1) & ~(uintptr_t)4095);
    if (mincore(lastpage, 4096, vec) != 0 && errno == ENOMEM)
      failop("large-size-truncated", "largeMallocFloating(%zu): the page holding the block's last byte (offset %zu) is not mapped", big, (size_t)(lastpage - p));
    p[0]       = 11;
    p[big / 2] = 22;
    p[big - 1] = 33;
    if (p[0] != 11 || p[big / 2] != 22 || p[big - 1] != 33)
      failop("large-alias", "largeMallocFloating(%zu): first/middle/last byte do not hold what was written", big);
    huge.reset();
    g_boundary = true;
  }
  for (auto& o : ops) {
    ++step;
    if (o.op == L_ALLOC) {
      hs.emplace_back(new LHandle());
      LHandle& h   = *hs.back();
      size_t bytes = o.size;
      size_t align = 4096;
      char what[128];
      galois::setActiveThreads(o.nt);
      if (var == 0) {
        int k = o.sub % 6;
        snprintf(what, sizeof what, "%s(%zu bytes, %d threads)", LM[k], bytes, o.nt);
        set_ctx("step %d: %s", step, what);
        switch (k) {
        case 0:
          h.la = largeMallocLocal(bytes);
          break;
        case 1:
          h.la = largeMallocFloating(bytes);
          break;
        case 2:
          h.la = largeMallocInterleaved(bytes, o.nt);
          break;
        case 3:
          h.la = largeMallocBlocked(bytes, o.nt);
          break;
        case 4: {
          size_t esz = 1 + (o.size % 24), n = bytes / esz;
          bytes = n * esz;
          std::vector<uint32_t> r(o.nt + 1);
          for (int i = 0; i <= o.nt; ++i)
            r[i] = (uint32_t)(n * i / o.nt);
          h.la = largeMallocSpecified(bytes, (uint32_t)o.nt, r, esz);
          break;
        }
        default: {
          size_t esz = 1 + (o.size % 24), n = bytes / esz;
          bytes = n * esz;
          std::vector<uint64_t> r(o.nt + 1);
          for (int i = 0; i <= o.nt; ++i)
            r[i] = (uint64_t)(n * i / o.nt);
          h.la = largeMallocSpecified(bytes, (uint32_t)o.nt, r, esz);
        }
        }
        h.b.p = (char*)h.la.get();
      } else if (var == 1) {
        int ty = (int)((o.sub + o.size) % 3), k = o.sub % 5;
        size_t es = ty == 0 ? 1 : ty == 1 ? 8 : 24;
        bytes     = bytes / es * es;
        snprintf(what, sizeof what, "LargeArray<%zu-byte elements>::%s(%zu elements, %d threads)", es, LA[k], bytes / es, o.nt);
        set_ctx("step %d: %s", step, what);
        h.arr.reset(ty == 0 ? (ArrBase*)new ArrT<char>() : ty == 1 ? (ArrBase*)new ArrT<uint64_t>() : (ArrBase*)new ArrT<Rec24>());
        h.b.p = (char*)h.arr->alloc(k, bytes, o.nt);
      } else {
        align = 8;
        if (o.sub & 1) {
          bytes = bytes / 8 * 8;
          snprintf(what, sizeof what, "SerialNumaAllocator<uint64_t>::allocate(%zu) with %d threads", bytes / 8, o.nt);
          set_ctx("step %d: %s", step, what);
          h.sa  = &sna;
          h.b.p = (char*)sna.allocate(bytes / 8);
        } else {
          snprintf(what, sizeof what, "SerialNumaHeap::allocate(%zu) with %d threads", bytes, o.nt);
          set_ctx("step %d: %s", step, what);
          h.sh  = &snh;
          h.b.p = (char*)snh.allocate(bytes);
        }
      }
      h.b.req = h.b.asked = bytes;
      h.b.id              = hs.size();
      h.b.step            = step;
      check_new_block(sh, h.b, align, what);
      if (h.b.req) {
        canary_fill(h.b.p, h.b.req, h.b.id);
        h.b.live = true;
        sh.add(&h.b);
      }
      ++g_allocs;
      g_maxsize = std::max(g_maxsize, bytes);
      g_boundary |= bytes % PAGE <= 1 || bytes % PAGE >= PAGE - 16;
      if (freedpages.count((bytes + PAGE - 1) / PAGE))
        g_reuse = true;
    } else if (o.op == L_FREE) {
      LHandle& h = *hs[o.target];
      set_ctx("step %d: free large block #%llu (%zu bytes at %p)", step, (unsigned long long)h.b.id, h.b.req, (void*)h.b.p);
      if (h.b.live) {
        sh.remove(&h.b);
        h.b.live = false;
      }
      if (h.arr) {
        if (o.target & 1)
          h.arr->dealloc();
        h.arr.reset();
      } else if (h.sh)
        h.sh->deallocate(h.b.p);
      else if (h.sa)
        h.sa->deallocate((uint64_t*)h.b.p, h.b.asked / 8);
      else
        h.la.reset();
      ++g_frees;
      freedpages.insert((h.b.asked + PAGE - 1) / PAGE);
    }
    sh.verify_all("by this step");
  }
  set_ctx("end of the history");
  label("subject", subject_name(M_LARGE, var));
  finish();
}

// ------------------------------------------------ per-iteration allocator
constexpr int MAXITEMS = 40 * 3 + 8;
struct PRec {
  std::atomic<int> attempts{0};
  uint64_t spec = 0;
  int depth     = 0;
};
static PRec g_recs[MAXITEMS];
static std::atomic<int> g_nitems{0};
struct SharedShadow {
  std::mutex m;
  struct Ent {
    size_t n;
    uint64_t id;
    unsigned tid;
    int item;
  };
  std::map<uintptr_t, Ent> live;
};
static void pia_register(SharedShadow& S, char* p, size_t n, uint64_t id, unsigned tid, int item) {
  char what[128];
  snprintf(what, sizeof what, "getPerIterAlloc().allocate(%zu) in iteration %d on thread %u", n, item, tid);
  OPCHECK(p != nullptr, "null", "%s returned a null pointer", what);
  OPCHECK((uintptr_t)p % 8 == 0, "misaligned", "%s returned %p: not 8-byte aligned", what, (void*)p);
  OPCHECK(is_mapped(p, n), "unmapped", "%s returned %p: not (entirely) mapped memory", what, (void*)p);
  if (n <= BUMPMAX && g_pagealigned)
    OPCHECK((uintptr_t)p / PAGE == ((uintptr_t)p + n - 1) / PAGE, "straddles-page", "%s returned [%p,+%zu): crosses the end of its 2 MB pool page", what,
            (void*)p, n);
  std::lock_guard<std::mutex> g(S.m);
  uintptr_t a = (uintptr_t)p, e = a + n;
  auto it = S.live.lower_bound(a);
  const std::pair<const uintptr_t, SharedShadow::Ent>* hit = nullptr;
  if (it != S.live.end() && it->first < e)
    hit = &*it;
  else if (it != S.live.begin()) {
    --it;
    if (it->first + it->second.n > a)
      hit = &*it;
  }
  if (hit)
    failop("overlap", "%s returned [%p,+%zu) which overlaps block #%llu [%p,+%zu) of the still running iteration %d on thread %u", what, (void*)p, n,
           (unsigned long long)hit->second.id, (void*)hit->first, hit->second.n, hit->second.item, hit->second.tid);
  S.live[a] = SharedShadow::Ent{n, id, tid, item};
}
static void pia_unregister(SharedShadow& S, char* p) {
  std::lock_guard<std::mutex> g(S.m);
  S.live.erase((uintptr_t)p);
}

static void run_periter(const Case& c, int T) {
  size_t n0      = std::min<size_t>(ntail(c), 40);
  uint64_t aseed = (uint64_t)c[F_ASEED];
  std::vector<int> init;
  for (size_t i = 0; i < n0; ++i) {
    g_recs[i].spec  = raw_of(c.f[F_COUNT + i]).arg * 20 + raw_of(c.f[F_COUNT + i]).thr * 5 + raw_of(c.f[F_COUNT + i]).kind;
    g_recs[i].depth = 0;
    init.push_back((int)i);
  }
  g_nitems = (int)n0;
  static SharedShadow S;
  static int iters_with_alloc[MAXT], aborted_iters[MAXT];
  static size_t maxsz[MAXT];
  static bool boundary[MAXT];
  set_ctx("galois::for_each with per_iter_alloc over %zu initial items on %d threads", n0, T);
  galois::for_each(
      galois::iterate(init),
      [&](int item, auto& ctx) {
        PRec& r      = g_recs[item];
        int attempt  = r.attempts.fetch_add(1);
        unsigned tid = galois::substrate::ThreadPool::getTID();
        uint64_t u   = r.spec;
        int nblk = (int)(u % 4), children = r.depth == 0 ? (int)((u / 8) % 3) : 0;
        // voluntary aborts need the abort machinery, which for_each only sets up with more than one active thread
        bool abortFirst = ((u / 4) % 2) != 0 && T >= 2;
        uint64_t szsel  = u / 24;
        char* ptr[3];
        size_t sz[3];
        uint64_t id[3];
        auto& al = ctx.getPerIterAlloc();
        for (int j = 0; j < nblk; ++j) {
          sz[j]  = PIA_TABLE[(szsel + 5 * j) % NPIA_TABLE];
          id[j]  = (uint64_t)((item * 4 + j) * 4 + std::min(attempt, 3)) + 1;
          ptr[j] = al.allocate(sz[j]);
          pia_register(S, ptr[j], sz[j], id[j], tid, item);
          canary_fill(ptr[j], sz[j], id[j]);
          maxsz[tid] = std::max(maxsz[tid], sz[j]);
          boundary[tid] |= is_boundary(sz[j]);
        }
        auto verify = [&](const char* when) {
          for (int j = 0; j < nblk; ++j) {
            long bad = canary_check(ptr[j], sz[j], id[j]);
            if (bad >= 0)
              failop("canary", "per-iteration block #%llu (%zu bytes at %p) of iteration %d on thread %u was overwritten at byte %ld %s",
                     (unsigned long long)id[j], sz[j], (void*)ptr[j], item, tid, bad, when);
          }
        };
        verify("while the iteration was still allocating");
        if (abortFirst && attempt == 0) {
          for (int j = 0; j < nblk; ++j)
            pia_unregister(S, ptr[j]);
          ++aborted_iters[tid];
          ctx.abort(); // longjmp: no destructor is pending here
        }
        for (int ch = 0; ch < children; ++ch) {
          int ci            = g_nitems.fetch_add(1);
          g_recs[ci].spec   = prf(aseed, item, ch) % (24 * NPIA_TABLE);
          g_recs[ci].depth  = 1;
          g_recs[ci].attempts = 0;
          ctx.push(ci);
        }
        verify("before the iteration committed");
        for (int j = 0; j < nblk; ++j)
          pia_unregister(S, ptr[j]);
        if (nblk)
          ++iters_with_alloc[tid];
      },
      galois::per_iter_alloc());
  set_ctx("after the for_each");
  long aborts = 0;
  for (int t = 0; t < MAXT; ++t) {
    // a later iteration on the same thread allocates after the previous one's
    // blocks were released: "free followed by an allocation"
    if (iters_with_alloc[t] + aborted_iters[t] >= 2)
      g_reuse = true;
    g_allocs += iters_with_alloc[t];
    g_frees += iters_with_alloc[t];
    aborts += aborted_iters[t];
    g_maxsize = std::max(g_maxsize, maxsz[t]);
    g_boundary |= boundary[t];
    if (iters_with_alloc[t])
      g_threads_used = std::max(g_threads_used, t + 1);
  }
  label("subject", "PerIterAlloc");
  label("aborts", aborts > 0);
  label("items", g_nitems.load() == 0 ? "0" : g_nitems.load() < 10 ? "1-9" : "10+");
  finish();
}

// -------------------------------------------------------------------- run
void run(const Case& c0) {
  Case c = c0;
  normalize_case(c);
  int mode = (int)c[F_MODE], var = (int)c[F_VAR];
  setenv("GALOIS_VERIF_TOPO", TOPOS[c[F_TOPO]], 1);
  setenv("GALOIS_DO_NOT_BIND_THREADS", "1", 1);
  setenv("GALOIS_DEBUG_SKIP", "1", 1);
  signal(SIGABRT, on_abort);
#ifdef C09_HAVE_SANITIZER
  __sanitizer_set_death_callback(on_death);
#endif
  { // is a raw 2 MB mapping 2 MB aligned here?  (otherwise only the OS page size is checked)
    void* p = mmap(nullptr, PAGE, PROT_READ | PROT_WRITE, MAP_PRIVATE | MAP_ANONYMOUS, -1, 0);
    g_pagealigned = p != MAP_FAILED && ((uintptr_t)p % PAGE) == 0;
    if (p != MAP_FAILED)
      munmap(p, PAGE);
  }
  label("mode", MODE_NAMES[mode]);
  label("variant", var);
  label("topo", TOPOS[c[F_TOPO]]);
  set_ctx("constructing galois::SharedMemSys");
  static galois::SharedMemSys* G = new galois::SharedMemSys(); // never destroyed: the child _exits with its verdict
  (void)G;
  int T = (int)galois::setActiveThreads((unsigned)c[F_THREADS]);
  label("threads", T);
  // the planner must see the thread count that is really in use
  c[F_THREADS] = T;
  switch (mode) {
  case M_FIXED:
  case M_POW2:
  case M_VARSIZE:
  case M_BUMP:
  case M_PAGEPOOL:
    run_heap_history(c, mode, var, T);
    break;
  case M_PERITER:
    run_periter(c, T);
    break;
  case M_PTS:
    run_pts_history(c, T);
    break;
  case M_LARGE:
    run_large_history(c, var, T);
    break;
  default:
    if (var == CV_PTS)
      run_conc_pts(c, T);
    else
      run_conc_heaps(c, var, T);
  }
  finish();
}
} // namespace verif

VERIF_E1_MAIN
