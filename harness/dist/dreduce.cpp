// Distributed reducers (C15, DReducible.h; run under mpirun by py/c15d.py).
// Every host derives the same script from (-rseed, hosts, ...) with a PRF:
// a sequence of epochs on one reducer object
//     [fresh object | reset()] [set(v)] parallel updates  reduce()  read()  read_local()
// with host- and thread-specific update values, so every host can compute the
// expected global value itself.  Objects are constructed into storage that was
// filled with a non-zero byte pattern (a default-constructed reducer must not
// depend on what the memory held before).
// Result line per host: "OK ..." or "FAIL <key> <message>" in <rout>.<host>.txt
#include "galois/DistGalois.h"
#include "galois/DReducible.h"
#include "galois/Galois.h"

#include "llvm/Support/CommandLine.h"

#include <fstream>
#include <limits>
#include <new>
#include <sstream>

namespace cll = llvm::cl;
static cll::opt<uint64_t> rseed("rseed", cll::init(1));
static cll::opt<int> rthreads("rthreads", cll::init(1));
static cll::opt<int> rkind("rkind", cll::desc("0 DGAccumulator 1 DGReduceMax 2 DGReduceMin"), cll::init(0));
static cll::opt<int> rtype("rtype", cll::desc("0 int32 1 int64 2 uint32 3 uint64 4 float 5 double"), cll::init(0));
static cll::opt<int> repochs("repochs", cll::init(2));
static cll::opt<int> rupdates("rupdates", cll::desc("max updates per host and epoch"), cll::init(10));
static cll::opt<int> rshape("rshape", cll::desc("0 small positive 1 all negative 2 mixed 3 zeros and ones"), cll::init(0));
static cll::opt<int> rfresh("rfresh", cll::desc("bit e: epoch e uses a freshly constructed object instead of reset()"), cll::init(1));
static cll::opt<int> rset("rset", cll::desc("bit e: epoch e starts with set(v) (accumulator only)"), cll::init(0));
static cll::opt<int> rtwice("rtwice", cll::desc("bit e: epoch e reduces twice with updates in between"), cll::init(0));
static cll::opt<std::string> rout("rout", cll::init("rout"));

static uint64_t prf(uint64_t seed, uint64_t a, uint64_t b = 0, uint64_t c = 0, uint64_t d = 0) {
  uint64_t z = seed * 0x9e3779b97f4a7c15ULL + a * 0xbf58476d1ce4e5b9ULL + b * 0x94d049bb133111ebULL + c * 0x2545F4914F6CDD1DULL +
               d * 0xd6e8feb86659fd93ULL + 0x1234567;
  z = (z ^ (z >> 30)) * 0xbf58476d1ce4e5b9ULL;
  z = (z ^ (z >> 27)) * 0x94d049bb133111ebULL;
  return z ^ (z >> 31);
}

static std::string result;
static void fail(const char* key, const std::string& msg) {
  if (result.empty())
    result = std::string("FAIL ") + key + " " + msg;
}

// update values as small integers (exact in every type incl. float); unsigned types get non-negative values
static int64_t value(unsigned host, int epoch, int part, int i, bool is_unsigned) {
  uint64_t h = prf(rseed, host, epoch, part, i);
  int64_t v;
  switch ((int)rshape) {
  case 0:
    v = (int64_t)(h % 100);
    break;
  case 1:
    v = -1 - (int64_t)(h % 1000);
    break;
  case 2:
    v = (int64_t)(h % 2001) - 1000;
    break;
  default:
    v = (int64_t)(h % 2);
  }
  if (is_unsigned && v < 0)
    v = -v;
  return v;
}
static int count(unsigned host, int epoch, int part) { return (int)(prf(rseed, host, epoch, part, 9999) % (uint64_t)(rupdates + 1)); }

template <typename R, typename T>
struct Ops;
template <typename T>
struct Ops<galois::DGAccumulator<T>, T> {
  static void upd(galois::DGAccumulator<T>& r, T v) { r += v; }
  static long double fold(long double a, long double b) { return a + b; }
  static long double identity() { return 0; }
  static const char* name() { return "DGAccumulator"; }
};
template <typename T>
struct Ops<galois::DGReduceMax<T>, T> {
  static void upd(galois::DGReduceMax<T>& r, T v) { r.update(v); }
  static long double fold(long double a, long double b) { return a > b ? a : b; }
  static long double identity() { return -std::numeric_limits<long double>::infinity(); }
  static const char* name() { return "DGReduceMax"; }
};
template <typename T>
struct Ops<galois::DGReduceMin<T>, T> {
  static void upd(galois::DGReduceMin<T>& r, T v) { r.update(v); }
  static long double fold(long double a, long double b) { return a < b ? a : b; }
  static long double identity() { return std::numeric_limits<long double>::infinity(); }
  static const char* name() { return "DGReduceMin"; }
};

template <typename R, typename T>
static void run_script(unsigned hosts, unsigned me) {
  typedef Ops<R, T> O;
  constexpr bool uns = std::is_unsigned<T>::value;
  alignas(64) static unsigned char storage[4][sizeof(R) + 64];
  R* r       = nullptr;
  int made   = 0;
  long total = 0;
  long double prev_model = 0;
  bool prev_any          = false;
  for (int e = 0; e < repochs; ++e) {
    bool fresh = e == 0 || ((rfresh >> e) & 1);
    long double model = O::identity();
    bool any          = false;
    if (fresh && made < 4) {
      memset(storage[made], 0xAB, sizeof storage[made]); // indeterminate content, made visible
      asm volatile("" : : "r"(storage[made]) : "memory"); // (the fill must not be removed as a dead store before the constructor)
      r = new (storage[made]) R();
      ++made;
    } else {
      T last = r->reset(); // documented: returns the value of the last reduce call
      if (prev_any && (long double)last != prev_model)
        fail("reset-return", std::string(O::name()) + " epoch " + std::to_string(e) + " on host " + std::to_string(me) + ": reset() returned " +
                                 std::to_string((long double)last) + ", the last reduce() had returned " + std::to_string(prev_model));
    }
    if (rkind == 0 && ((rset >> e) & 1)) {
      // set(v): every host sets its own value; the global value is their sum
      if constexpr (std::is_same<R, galois::DGAccumulator<T>>::value) {
        T v = (T)value(me, e, 7, 0, uns);
        r->set(v);
        for (unsigned h = 0; h < hosts; ++h)
          model = O::fold(model, (long double)(T)value(h, e, 7, 0, uns));
        any = true;
      }
    }
    for (int part = 0; part < (((rtwice >> e) & 1) ? 2 : 1); ++part) {
      int n = count(me, e, part);
      galois::do_all(
          galois::iterate(0, n), [&](int i) { O::upd(*r, (T)value(me, e, part, i, uns)); }, galois::steal(), galois::chunk_size<1>(), galois::no_stats());
      total += n;
      for (unsigned h = 0; h < hosts; ++h)
        for (int i = 0; i < count(h, e, part); ++i) {
          model = O::fold(model, (long double)(T)value(h, e, part, i, uns));
          any   = true;
        }
      T got  = r->reduce();
      T read = r->read();
      std::ostringstream id;
      id << O::name() << " epoch " << e << (fresh ? " (fresh object)" : " (after reset)") << " reduce #" << part + 1 << " on host " << me << " of " << hosts;
      if (any) {
        if ((long double)got != model)
          fail(part ? "second-reduce" : (fresh ? "fresh-reduce" : "reduce"),
               id.str() + ": reduce() = " + std::to_string((long double)got) + ", the fold over all hosts' updates is " + std::to_string(model));
        else if ((long double)read != model)
          fail("read", id.str() + ": read() = " + std::to_string((long double)read) + " after reduce() returned " + std::to_string((long double)got));
      } else if (rkind == 0 && (long double)got != 0)
        fail(fresh ? "fresh-reduce" : "reduce", id.str() + ": no updates anywhere, reduce() = " + std::to_string((long double)got));
    }
    prev_model = model;
    prev_any   = any;
  }
  std::ostringstream name;
  name << rout << "." << me << ".txt";
  std::ofstream f(name.str());
  if (result.empty())
    f << "OK updates " << total << " objects " << made << "\n";
  else
    f << result << "\n";
}

template <typename T>
static void by_kind(unsigned hosts, unsigned me) {
  switch ((int)rkind) {
  case 0:
    return run_script<galois::DGAccumulator<T>, T>(hosts, me);
  case 1:
    return run_script<galois::DGReduceMax<T>, T>(hosts, me);
  default:
    return run_script<galois::DGReduceMin<T>, T>(hosts, me);
  }
}

int main(int argc, char** argv) {
  galois::DistMemSys G;
  cll::ParseCommandLineOptions(argc, argv);
  auto& net      = galois::runtime::getSystemNetworkInterface();
  unsigned hosts = net.Num, me = net.ID;
  galois::setActiveThreads(rthreads);
  switch ((int)rtype) {
  case 0:
    by_kind<int32_t>(hosts, me);
    break;
  case 1:
    by_kind<int64_t>(hosts, me);
    break;
  case 2:
    by_kind<uint32_t>(hosts, me);
    break;
  case 3:
    by_kind<uint64_t>(hosts, me);
    break;
  case 4:
    by_kind<float>(hosts, me);
    break;
  default:
    by_kind<double>(hosts, me);
  }
  galois::runtime::getHostBarrier().wait();
  return 0;
}
