// Distributed harness (C18, C19; run under mpirun by the Hypothesis drivers).
// Built like a lonestar distributed application: graph construction goes through
// DistBench (all partition policies via -partition=..., -graphTranspose=...).
//   -vmode=dump  : every host writes its local graph, id maps, proxy lists and
//                  thread ranges to <vout>.<host>.txt           (C19)
//   -vmode=sync  : every host applies the write plan <vplan>, calls the Gluon
//                  sync selected by -vwrite/-vread/-vreduce/-vbitset and dumps
//                  all proxy values before and after each sync   (C18)
#include "DistBench/Start.h"
#include "galois/DistGalois.h"
#include "galois/DReducible.h"
#include "galois/DTerminationDetector.h"
#include "galois/runtime/SyncStructures.h"

#include <fstream>
#include <map>
#include <set>
#include <sstream>

namespace cll = llvm::cl;
static cll::opt<std::string> vmode("vmode", cll::desc("dump|sync"), cll::init("dump"));
static cll::opt<std::string> vout("vout", cll::desc("output prefix"), cll::init("vout"));
static cll::opt<std::string> vplan("vplan", cll::desc("plan file"), cll::init(""));
static cll::opt<int> vwrite("vwrite", cll::desc("0 src 1 dst 2 any"), cll::init(0));
static cll::opt<int> vread("vread", cll::desc("0 src 1 dst 2 any"), cll::init(0));
static cll::opt<int> vreduce("vreduce", cll::desc("0 min 1 add 2 set 3 max"), cll::init(0));
static cll::opt<bool> vbitset("vbitset", cll::desc("use update bitset"), cll::init(true));
static cll::opt<bool> vtransposed("vtransposed", cll::desc("build the CSC (iterate in-edges) variant"), cll::init(false));
// CuSP's own options (not reachable through DistBench): when -vreadpolicy >= 0 the non-transposed graph is
// built by calling the partitioner directly with them
static cll::opt<int> vreadpolicy("vreadpolicy", cll::desc("-1 DistBench defaults | 0 balanced masters 1 balanced edges of masters 2 balanced masters and edges"), cll::init(-1));
static cll::opt<int> vnodeweight("vnodeweight", cll::init(0));
static cll::opt<int> vedgeweight("vedgeweight", cll::init(0));
static cll::opt<bool> vcuspsync("vcuspsync", cll::desc("synchronous master assignment phase"), cll::init(false));
static cll::opt<int> vstaterounds("vstaterounds", cll::desc("rounds used to synchronise partitioning state"), cll::init(100));

enum { CPU, GPU_CUDA };
int personality = CPU;

struct NodeData {
  uint32_t val;
};
galois::DynamicBitSet bitset_val;

typedef galois::graphs::DistGraph<NodeData, uint32_t> Graph;
typedef typename Graph::GraphNode GNode;
std::unique_ptr<galois::graphs::GluonSubstrate<Graph>> syncSubstrate;

GALOIS_SYNC_STRUCTURE_REDUCE_MIN(val, uint32_t);
GALOIS_SYNC_STRUCTURE_REDUCE_MAX(val, uint32_t);
GALOIS_SYNC_STRUCTURE_REDUCE_ADD(val, uint32_t);
GALOIS_SYNC_STRUCTURE_REDUCE_SET(val, uint32_t);
GALOIS_SYNC_STRUCTURE_BITSET(val);

template <typename Reduce, typename Bits>
static void do_sync2(int w, int r) {
  using namespace galois::graphs; // not needed for the enumerators, kept for clarity
#define CASE(W, R, WL, RL)                                                                                             \
  if (w == W && r == R) {                                                                                              \
    syncSubstrate->sync<WL, RL, Reduce, Bits>("verif");                                                                \
    return;                                                                                                            \
  }
  CASE(0, 0, writeSource, readSource)
  CASE(0, 1, writeSource, readDestination)
  CASE(0, 2, writeSource, readAny)
  CASE(1, 0, writeDestination, readSource)
  CASE(1, 1, writeDestination, readDestination)
  CASE(1, 2, writeDestination, readAny)
  CASE(2, 0, writeAny, readSource)
  CASE(2, 1, writeAny, readDestination)
  CASE(2, 2, writeAny, readAny)
#undef CASE
}

static void do_sync(int w, int r, int red, bool bits) {
  if (bits) {
    switch (red) {
    case 0:
      return do_sync2<Reduce_min_val, Bitset_val>(w, r);
    case 1:
      return do_sync2<Reduce_add_val, Bitset_val>(w, r);
    case 2:
      return do_sync2<Reduce_set_val, Bitset_val>(w, r);
    default:
      return do_sync2<Reduce_max_val, Bitset_val>(w, r);
    }
  } else {
    switch (red) {
    case 0:
      return do_sync2<Reduce_min_val, galois::InvalidBitsetFnTy>(w, r);
    case 1:
      return do_sync2<Reduce_add_val, galois::InvalidBitsetFnTy>(w, r);
    default:
      return do_sync2<Reduce_set_val, galois::InvalidBitsetFnTy>(w, r);
    }
  }
}

template <typename G>
static void dump_graph(G& graph, unsigned host, unsigned numHosts) {
  std::ostringstream name;
  name << vout << "." << host << ".txt";
  std::ofstream f(name.str());
  f << "host " << host << " of " << numHosts << "\n";
  f << "size " << graph.size() << " edges " << graph.sizeEdges() << " masters " << graph.numMasters() << " withedges "
    << graph.getNumNodesWithEdges() << " gsize " << graph.globalSize() << " gedges " << graph.globalSizeEdges()
    << " transposed " << (int)graph.isTransposed() << " vertexcut " << (int)graph.is_vertex_cut() << "\n";
  for (uint32_t l = 0; l < graph.size(); ++l) {
    uint64_t g = graph.getGID(l);
    f << "node " << l << " " << g << " owned " << (int)graph.isOwned(g) << " local " << (int)graph.isLocal(g) << " lidback "
      << graph.getLID(g) << " hostof " << graph.getHostID(g) << "\n";
  }
  for (uint32_t l = 0; l < graph.size(); ++l)
    for (auto e : graph.edges(l))
      f << "edge " << graph.getGID(l) << " " << graph.getGID(graph.getEdgeDst(e)) << " " << graph.getEdgeData(e) << "\n";
  auto& mirrors = graph.getMirrorNodes(); // local ids after the substrate was built
  for (unsigned p = 0; p < mirrors.size(); ++p) {
    f << "mirrors " << p;
    for (auto l : mirrors[p])
      f << " " << graph.getGID((uint32_t)l);
    f << "\n";
  }
#ifdef GALOIS_VERIF
  auto& masters = syncSubstrate->verifMasterNodes();
  for (unsigned p = 0; p < masters.size(); ++p) {
    f << "masters " << p;
    for (auto l : masters[p])
      f << " " << graph.getGID((uint32_t)l);
    f << "\n";
  }
#endif
  // thread ranges must partition the local node sets (C13 oracle)
  unsigned T = galois::getActiveThreads();
  std::vector<std::array<uint64_t, 6>> tr(T);
  auto& all = graph.allNodesRange();
  auto& mas = graph.masterNodesRange();
  auto& wed = graph.allNodesWithEdgesRange();
  galois::on_each([&](unsigned tid, unsigned) {
    tr[tid] = {(uint64_t)*all.local_begin(), (uint64_t)*all.local_end(), (uint64_t)*mas.local_begin(), (uint64_t)*mas.local_end(),
               (uint64_t)*wed.local_begin(), (uint64_t)*wed.local_end()};
  });
  for (unsigned t = 0; t < T; ++t)
    f << "threadrange " << t << " " << tr[t][0] << " " << tr[t][1] << " " << tr[t][2] << " " << tr[t][3] << " " << tr[t][4] << " "
      << tr[t][5] << "\n";
  f << "ranges all " << *all.begin() << " " << *all.end() << " masters " << *mas.begin() << " " << *mas.end() << " withedges "
    << *wed.begin() << " " << *wed.end() << "\n";
  f << "end\n";
}

static void dump_vals(Graph& graph, std::ofstream& f, const char* tag, int round) {
  f << tag << " " << round;
  for (uint32_t l = 0; l < graph.size(); ++l)
    f << " " << graph.getGID(l) << ":" << graph.getData(l).val;
  f << "\n";
}

// the policy/input mapping of DistBench's loadDistGraph (iterate out-edges), with CuSP's remaining parameters exposed
template <typename Policy>
static std::unique_ptr<Graph> cusp_with_options(bool csc_input) {
  return galois::cuspPartitionGraph<Policy, NodeData, uint32_t>(inputFile, csc_input ? galois::CUSP_CSC : galois::CUSP_CSR, galois::CUSP_CSR, false,
                                                                inputFileTranspose, "", !vcuspsync, (uint32_t)vstaterounds,
                                                                (galois::graphs::MASTERS_DISTRIBUTION)(int)vreadpolicy, (uint32_t)vnodeweight,
                                                                (uint32_t)vedgeweight);
}
static std::unique_ptr<Graph> build_with_cusp_options() {
  switch (partitionScheme) {
  case OEC:
    return cusp_with_options<NoCommunication>(false);
  case IEC:
    return cusp_with_options<NoCommunication>(true);
  case HOVC:
    return cusp_with_options<GenericHVC>(false);
  case HIVC:
    return cusp_with_options<GenericHVC>(true);
  case CART_VCUT:
    return cusp_with_options<GenericCVC>(false);
  case CART_VCUT_IEC:
    return cusp_with_options<GenericCVC>(true);
  case GINGER_O:
    return cusp_with_options<GingerP>(false);
  case GINGER_I:
    return cusp_with_options<GingerP>(true);
  case FENNEL_O:
    return cusp_with_options<FennelP>(false);
  case FENNEL_I:
    return cusp_with_options<FennelP>(true);
  default:
    return cusp_with_options<SugarP>(false);
  }
}

int main(int argc, char** argv) {
  galois::DistMemSys G;
  DistBenchStart(argc, argv, "verif-dharness", "verification harness", nullptr);
  auto& net = galois::runtime::getSystemNetworkInterface();
  if (vtransposed) {
    std::unique_ptr<Graph> g;
    std::tie(g, syncSubstrate) = distGraphInitialization<NodeData, uint32_t, false>();
    if (vmode == "dump")
      dump_graph(*g, net.ID, net.Num);
    galois::runtime::getHostBarrier().wait();
    return 0;
  }
  std::unique_ptr<Graph> g;
  if (vreadpolicy >= 0 && net.Num > 1) {
    g             = build_with_cusp_options();
    syncSubstrate = std::make_unique<galois::graphs::GluonSubstrate<Graph>>(*g, net.ID, net.Num, g->isTransposed(), g->cartesianGrid(), partitionAgnostic,
                                                                            commMetadata);
  } else
    std::tie(g, syncSubstrate) = distGraphInitialization<NodeData, uint32_t, true>();
  Graph& graph = *g;
  if (vmode == "dump") {
    dump_graph(graph, net.ID, net.Num);
    galois::runtime::getHostBarrier().wait();
    return 0;
  }
  // ---- sync mode.  Streaming partitioners are not reproducible from run to
  // run, so the partition is dumped by THIS run (vout.<host>.txt), all hosts
  // read all dumps (same machine) and resolve the plan's write intents
  // "i <round> <gid> <k> <value>" to the k-th proxy (hosts ascending) that is
  // eligible for the write location; the driver does the same from the dumps.
  dump_graph(graph, net.ID, net.Num);
  galois::runtime::getHostBarrier().wait();
  std::vector<std::set<uint64_t>> h_local(net.Num), h_owned(net.Num), h_out(net.Num), h_in(net.Num);
  for (unsigned h = 0; h < net.Num; ++h) {
    std::ostringstream dn;
    dn << vout << "." << h << ".txt";
    std::ifstream df(dn.str());
    std::string line;
    while (std::getline(df, line)) {
      std::istringstream ls(line);
      std::string t;
      ls >> t;
      if (t == "node") {
        uint64_t lid, gid;
        std::string w;
        int owned;
        ls >> lid >> gid >> w >> owned;
        h_local[h].insert(gid);
        if (owned)
          h_owned[h].insert(gid);
      } else if (t == "edge") {
        uint64_t a, b;
        ls >> a >> b;
        h_out[h].insert(a);
        h_in[h].insert(b);
      }
    }
  }
  auto eligible = [&](unsigned h, uint64_t g, int loc) {
    if (!h_local[h].count(g))
      return false;
    if (h_owned[h].count(g))
      return true;
    if (loc == 0)
      return h_out[h].count(g) != 0;
    if (loc == 1)
      return h_in[h].count(g) != 0;
    return true;
  };
  bitset_val.resize(graph.size());
  bitset_val.reset();
  std::ifstream plan(vplan);
  std::string tok;
  uint32_t init = 0;
  int rounds    = 0;
  std::vector<std::array<uint64_t, 4>> writes; // round host gid value
  std::set<std::pair<uint64_t, uint64_t>> set_seen;
  while (plan >> tok) {
    if (tok == "init")
      plan >> init;
    else if (tok == "rounds")
      plan >> rounds;
    else if (tok == "i") {
      uint64_t r, g, k, v;
      plan >> r >> g >> k >> v;
      std::vector<unsigned> el;
      for (unsigned h = 0; h < net.Num; ++h)
        if (eligible(h, g, vwrite))
          el.push_back(h);
      if (el.empty())
        continue;
      if ((int)vreduce == 2) { // set: at most one writer per node and round
        if (set_seen.count({r, g}))
          continue;
        set_seen.insert({r, g});
      }
      writes.push_back({r, (uint64_t)el[k % el.size()], g, v});
    }
  }
  for (uint32_t l = 0; l < graph.size(); ++l)
    graph.getData(l).val = init;
  std::ostringstream name;
  name << vout << ".vals." << net.ID << ".txt";
  std::ofstream f(name.str());
  f << "host " << net.ID << " of " << net.Num << "\n";
  for (int r = 0; r < rounds; ++r) {
    // add-style fields: as the applications do with residual-like fields, every
    // proxy consumes (zeroes) the field before the next round of accumulation
    if ((int)vreduce == 1 && r > 0)
      for (uint32_t l = 0; l < graph.size(); ++l)
        graph.getData(l).val = 0;
    // the writes of this round, grouped by proxy; the proxies are written concurrently by the
    // host's threads (as an operator would), the writes to one proxy in their generated order
    std::map<uint32_t, std::vector<uint32_t>> by_proxy;
    for (auto& w : writes) {
      if ((int)w[0] != r || w[1] != net.ID)
        continue;
      if (!graph.isLocal(w[2]))
        continue; // the driver only plans writes to existing proxies; tolerate anyway
      by_proxy[graph.getLID(w[2])].push_back((uint32_t)w[3]);
    }
    std::vector<std::pair<uint32_t, std::vector<uint32_t>>> groups(by_proxy.begin(), by_proxy.end());
    galois::do_all(
        galois::iterate((size_t)0, groups.size()),
        [&](size_t gi) {
          uint32_t l  = groups[gi].first;
          uint32_t& x = graph.getData(l).val;
          for (uint32_t v : groups[gi].second) {
            switch ((int)vreduce) {
            case 0:
              x = std::min(x, v);
              break;
            case 1:
              x += v;
              break;
            case 3:
              x = std::max(x, v);
              break;
            default:
              x = v;
            }
            bitset_val.set(l);
          }
        },
        galois::steal(), galois::chunk_size<1>(), galois::no_stats());
    dump_vals(graph, f, "before", r);
    do_sync(vwrite, vread, vreduce, vbitset);
    dump_vals(graph, f, "after", r);
  }
  f << "end\n";
  f.close();
  galois::runtime::getHostBarrier().wait();
  return 0;
}
