// Network harness (C17 part b; run under mpirun by py/c17b.py).
// Every host derives the SAME global message plan from (-nseed, hosts,
// threads, phases, ...) with a PRF, so each host knows exactly what it must
// receive.  Per phase: T sender threads send their tagged messages
// concurrently (galois::on_each), the main thread polls recieveTagged until the
// planned number of messages for the phase's tags has arrived, then all hosts
// pass getHostBarrier() and check the barrier stamps in a shared file.
// Result line per host: "OK ..." or "FAIL <key> <message>" in <nout>.<host>.txt
#include "galois/DistGalois.h"
#include "galois/runtime/Network.h"
#include "galois/Galois.h"

#include "llvm/Support/CommandLine.h"

#include <chrono>
#include <fcntl.h>
#include <fstream>
#include <map>
#include <sstream>
#include <sys/mman.h>
#include <unistd.h>

namespace cll = llvm::cl;
static cll::opt<uint64_t> nseed("nseed", cll::init(1));
static cll::opt<int> nthreads("nthreads", cll::init(1));
static cll::opt<int> nphases("nphases", cll::init(1));
static cll::opt<int> nmsgs("nmsgs", cll::desc("max messages per sender thread and phase"), cll::init(10));
static cll::opt<int> nsizeclass("nsizeclass", cll::desc("0 tiny 1 around 1400 2 around 65536 3 mixed up to 3MB 4 one stream per thread alternating multi-MB and tiny"), cll::init(0));
static cll::opt<int> ntags("ntags", cll::init(2));
static cll::opt<int> ngap("ngap", cll::desc("pause of up to this many microseconds after each send (PRF chosen)"), cll::init(0));
static cll::opt<std::string> nout("nout", cll::init("nout"));
static cll::opt<std::string> nshm("nshm", cll::init(""));

static uint64_t prf(uint64_t seed, uint64_t a, uint64_t b = 0, uint64_t c = 0, uint64_t d = 0) {
  uint64_t z = seed * 0x9e3779b97f4a7c15ULL + a * 0xbf58476d1ce4e5b9ULL + b * 0x94d049bb133111ebULL + c * 0x2545F4914F6CDD1DULL +
               d * 0xd6e8feb86659fd93ULL + 0x1234567;
  z = (z ^ (z >> 30)) * 0xbf58476d1ce4e5b9ULL;
  z = (z ^ (z >> 27)) * 0x94d049bb133111ebULL;
  return z ^ (z >> 31);
}

struct Msg {
  uint32_t dst, tag;
  uint32_t len; // payload bytes after the header
};

static uint32_t pick_len(uint64_t h) {
  switch ((int)nsizeclass) {
  case 0:
    return 1 + h % 64;
  case 1:
    return 1300 + h % 200; // around the aggregation threshold
  case 2:
    return 65500 + h % 80; // around 2^16
  default: {
    uint64_t k = h % 16;
    if (k < 8)
      return 1 + (h >> 8) % 200;
    if (k < 12)
      return 1300 + (h >> 8) % 200;
    if (k < 15)
      return 65000 + (h >> 8) % 2000;
    return 1000000 + (h >> 8) % 2000000; // several MB
  }
  }
}

// plan of sender thread t on host s in phase p
static std::vector<Msg> plan(unsigned hosts, unsigned s, int t, int p) {
  std::vector<Msg> v;
  int n = (int)(prf(nseed, s, t, p, 1) % (uint64_t)(nmsgs + 1));
  for (int i = 0; i < n; ++i) {
    uint64_t h = prf(nseed, s, t, p, 100 + i);
    Msg m;
    m.dst = (uint32_t)(h % hosts);
    m.tag = 1000 + p * 16 + (uint32_t)((h >> 16) % (uint64_t)ntags);
    m.len = pick_len(h >> 24);
    if (nsizeclass == 4) {
      // one (destination, tag) stream per sender thread in which large (rendezvous) messages are
      // followed by tiny (eager) ones: the order within the stream is what is being checked
      m.dst = (uint32_t)((s + 1 + (hosts > 2 ? t % (hosts - 1) : 0)) % hosts);
      m.tag = 1000 + p * 16;
      m.len = (i % 2 == 0) ? (uint32_t)(1000000 + (h >> 24) % 3500000) : (uint32_t)(1 + (h >> 24) % 64);
    }
    v.push_back(m);
  }
  return v;
}

static std::string result;
static void fail(const char* key, const std::string& msg) {
  if (result.empty())
    result = std::string("FAIL ") + key + " " + msg;
}

int main(int argc, char** argv) {
  galois::DistMemSys G;
  cll::ParseCommandLineOptions(argc, argv);
  auto& net      = galois::runtime::getSystemNetworkInterface();
  unsigned hosts = net.Num, me = net.ID;
  galois::setActiveThreads(nthreads);
  // barrier stamps shared by the ranks
  volatile uint32_t* stamps = nullptr;
  if (!nshm.empty()) {
    int fd = open(nshm.c_str(), O_RDWR);
    if (fd >= 0) {
      stamps = (volatile uint32_t*)mmap(nullptr, 4096, PROT_READ | PROT_WRITE, MAP_SHARED, fd, 0);
      close(fd);
    }
  }
  uint64_t received_total = 0, sent_total = 0, big = 0;
  for (int p = 0; p < nphases; ++p) {
    // ---- expected: messages to me in this phase
    std::map<std::tuple<uint32_t, int, uint32_t>, uint32_t> nextseq; // (src, thread, tag) -> next expected seq
    uint64_t expect = 0;
    for (unsigned s = 0; s < hosts; ++s)
      for (int t = 0; t < nthreads; ++t)
        for (auto& m : plan(hosts, s, t, p))
          if (m.dst == me)
            ++expect;
    // ---- send concurrently from T threads
    galois::on_each([&](unsigned tid, unsigned) {
      if ((int)tid >= nthreads)
        return;
      auto msgs = plan(hosts, me, (int)tid, p);
      std::map<std::pair<uint32_t, uint32_t>, uint32_t> seq; // (dst, tag) -> seq
      for (auto& m : msgs) {
        galois::runtime::SendBuffer b;
        uint32_t sq = seq[{m.dst, m.tag}]++;
        uint64_t ck = prf(nseed, me, tid, m.tag, sq) ^ m.len;
        galois::runtime::gSerialize(b, (uint32_t)me, (uint32_t)tid, m.tag, sq, m.len, ck);
        std::vector<uint8_t> fill(m.len);
        for (uint32_t i = 0; i < m.len; ++i)
          fill[i] = (uint8_t)(ck >> (8 * (i % 8))) ^ (uint8_t)i;
        galois::runtime::gSerialize(b, fill);
        net.sendTagged(m.dst, m.tag, b);
        if (ngap > 0) { // separate sends in time so that they are not aggregated into one transport message
          uint64_t us = prf(nseed, me, tid, 7777, sq + m.len) % (uint64_t)(ngap + 1);
          auto until  = std::chrono::steady_clock::now() + std::chrono::microseconds(us);
          while (std::chrono::steady_clock::now() < until)
            ;
        }
      }
    });
    for (int t = 0; t < nthreads; ++t)
      sent_total += plan(hosts, me, t, p).size();
    net.flush();
    // ---- receive until everything planned for me arrived
    uint64_t got = 0;
    uint64_t spins = 0;
    while (got < expect) {
      bool any = false;
      for (int tg = 0; tg < ntags; ++tg) {
        uint32_t tag = 1000 + p * 16 + tg;
        decltype(net.recieveTagged(tag, nullptr)) r;
        r = net.recieveTagged(tag, nullptr);
        if (!r)
          continue;
        any = true;
        ++got;
        uint32_t src, thr, mtag, sq, len;
        uint64_t ck;
        std::vector<uint8_t> fill;
        galois::runtime::gDeserialize(r->second, src, thr, mtag, sq, len, ck);
        galois::runtime::gDeserialize(r->second, fill);
        std::ostringstream id;
        id << "phase " << p << " msg from host " << src << " thread " << thr << " tag " << mtag << " seq " << sq << " len " << len;
        if (src != r->first)
          fail("wrong-source", id.str() + ": network reports source " + std::to_string(r->first));
        if (mtag != tag)
          fail("wrong-tag", id.str() + ": delivered for tag " + std::to_string(tag));
        if (ck != (prf(nseed, src, thr, mtag, sq) ^ len) || fill.size() != len)
          fail("corrupt", id.str() + ": header checksum or length mismatch");
        else
          for (uint32_t i = 0; i < len; ++i)
            if (fill[i] != (uint8_t)((uint8_t)(ck >> (8 * (i % 8))) ^ (uint8_t)i)) {
              fail("corrupt", id.str() + ": payload byte " + std::to_string(i) + " differs");
              break;
            }
        uint32_t& ns = nextseq[std::make_tuple(src, (int)thr, mtag)];
        if (sq != ns)
          fail(sq < ns ? "duplicate" : "out-of-order", id.str() + ": expected seq " + std::to_string(ns));
        ns = sq + 1;
        if (len > 1400)
          ++big;
      }
      if (!any) {
        if (++spins > 400000000ULL) {
          fail("lost", "phase " + std::to_string(p) + ": " + std::to_string(got) + " of " + std::to_string(expect) + " messages arrived");
          break;
        }
      } else
        spins = 0;
    }
    received_total += got;
    // nothing more may be pending for this phase's tags
    for (int tg = 0; tg < ntags; ++tg)
      if (net.recieveTagged(1000 + p * 16 + tg, nullptr))
        fail("extra", "phase " + std::to_string(p) + ": an unplanned extra message arrived");
    // per (src,thread,tag) every planned message arrived
    for (unsigned s = 0; s < hosts; ++s)
      for (int t = 0; t < nthreads; ++t) {
        std::map<uint32_t, uint32_t> cnt;
        for (auto& m : plan(hosts, s, t, p))
          if (m.dst == me)
            cnt[m.tag]++;
        for (auto& kv : cnt)
          if (nextseq[std::make_tuple(s, t, kv.first)] != kv.second)
            fail("lost", "phase " + std::to_string(p) + ": from host " + std::to_string(s) + " thread " + std::to_string(t) + " tag " +
                             std::to_string(kv.first) + " got " + std::to_string(nextseq[std::make_tuple(s, t, kv.first)]) + " of " +
                             std::to_string(kv.second));
      }
    // ---- host barrier separates phases
    if (stamps)
      stamps[me] = p + 1;
    galois::runtime::getHostBarrier().wait();
    if (stamps)
      for (unsigned h = 0; h < hosts; ++h)
        if (stamps[h] < (uint32_t)(p + 1))
          fail("barrier", "after host barrier " + std::to_string(p + 1) + " host " + std::to_string(h) + " has only reached phase " +
                              std::to_string(stamps[h]));
  }
  std::ostringstream name;
  name << nout << "." << me << ".txt";
  std::ofstream f(name.str());
  if (result.empty())
    f << "OK sent " << sent_total << " received " << received_total << " big " << big << "\n";
  else
    f << result << "\n";
  f.close();
  galois::runtime::getHostBarrier().wait();
  return 0;
}
