// C11 (schedule-controlled part) -- the parallel builders of the CSR layouts:
// per-thread construction from a file, the in-place transpose and the in-edge
// construction of LC_CSR_CSC_Graph, which claim edge slots through atomic
// counters indexed by the DESTINATION node while the loops are partitioned by
// source.  Runs under gsched (E1) with plain-access preemption, so a counter
// update that is not one atomic step is a scheduling decision.  Oracle: the
// reference adjacency lists of the generated graph.  DESIGN.md 4/C11.
#include "verif_e1.h"
#include "grfile.h"

#include "galois/Galois.h"
#include "galois/graphs/LC_CSR_Graph.h"
#include "galois/graphs/LC_CSR_CSC_Graph.h"
#include "galois/graphs/ReadGraph.h"

#include <algorithm>

using namespace verif;

namespace verif {
const char* const HARNESS = "c11s";
enum { F_KIND = S_NFIELDS, F_THREADS, F_NODES, F_COUNT };
const std::vector<const char*> FIELDS = {VERIF_SCHED_FIELDS, "kind", "threads", "nodes"};
// tail: x[2i], x[2i+1] = (src, dst) of edge i, taken modulo the node count; the edge data is i + 1
static const char* KINDS[] = {"csr-transpose", "csr-void-transpose", "csr-numa-transpose", "csc-by-reference", "csc-by-value", "csr-transpose-twice"};
constexpr int NKIND        = 6;

Case generate() {
  using namespace rc;
  Case c;
  c.f.assign(F_COUNT, 0);
  gen_schedule(c);
  c[S_PLAIN]   = *gen::element<int>(4, 8, 8, 32); // the counters are plain memory to the library: always preempt plain accesses
  c[F_KIND]    = *uni(0, NKIND);
  c[F_THREADS] = *gen::weightedElement<int>({{4, 2}, {3, 3}, {2, 4}});
  int n        = *gen::weightedElement<int>({{1, 1}, {3, 2}, {3, 3}, {2, 4}, {2, 6}, {1, 9}});
  c[F_NODES]   = n;
  int m        = *uni(0, 15);
  // hubs make several threads claim slots of the same destination
  int hub = *uni(0, n);
  for (int i = 0; i < m; ++i) {
    c.f.push_back(*uni(0, n));
    c.f.push_back(*gen::weightedElement<int>({{2, 0}, {1, 1}}) ? *uni(0, n) : hub);
  }
  return c;
}

std::string finding_key(const Case& c, const std::string& failkey) { return std::string("C11/") + KINDS[c[F_KIND] % NKIND] + "/" + failkey; }

typedef std::vector<std::vector<std::pair<uint32_t, uint32_t>>> Adj; // per node: (neighbour, data)

static std::string show(const std::vector<std::pair<uint32_t, uint32_t>>& l) {
  std::string s = "[";
  for (auto& e : l)
    s += std::to_string(e.first) + ":" + std::to_string(e.second) + " ";
  return s + "]";
}

template <class G>
static Adj observe_out(G& g, uint32_t n, bool has_data) {
  Adj a(n);
  size_t steps = 0;
  for (uint32_t u = 0; u < n; ++u)
    for (auto e = g.edge_begin(u, galois::MethodFlag::UNPROTECTED), ee = g.edge_end(u, galois::MethodFlag::UNPROTECTED); e != ee; ++e) {
      if (++steps > 1000)
        vfail("iteration", "edge iteration does not end");
      uint32_t d = 0;
      if constexpr (!std::is_void<typename G::edge_data_type>::value)
        d = g.getEdgeData(e, galois::MethodFlag::UNPROTECTED);
      (void)has_data;
      a[u].push_back({(uint32_t)g.getEdgeDst(e), d});
    }
  return a;
}

static void compare(const Adj& got, const Adj& want, bool ordered, const char* what, unsigned threads) {
  for (size_t u = 0; u < want.size(); ++u) {
    auto g = got[u], w = want[u];
    if (!ordered) {
      std::sort(g.begin(), g.end());
      std::sort(w.begin(), w.end());
    }
    if (g != w)
      vfail(what, "%s: node %zu of %zu presents %s, the input has %s (%u threads)", what, u, want.size(), show(g).c_str(), show(w).c_str(), threads);
  }
}

template <class G>
static void run_transpose(const std::string& path, const Adj& out, const Adj& in, uint32_t n, unsigned t, bool twice) {
  constexpr bool has_data = !std::is_void<typename G::edge_data_type>::value;
  G g;
  galois::graphs::readGraph(g, path);
  if (g.size() != n)
    vfail("size", "size() = %zu, input has %u nodes", (size_t)g.size(), n);
  Adj o = out, i = in;
  if (!has_data) {
    for (auto& l : o)
      for (auto& e : l)
        e.second = 0;
    for (auto& l : i)
      for (auto& e : l)
        e.second = 0;
  }
  compare(observe_out(g, n, has_data), o, true, "out-edges-as-built", t);
  g.transpose();
  compare(observe_out(g, n, has_data), i, false, "transpose", t);
  if (twice) {
    g.transpose();
    compare(observe_out(g, n, has_data), o, false, "transpose-twice", t);
  }
}

template <class G>
static void run_csc(const std::string& path, const Adj& out, const Adj& in, uint32_t n, unsigned t) {
  G g;
  galois::graphs::readGraph(g, path);
  g.constructIncomingEdges();
  compare(observe_out(g, n, true), out, true, "out-edges-as-built", t);
  Adj got(n);
  size_t steps = 0;
  for (uint32_t u = 0; u < n; ++u)
    for (auto e = g.in_edge_begin(u, galois::MethodFlag::UNPROTECTED), ee = g.in_edge_end(u, galois::MethodFlag::UNPROTECTED); e != ee; ++e) {
      if (++steps > 1000)
        vfail("iteration", "in-edge iteration does not end");
      got[u].push_back({(uint32_t)g.getInEdgeDst(e), (uint32_t)g.getInEdgeData(e)});
    }
  compare(got, in, false, "in-edges", t);
}

void run(const Case& c) {
  setenv("GALOIS_VERIF_TOPO", "4", 1);
  int kind   = (int)(c[F_KIND] % NKIND);
  uint32_t n = (uint32_t)std::max<int64_t>(1, c[F_NODES]);
  // the input and the reference model
  gr::Graph g;
  g.numNodes   = n;
  g.sizeofEdge = kind == 1 ? 0 : 4;
  g.adj.resize(n);
  Adj out(n), in(n);
  size_t m = (c.f.size() - F_COUNT) / 2;
  std::vector<std::pair<uint32_t, uint32_t>> es;
  for (size_t i = 0; i < m; ++i)
    es.push_back({(uint32_t)(c.f[F_COUNT + 2 * i] % n), (uint32_t)(c.f[F_COUNT + 2 * i + 1] % n)});
  uint32_t id = 0;
  for (uint32_t u = 0; u < n; ++u) // file order: by source, then generation order
    for (auto& e : es)
      if (e.first == u) {
        ++id;
        g.adj[u].push_back({e.second, id});
        out[u].push_back({e.second, id});
        in[e.second].push_back({u, id});
      }
  const char* tmp  = getenv("VERIF_TMP");
  std::string path = std::string(tmp ? tmp : "/tmp") + "/c11s-" + std::to_string(getpid()) + ".gr";
  gr::write_file(path, gr::encode(g));
  std::vector<size_t> indeg;
  size_t shared_dst = 0;
  for (uint32_t v = 0; v < n; ++v) {
    std::vector<uint32_t> srcs;
    for (auto& e : in[v])
      srcs.push_back(e.first);
    std::sort(srcs.begin(), srcs.end());
    srcs.erase(std::unique(srcs.begin(), srcs.end()), srcs.end());
    shared_dst += srcs.size() >= 2; // slots of v are claimed from iterations of different sources
  }
  start_scheduler(c, 40000, 0, 80000000);
  {
    galois::SharedMemSys G;
    unsigned t = galois::setActiveThreads((unsigned)c[F_THREADS]);
    gsched_liveness_mark(2000000, 20000000);
    typedef galois::graphs::LC_CSR_Graph<uint32_t, uint32_t>::with_no_lockable<true>::type Csr;
    typedef galois::graphs::LC_CSR_Graph<uint32_t, void>::with_no_lockable<true>::type CsrVoid;
    typedef galois::graphs::LC_CSR_Graph<uint32_t, uint32_t>::with_no_lockable<true>::type::with_numa_alloc<true>::type CsrNuma;
    typedef galois::graphs::LC_CSR_CSC_Graph<uint32_t, uint32_t, false, true> CscRef;
    typedef galois::graphs::LC_CSR_CSC_Graph<uint32_t, uint32_t, true, true> CscVal;
    switch (kind) {
    case 0:
      run_transpose<Csr>(path, out, in, n, t, false);
      break;
    case 1:
      run_transpose<CsrVoid>(path, out, in, n, t, false);
      break;
    case 2:
      run_transpose<CsrNuma>(path, out, in, n, t, false);
      break;
    case 3:
      run_csc<CscRef>(path, out, in, n, t);
      break;
    case 4:
      run_csc<CscVal>(path, out, in, n, t);
      break;
    default:
      run_transpose<Csr>(path, out, in, n, t, true);
    }
    gsched_liveness_clear();
    unlink(path.c_str());
    label("kind", KINDS[kind]);
    label("threads", (long)t);
    label("nodes", (long)n);
    label("edges", (long)std::min<size_t>(m, 20) / 5 * 5);
    label("shared_destinations", (long)std::min<size_t>(shared_dst, 3));
    label("strategy", c[S_STRATEGY]);
    nontrivial(t >= 2 && shared_dst >= 1 && m >= 2 && gsched_switches() >= 2);
    vok();
  }
}
} // namespace verif

VERIF_E1_MAIN
