// C11 -- LC_Morph_Graph, MorphGraph (through readGraph), LC_CSR_Hypergraph.
#include "c11_common.h"
#include "c11_csr.h"

#include "galois/graphs/LC_Morph_Graph.h"
#include "galois/graphs/MorphGraph.h"
#include "galois/graphs/LC_CSR_Hypergraph.h"

#include <set>

namespace c11 {
namespace G = galois::graphs;

// ---------------------------------------------------------------------------
// The morph layouts keep their nodes in per-thread bags: the iteration order is
// not the file order and readGraph() does not hand out the id -> handle map.
// `got` is the observed graph in iteration-index space.  With distinct edge
// labels (the decoder forces dmode 1) the input graph is recovered exactly:
// every label names its (src, dst) pair, which fixes the node correspondence.
// Returns pi: iteration index -> input node id.
static std::vector<int64_t> iso_directed(const Ctx& c, const Adj& got, const char* what) {
  std::map<Bytes, std::pair<uint32_t, uint32_t>> lab;
  for (uint32_t u = 0; u < c.n; ++u)
    for (auto& e : c.adj[u])
      lab[e.data] = {u, e.dst};
  CCHECK(lab.size() == c.m, "harness", "edge labels are not distinct (%zu labels, %llu edges)", lab.size(), (unsigned long long)c.m);
  std::vector<int64_t> pi(c.n, -1), inv(c.n, -1);
  std::set<Bytes> seen;
  auto assign = [&](uint32_t p, uint32_t u, const Bytes& l) {
    if (pi[p] == -1 && inv[u] == -1) {
      pi[p]  = u;
      inv[u] = p;
    }
    CCHECK(pi[p] == (int64_t)u && inv[u] == (int64_t)p, "out-edges",
           "%s: the edge carrying data %s (input: %u -> %u) is attached to a graph node that other edges identify as input node %lld", what,
           hex(l, c.width).c_str(), lab[l].first, lab[l].second, (long long)pi[p]);
  };
  uint64_t cnt = 0;
  for (uint32_t p = 0; p < got.size(); ++p)
    for (auto& e : got[p]) {
      auto it = lab.find(e.data);
      CCHECK(it != lab.end(), "out-edges", "%s: an out-edge carries data %s, which no input edge has", what, hex(e.data, c.width).c_str());
      CCHECK(seen.insert(e.data).second, "out-edges", "%s: the input edge %u -> %u (data %s) is presented more than once", what, it->second.first,
             it->second.second, hex(e.data, c.width).c_str());
      assign(p, it->second.first, e.data);
      assign(e.dst, it->second.second, e.data);
      ++cnt;
    }
  CCHECK(cnt == c.m, "out-edges", "%s: %llu out-edges presented, the input has %llu", what, (unsigned long long)cnt, (unsigned long long)c.m);
  // remaining handles and remaining input nodes are isolated on both sides: pair them up
  uint32_t nxt = 0;
  for (uint32_t p = 0; p < c.n; ++p)
    if (pi[p] < 0) {
      while (inv[nxt] >= 0)
        ++nxt;
      pi[p]    = nxt;
      inv[nxt] = p;
    }
  return pi;
}

// undirected, no self loops, distinct labels: node p's incident label set must be some
// input node's incident label set (as multisets over all nodes), and both ends agree
static void iso_undirected(const Ctx& c, const Adj& got, const char* what) {
  std::map<Bytes, std::vector<std::pair<uint32_t, uint32_t>>> occ;
  std::vector<std::vector<Bytes>> sg(c.n), sm(c.n);
  uint64_t cnt = 0;
  for (uint32_t p = 0; p < got.size(); ++p)
    for (auto& e : got[p]) {
      occ[e.data].push_back({p, e.dst});
      sg[p].push_back(e.data);
      ++cnt;
    }
  CCHECK(cnt == 2 * c.m, "out-edges", "%s: %llu neighbour entries presented, an undirected graph of %llu edges has %llu", what, (unsigned long long)cnt,
         (unsigned long long)c.m, (unsigned long long)(2 * c.m));
  for (uint32_t u = 0; u < c.n; ++u)
    for (auto& e : c.adj[u]) {
      sm[u].push_back(e.data);
      sm[e.dst].push_back(e.data);
      auto it = occ.find(e.data);
      CCHECK(it != occ.end() && it->second.size() == 2, "out-edges", "%s: the input edge %u - %u (data %s) is presented %zu times, expected once at each end", what,
             u, e.dst, hex(e.data, c.width).c_str(), it == occ.end() ? (size_t)0 : it->second.size());
      auto &a = it->second[0], &b = it->second[1];
      CCHECK(a.first == b.second && a.second == b.first && a.first != a.second, "out-edges",
             "%s: the two entries of input edge %u - %u (data %s) do not name each other's node", what, u, e.dst, hex(e.data, c.width).c_str());
    }
  for (auto& s : sg)
    std::sort(s.begin(), s.end());
  for (auto& s : sm)
    std::sort(s.begin(), s.end());
  std::sort(sg.begin(), sg.end());
  std::sort(sm.begin(), sm.end());
  CCHECK(sg == sm, "out-edges", "%s: the nodes' incident edge sets differ from the input's (n=%u m=%llu)", what, c.n, (unsigned long long)c.m);
}

// no edge data: degree statistics only
static void iso_unlabelled(const Ctx& c, const Adj& got, bool undirected, const char* what) {
  std::vector<std::pair<uint64_t, uint64_t>> dg(c.n, {0, 0}), dm(c.n, {0, 0});
  for (uint32_t p = 0; p < got.size(); ++p)
    for (auto& e : got[p]) {
      ++dg[p].first;
      ++dg[e.dst].second;
    }
  for (uint32_t u = 0; u < c.n; ++u)
    for (auto& e : c.adj[u]) {
      ++dm[u].first;
      ++dm[e.dst].second;
      if (undirected) {
        ++dm[e.dst].first;
        ++dm[u].second;
      }
    }
  std::sort(dg.begin(), dg.end());
  std::sort(dm.begin(), dm.end());
  for (uint32_t i = 0; i < c.n; ++i)
    CCHECK(dg[i] == dm[i], "out-edges", "%s: (out,in) degree multiset differs from the input's at rank %u: (%llu,%llu) vs (%llu,%llu)", what, i,
           (unsigned long long)dg[i].first, (unsigned long long)dg[i].second, (unsigned long long)dm[i].first, (unsigned long long)dm[i].second);
}

template <class Gr>
static void morph_membership(Gr& g, const Ctx& c, const NodeMap<Gr>& nm, const Adj& adj /* index space of nm */) {
  if (c.n == 0)
    return;
  for (auto& q : query_pairs(c, adj)) {
    uint32_t u = q.first, v = q.second;
    bool has   = has_edge(adj, u, v);
    auto it    = g.findEdge(nm.nodes[u], nm.nodes[v]);
    auto ee    = g.edge_end(nm.nodes[u], c.flag());
    if (!has)
      CCHECK(it == ee, "findEdge", "findEdge(node #%u, node #%u) found an edge although the graph presents none", u, v);
    else {
      CCHECK(it != ee, "findEdge", "findEdge(node #%u, node #%u) found nothing although the graph presents such an edge", u, v);
      CCHECK(g.getEdgeDst(it) == nm.nodes[v], "findEdge", "findEdge(node #%u, node #%u) returned an edge to another node", u, v);
    }
  }
}

// ------------------------------------------------------------ LC_Morph_Graph
// LC_Morph_Graph takes one page-pool page (2 MB, pre-faulted) per constructing thread for its edges and
// never gives it back ("FIXME: this seems to leak" in createNode).  Thousands of graphs in one process
// would exhaust memory, so the harness returns the pages to the pool after the graph is destroyed; the
// derived class exists only to read the page list.
template <class Gr>
struct MorphPages : Gr {
  std::vector<void*> pages() {
    std::vector<void*> v;
    for (unsigned t = 0; t < this->edgesL.size(); ++t)
      for (auto* h = *this->edgesL.getRemote(t); h; h = h->next)
        v.push_back(h);
    return v;
  }
};
template <class Gr>
struct MorphHolder {
  MorphPages<Gr>* g;
  MorphHolder() : g(new MorphPages<Gr>()) {}
  ~MorphHolder() {
    std::vector<void*> v = g->pages();
    delete g;
    for (void* p : v)
      galois::runtime::pagePoolFree(p);
  }
};

template <class Gr>
static void run_lcmorph_t(const Ctx& c) {
  typedef typename Gr::edge_data_type E;
  MorphHolder<Gr> holder;
  Gr& g = *holder.g;
  NodeMap<Gr> nm;
  if (c.kind == K_LCMORPH_API) {
    // the graph is built from the edge list with the node/edge creation calls; node i and the edges
    // leaving it are created by thread i % threads (createNode reserves the node's degree)
    typedef typename Gr::GraphNode GN;
    bool dedup = (c.opts >> 4) & 1; // addEdge: "adds an edge if it doesn't already exist"
    std::vector<GN> h(c.n);
    galois::on_each([&](unsigned tid, unsigned total) {
      for (uint32_t i = tid; i < c.n; i += total)
        h[i] = g.createNode((int)c.adj[i].size());
    });
    for (uint32_t i = 0; i < c.n; ++i) {
      CCHECK(nm.idx.emplace(h[i], i).second, "node-dup", "createNode returned the same handle for nodes %u and %u", nm.idx[h[i]], i);
      nm.nodes.push_back(h[i]);
    }
    Adj model(c.n);
    for (uint32_t i = 0; i < c.n; ++i)
      for (auto& e : c.adj[i])
        if (!dedup || !has_edge(model, i, e.dst))
          model[i].push_back(e);
    galois::on_each([&](unsigned tid, unsigned total) {
      for (uint32_t i = tid; i < c.n; i += total)
        for (auto& e : c.adj[i]) {
          if constexpr (std::is_void<E>::value) {
            if (dedup)
              g.addEdge(h[i], h[e.dst], galois::MethodFlag::UNPROTECTED);
            else
              g.addMultiEdge(h[i], h[e.dst], galois::MethodFlag::UNPROTECTED);
          } else {
            if (dedup)
              g.addEdge(h[i], h[e.dst], galois::MethodFlag::UNPROTECTED, make_val<E>(e.data));
            else
              g.addMultiEdge(h[i], h[e.dst], galois::MethodFlag::UNPROTECTED, make_val<E>(e.data));
          }
        }
    });
    Ctx d = c;
    d.m   = 0;
    for (auto& l : model)
      d.m += l.size();
    NodeMap<Gr> it;
    collect_nodes(g, d, it);
    for (uint32_t i = 0; i < c.n; ++i)
      CCHECK(it.idx.count(h[i]), "node-count", "the handle created for node %u is not visited by begin()..end()", i);
    Adj got = observe_out(g, d, nm, d.flag(), c.m + 1);
    check_adj(d, got, model, false, "out-edges", dedup ? "built with createNode/addEdge" : "built with createNode/addMultiEdge");
    check_node_data(g, d, nm, got, c.m + 1);
    morph_membership(g, d, nm, got);
    // removeEdge on some nodes: one presented edge goes, the others stay
    int step = 0;
    for (int op : c.ops) {
      ++step;
      if (op != OP_SORT_SOME_DST && op != OP_TRANSPOSE)
        continue;
      Adj want = got;
      for (uint32_t i = 0; i < c.n; ++i)
        if (!got[i].empty() && (prf(c.aseed, i, step) & 1)) {
          size_t k = (size_t)(prf(c.aseed, i, step, 7) % got[i].size());
          g.removeEdge(h[i], g.edge_begin(h[i], d.flag()) + k, galois::MethodFlag::UNPROTECTED);
          want[i].erase(want[i].begin() + k);
          --d.m;
        }
      got = observe_out(g, d, nm, d.flag(), c.m + 1);
      check_adj(d, got, want, false, "removeEdge", "after removeEdge on some nodes");
      morph_membership(g, d, nm, got);
    }
    for (uint32_t u = 0; u < c.n && u < 64; ++u)
      check_edge_range(g, d, nm.nodes[u], u, g.edges(nm.nodes[u], d.flag()), "edges");
    check_local_ranges(g, d, nm);
    return;
  }
  if (c.kind == K_LCMORPH_AUX) {
    // the steps of readGraph's aux dispatch, keeping the id -> handle array
    G::FileGraph f;
    f.fromFileInterleaved<typename Gr::file_edge_data_type>(c.path);
    typename Gr::ReadGraphAuxData aux;
    g.allocateFrom(f, aux);
    galois::on_each([&](unsigned tid, unsigned total) { g.constructNodesFrom(f, tid, total, aux); });
    galois::on_each([&](unsigned tid, unsigned total) { g.constructEdgesFrom(f, tid, total, aux); });
    NodeMap<Gr> it;
    collect_nodes(g, c, it);
    for (uint32_t i = 0; i < c.n; ++i) {
      CCHECK(it.idx.count(aux[i]), "node-count", "the handle created for input node %u is not visited by begin()..end()", i);
      CCHECK(nm.idx.emplace(aux[i], i).second, "node-dup", "input nodes %u and %u share a handle", nm.idx[aux[i]], i);
      nm.nodes.push_back(aux[i]);
    }
    Adj got = observe_out(g, c, nm, c.flag(), c.m + 1);
    check_adj(c, got, c.adj, false, "out-edges", "as built");
    check_node_data(g, c, nm, got, c.m + 1);
    morph_membership(g, c, nm, got);
  } else {
    G::readGraph(g, c.path);
    collect_nodes(g, c, nm);
    Adj got = observe_out(g, c, nm, c.flag(), c.m + 1);
    if constexpr (std::is_void<E>::value)
      iso_unlabelled(c, got, false, "as built");
    else
      iso_directed(c, got, "as built");
    check_node_data(g, c, nm, got, c.m + 1);
    morph_membership(g, c, nm, got);
  }
  for (uint32_t u = 0; u < c.n && u < 64; ++u) {
    check_edge_range(g, c, nm.nodes[u], u, g.edges(nm.nodes[u], c.flag()), "edges");
    check_edge_range(g, c, nm.nodes[u], u, g.out_edges(nm.nodes[u], c.flag()), "out_edges");
  }
  check_local_ranges(g, c, nm);
}

// ---------------------------------------------------------------- MorphGraph
template <class Gr, bool Directional, bool InOut>
static void run_morph_t(const Ctx& c) {
  typedef typename Gr::edge_data_type E;
  Gr g;
  G::readGraph(g, c.path);
  NodeMap<Gr> nm;
  collect_nodes(g, c, nm);
  CCHECK(g.size() == c.n, "size", "size() = %u, input has %u nodes", (unsigned)g.size(), c.n);
  uint64_t bound = (Directional ? c.m : 2 * c.m) + 1;
  Adj got        = observe_out(g, c, nm, c.flag(), bound);
  std::vector<int64_t> pi;
  if constexpr (std::is_void<E>::value)
    iso_unlabelled(c, got, !Directional, "as built");
  else if constexpr (Directional)
    pi = iso_directed(c, got, "as built");
  else
    iso_undirected(c, got, "as built");
  check_node_data(g, c, nm, got, bound);
  morph_membership(g, c, nm, got);
  // in-edge view
  Adj in(c.n);
  uint64_t steps = 0;
  if constexpr (Directional && InOut) {
    for (uint32_t p = 0; p < c.n; ++p)
      for (auto e = g.in_edge_begin(nm.nodes[p], c.flag()), ee = g.in_edge_end(nm.nodes[p], c.flag()); e != ee; ++e) {
        CCHECK(++steps <= bound, "in-edge-iteration", "in_edge_begin()..in_edge_end() visits more than %llu edges", (unsigned long long)c.m);
        Edge x;
        x.dst  = nm.id(g.getEdgeDst(e), "getEdgeDst(in-edge)");
        x.data = Bytes{};
        if constexpr (!std::is_void<E>::value)
          x.data = bytes_of<E>(g.getEdgeData(e));
        in[p].push_back(x);
      }
    // in-edges are exactly the reversed presented out-edges (in handle space), hence of the input
    check_adj(c, in, reversed(got), false, "in-edges", "in-edges as built");
  } else if constexpr (!Directional) {
    for (uint32_t p = 0; p < c.n; ++p)
      for (auto e = g.in_edge_begin(nm.nodes[p], c.flag()), ee = g.in_edge_end(nm.nodes[p], c.flag()); e != ee; ++e) {
        CCHECK(++steps <= bound, "in-edge-iteration", "in_edge_begin()..in_edge_end() visits more than %llu entries", (unsigned long long)(2 * c.m));
        Edge x;
        x.dst  = nm.id(g.getEdgeDst(e), "getEdgeDst(in-edge)");
        x.data = Bytes{};
        if constexpr (!std::is_void<E>::value)
          x.data = bytes_of<E>(g.getEdgeData(e));
        in[p].push_back(x);
      }
    check_adj(c, in, got, false, "in-edges", "undirected: in-edges are the neighbours");
  }
  for (uint32_t u = 0; u < c.n && u < 64; ++u) {
    check_edge_range(g, c, nm.nodes[u], u, g.edges(nm.nodes[u], c.flag()), "edges");
    check_edge_range(g, c, nm.nodes[u], u, g.out_edges(nm.nodes[u], c.flag()), "out_edges");
  }
  check_local_ranges(g, c, nm);
  (void)pi;
}

template <class E>
static void run_morph_e(const Ctx& c) {
  int cfg = c.opts & 7;
  if (c.kind == K_MORPH_READGRAPH) {
    cfg = cfg % 3; // must match the decoder's notion of "undirected" (cfg 2)
    label("cfg", std::to_string(cfg));
    switch (cfg) {
    case 0:
      return run_morph_t<G::MorphGraph<uint32_t, E, true>, true, false>(c);
    case 1:
      return run_morph_t<G::MorphGraph<uint32_t, E, true, true>, true, true>(c);
    default:
      return run_morph_t<G::MorphGraph<uint32_t, E, false>, false, false>(c);
    }
  }
  cfg = cfg % 3;
  if (!(std::is_void<E>::value || std::is_same<E, uint32_t>::value))
    cfg = cfg % 2;
  label("cfg", std::to_string(cfg));
  switch (cfg) {
  case 0:
    return run_lcmorph_t<G::LC_Morph_Graph<uint32_t, E>>(c);
  case 1:
    return run_lcmorph_t<typename G::LC_Morph_Graph<uint32_t, E>::template with_numa_alloc<true>::type>(c);
  default:
    if constexpr (std::is_void<E>::value || std::is_same<E, uint32_t>::value)
      return run_lcmorph_t<typename G::LC_Morph_Graph<void, E>::template with_no_lockable<true>::type>(c);
  }
  fail("harness", "unreachable morph cfg %d", cfg);
}

void run_morph(const Ctx& c) {
  switch (c.etype) {
  case ET_VOID:
    return run_morph_e<void>(c);
  case ET_U32:
    return run_morph_e<uint32_t>(c);
  case ET_I64:
    return run_morph_e<int64_t>(c);
  case ET_FLOAT:
    return run_morph_e<float>(c);
  default:
    return run_morph_e<S12>(c);
  }
}

// ---------------------------------------------------------- LC_CSR_Hypergraph
// Same storage and API as LC_CSR_Graph minus getDegree; constructFrom has the
// three-argument form, so the default dispatch's two steps are done by hand.
template <class Gr>
static void run_hyper_t(const Ctx& c) {
  Gr g;
  {
    G::FileGraph f;
    f.fromFileInterleaved<typename Gr::file_edge_data_type>(c.path);
    g.allocateFrom(f);
    galois::on_each([&](unsigned tid, unsigned total) { g.constructFrom(f, tid, total); });
  }
  NodeMap<Gr> nm;
  collect_nodes(g, c, nm);
  for (uint32_t i = 0; i < c.n; ++i)
    CCHECK(nm.nodes[i] == i, "node-order", "begin()[%u] = %u", i, (unsigned)nm.nodes[i]);
  Adj model = csr_check_all<Gr, false>(g, c, nm, c.adj, true, "as built");
  check_node_data(g, c, nm, model, c.m + 1);
  check_local_ranges(g, c, nm);
  int step = 0;
  for (int op : c.ops) {
    ++step;
    csr_apply_op(g, c, nm, model, op, step);
    model = csr_check_all<Gr, false>(g, c, nm, model, true, "after op");
  }
  check_local_ranges(g, c, nm);
}

void run_hyper(const Ctx& c) {
  int cfg = (c.opts & 7) % 2;
  label("cfg", std::to_string(cfg));
  switch (c.etype) {
  case ET_VOID:
    return cfg ? run_hyper_t<typename G::LC_CSR_Hypergraph<uint32_t, void>::template with_numa_alloc<true>::type>(c)
               : run_hyper_t<G::LC_CSR_Hypergraph<uint32_t, void>>(c);
  case ET_U32:
    return cfg ? run_hyper_t<typename G::LC_CSR_Hypergraph<uint32_t, uint32_t>::template with_numa_alloc<true>::type>(c)
               : run_hyper_t<G::LC_CSR_Hypergraph<uint32_t, uint32_t>>(c);
  case ET_I64:
    return run_hyper_t<G::LC_CSR_Hypergraph<uint32_t, int64_t>>(c);
  case ET_FLOAT:
    return run_hyper_t<G::LC_CSR_Hypergraph<uint32_t, float>>(c);
  default:
    return run_hyper_t<G::LC_CSR_Hypergraph<uint32_t, S12>>(c);
  }
}
} // namespace c11
