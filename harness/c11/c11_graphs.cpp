// C11 -- static graphs present exactly the input graph, in every layout and
// view.  In-process rapidcheck with the real thread pool (DESIGN.md 4/C11).
//
// A case is a graph (node count + edge list in the tail as (src, dst, data)
// triples), an edge-data type, a layout/construction kind, an option
// combination, a thread count and a short script of derived operations.  The
// harness writes the graph with its own writer (grfile.h), builds the Galois
// graph, enumerates it through the public API and compares with the edge list.
//
// This TU: driver, generator, case decoding, and the LC_CSR_Graph /
// LC_CSR_CSC_Graph / LC_Adaptor_Graph families.  c11_graphs_b.cpp and
// c11_graphs_c.cpp hold the other layouts.
#include "verif_e1.h"
#include "c11_common.h"
#include "c11_csr.h"
#include "grfile.h"

#include "galois/graphs/LC_CSR_Graph.h"
#include "galois/graphs/LC_CSR_CSC_Graph.h"
#include "galois/graphs/LC_Adaptor_Graph.h"

#include <iostream>

using namespace verif;

// ---------------------------------------------------------------- reporting
namespace c11 {
void fail(const char* key, const char* fmt, ...) {
  char buf[1024];
  va_list ap;
  va_start(ap, fmt);
  vsnprintf(buf, sizeof buf, fmt, ap);
  va_end(ap);
  verif::vfail(key, "%s", buf);
}
void label(const char* k, const std::string& v) { verif::label(k, v); }
bool excluded(const char* k) { return verif::excluded(k); }
void count_excluded() { verif::count_excluded(); }

StdoutSilencer::StdoutSilencer() {
  fflush(stdout);
  std::cout.flush();
  saved  = dup(1);
  int dn = open("/dev/null", O_WRONLY);
  if (dn >= 0) {
    dup2(dn, 1);
    close(dn);
  }
}
StdoutSilencer::~StdoutSilencer() {
  fflush(stdout);
  std::cout.flush();
  if (saved >= 0) {
    dup2(saved, 1);
    close(saved);
  }
}
} // namespace c11

using namespace c11;

namespace verif {
const char* const HARNESS = "c11";
enum { F_KIND = 0, F_ETYPE, F_OPTS, F_THREADS, F_NODES, F_DMODE, F_OPS, F_ASEED, F_COUNT };
const std::vector<const char*> FIELDS = {"kind", "etype", "opts", "threads", "nodes", "dmode", "ops", "aseed"};
// tail: x[3i], x[3i+1], x[3i+2] = (src, dst, data) of edge i; src and dst are
// taken modulo the node count

#ifdef VERIF_LIBFUZZER
constexpr int64_t MAX_NODES = 64;
#else
constexpr int64_t MAX_NODES = 3000;
#endif
constexpr size_t MAX_EDGES = 20000;


// option decoding shared by the generator and run_csr_e: LC_CSR_CSC_Graph configurations 1 and 3 copy the in-edge data
static bool csc_cfg_by_reference(int opts) {
  int cfg = (opts & 7) % 5;
  return cfg != 1 && cfg != 3;
}
static bool kind_needs_data(int kind) { return kind == K_CSR_ARRAYS || kind == K_CSR_ARRAYS_POD; }

void normalize_case(Case& c) {
  if (c.f.size() < (size_t)F_COUNT)
    c.f.resize(F_COUNT, 0);
  auto mod = [](int64_t v, int64_t m) { return (int64_t)((uint64_t)v % (uint64_t)m); };
  c[F_KIND]    = mod(c[F_KIND], K_COUNT);
  c[F_ETYPE]   = mod(c[F_ETYPE], ET_COUNT);
  c[F_OPTS]    = mod(c[F_OPTS], 64);
  c[F_THREADS] = 1 + mod(c[F_THREADS] - 1, 16);
  c[F_NODES]   = c[F_NODES] < 0 ? 0 : (c[F_NODES] > MAX_NODES ? mod(c[F_NODES], MAX_NODES + 1) : c[F_NODES]);
  c[F_DMODE]   = mod(c[F_DMODE], 3);
  c[F_OPS]     = mod(c[F_OPS], 6 * 6 * 6 * 6);
  if (c[F_ASEED] < 0)
    c[F_ASEED] = -(c[F_ASEED] + 1);
  if (kind_needs_data((int)c[F_KIND]) && c[F_ETYPE] == ET_VOID)
    c[F_ETYPE] = ET_U32; // vector<vector<void>> cannot be formed
  if (c[F_KIND] == K_INOUT_OTHER && c[F_ETYPE] != ET_VOID)
    c[F_ETYPE] = ET_U32; // built for void and uint32 edge data only
}

Case generate() {
  using namespace rc;
  Case c;
  c.f.assign(F_COUNT, 0);
  int kind = *gen::weightedElement<int>({{8, K_CSR_READGRAPH},
                                         {3, K_CSR_ARRAYS},
                                         {2, K_CSR_ARRAYS_POD},
                                         {3, K_CSR_GRFILE},
                                         {6, K_CSC_READGRAPH},
                                         {2, K_CSC_GRFILE},
                                         {5, K_INOUT_PAIR},
                                         {3, K_INOUT_SYM},
                                         {6, K_LINEAR},
                                         {6, K_INLINE},
                                         {4, K_LCMORPH_READGRAPH},
                                         {3, K_LCMORPH_AUX},
                                         {1, K_ADAPTOR},
                                         {6, K_MORPH_READGRAPH},
                                         {3, K_INOUT_OTHER},
                                         {3, K_HYPER},
                                         {3, K_LCMORPH_API}});
  c[F_KIND]    = kind;
  c[F_ETYPE]   = *uni(0, (int)ET_COUNT);
  c[F_OPTS]    = *uni(0, 64);
  c[F_THREADS] = *gen::weightedElement<int>({{3, 1}, {4, 2}, {3, 3}, {4, 4}, {1, 5}, {1, 7}, {2, 8}, {1, 13}, {2, 16}});
  c[F_DMODE]   = *uni(0, 3);
  c[F_ASEED]   = *uni(0, 1 << 20);
  // operation script: 0..4 operations
  int nops = *gen::weightedElement<int>({{2, 0}, {4, 1}, {3, 2}, {1, 3}, {1, 4}});
  int ops  = 0;
  for (int i = 0; i < nops; ++i)
    ops = ops * 6 + *uni(1, 6);
  c[F_OPS] = ops;
  // graph: size class, then a shape that makes the interesting features likely
  int sc = *gen::weightedElement<int>({{1, 0}, {1, 1}, {12, 2}, {6, 3}, {1, 4}});
  int64_t n;
  switch (sc) {
  case 0:
    n = 0;
    break;
  case 1:
    n = 1;
    break;
  case 2:
    n = *gen::inRange<int64_t>(2, 13);
    break;
  case 3:
    n = *gen::inRange<int64_t>(13, 90);
    break;
  default:
    n = *gen::inRange<int64_t>(90, MAX_NODES + 1);
  }
  c[F_NODES] = n;
  normalize_case(c);
  // known findings: avoid exactly the failing operation shape
  //  - KEY_SORTED_EMPTY: findEdgeSortedByDst is not queried on graphs without edges (csr_membership)
  //  - KEY_REUSE_OOL: no second constructFrom on an LC_CSR_Graph with out-of-line locks (configurations 3 and 4, uint32 data)
  if (excluded(KEY_REUSE_OOL) && kind == K_CSR_ARRAYS && c[F_ETYPE] == ET_U32 && ((c[F_OPTS] >> 4) & 1) && ((c[F_OPTS] & 7) % 6 == 3 || (c[F_OPTS] & 7) % 6 == 4)) {
    count_excluded();
    c[F_OPTS] = c[F_OPTS] & ~16;
  }
  //  - KEY_LINEAR_MISALIGNED: LC_Linear_Graph option combinations 3 and 5 (void / uint32 data) are not built
  if (excluded(KEY_LINEAR_MISALIGNED) && kind == K_LINEAR && (c[F_ETYPE] == ET_VOID || c[F_ETYPE] == ET_U32) && linear_cfg_misaligned((int)((c[F_OPTS] & 7) % 6))) {
    count_excluded();
    c[F_OPTS] = c[F_OPTS] & ~7;
  }
  //  - KEY_CSC_SORT_VOID: no in-edge sort on a by-reference LC_CSR_CSC_Graph without edge data
  if (excluded(KEY_CSC_SORT_VOID) && (kind == K_CSC_READGRAPH || kind == K_CSC_GRFILE) && c[F_ETYPE] == ET_VOID && csc_cfg_by_reference((int)c[F_OPTS])) {
    int kept = 0, mul = 1;
    bool hit = false;
    for (int o = (int)c[F_OPS]; o > 0; o /= 6) {
      int d = o % 6;
      if (d == OP_SORT_ALL_DST || d == OP_SORT_SOME_DST) {
        hit = true;
        continue;
      }
      kept += d * mul;
      mul *= 6;
    }
    if (hit) {
      count_excluded();
      c[F_OPS] = kept;
    }
  }
  if (n == 0) {
    // an edge in the tail anyway: it must be ignored
    for (int i = 0; i < 3; ++i)
      c.f.push_back(*gen::inRange<int64_t>(0, 5));
    return c;
  }
  int shape = *uni(0, 7); // 0 uniform, 1 out-hub, 2 in-hub, 3 few destinations (parallel edges), 4 self loops, 5 last node isolated, 6 last node busy
  int64_t maxm = sc == 4 ? 2 * n : (sc == 3 ? 3 * n : 4 * n + 6);
  int m        = (int)*gen::inRange<int64_t>(0, maxm + 1);
  int64_t hub  = *uni<int64_t>(0, n);
  int64_t wr   = *gen::element<int64_t>(3, 8, 1000, 1LL << 33); // range of the raw data values: small => duplicates
  for (int i = 0; i < m; ++i) {
    int64_t s = *gen::inRange<int64_t>(0, n), d = *gen::inRange<int64_t>(0, n);
    switch (shape) {
    case 1:
      if (*gen::inRange(0, 10) < 7)
        s = hub;
      break;
    case 2:
      if (*gen::inRange(0, 10) < 7)
        d = hub;
      break;
    case 3:
      d = d % std::min<int64_t>(n, 2);
      break;
    case 4:
      if (*gen::inRange(0, 2))
        d = s;
      break;
    case 5:
      if (n > 1) {
        s = s % (n - 1);
        d = d % (n - 1);
      }
      break;
    case 6:
      if (i + 2 >= m)
        s = n - 1;
      break;
    default:
      break;
    }
    c.f.push_back(s);
    c.f.push_back(d);
    c.f.push_back(*gen::inRange<int64_t>(0, wr));
  }
  return c;
}

std::string finding_key(const Case& c0, const std::string& failkey) {
  Case c = c0;
  normalize_case(c);
  int kind = (int)c[F_KIND];
  if (failkey == "findEdgeSortedByDst-no-edges")
    return KEY_SORTED_EMPTY;
  if (failkey == "misaligned-edge-records")
    return KEY_LINEAR_MISALIGNED;
  if (failkey == "sortInEdgesByDst-void-edge-data")
    return KEY_CSC_SORT_VOID;
  if (failkey == "constructFrom-reuse-out-of-line-lockable")
    return KEY_REUSE_OOL;
  return std::string("C11/") + KIND_SUBJECT[kind] + "/" + failkey;
}

// ------------------------------------------------------------ case decoding
static uint64_t encode_value(int etype, uint64_t raw) {
  if (etype == ET_FLOAT) { // finite, exactly representable, distinct for raw < 2^21
    float f = (float)((int64_t)(raw % 2097152) - 1048576) * 0.25f;
    uint32_t bits;
    memcpy(&bits, &f, 4);
    return bits;
  }
  return raw;
}
static Bytes value_bytes(uint64_t v, unsigned width) {
  std::vector<unsigned char> b;
  gr::put_data(b, v, width);
  Bytes r{};
  for (unsigned i = 0; i < width; ++i)
    r[i] = b[i];
  return r;
}

static std::string tmp_path(const char* suffix) {
  const char* d = getenv("VERIF_TMP");
  return std::string(d ? d : "/tmp") + "/c11-" + std::to_string(getpid()) + suffix;
}

static void decode(const Case& c, Ctx& x) {
  x.kind  = (int)c[F_KIND];
  x.etype = (int)c[F_ETYPE];
  x.opts  = (int)c[F_OPTS];
  x.dmode = (int)c[F_DMODE];
  x.aseed = (uint64_t)c[F_ASEED];
  x.width = ET_WIDTH[x.etype];
  x.n     = (uint32_t)c[F_NODES];
  x.protected_flag = (x.opts >> 3) & 1;
  for (int64_t o = c[F_OPS]; o > 0; o /= 6)
    if (o % 6)
      x.ops.insert(x.ops.begin(), (int)(o % 6));
  bool grfile = x.kind == K_CSR_GRFILE || x.kind == K_CSC_GRFILE;
  // readGraphFromGRFile asserts non-null node and edge arrays: at least one node and one edge
  if (grfile && x.n == 0)
    x.n = 1;
  // LC_Linear_Graph::constructNodesFrom offsets the (null) storage pointer of an empty graph before its
  // empty loop: never dereferenced, but UBSan (pointer-overflow, non-recoverable in this build) ends the
  // process.  The empty graph is therefore not built for this layout (also under LC_InOut_Graph).
  if (x.n == 0 && (x.kind == K_LINEAR || x.kind == K_INOUT_OTHER))
    x.n = 1;
  // MorphGraph undirected (opts cfg 2): every file edge is one undirected edge; self loops are left out
  bool undirected = x.kind == K_MORPH_READGRAPH && (x.opts & 7) % 3 == 2;
  // the isomorphism check of the unordered morph layouts needs distinct edge labels
  bool need_labels = (x.kind == K_LCMORPH_READGRAPH || x.kind == K_MORPH_READGRAPH) && x.etype != ET_VOID;
  if (need_labels)
    x.dmode = 1;
  x.adj.assign(x.n, EdgeList());
  size_t ne = std::min((c.f.size() - F_COUNT) / 3, MAX_EDGES);
  x.m       = 0;
  auto add  = [&](uint32_t s, uint32_t d, uint64_t raw) {
    Edge e;
    e.dst  = d;
    e.data = value_bytes(encode_value(x.etype, raw), x.width);
    x.adj[s].push_back(e);
    ++x.m;
  };
  for (size_t i = 0; i < ne && x.n > 0; ++i) {
    uint64_t s = (uint64_t)c.f[F_COUNT + 3 * i] % x.n, d = (uint64_t)c.f[F_COUNT + 3 * i + 1] % x.n, w = (uint64_t)c.f[F_COUNT + 3 * i + 2];
    if (undirected) {
      if (x.n == 1)
        continue;
      d = (s + 1 + (uint64_t)c.f[F_COUNT + 3 * i + 1] % (x.n - 1)) % x.n;
    }
    uint64_t raw = x.dmode == 0 ? w : x.dmode == 1 ? (uint64_t)i : prf(x.aseed, w, i);
    add((uint32_t)s, (uint32_t)d, raw);
    if (x.kind == K_INOUT_SYM && s != d) // a symmetric file holds both directions with the same data
      add((uint32_t)d, (uint32_t)s, raw);
  }
  if (grfile && x.m == 0)
    add(0, 0, 0);
  x.tadj = reversed(x.adj);
}

static void write_graph(const std::string& path, const Ctx& x, const Adj& adj) {
  // straight from the documented layout; edge data bytes are the model's bytes
  std::vector<unsigned char> b;
  uint64_t m = 0;
  for (auto& l : adj)
    m += l.size();
  gr::put64(b, 1);
  gr::put64(b, x.width);
  gr::put64(b, adj.size());
  gr::put64(b, m);
  uint64_t acc = 0;
  for (auto& l : adj) {
    acc += l.size();
    gr::put64(b, acc);
  }
  for (auto& l : adj)
    for (auto& e : l)
      gr::put32(b, e.dst);
  if (m & 1)
    gr::put32(b, 0);
  for (auto& l : adj)
    for (auto& e : l)
      for (unsigned i = 0; i < x.width; ++i)
        b.push_back(e.data[i]);
  if (!gr::write_file(path, b))
    vinconclusive("tmpfile");
}

struct TmpFiles {
  std::vector<std::string> paths;
  ~TmpFiles() {
    for (auto& p : paths)
      unlink(p.c_str());
  }
};

void run(const Case& c0) {
  Case c = c0;
  normalize_case(c);
  Ctx x;
  decode(c, x);
  x.threads = galois::setActiveThreads((unsigned)c[F_THREADS]);
  label("kind", KIND_NAME[x.kind]);
  label("etype", ET_NAME[x.etype]);
  label("threads", (long)x.threads);
  label("nclass", x.n == 0 ? "0" : x.n == 1 ? "1" : x.n <= 12 ? "2..12" : x.n <= 89 ? "13..89" : "90+");
  label("nops", (long)x.ops.size());
  label("dmode", (long)x.dmode);
  // shape classification / non-triviality (DESIGN NT rule)
  bool multi = false, parallel = false, selfloop = false;
  uint64_t maxdeg = 0;
  for (uint32_t u = 0; u < x.n; ++u) {
    multi |= x.adj[u].size() >= 2;
    maxdeg = std::max<uint64_t>(maxdeg, x.adj[u].size());
    std::vector<uint32_t> ds;
    for (auto& e : x.adj[u]) {
      ds.push_back(e.dst);
      selfloop |= e.dst == u;
    }
    std::sort(ds.begin(), ds.end());
    parallel |= std::adjacent_find(ds.begin(), ds.end()) != ds.end();
  }
  bool last_isolated = x.n >= 2 && x.adj[x.n - 1].empty() && x.tadj[x.n - 1].empty() && x.m > 0;
  bool last_noout    = x.n >= 2 && x.adj[x.n - 1].empty();
  label("parallel", parallel);
  label("selfloop", selfloop);
  label("last_isolated", last_isolated);
  label("last_without_out_edges", last_noout);
  label("skew", x.m >= 8 && maxdeg * 2 >= x.m);
  label("edges", x.m == 0 ? "0" : x.m < 10 ? "1..9" : x.m < 100 ? "10..99" : "100+");
  nontrivial(multi && (parallel || selfloop || last_isolated || x.threads >= 2));

  TmpFiles tmp;
  x.path  = tmp_path(".gr");
  x.tpath = tmp_path(".tgr");
  tmp.paths.push_back(x.path);
  tmp.paths.push_back(x.tpath);
  write_graph(x.path, x, x.adj);
  if (x.kind == K_INOUT_PAIR || x.kind == K_INOUT_OTHER)
    write_graph(x.tpath, x, x.tadj);

  switch (x.kind) {
  case K_INOUT_PAIR:
  case K_INOUT_SYM:
  case K_INOUT_OTHER:
    run_inout(x);
    break;
  case K_LINEAR:
  case K_INLINE:
    run_linear(x);
    break;
  case K_LCMORPH_READGRAPH:
  case K_LCMORPH_AUX:
  case K_LCMORPH_API:
  case K_MORPH_READGRAPH:
    run_morph(x);
    break;
  case K_HYPER:
    run_hyper(x);
    break;
  default:
    run_csr(x);
  }
  vok();
}
} // namespace verif

// =========================================================== CSR family
namespace c11 {
namespace G = galois::graphs;

// in-edge view of LC_CSR_CSC_Graph
template <class Gr>
static Adj csc_observe_in(Gr& g, const Ctx& c) {
  typedef typename Gr::edge_data_type E;
  Adj in(c.n);
  uint64_t steps = 0;
  for (uint32_t u = 0; u < c.n; ++u) {
    for (auto e = g.in_edge_begin(u, c.flag()), ee = g.in_edge_end(u, c.flag()); e != ee; ++e) {
      CCHECK(++steps <= c.m + 1, "in-edge-iteration", "in_edge_begin()..in_edge_end() visits more than %llu edges (at node %u)", (unsigned long long)c.m, u);
      Edge x;
      x.dst = g.getInEdgeDst(e);
      CCHECK(x.dst < c.n, "in-edges", "getInEdgeDst at node %u returns %u, the graph has %u nodes", u, x.dst, c.n);
      x.data = Bytes{};
      if constexpr (!std::is_void<E>::value)
        x.data = bytes_of<E>(g.getInEdgeData(e));
      in[u].push_back(x);
    }
  }
  return in;
}
template <class Gr>
static void csc_check_in(Gr& g, const Ctx& c, const Adj& in, const char* stage) {
  uint64_t acc = 0;
  for (uint32_t u = 0; u < c.n; ++u) {
    acc += in[u].size();
    CCHECK(g.getInDegree(u) == in[u].size(), "in-degree", "%s: getInDegree(%u) = %llu, the node has %zu in-edges", stage, u,
           (unsigned long long)g.getInDegree(u), in[u].size());
    CCHECK(g.getInEdgePrefixSum()[u] == acc, "in-prefix-sum", "%s: getInEdgePrefixSum()[%u] = %llu, expected %llu", stage, u,
           (unsigned long long)g.getInEdgePrefixSum()[u], (unsigned long long)acc);
    if (u < 64 || u + 4 >= c.n) {
      auto e = g.in_edge_begin(u, c.flag());
      size_t k = 0;
      for (auto ii : g.in_edges(u, c.flag())) {
        CCHECK(k < in[u].size() && ii == e, "in-edge-range", "%s: in_edges(%u) element %zu is not the corresponding in-edge", stage, u, k);
        ++e;
        ++k;
      }
      CCHECK(k == in[u].size(), "in-edge-range", "%s: in_edges(%u) visits %zu of %zu in-edges", stage, u, k, in[u].size());
    }
  }
}

// CscMode: 0 = plain CSR, 1 = LC_CSR_CSC_Graph with shared (by reference) in-edge data, 2 = by value
template <class Gr, int CscMode>
static void run_csr_t(const Ctx& c, bool out_of_line_locks = false) {
  typedef typename Gr::edge_data_type E;
  constexpr bool IsCsc = CscMode != 0;
  std::unique_ptr<Gr> gp;
  Adj model          = c.adj;
  bool readUnweighted = false;
  switch (c.kind) {
  case K_CSR_READGRAPH:
  case K_CSC_READGRAPH:
    gp.reset(new Gr());
    // readGraph(graph, file, readUnweighted): edge data default-constructed instead of read
    readUnweighted = !std::is_void<E>::value && c.kind == K_CSR_READGRAPH && ((c.opts >> 4) & 3) == 3;
    if (readUnweighted) {
      galois::graphs::readGraph(*gp, c.path, true);
      for (auto& l : model)
        for (auto& e : l)
          e.data = Bytes{};
    } else if (((c.opts >> 4) & 3) == 2) {
      // the overload taking a FileGraph the caller mapped itself
      galois::graphs::FileGraph f;
      f.fromFile(c.path);
      galois::graphs::readGraph(*gp, f);
    } else
      galois::graphs::readGraph(*gp, c.path);
    break;
  case K_CSR_ARRAYS:
  case K_CSR_ARRAYS_POD: {
    if constexpr (!std::is_void<E>::value) {
      std::vector<uint64_t> prefix(c.n);
      std::vector<std::vector<E>> data(c.n);
      uint64_t acc = 0;
      for (uint32_t u = 0; u < c.n; ++u) {
        acc += c.adj[u].size();
        prefix[u] = acc;
        for (auto& e : c.adj[u])
          data[u].push_back(make_val<E>(e.data));
      }
      gp.reset(new Gr());
      if (c.kind == K_CSR_ARRAYS) {
        std::vector<std::vector<uint32_t>> ids(c.n);
        for (uint32_t u = 0; u < c.n; ++u)
          for (auto& e : c.adj[u])
            ids[u].push_back(e.dst);
        gp->constructFrom(c.n, c.m, prefix, ids, data);
        if ((c.opts >> 4) & 1) { // "deallocate if reusing the graph": construct a second time
          bool skip = false;
          if (out_of_line_locks) {
            // known finding: the out-of-line lock array is not released before it is allocated again
            if (excluded(KEY_REUSE_OOL)) {
              count_excluded();
              skip = true;
            } else {
              Gr* raw = gp.get();
              int how = probe_in_child([&] {
                galois::setActiveThreads(1); // the child has no pool threads: page-in must stay on this thread
                raw->destroyAndAllocateFrom(c.n, c.m);
              });
              CCHECK(how == 0, "constructFrom-reuse-out-of-line-lockable",
                     "second constructFrom(%u nodes, %llu edges) on an LC_CSR_Graph with out-of-line locks: destroyAndAllocateFrom ends the process (%s %d)", c.n,
                     (unsigned long long)c.m, how >= 1000 ? "exit status" : "signal", how >= 1000 ? how - 1000 : how);
            }
          }
          if (!skip)
            gp->constructFrom(c.n, c.m, prefix, ids, data);
        }
      } else {
        galois::gstl::Vector<galois::PODResizeableArray<uint32_t>> ids(c.n);
        for (uint32_t u = 0; u < c.n; ++u)
          for (auto& e : c.adj[u])
            ids[u].push_back(e.dst);
        gp->constructFrom(c.n, c.m, prefix, ids, data);
      }
    }
    break;
  }
  case K_CSR_GRFILE: {
    gp.reset(new Gr());
    StdoutSilencer quiet;
    gp->readGraphFromGRFile(c.path);
    break;
  }
  case K_CSC_GRFILE: {
    gp.reset(new Gr());
    if constexpr (IsCsc) {
      StdoutSilencer quiet;
      gp->readAndConstructBiGraphFromGRFile(c.path);
    }
    break;
  }
  default:
    break;
  }
  CCHECK(gp, "harness", "kind %d not constructible with %s edge data", c.kind, ET_NAME[c.etype]);
  Gr& g = *gp;
  NodeMap<Gr> nm;
  collect_nodes(g, c, nm);
  for (uint32_t i = 0; i < c.n; ++i)
    CCHECK(nm.nodes[i] == i, "node-order", "begin()[%u] = %u", i, (unsigned)nm.nodes[i]);
  model = csr_check_all(g, c, nm, model, true, "as built");
  check_node_data(g, c, nm, model, c.m + 1);
  check_local_ranges(g, c, nm);
  if constexpr (!IsCsc) {
    int step = 0;
    for (int op : c.ops) {
      ++step;
      csr_apply_op(g, c, nm, model, op, step);
      char stage[32];
      snprintf(stage, sizeof stage, "after op %d (%d)", step, op);
      model = csr_check_all(g, c, nm, model, true, stage);
    }
    check_local_ranges(g, c, nm);
  } else {
    // out-edge operations come first ("call only after the LC_CSR_Graph part is fully constructed")
    int step = 0;
    if (c.kind == K_CSC_READGRAPH) {
      for (int op : c.ops) {
        ++step;
        if (op >= OP_SORT_DATA) {
          csr_apply_op(g, c, nm, model, op, step);
          model = csr_check_all(g, c, nm, model, true, "after out-edge op");
        }
      }
      g.constructIncomingEdges();
    }
    Adj in = csc_observe_in(g, c);
    check_adj(c, in, reversed(model), false, "in-edges", "in-edges as built");
    csc_check_in(g, c, in, "in-edges as built");
    auto by_dst = [](const Edge& a, const Edge& b) { return a.dst < b.dst; };
    step        = 0;
    for (int op : c.ops) {
      ++step;
      if ((op == OP_SORT_ALL_DST || op == OP_SORT_SOME_DST) && std::is_void<E>::value && CscMode == 1) {
        // known finding: without edge data the shared-data graph never allocates the in-edge
        // index array its sort iterator reads; probed in a child on one node that needs comparisons
        if (excluded(KEY_CSC_SORT_VOID)) {
          count_excluded();
          continue;
        }
        for (uint32_t u = 0; u < c.n; ++u)
          if (in[u].size() >= 2) {
            int how = probe_in_child([&] { g.sortInEdgesByDst(u); });
            CCHECK(how == 0, "sortInEdgesByDst-void-edge-data",
                   "sortInEdgesByDst(%u) on an LC_CSR_CSC_Graph without edge data (in-edge data by reference), node has in-edges %s: ends the process (%s %d)", u,
                   show(c, in[u]).c_str(), how >= 1000 ? "exit status" : "signal", how >= 1000 ? how - 1000 : how);
            break;
          }
      }
      if (op == OP_SORT_ALL_DST) {
        g.sortAllInEdgesByDst();
        Adj got = csc_observe_in(g, c);
        for (uint32_t u = 0; u < c.n; ++u)
          check_sorted_perm(c, got[u], in[u], u, by_dst, "sortInEdgesByDst", "sortAllInEdgesByDst");
        in = got;
      } else if (op == OP_SORT_SOME_DST) {
        for (uint32_t u = 0; u < c.n; ++u)
          if (prf(c.aseed, u, step) & 1)
            g.sortInEdgesByDst(u);
        Adj got = csc_observe_in(g, c);
        for (uint32_t u = 0; u < c.n; ++u) {
          if (prf(c.aseed, u, step) & 1)
            check_sorted_perm(c, got[u], in[u], u, by_dst, "sortInEdgesByDst", "sortInEdgesByDst(some nodes)");
          else if (got[u] != in[u])
            fail("sortInEdgesByDst", "node %u was not sorted but its in-edges changed from %s to %s", u, show(c, in[u]).c_str(), show(c, got[u]).c_str());
        }
        in = got;
      } else
        continue;
      csc_check_in(g, c, in, "after in-edge sort");
      // the out-edge view is untouched by in-edge sorting
      model = csr_check_all(g, c, nm, model, true, "out-edges after in-edge sort");
    }
    check_local_ranges(g, c, nm);
  }
}

// ---- LC_Adaptor_Graph over plain CSR arrays (the library's test/lc-adaptor.cpp shape)
struct AdArrays {
  std::vector<uint64_t> outIdx;
  std::vector<uint32_t> outs;
  std::vector<uint32_t> data;
};
template <class E, bool NoLock>
class AdGraph : public G::LC_Adaptor_Graph<int, E, AdGraph<E, NoLock>, uint32_t, boost::counting_iterator<uint32_t>, const uint32_t*, NoLock> {
  typedef G::LC_Adaptor_Graph<int, E, AdGraph<E, NoLock>, uint32_t, boost::counting_iterator<uint32_t>, const uint32_t*, NoLock> Super;
  AdArrays& a;
  std::vector<int> nd;

public:
  typedef typename Super::GraphNode GraphNode;
  typedef typename Super::iterator iterator;
  typedef typename Super::edge_iterator edge_iterator;
  AdGraph(AdArrays& arr) : a(arr), nd(arr.outIdx.size()) {}
  size_t get_id(GraphNode n) const { return n; }
  typename Super::node_data_reference get_data(GraphNode n) { return nd[n]; }
  typename Super::edge_data_reference get_edge_data(edge_iterator e) {
    if constexpr (std::is_void<E>::value)
      return {};
    else
      return a.data[e - a.outs.data()];
  }
  GraphNode get_edge_dst(edge_iterator e) { return *e; }
  uint64_t get_size() const { return a.outIdx.size(); }
  uint64_t get_size_edges() const { return a.outs.size(); }
  iterator get_begin() const { return iterator(0); }
  iterator get_end() const { return iterator((uint32_t)a.outIdx.size()); }
  edge_iterator get_edge_begin(GraphNode n) { return a.outs.data() + (n == 0 ? 0 : a.outIdx[n - 1]); }
  edge_iterator get_edge_end(GraphNode n) { return a.outs.data() + a.outIdx[n]; }
};

template <class E, bool NoLock>
static void run_adaptor_t(const Ctx& c) {
  AdArrays arr;
  uint64_t acc = 0;
  for (uint32_t u = 0; u < c.n; ++u) {
    acc += c.adj[u].size();
    arr.outIdx.push_back(acc);
    for (auto& e : c.adj[u]) {
      arr.outs.push_back(e.dst);
      arr.data.push_back(make_val<uint32_t>(e.data));
    }
  }
  arr.outs.reserve(arr.outs.size() + 1); // data() non-null for the empty graph
  typedef AdGraph<E, NoLock> Gr;
  Gr g(arr);
  NodeMap<Gr> nm;
  collect_nodes(g, c, nm);
  CCHECK(g.size() == c.n && g.sizeEdges() == c.m, "size", "size() = %llu sizeEdges() = %llu, input has %u / %llu", (unsigned long long)g.size(),
         (unsigned long long)g.sizeEdges(), c.n, (unsigned long long)c.m);
  Adj got = observe_out(g, c, nm, c.flag(), c.m + 1);
  check_adj(c, got, c.adj, true, "out-edges", "as built");
  for (uint32_t u = 0; u < c.n && u < 64; ++u)
    check_edge_range(g, c, u, u, g.out_edges(u, c.flag()), "out_edges");
  // local_begin/local_end are plain node ids here (LocalIteratorFeature<false>)
  std::vector<std::pair<uint64_t, uint64_t>> loc(c.threads);
  galois::on_each([&](unsigned tid, unsigned) {
    if (tid < loc.size())
      loc[tid] = {*g.local_begin(), *g.local_end()};
  });
  uint64_t cur = 0;
  for (unsigned t = 0; t < c.threads; ++t) {
    CCHECK(loc[t].first <= loc[t].second && loc[t].second <= c.n, "local-range", "thread %u local range [%llu,%llu) of %u nodes", t,
           (unsigned long long)loc[t].first, (unsigned long long)loc[t].second, c.n);
    if (loc[t].first != loc[t].second) {
      CCHECK(loc[t].first == cur, "local-range", "thread %u local range starts at %llu, previous ended at %llu", t, (unsigned long long)loc[t].first,
             (unsigned long long)cur);
      cur = loc[t].second;
    }
  }
  CCHECK(cur == c.n, "local-range", "local ranges of %u threads cover %llu of %u nodes", c.threads, (unsigned long long)cur, c.n);
}

// ---- option combinations
template <class E, int CFG>
struct CsrT;
template <class E>
struct CsrT<E, 0> {
  typedef G::LC_CSR_Graph<uint32_t, E> type;
};
template <class E>
struct CsrT<E, 1> {
  typedef typename G::LC_CSR_Graph<uint32_t, E>::template with_numa_alloc<true>::type type;
};
template <class E>
struct CsrT<E, 2> {
  typedef typename G::LC_CSR_Graph<uint32_t, E>::template with_no_lockable<true>::type type;
};
template <class E>
struct CsrT<E, 3> {
  typedef typename G::LC_CSR_Graph<uint32_t, E>::template with_out_of_line_lockable<true>::type type;
};
template <class E>
struct CsrT<E, 4> {
  typedef typename G::LC_CSR_Graph<uint32_t, E>::template with_numa_alloc<true>::type::template with_out_of_line_lockable<true>::type type;
};
template <class E>
struct CsrT<E, 5> {
  typedef typename G::LC_CSR_Graph<void, E>::template with_numa_alloc<true>::type::template with_no_lockable<true>::type type;
};

// LC_CSR_CSC_Graph<NodeTy, EdgeTy, EdgeDataByValue, HasNoLockable, UseNumaAlloc, HasOutOfLineLockable>
template <class E, int CFG>
struct CscT;
template <class E>
struct CscT<E, 0> {
  typedef G::LC_CSR_CSC_Graph<uint32_t, E, false> type;
};
template <class E>
struct CscT<E, 1> {
  typedef G::LC_CSR_CSC_Graph<uint32_t, E, true> type;
};
template <class E>
struct CscT<E, 2> {
  typedef G::LC_CSR_CSC_Graph<uint32_t, E, false, false, true> type;
};
template <class E>
struct CscT<E, 3> {
  typedef G::LC_CSR_CSC_Graph<uint32_t, E, true, true, true> type;
};
template <class E>
struct CscT<E, 4> {
  typedef G::LC_CSR_CSC_Graph<void, E, false, false, true, true> type; // bfsDirectionOpt's shape
};

template <class E>
static void run_csr_e(const Ctx& c, int cfg) {
  bool full = std::is_void<E>::value || std::is_same<E, uint32_t>::value;
  if (c.kind == K_CSC_READGRAPH || c.kind == K_CSC_GRFILE) {
    cfg = cfg % 5;
    if (!full && cfg >= 2)
      cfg = cfg % 2;
    label("cfg", std::to_string(cfg));
    switch (cfg) {
    case 0:
      return run_csr_t<typename CscT<E, 0>::type, 1>(c);
    case 1:
      return run_csr_t<typename CscT<E, 1>::type, 2>(c);
    case 2:
      if constexpr (std::is_void<E>::value || std::is_same<E, uint32_t>::value)
        return run_csr_t<typename CscT<E, 2>::type, 1>(c);
      break;
    case 3:
      if constexpr (std::is_void<E>::value || std::is_same<E, uint32_t>::value)
        return run_csr_t<typename CscT<E, 3>::type, 2>(c);
      break;
    default:
      if constexpr (std::is_void<E>::value || std::is_same<E, uint32_t>::value)
        return run_csr_t<typename CscT<E, 4>::type, 1>(c);
    }
    fail("harness", "unreachable csc cfg %d", cfg);
  }
  cfg = cfg % 6;
  if (!full && cfg >= 2)
    cfg = cfg % 2;
  label("cfg", std::to_string(cfg));
  switch (cfg) {
  case 0:
    return run_csr_t<typename CsrT<E, 0>::type, 0>(c);
  case 1:
    return run_csr_t<typename CsrT<E, 1>::type, 0>(c);
  default:
    break;
  }
  if constexpr (std::is_void<E>::value || std::is_same<E, uint32_t>::value) {
    switch (cfg) {
    case 2:
      return run_csr_t<typename CsrT<E, 2>::type, 0>(c);
    case 3:
      return run_csr_t<typename CsrT<E, 3>::type, 0>(c, true);
    case 4:
      return run_csr_t<typename CsrT<E, 4>::type, 0>(c, true);
    default:
      return run_csr_t<typename CsrT<E, 5>::type, 0>(c);
    }
  }
  fail("harness", "unreachable csr cfg %d", cfg);
}

void run_csr(const Ctx& c) {
  int cfg = c.opts & 7;
  if (c.kind == K_ADAPTOR) {
    label("cfg", std::to_string(cfg & 1));
    if (c.etype == ET_VOID)
      return (cfg & 1) ? run_adaptor_t<void, true>(c) : run_adaptor_t<void, false>(c);
    Ctx d = c;
    if (c.etype != ET_U32) { // the adaptor's arrays carry 32-bit data: use the low 4 bytes
      d.etype = ET_U32;
      d.width = 4;
      for (auto& l : d.adj)
        for (auto& e : l)
          for (unsigned i = 4; i < 12; ++i)
            e.data[i] = 0;
    }
    return (cfg & 1) ? run_adaptor_t<uint32_t, true>(d) : run_adaptor_t<uint32_t, false>(d);
  }
  switch (c.etype) {
  case ET_VOID:
    return run_csr_e<void>(c, cfg);
  case ET_U32:
    return run_csr_e<uint32_t>(c, cfg);
  case ET_I64:
    return run_csr_e<int64_t>(c, cfg);
  case ET_FLOAT:
    return run_csr_e<float>(c, cfg);
  default:
    return run_csr_e<S12>(c, cfg);
  }
}
} // namespace c11

// sanitizer reports end the process through abort(): the driver's SIGABRT handler then saves the running case
extern "C" const char* __asan_default_options() { return "abort_on_error=1:detect_leaks=0"; }
extern "C" const char* __ubsan_default_options() { return "abort_on_error=1"; }

// two synthetic sockets of eight threads unless the caller chose a topology
namespace c11 {
struct Init {
  struct Env {
    Env() { setenv("GALOIS_VERIF_TOPO", "8,8", 0); }
  } env;
  galois::SharedMemSys G;
};
} // namespace c11
VERIF_INPROC_MAIN(c11::Init g_c11_init)
