// C11 -- LC_InOut_Graph, LC_Linear_Graph, LC_InlineEdge_Graph.
#include "c11_common.h"
#include "c11_csr.h"

#include "galois/graphs/LC_CSR_Graph.h"
#include "galois/graphs/LC_InOut_Graph.h"
#include "galois/graphs/LC_Linear_Graph.h"
#include "galois/graphs/LC_InlineEdge_Graph.h"

namespace c11 {
namespace G = galois::graphs;

// LC_InlineEdge_Graph::constructFrom takes (graph, tid, total) while readGraph's
// default dispatch passes a fourth readUnweighted argument: readGraph() does
// not compile for this layout, so the harness performs the two documented steps
// of the default dispatch itself.
template <class Gr>
static void build_default_3arg(Gr& g, const Ctx& c) {
  G::FileGraph f;
  f.fromFileInterleaved<typename Gr::file_edge_data_type>(c.path);
  g.allocateFrom(f);
  galois::on_each([&](unsigned tid, unsigned total) { g.constructFrom(f, tid, total); });
}

// LC_Linear_Graph stores a node's edge records directly behind its node record.  The edge record
// holds a pointer (8-byte alignment); without an in-line lock the node record can be 4 or 12 bytes.
template <class Gr>
struct LinearPeek : Gr {
  static constexpr bool misaligned = sizeof(typename Gr::NodeInfo) % alignof(typename Gr::EdgeInfo) != 0;
  static constexpr size_t node_size = sizeof(typename Gr::NodeInfo), edge_align = alignof(typename Gr::EdgeInfo);
};

// ------------------------------------------------ pointer-node LC layouts
template <class Gr, bool IsLinear>
static void run_ptr_t(const Ctx& c) {
  typedef typename Gr::edge_data_type E;
  if constexpr (IsLinear) {
    if (LinearPeek<Gr>::misaligned && c.m > 0) {
      // known finding: probed by running the three construction steps on one thread in a child
      G::FileGraph f;
      f.fromFileInterleaved<typename Gr::file_edge_data_type>(c.path);
      int how = probe_in_child([&] {
        galois::setActiveThreads(1);
        Gr* h = new Gr();
        typename Gr::ReadGraphAuxData aux{};
        h->allocateFrom(f, aux);
        h->constructNodesFrom(f, 0, 1, aux);
        h->constructEdgesFrom(f, 0, 1, aux);
        _exit(0);
      });
      CCHECK(how == 0, "misaligned-edge-records",
             "constructing an LC_Linear_Graph whose node record is %zu bytes (edge records need %zu-byte alignment) from %u nodes / %llu edges ends the process (%s %d)",
             LinearPeek<Gr>::node_size, LinearPeek<Gr>::edge_align, c.n, (unsigned long long)c.m, how >= 1000 ? "exit status" : "signal",
             how >= 1000 ? how - 1000 : how);
    }
  }
  Gr g;
  if constexpr (IsLinear)
    G::readGraph(g, c.path);
  else
    build_default_3arg(g, c);
  NodeMap<Gr> nm;
  collect_nodes(g, c, nm);
  CCHECK(g.size() == c.n, "size", "size() = %zu, input has %u nodes", (size_t)g.size(), c.n);
  CCHECK(g.sizeEdges() == c.m, "size", "sizeEdges() = %zu, input has %llu edges", (size_t)g.sizeEdges(), (unsigned long long)c.m);
  // node i of the iteration order is node i of the file (callers advance begin() by a node id)
  Adj model = c.adj;
  Adj got   = observe_out(g, c, nm, c.flag(), c.m + 1);
  check_adj(c, got, model, false, "out-edges", "as built");
  model = got;
  check_node_data(g, c, nm, model, c.m + 1);
  for (uint32_t u = 0; u < c.n; ++u)
    if (u < 64 || u + 4 >= c.n) {
      check_edge_range(g, c, nm.nodes[u], u, g.edges(nm.nodes[u], c.flag()), "edges");
      check_edge_range(g, c, nm.nodes[u], u, g.out_edges(nm.nodes[u], c.flag()), "out_edges");
    }
  // (local_begin() of an empty LC_InlineEdge_Graph forms &nodeData[0] on a null array: harmless, but a
  // non-recoverable UBSan report in this build; the empty partition is not queried there)
  if (IsLinear || c.n > 0)
    check_local_ranges(g, c, nm);
  if constexpr (IsLinear) {
    int step = 0;
    for (int op : c.ops) {
      ++step;
      if (op == OP_SORT_DATA) {
        if constexpr (!std::is_void<E>::value) {
          for (uint32_t u = 0; u < c.n; ++u)
            g.sortEdgesByEdgeData(nm.nodes[u], DataLess<E>());
          Adj after  = observe_out(g, c, nm, c.flag(), c.m + 1);
          int etype  = c.etype;
          auto by_dt = [etype](const Edge& a, const Edge& b) { return data_less(etype, a.data, b.data); };
          for (uint32_t u = 0; u < c.n; ++u)
            check_sorted_perm(c, after[u], model[u], u, by_dt, "sortEdgesByEdgeData", "sortEdgesByEdgeData");
          model = after;
        }
      } else if (op == OP_SORT_CUSTOM || op == OP_SORT_SOME_DST) {
        // sortEdges(N, comp): comp sees the stored edge records (public members dst / get())
        bool some = op == OP_SORT_SOME_DST;
        for (uint32_t u = 0; u < c.n; ++u)
          if (!some || (prf(c.aseed, u, step) & 1))
            g.sortEdges(nm.nodes[u], [](const auto& a, const auto& b) { return std::less<const void*>()(b.dst, a.dst); });
        Adj after = observe_out(g, c, nm, c.flag(), c.m + 1);
        auto cmp  = [&nm](const Edge& a, const Edge& b) { return std::less<const void*>()(nm.nodes[b.dst], nm.nodes[a.dst]); };
        for (uint32_t u = 0; u < c.n; ++u) {
          if (!some || (prf(c.aseed, u, step) & 1))
            check_sorted_perm(c, after[u], model[u], u, cmp, "sortEdges", "sortEdges(dst handle descending)");
          else if (after[u] != model[u])
            fail("sortEdges", "node %u was not sorted but changed from %s to %s", u, show(c, model[u]).c_str(), show(c, after[u]).c_str());
        }
        model = after;
      }
    }
  }
}

template <class E, int CFG>
struct LinT;
template <class E>
struct LinT<E, 0> {
  typedef G::LC_Linear_Graph<uint32_t, E> type;
};
template <class E>
struct LinT<E, 1> {
  typedef typename G::LC_Linear_Graph<uint32_t, E>::template with_numa_alloc<true>::type type;
};
template <class E>
struct LinT<E, 2> {
  typedef typename G::LC_Linear_Graph<uint32_t, E>::template with_no_lockable<true>::type type;
};
template <class E>
struct LinT<E, 3> {
  typedef typename G::LC_Linear_Graph<uint32_t, E>::template with_out_of_line_lockable<true>::type type;
};
template <class E>
struct LinT<E, 4> {
  typedef typename G::LC_Linear_Graph<uint32_t, E>::template with_id<true>::type type;
};
template <class E>
struct LinT<E, 5> {
  typedef typename G::LC_Linear_Graph<void, E>::template with_numa_alloc<true>::type::template with_no_lockable<true>::type type;
};

template <class E, int CFG>
struct InlT;
template <class E>
struct InlT<E, 0> {
  typedef G::LC_InlineEdge_Graph<uint32_t, E> type;
};
template <class E>
struct InlT<E, 1> {
  typedef typename G::LC_InlineEdge_Graph<uint32_t, E>::template with_compressed_node_ptr<true>::type type;
};
template <class E>
struct InlT<E, 2> {
  typedef typename G::LC_InlineEdge_Graph<uint32_t, E>::template with_numa_alloc<true>::type type;
};
template <class E>
struct InlT<E, 3> {
  typedef typename G::LC_InlineEdge_Graph<uint32_t, E>::template with_numa_alloc<true>::type::template with_compressed_node_ptr<true>::type type;
};
template <class E>
struct InlT<E, 4> {
  typedef typename G::LC_InlineEdge_Graph<uint32_t, E>::template with_no_lockable<true>::type type;
};
template <class E>
struct InlT<E, 5> {
  typedef typename G::LC_InlineEdge_Graph<uint32_t, E>::template with_out_of_line_lockable<true>::type::template with_compressed_node_ptr<true>::type type;
};

template <class E>
static void run_linear_e(const Ctx& c) {
  constexpr bool full = std::is_void<E>::value || std::is_same<E, uint32_t>::value;
  int cfg             = (c.opts & 7) % 6;
  if (!full)
    cfg = cfg % 2;
  if (c.kind == K_LINEAR && linear_cfg_misaligned(cfg) && excluded(KEY_LINEAR_MISALIGNED)) {
    count_excluded(); // known finding: these option combinations are not built
    cfg = 0;
  }
  label("cfg", std::to_string(cfg));
  if (c.kind == K_LINEAR) {
    if constexpr (full) {
      // (configurations 3 and 5 had 12-byte node records before the alignment fix in LC_Linear_Graph.h;
      //  the exclusion table only matters when that finding is listed as known)
      static_assert(!LinearPeek<typename LinT<E, 0>::type>::misaligned && !LinearPeek<typename LinT<E, 1>::type>::misaligned &&
                        !LinearPeek<typename LinT<E, 2>::type>::misaligned && !LinearPeek<typename LinT<E, 4>::type>::misaligned,
                    "cfg table");
    }
    switch (cfg) {
    case 0:
      return run_ptr_t<typename LinT<E, 0>::type, true>(c);
    case 1:
      return run_ptr_t<typename LinT<E, 1>::type, true>(c);
    default:
      break;
    }
    if constexpr (full) {
      switch (cfg) {
      case 2:
        return run_ptr_t<typename LinT<E, 2>::type, true>(c);
      case 3:
        return run_ptr_t<typename LinT<E, 3>::type, true>(c);
      case 4:
        return run_ptr_t<typename LinT<E, 4>::type, true>(c);
      default:
        return run_ptr_t<typename LinT<E, 5>::type, true>(c);
      }
    }
  } else {
    switch (cfg) {
    case 0:
      return run_ptr_t<typename InlT<E, 0>::type, false>(c);
    case 1:
      return run_ptr_t<typename InlT<E, 1>::type, false>(c);
    default:
      break;
    }
    if constexpr (full) {
      switch (cfg) {
      case 2:
        return run_ptr_t<typename InlT<E, 2>::type, false>(c);
      case 3:
        return run_ptr_t<typename InlT<E, 3>::type, false>(c);
      case 4:
        return run_ptr_t<typename InlT<E, 4>::type, false>(c);
      default:
        return run_ptr_t<typename InlT<E, 5>::type, false>(c);
      }
    }
  }
  fail("harness", "unreachable linear/inline cfg %d", cfg);
}

// a file edge type narrower than the in-memory edge type (with_file_edge_data): the uint32 data of the file
// is converted to int64 edge data while the graph is built
static void run_linear_widened(const Ctx& c) {
  Ctx d   = c;
  d.etype = ET_I64;
  d.width = 8;
  for (Adj* a : {&d.adj, &d.tadj})
    for (auto& l : *a)
      for (auto& e : l)
        e.data = bytes_of<int64_t>((int64_t)make_val<uint32_t>(e.data));
  label("cfg", "file-uint32-memory-int64");
  if (c.kind == K_LINEAR)
    return run_ptr_t<typename G::LC_Linear_Graph<uint32_t, int64_t>::with_file_edge_data<uint32_t>::type, true>(d);
  return run_ptr_t<typename G::LC_InlineEdge_Graph<uint32_t, int64_t>::with_file_edge_data<uint32_t>::type, false>(d);
}

void run_linear(const Ctx& c) {
  if (c.etype == ET_U32 && ((c.opts >> 3) & 3) == 3)
    return run_linear_widened(c);
  switch (c.etype) {
  case ET_VOID:
    return run_linear_e<void>(c);
  case ET_U32:
    return run_linear_e<uint32_t>(c);
  case ET_I64:
    return run_linear_e<int64_t>(c);
  case ET_FLOAT:
    return run_linear_e<float>(c);
  default:
    return run_linear_e<S12>(c);
  }
}

// ------------------------------------------------------------ LC_InOut_Graph
template <class Gr>
static Adj inout_observe_in(Gr& g, const Ctx& c, const NodeMap<Gr>& nm) {
  typedef typename Gr::edge_data_type E;
  Adj in(c.n);
  uint64_t steps = 0;
  for (uint32_t u = 0; u < c.n; ++u) {
    auto N = nm.nodes[u];
    auto b = g.in_edge_begin(N, c.flag()), ee = g.in_edge_end(N, c.flag());
    for (auto e = b; e != ee; ++e) {
      CCHECK(++steps <= c.m + 1, "in-edge-iteration", "in_edge_begin()..in_edge_end() visits more than %llu edges (at node %u)", (unsigned long long)c.m, u);
      Edge x;
      x.dst  = nm.id(g.getInEdgeDst(e), "getInEdgeDst");
      x.data = Bytes{};
      if constexpr (!std::is_void<E>::value)
        x.data = bytes_of<E>(g.getInEdgeData(e));
      in[u].push_back(x);
    }
    {
      auto adv = b;
      adv += in[u].size();
      CCHECK(adv == ee, "in-edge-iteration", "in_edge_begin(%u) + %zu is not in_edge_end(%u)", u, in[u].size(), u);
    }
    CCHECK((size_t)std::distance(b, ee) == in[u].size(), "in-edge-iteration", "distance(in_edge_begin(%u), in_edge_end(%u)) = %lld, iteration visits %zu", u, u,
           (long long)std::distance(b, ee), in[u].size());
    if (u < 64 || u + 4 >= c.n) {
      size_t k = 0;
      auto e   = b;
      for (auto ii : g.in_edges(N, c.flag())) {
        CCHECK(k < in[u].size() && ii == e, "in-edge-range", "in_edges(%u) element %zu is not the corresponding in-edge", u, k);
        ++e;
        ++k;
      }
      CCHECK(k == in[u].size(), "in-edge-range", "in_edges(%u) visits %zu of %zu in-edges", u, k, in[u].size());
    }
  }
  return in;
}

template <class Gr, bool IsCsr>
static void run_inout_t(const Ctx& c) {
  typedef typename Gr::edge_data_type E;
  typedef typename Gr::GraphNode GN;
  bool sym = c.kind == K_INOUT_SYM;
  Gr g;
  if (sym)
    G::readGraph(g, c.path);
  else
    G::readGraph(g, c.path, c.tpath);
  NodeMap<Gr> nm;
  collect_nodes(g, c, nm);
  Adj model;
  if constexpr (IsCsr) {
    for (uint32_t i = 0; i < c.n; ++i)
      CCHECK(nm.nodes[i] == i, "node-order", "begin()[%u] = %u", i, (unsigned)nm.nodes[i]);
    model = csr_check_all(g, c, nm, c.adj, true, "out-edges as built");
  } else {
    CCHECK(g.size() == c.n && g.sizeEdges() == c.m, "size", "size() = %zu sizeEdges() = %zu, input has %u / %llu", (size_t)g.size(), (size_t)g.sizeEdges(),
           c.n, (unsigned long long)c.m);
    model = observe_out(g, c, nm, c.flag(), c.m + 1);
    check_adj(c, model, c.adj, false, "out-edges", "out-edges as built");
  }
  check_node_data(g, c, nm, model, c.m + 1);
  Adj in = inout_observe_in(g, c, nm);
  check_adj(c, in, reversed(c.adj), false, "in-edges", sym ? "in-edges (symmetric file)" : "in-edges (transpose file)");
  check_local_ranges(g, c, nm);
  if constexpr (IsCsr) {
    auto by_dst = [](const Edge& a, const Edge& b) { return a.dst < b.dst; };
    int etype   = c.etype;
    int step    = 0;
    for (int op : c.ops) {
      ++step;
      Adj after;
      const char* what = "";
      switch (op) {
      case OP_SORT_ALL_DST:
        what = "sortAllInEdgesByDst";
        g.sortAllInEdgesByDst();
        after = inout_observe_in(g, c, nm);
        for (uint32_t u = 0; u < c.n; ++u)
          check_sorted_perm(c, after[u], in[u], u, by_dst, "sortInEdgesByDst", what);
        break;
      case OP_SORT_SOME_DST:
        what = "sortInEdgesByDst(some nodes)";
        for (uint32_t u = 0; u < c.n; ++u)
          if (prf(c.aseed, u, step) & 1)
            g.sortInEdgesByDst(u);
        after = inout_observe_in(g, c, nm);
        for (uint32_t u = 0; u < c.n; ++u) {
          if (prf(c.aseed, u, step) & 1)
            check_sorted_perm(c, after[u], in[u], u, by_dst, "sortInEdgesByDst", what);
          else if (after[u] != in[u])
            fail("sortInEdgesByDst", "node %u was not sorted but its in-edges changed from %s to %s", u, show(c, in[u]).c_str(), show(c, after[u]).c_str());
        }
        break;
      case OP_SORT_DATA:
        if constexpr (!std::is_void<E>::value) {
          what = "sortInEdgesByEdgeData";
          for (uint32_t u = 0; u < c.n; ++u)
            g.sortInEdgesByEdgeData(u, DataLess<E>());
          after = inout_observe_in(g, c, nm);
          for (uint32_t u = 0; u < c.n; ++u)
            check_sorted_perm(
                c, after[u], in[u], u, [etype](const Edge& a, const Edge& b) { return data_less(etype, a.data, b.data); }, "sortInEdgesByEdgeData", what);
          break;
        } else
          continue;
      case OP_SORT_CUSTOM: {
        what = "sortInEdges(dst desc, data)";
        typedef G::EdgeSortValue<GN, E> SV;
        for (uint32_t u = 0; u < c.n; ++u)
          g.sortInEdges(u, [](const SV& a, const SV& b) {
            if (a.dst != b.dst)
              return a.dst > b.dst;
            if constexpr (!std::is_void<E>::value)
              return DataLess<E>()(a.get(), b.get());
            else
              return false;
          });
        after = inout_observe_in(g, c, nm);
        for (uint32_t u = 0; u < c.n; ++u)
          check_sorted_perm(
              c, after[u], in[u], u, [etype](const Edge& a, const Edge& b) { return a.dst != b.dst ? a.dst > b.dst : data_less(etype, a.data, b.data); },
              "sortInEdges", what);
        break;
      }
      default:
        continue;
      }
      in = after;
      // out view: untouched when the in-edges live in their own graph; the same storage for a symmetric file
      if (sym)
        model = in;
      model = csr_check_all(g, c, nm, model, true, what);
    }
  }
}

template <class E>
static void run_inout_e(const Ctx& c) {
  int cfg = c.opts & 7;
  if (c.kind == K_INOUT_OTHER) {
    // (LC_InOut_Graph over LC_InlineEdge_Graph cannot be read: its default dispatch calls the
    // four-argument constructFrom that LC_InlineEdge_Graph does not have)
    cfg = cfg % 2;
    label("cfg", std::to_string(cfg));
    if constexpr (std::is_void<E>::value || std::is_same<E, uint32_t>::value) {
      if (cfg == 0)
        return run_inout_t<G::LC_InOut_Graph<G::LC_Linear_Graph<uint32_t, E>>, false>(c);
      return run_inout_t<G::LC_InOut_Graph<typename G::LC_Linear_Graph<uint32_t, E>::template with_numa_alloc<true>::type>, false>(c);
    }
    fail("harness", "inout_other is built for void and uint32 edge data only");
  }
  cfg = cfg % 3;
  if (!(std::is_void<E>::value || std::is_same<E, uint32_t>::value))
    cfg = cfg % 2;
  label("cfg", std::to_string(cfg));
  switch (cfg) {
  case 0:
    return run_inout_t<G::LC_InOut_Graph<G::LC_CSR_Graph<uint32_t, E>>, true>(c);
  case 1:
    return run_inout_t<G::LC_InOut_Graph<typename G::LC_CSR_Graph<uint32_t, E>::template with_numa_alloc<true>::type>, true>(c);
  default:
    if constexpr (std::is_void<E>::value || std::is_same<E, uint32_t>::value)
      return run_inout_t<G::LC_InOut_Graph<typename G::LC_CSR_Graph<void, E>::template with_no_lockable<true>::type>, true>(c);
  }
  fail("harness", "unreachable inout cfg %d", cfg);
}

void run_inout(const Ctx& c) {
  switch (c.etype) {
  case ET_VOID:
    return run_inout_e<void>(c);
  case ET_U32:
    return run_inout_e<uint32_t>(c);
  case ET_I64:
    return run_inout_e<int64_t>(c);
  case ET_FLOAT:
    return run_inout_e<float>(c);
  default:
    return run_inout_e<S12>(c);
  }
}
} // namespace c11
