// C11 -- static graphs present exactly the input graph, in every layout and
// view.  Shared between the translation units of the harness: the decoded
// case (Ctx), the reference model (plain adjacency lists built from the case,
// never from the library), the generic observers that enumerate a Galois graph
// through its public API, and the model comparisons.
//
// Only c11_graphs.cpp includes verif_e1.h (its bookkeeping is TU-static); the
// other TUs report through c11::fail()/c11::label().
#pragma once
#include <algorithm>
#include <array>
#include <cstdarg>
#include <cstdint>
#include <cstdio>
#include <cstring>
#include <cerrno>
#include <csignal>
#include <fcntl.h>
#include <map>
#include <memory>
#include <string>
#include <unordered_map>
#include <vector>

#include <sys/wait.h>
#include <unistd.h>

#include "galois/Galois.h"
#include "galois/graphs/FileGraph.h"
#include "galois/graphs/ReadGraph.h"

namespace c11 {

// ------------------------------------------------------------------ reporting
[[noreturn]] void fail(const char* key, const char* fmt, ...) __attribute__((format(printf, 2, 3)));
void label(const char* k, const std::string& v);
bool excluded(const char* finding_key); // VERIF_EXCLUDE lists it
void count_excluded();
#define CCHECK(cond, key, ...)                                                 \
  do {                                                                         \
    if (!(cond))                                                               \
      ::c11::fail(key, __VA_ARGS__);                                           \
  } while (0)

// ------------------------------------------------------------------ edge data
// Edge data is modelled as the bytes the harness' own writer (grfile.h) put in
// the file; a typed value read back from a graph is compared bytewise.
typedef std::array<unsigned char, 12> Bytes;
struct S12 {
  uint32_t a, b, c;
};
enum { ET_VOID = 0, ET_U32, ET_I64, ET_FLOAT, ET_S12, ET_COUNT };
static const unsigned ET_WIDTH[] = {0, 4, 8, 4, 12};
static const char* const ET_NAME[] = {"void", "uint32", "int64", "float", "struct12"};

template <class E>
inline E make_val(const Bytes& b) {
  E e;
  memcpy(&e, b.data(), sizeof(E));
  return e;
}
template <class E>
inline Bytes bytes_of(const E& e) {
  Bytes b{};
  memcpy(b.data(), &e, sizeof(E));
  return b;
}
// the order used for "sort by edge data" (library side: comparator over E)
template <class E>
struct DataLess {
  bool operator()(const E& x, const E& y) const { return x < y; }
};
template <>
struct DataLess<S12> {
  bool operator()(const S12& x, const S12& y) const {
    if (x.a != y.a)
      return x.a < y.a;
    if (x.b != y.b)
      return x.b < y.b;
    return x.c < y.c;
  }
};
// the same order on the model's bytes
inline bool data_less(int etype, const Bytes& x, const Bytes& y) {
  switch (etype) {
  case ET_U32:
    return DataLess<uint32_t>()(make_val<uint32_t>(x), make_val<uint32_t>(y));
  case ET_I64:
    return DataLess<int64_t>()(make_val<int64_t>(x), make_val<int64_t>(y));
  case ET_FLOAT:
    return DataLess<float>()(make_val<float>(x), make_val<float>(y));
  case ET_S12:
    return DataLess<S12>()(make_val<S12>(x), make_val<S12>(y));
  default:
    return false;
  }
}
inline std::string hex(const Bytes& b, unsigned w) {
  char buf[32];
  std::string s;
  for (unsigned i = 0; i < w; ++i) {
    snprintf(buf, sizeof buf, "%02x", b[i]);
    s += buf;
  }
  return w ? s : std::string("-");
}

struct Edge {
  uint32_t dst;
  Bytes data;
  bool operator==(const Edge& o) const { return dst == o.dst && data == o.data; }
  bool operator!=(const Edge& o) const { return !(*this == o); }
  bool operator<(const Edge& o) const { return dst != o.dst ? dst < o.dst : data < o.data; }
};
typedef std::vector<Edge> EdgeList;
typedef std::vector<EdgeList> Adj;

// ------------------------------------------------------------------ the case
enum {
  K_CSR_READGRAPH = 0, // LC_CSR_Graph via readGraph(file)
  K_CSR_ARRAYS,        // constructFrom(n, m, prefix, vector<vector<u32>>, vector<vector<E>>)
  K_CSR_ARRAYS_POD,    // constructFrom(n, m, prefix, gstl::Vector<PODResizeableArray<u32>>, ...)
  K_CSR_GRFILE,        // readGraphFromGRFile
  K_CSC_READGRAPH,     // LC_CSR_CSC_Graph: readGraph + constructIncomingEdges
  K_CSC_GRFILE,        // readAndConstructBiGraphFromGRFile
  K_INOUT_PAIR,        // LC_InOut_Graph<LC_CSR_Graph> from (graph, transpose) files
  K_INOUT_SYM,         // LC_InOut_Graph<LC_CSR_Graph> from one symmetric file
  K_LINEAR,            // LC_Linear_Graph via readGraph
  K_INLINE,            // LC_InlineEdge_Graph (allocateFrom + per-thread constructFrom)
  K_LCMORPH_READGRAPH, // LC_Morph_Graph via readGraph (node identity by isomorphism)
  K_LCMORPH_AUX,       // LC_Morph_Graph via allocateFrom/constructNodesFrom/constructEdgesFrom
  K_ADAPTOR,           // LC_Adaptor_Graph over user arrays
  K_MORPH_READGRAPH,   // MorphGraph via readGraph (directed / in-out / undirected)
  K_INOUT_OTHER,       // LC_InOut_Graph over LC_Linear_Graph
  K_HYPER,             // LC_CSR_Hypergraph (allocateFrom + per-thread constructFrom)
  K_LCMORPH_API,       // LC_Morph_Graph from the edge list through createNode / addMultiEdge / addEdge (+ removeEdge)
  K_COUNT
};
static const char* const KIND_NAME[] = {"csr_readgraph", "csr_arrays",  "csr_arrays_pod", "csr_grfile",      "csc_readgraph",
                                        "csc_grfile",    "inout_pair",        "inout_sym",   "linear",         "inline",          "lcmorph_readgraph",
                                        "lcmorph_aux",   "adaptor",           "morph_readgraph", "inout_other", "hypergraph", "lcmorph_api"};
static_assert(sizeof(KIND_NAME) / sizeof(KIND_NAME[0]) == K_COUNT, "kind names");
static const char* const KIND_SUBJECT[] = {"LC_CSR_Graph",     "LC_CSR_Graph",   "LC_CSR_Graph",      "LC_CSR_Graph",   "LC_CSR_CSC_Graph",
                                           "LC_CSR_CSC_Graph", "LC_InOut_Graph",   "LC_InOut_Graph", "LC_Linear_Graph",   "LC_InlineEdge_Graph", "LC_Morph_Graph",
                                           "LC_Morph_Graph",   "LC_Adaptor_Graph", "MorphGraph",     "LC_InOut_Graph",    "LC_CSR_Hypergraph", "LC_Morph_Graph"};
static_assert(sizeof(KIND_SUBJECT) / sizeof(KIND_SUBJECT[0]) == K_COUNT, "kind subjects");

// operations applied one after the other (base-6 digits of the "ops" field)
enum { OP_NONE = 0, OP_SORT_ALL_DST, OP_SORT_SOME_DST, OP_SORT_DATA, OP_TRANSPOSE, OP_SORT_CUSTOM, OP_COUNT };

struct Ctx {
  int kind, etype, opts, dmode;
  unsigned threads; // as returned by setActiveThreads
  uint64_t aseed;
  std::vector<int> ops;
  uint32_t n;
  uint64_t m;
  unsigned width;
  Adj adj;           // out-edges per node, file order
  std::string path;  // the graph file
  std::string tpath; // its transpose (K_INOUT_PAIR, K_INOUT_OTHER)
  Adj tadj;          // the transpose as written to tpath
  bool protected_flag; // enumerate with the default MethodFlag (WRITE) instead of UNPROTECTED
  galois::MethodFlag flag() const { return protected_flag ? galois::MethodFlag::WRITE : galois::MethodFlag::UNPROTECTED; }
};

inline uint64_t prf(uint64_t seed, uint64_t a, uint64_t b = 0, uint64_t c = 0) {
  uint64_t z = seed * 0x9e3779b97f4a7c15ULL + a * 0xbf58476d1ce4e5b9ULL + b * 0x94d049bb133111ebULL + c * 0x2545F4914F6CDD1DULL + 0x1234567;
  z          = (z ^ (z >> 30)) * 0xbf58476d1ce4e5b9ULL;
  z          = (z ^ (z >> 27)) * 0x94d049bb133111ebULL;
  return z ^ (z >> 31);
}

// ------------------------------------------------------------------ model side
inline Adj reversed(const Adj& a) {
  Adj r(a.size());
  for (uint32_t u = 0; u < a.size(); ++u)
    for (auto& e : a[u])
      r[e.dst].push_back(Edge{u, e.data});
  return r;
}
inline bool sorted_by_dst(const EdgeList& l) {
  for (size_t i = 1; i < l.size(); ++i)
    if (l[i].dst < l[i - 1].dst)
      return false;
  return true;
}
inline std::string show(const Ctx& c, const EdgeList& l, size_t maxn = 12) {
  std::string s = "[";
  for (size_t i = 0; i < l.size() && i < maxn; ++i)
    s += (i ? " " : "") + std::to_string(l[i].dst) + (c.width ? ":" + hex(l[i].data, c.width) : std::string());
  if (l.size() > maxn)
    s += " ...(" + std::to_string(l.size()) + ")";
  return s + "]";
}

// got must equal want: as sequences (CSR layouts / file order) or as multisets
inline void check_adj(const Ctx& c, const Adj& got, const Adj& want, bool sequence, const char* key, const char* what) {
  CCHECK(got.size() == want.size(), key, "%s: %zu nodes observed, %zu expected", what, got.size(), want.size());
  for (size_t u = 0; u < want.size(); ++u) {
    if (sequence) {
      if (got[u] != want[u])
        fail(key, "%s: node %zu of %u presents %s, input has %s (n=%u m=%llu, %s edge data, %u threads)", what, u, c.n, show(c, got[u]).c_str(),
             show(c, want[u]).c_str(), c.n, (unsigned long long)c.m, ET_NAME[c.etype], c.threads);
    } else {
      EdgeList a = got[u], b = want[u];
      std::sort(a.begin(), a.end());
      std::sort(b.begin(), b.end());
      if (a != b)
        fail(key, "%s: node %zu of %u presents the multiset %s, expected %s (n=%u m=%llu, %s edge data, %u threads)", what, u, c.n,
             show(c, a).c_str(), show(c, b).c_str(), c.n, (unsigned long long)c.m, ET_NAME[c.etype], c.threads);
    }
  }
}

// got[u] must be a permutation of before[u] that is ordered by `less`
template <class Less>
inline void check_sorted_perm(const Ctx& c, const EdgeList& got, const EdgeList& before, uint32_t u, Less less, const char* key, const char* what) {
  EdgeList a = got, b = before;
  std::sort(a.begin(), a.end());
  std::sort(b.begin(), b.end());
  if (a != b)
    fail(key, "%s: node %u holds %s afterwards, which is not a permutation of %s", what, u, show(c, got).c_str(), show(c, before).c_str());
  for (size_t i = 1; i < got.size(); ++i)
    if (less(got[i], got[i - 1]))
      fail(key, "%s: node %u is not ordered at position %zu: %s", what, u, i, show(c, got).c_str());
}

// ------------------------------------------------------------------ observers
template <class G>
struct NodeMap {
  typedef typename G::GraphNode GraphNode;
  std::vector<GraphNode> nodes;
  std::unordered_map<GraphNode, uint32_t> idx;
  uint32_t id(GraphNode g, const char* what) const {
    auto it = idx.find(g);
    if (it == idx.end())
      fail("dst-unknown", "%s: a node handle that is not among the graph's nodes", what);
    return it->second;
  }
};

// node handles in iteration order (step bounded)
template <class G>
inline void collect_nodes(G& g, const Ctx& c, NodeMap<G>& nm) {
  size_t steps = 0;
  for (auto it = g.begin(), e = g.end(); it != e; ++it) {
    if (++steps > (size_t)c.n + 1)
      break;
    nm.nodes.push_back(*it);
  }
  CCHECK(nm.nodes.size() == c.n, "node-count", "begin()..end() visits %s%zu nodes, the input has %u", steps > c.n ? "more than " : "", nm.nodes.size(),
         c.n);
  for (uint32_t i = 0; i < nm.nodes.size(); ++i) {
    bool fresh = nm.idx.emplace(nm.nodes[i], i).second;
    CCHECK(fresh, "node-dup", "begin()..end() visits the same node handle twice (position %u)", i);
  }
}

template <class G>
inline Adj observe_out(G& g, const Ctx& c, const NodeMap<G>& nm, galois::MethodFlag flag, uint64_t bound) {
  typedef typename G::edge_data_type E;
  Adj out(nm.nodes.size());
  uint64_t steps = 0;
  for (uint32_t i = 0; i < nm.nodes.size(); ++i) {
    auto N = nm.nodes[i];
    for (auto e = g.edge_begin(N, flag), ee = g.edge_end(N, flag); e != ee; ++e) {
      CCHECK(++steps <= bound, "edge-iteration", "edge_begin()..edge_end() visits more than %llu edges in total (at node %u); the input has %llu",
             (unsigned long long)bound, i, (unsigned long long)c.m);
      Edge x;
      x.dst  = nm.id(g.getEdgeDst(e), "getEdgeDst");
      x.data = Bytes{};
      if constexpr (!std::is_void<E>::value)
        x.data = bytes_of<E>(g.getEdgeData(e));
      out[i].push_back(x);
    }
  }
  return out;
}

// node data: one independent cell per node, and writing it leaves the edges alone
template <class G>
inline void check_node_data(G& g, const Ctx& c, const NodeMap<G>& nm, const Adj& before, uint64_t bound) {
  if constexpr (std::is_same<typename G::node_data_type, uint32_t>::value) {
    for (uint32_t i = 0; i < c.n; ++i)
      g.getData(nm.nodes[i]) = i * 2654435761u + 12345u;
    for (uint32_t i = 0; i < c.n; ++i) {
      uint32_t v = g.getData(nm.nodes[i], c.flag());
      CCHECK(v == i * 2654435761u + 12345u, "node-data", "node %u of %u: node data reads %u after every node was given its own value (%u)", i, c.n, v,
             i * 2654435761u + 12345u);
    }
    Adj after = observe_out(g, c, nm, c.flag(), bound);
    for (uint32_t i = 0; i < c.n; ++i)
      if (after[i] != before[i])
        fail("node-data", "writing the node data changed the out-edges of node %u from %s to %s", i, show(c, before[i]).c_str(), show(c, after[i]).c_str());
  }
}

// per-thread local ranges: every node in exactly one range
template <class G>
inline void check_local_ranges(G& g, const Ctx& c, const NodeMap<G>& nm) {
  typedef typename G::GraphNode GraphNode;
  std::vector<std::vector<GraphNode>> per(c.threads);
  std::vector<int> overrun(c.threads, 0);
  size_t lim = (size_t)c.n + 1;
  galois::on_each([&](unsigned tid, unsigned) {
    if (tid >= per.size())
      return;
    size_t steps = 0;
    for (auto it = g.local_begin(), e = g.local_end(); it != e; ++it) {
      if (++steps > lim) {
        overrun[tid] = 1;
        break;
      }
      per[tid].push_back(*it);
    }
  });
  std::vector<int> owner(c.n, -1);
  size_t total = 0;
  for (unsigned t = 0; t < c.threads; ++t) {
    CCHECK(!overrun[t], "local-range", "thread %u of %u: local_begin()..local_end() visits more than %u nodes", t, c.threads, c.n);
    for (auto N : per[t]) {
      auto it = nm.idx.find(N);
      CCHECK(it != nm.idx.end(), "local-range", "thread %u of %u: local range yields a handle that is not a node of the graph", t, c.threads);
      CCHECK(owner[it->second] < 0, "local-range", "node %u of %u is in the local ranges of threads %d and %u (of %u)", it->second, c.n,
             owner[it->second], t, c.threads);
      owner[it->second] = (int)t;
      ++total;
    }
  }
  for (uint32_t i = 0; i < c.n; ++i)
    CCHECK(owner[i] >= 0, "local-range", "node %u of %u is in no thread's local range (%u threads cover %zu nodes)", i, c.n, c.threads, total);
}

// edges(N) / out_edges(N) ranges visit exactly edge_begin(N)..edge_end(N)
template <class G, class Range>
inline void check_edge_range(G& g, const Ctx& c, typename G::GraphNode N, uint32_t i, Range r, const char* what) {
  auto e = g.edge_begin(N, c.flag()), ee = g.edge_end(N, c.flag());
  uint64_t steps = 0;
  for (auto it = r.begin(), ie = r.end(); it != ie; ++it) {
    CCHECK(++steps <= c.m + 1, "edge-range", "%s(node %u) visits more than %llu edges", what, i, (unsigned long long)c.m);
    CCHECK(e != ee && *it == e, "edge-range", "%s(node %u): element %llu is not the corresponding edge of edge_begin()..edge_end()", what, i,
           (unsigned long long)steps - 1);
    ++e;
  }
  CCHECK(e == ee, "edge-range", "%s(node %u) ends after %llu edges, before edge_end()", what, i, (unsigned long long)steps);
}

// pairs (u, v) to query membership for: all pairs of small graphs, otherwise a sample
inline std::vector<std::pair<uint32_t, uint32_t>> query_pairs(const Ctx& c, const Adj& adj) {
  std::vector<std::pair<uint32_t, uint32_t>> q;
  if (c.n <= 24) {
    for (uint32_t u = 0; u < c.n; ++u)
      for (uint32_t v = 0; v < c.n; ++v)
        q.push_back({u, v});
    return q;
  }
  for (uint32_t k = 0; k < 48; ++k) {
    uint32_t u = k < 2 ? (k ? c.n - 1 : 0) : (uint32_t)(prf(c.aseed, 77, k) % c.n);
    for (size_t j = 0; j < adj[u].size() && j < 6; ++j)
      q.push_back({u, adj[u][(size_t)(prf(c.aseed, 78, k, j) % adj[u].size())].dst});
    for (int j = 0; j < 4; ++j)
      q.push_back({u, (uint32_t)(prf(c.aseed, 79, k, j) % c.n)});
    q.push_back({u, 0});
    q.push_back({u, c.n - 1});
  }
  return q;
}
inline bool has_edge(const Adj& adj, uint32_t u, uint32_t v) {
  for (auto& e : adj[u])
    if (e.dst == v)
      return true;
  return false;
}

// Run f in a forked child and report how it ended: 0 = returned, otherwise the
// terminating signal (or 1000 + exit status).  Used only for calls that are
// expected to be able to crash the process (a crash in-process would end the
// whole search without a shrunk counterexample).  The child runs on the calling
// thread only, so f must not need the thread pool.
template <class F>
inline int probe_in_child(F f) {
  // Forking this (ASan, multi-GB) process costs far more than the case itself,
  // and every probed call is repeated in-process right after the probe, where
  // the driver's crash handler saves the running case.  The probes therefore
  // only run on request (they give a crash its specific finding key).
  static const bool enabled = getenv("C11_FORK_PROBES") != nullptr;
  if (!enabled)
    return 0;
  fflush(nullptr);
  pid_t pid = fork();
  if (pid < 0)
    return 0;
  if (pid == 0) {
    int dn = open("/dev/null", O_WRONLY);
    if (dn >= 0) {
      dup2(dn, 2);
      dup2(dn, 1);
    }
    signal(SIGSEGV, SIG_DFL);
    signal(SIGABRT, SIG_DFL);
    signal(SIGBUS, SIG_DFL);
    f();
    _exit(0);
  }
  int st = 0;
  while (waitpid(pid, &st, 0) < 0 && errno == EINTR) {
  }
  if (WIFSIGNALED(st))
    return WTERMSIG(st);
  return WEXITSTATUS(st) ? 1000 + WEXITSTATUS(st) : 0;
}

// silence gPrint chatter of readGraphFromGRFile (stdout carries the driver's verdict lines)
struct StdoutSilencer {
  int saved;
  StdoutSilencer();
  ~StdoutSilencer();
};

// families implemented in the other translation units
void run_csr(const Ctx& c);       // K_CSR_*, K_CSC_*, K_ADAPTOR (c11_graphs.cpp)
void run_inout(const Ctx& c);     // K_INOUT_* (c11_graphs_b.cpp)
void run_linear(const Ctx& c);    // K_LINEAR, K_INLINE (c11_graphs_b.cpp)
void run_morph(const Ctx& c);     // K_LCMORPH_*, K_MORPH_READGRAPH (c11_graphs_c.cpp)
void run_hyper(const Ctx& c);     // K_HYPER (c11_graphs_c.cpp)

} // namespace c11
