// C11 -- checks shared by the CSR-like layouts (LC_CSR_Graph, LC_CSR_CSC_Graph,
// LC_InOut_Graph<LC_CSR_Graph>, LC_CSR_Hypergraph): node handles are ids.
#pragma once
#include "c11_common.h"

namespace c11 {
// known findings (excluded by construction when listed in VERIF_EXCLUDE)
static const char* const KEY_SORTED_EMPTY = "C11/LC_CSR_Graph/findEdgeSortedByDst-no-edges";
static const char* const KEY_REUSE_OOL    = "C11/LC_CSR_Graph/constructFrom-reuse-out-of-line-lockable";
static const char* const KEY_LINEAR_MISALIGNED = "C11/LC_Linear_Graph/misaligned-edge-records";
// LC_Linear_Graph configurations (opts & 7) % 6 whose node record is not a multiple of 8 bytes: out-of-line locks + id (12), void node data without lock (4)
inline bool linear_cfg_misaligned(int cfg) { return cfg == 3 || cfg == 5; }
static const char* const KEY_CSC_SORT_VOID = "C11/LC_CSR_CSC_Graph/sortInEdgesByDst-void-edge-data";

// membership queries on a CSR-like graph whose out-edge sequences equal `adj`
template <class Gr>
static void csr_membership(Gr& g, const Ctx& c, const Adj& adj, const char* stage) {
  if (c.n == 0)
    return;
  bool counted = false;
  for (auto& q : query_pairs(c, adj)) {
    uint32_t u = q.first, v = q.second;
    bool has   = has_edge(adj, u, v);
    uint64_t b = *g.edge_begin(u, c.flag()), e = *g.edge_end(u, c.flag());
    auto it    = g.findEdge(u, v);
    if (!has)
      CCHECK(*it == e, "findEdge", "%s: findEdge(%u,%u) returned edge %llu although the input has no such edge (edge_end = %llu)", stage, u, v,
             (unsigned long long)*it, (unsigned long long)e);
    else {
      CCHECK(*it >= b && *it < e, "findEdge", "%s: findEdge(%u,%u) returned %llu outside [%llu,%llu) although the input has that edge", stage, u, v,
             (unsigned long long)*it, (unsigned long long)b, (unsigned long long)e);
      CCHECK(g.getEdgeDst(it) == v, "findEdge", "%s: findEdge(%u,%u) returned an edge to %u", stage, u, v, (unsigned)g.getEdgeDst(it));
    }
    if (sorted_by_dst(adj[u])) { // precondition of the binary search
      if (c.m == 0) {
        // known finding: the probe after lower_bound dereferences the edge array, which is null without edges
        if (excluded(KEY_SORTED_EMPTY)) {
          if (!counted)
            count_excluded();
          counted = true;
          continue;
        }
        int how = probe_in_child([&] { (void)g.findEdgeSortedByDst(u, v); });
        CCHECK(how == 0, "findEdgeSortedByDst-no-edges", "%s: findEdgeSortedByDst(%u,%u) on a graph with %u nodes and no edges ends the process (%s %d)", stage, u,
               v, c.n, how >= 1000 ? "exit status" : "signal", how >= 1000 ? how - 1000 : how);
      }
      auto is = g.findEdgeSortedByDst(u, v);
      if (!has)
        CCHECK(*is == e, "findEdgeSortedByDst", "%s: findEdgeSortedByDst(%u,%u) returned edge %llu although the input has no such edge (edge_end = %llu, node has %s)",
               stage, u, v, (unsigned long long)*is, (unsigned long long)e, show(c, adj[u]).c_str());
      else {
        CCHECK(*is >= b && *is < e, "findEdgeSortedByDst", "%s: findEdgeSortedByDst(%u,%u) returned %llu outside [%llu,%llu) although the node has %s", stage, u,
               v, (unsigned long long)*is, (unsigned long long)b, (unsigned long long)e, show(c, adj[u]).c_str());
        CCHECK(g.getEdgeDst(is) == v, "findEdgeSortedByDst", "%s: findEdgeSortedByDst(%u,%u) returned an edge to %u (node has %s)", stage, u, v,
               (unsigned)g.getEdgeDst(is), show(c, adj[u]).c_str());
      }
    }
  }
}

// everything that can be read off a CSR-like graph, against `adj`
template <class Gr, bool HasDegree = true>
static Adj csr_check_all(Gr& g, const Ctx& c, const NodeMap<Gr>& nm, const Adj& want, bool sequence, const char* stage) {
  CCHECK(g.size() == c.n, "size", "%s: size() = %zu, input has %u nodes", stage, (size_t)g.size(), c.n);
  CCHECK(g.sizeEdges() == c.m, "size", "%s: sizeEdges() = %zu, input has %llu edges", stage, (size_t)g.sizeEdges(), (unsigned long long)c.m);
  Adj got = observe_out(g, c, nm, c.flag(), c.m + 1);
  check_adj(c, got, want, sequence, "out-edges", stage);
  uint64_t acc = 0;
  for (uint32_t u = 0; u < c.n; ++u) {
    acc += got[u].size();
    if constexpr (HasDegree)
      CCHECK(g.getDegree(u) == got[u].size(), "degree", "%s: getDegree(%u) = %llu, the node has %zu out-edges", stage, u,
             (unsigned long long)g.getDegree(u), got[u].size());
    CCHECK(g[u] == acc, "prefix-sum", "%s: graph[%u] = %llu, edge prefix sum is %llu", stage, u, (unsigned long long)g[u], (unsigned long long)acc);
    CCHECK(g.getEdgePrefixSum()[u] == acc, "prefix-sum", "%s: getEdgePrefixSum()[%u] = %llu, expected %llu", stage, u,
           (unsigned long long)g.getEdgePrefixSum()[u], (unsigned long long)acc);
    if (u < 64 || u + 4 >= c.n) {
      check_edge_range(g, c, u, u, g.edges(u, c.flag()), "edges");
      check_edge_range(g, c, u, u, g.out_edges(u, c.flag()), "out_edges");
    }
  }
  csr_membership(g, c, got, stage);
  return got;
}

template <class Gr>
static void csr_apply_op(Gr& g, const Ctx& c, const NodeMap<Gr>& nm, Adj& model, int op, int step) {
  typedef typename Gr::edge_data_type E;
  typedef typename Gr::GraphNode GN;
  char stage[64];
  auto by_dst = [](const Edge& a, const Edge& b) { return a.dst < b.dst; };
  switch (op) {
  case OP_SORT_ALL_DST: {
    snprintf(stage, sizeof stage, "op %d sortAllEdgesByDst", step);
    g.sortAllEdgesByDst();
    Adj got = observe_out(g, c, nm, c.flag(), c.m + 1);
    for (uint32_t u = 0; u < c.n; ++u)
      check_sorted_perm(c, got[u], model[u], u, by_dst, "sortEdgesByDst", stage);
    model = got;
    break;
  }
  case OP_SORT_SOME_DST: {
    snprintf(stage, sizeof stage, "op %d sortEdgesByDst(some nodes)", step);
    for (uint32_t u = 0; u < c.n; ++u)
      if (prf(c.aseed, u, step) & 1)
        g.sortEdgesByDst(u);
    Adj got = observe_out(g, c, nm, c.flag(), c.m + 1);
    for (uint32_t u = 0; u < c.n; ++u) {
      if (prf(c.aseed, u, step) & 1)
        check_sorted_perm(c, got[u], model[u], u, by_dst, "sortEdgesByDst", stage);
      else if (got[u] != model[u])
        fail("sortEdgesByDst", "%s: node %u was not sorted but changed from %s to %s", stage, u, show(c, model[u]).c_str(), show(c, got[u]).c_str());
    }
    model = got;
    break;
  }
  case OP_SORT_DATA: {
    if constexpr (!std::is_void<E>::value) {
      snprintf(stage, sizeof stage, "op %d sortEdgesByEdgeData", step);
      for (uint32_t u = 0; u < c.n; ++u)
        g.sortEdgesByEdgeData(u, DataLess<E>());
      Adj got    = observe_out(g, c, nm, c.flag(), c.m + 1);
      int etype  = c.etype;
      auto by_dt = [etype](const Edge& a, const Edge& b) { return data_less(etype, a.data, b.data); };
      for (uint32_t u = 0; u < c.n; ++u)
        check_sorted_perm(c, got[u], model[u], u, by_dt, "sortEdgesByEdgeData", stage);
      model = got;
    }
    break;
  }
  case OP_TRANSPOSE: {
    snprintf(stage, sizeof stage, "op %d transpose", step);
    g.transpose();
    Adj got = observe_out(g, c, nm, c.flag(), c.m + 1);
    check_adj(c, got, reversed(model), false, "transpose", stage);
    model = got;
    break;
  }
  case OP_SORT_CUSTOM: {
    // comparator over EdgeSortValue: destination descending, then edge data
    snprintf(stage, sizeof stage, "op %d sortEdges(dst desc, data)", step);
    typedef galois::graphs::EdgeSortValue<GN, E> SV;
    for (uint32_t u = 0; u < c.n; ++u)
      g.sortEdges(u, [](const SV& a, const SV& b) {
        if (a.dst != b.dst)
          return a.dst > b.dst;
        if constexpr (!std::is_void<E>::value)
          return DataLess<E>()(a.get(), b.get());
        else
          return false;
      });
    Adj got   = observe_out(g, c, nm, c.flag(), c.m + 1);
    int etype = c.etype;
    auto cmp  = [etype](const Edge& a, const Edge& b) { return a.dst != b.dst ? a.dst > b.dst : data_less(etype, a.data, b.data); };
    for (uint32_t u = 0; u < c.n; ++u)
      check_sorted_perm(c, got[u], model[u], u, cmp, "sortEdges", stage);
    model = got;
    break;
  }
  default:
    break;
  }
}

} // namespace c11
