// Independent writer/decoder for Galois binary graph files (.gr), written from
// the documented layout (FileGraph.h / OfflineGraph.h comments):
//   uint64 version (1|2), uint64 sizeofEdgeData, uint64 numNodes, uint64 numEdges,
//   uint64 outIdx[numNodes]   (index one past the last edge of each node),
//   V1: uint32 dst[numEdges] + 4 bytes padding if numEdges is odd
//   V2: uint64 dst[numEdges] (already 8-byte aligned: no padding)
//   edgeData[numEdges] of sizeofEdgeData bytes each
// all little endian.  Not derived from, and not sharing code with, the library.
#pragma once
#include <cstdint>
#include <cstdio>
#include <cstring>
#include <string>
#include <vector>

namespace gr {
struct Edge {
  uint64_t src, dst;
  uint64_t data; // low sizeofEdgeData bytes are stored (<= 8); wider: repeated
};
struct Graph {
  uint64_t numNodes = 0;
  uint64_t sizeofEdge = 0; // 0, 4, 8, 12
  int version = 1;
  std::vector<std::vector<std::pair<uint64_t, uint64_t>>> adj; // per src: (dst, data) in file order
  uint64_t numEdges() const {
    uint64_t n = 0;
    for (auto& a : adj)
      n += a.size();
    return n;
  }
};

inline void put64(std::vector<unsigned char>& b, uint64_t v) {
  for (int i = 0; i < 8; ++i)
    b.push_back((unsigned char)(v >> (8 * i)));
}
inline void put32(std::vector<unsigned char>& b, uint32_t v) {
  for (int i = 0; i < 4; ++i)
    b.push_back((unsigned char)(v >> (8 * i)));
}
// edge data of width w derived from a 64-bit value: bytes i = (v >> 8(i%8)) ^ (i/8)
inline void put_data(std::vector<unsigned char>& b, uint64_t v, uint64_t w) {
  for (uint64_t i = 0; i < w; ++i)
    b.push_back((unsigned char)((v >> (8 * (i % 8))) ^ (i / 8)));
}
inline bool data_matches(const unsigned char* p, uint64_t v, uint64_t w) {
  for (uint64_t i = 0; i < w; ++i)
    if (p[i] != (unsigned char)((v >> (8 * (i % 8))) ^ (i / 8)))
      return false;
  return true;
}

inline std::vector<unsigned char> encode(const Graph& g) {
  std::vector<unsigned char> b;
  uint64_t ne = g.numEdges();
  put64(b, (uint64_t)g.version);
  put64(b, g.sizeofEdge);
  put64(b, g.numNodes);
  put64(b, ne);
  uint64_t acc = 0;
  for (uint64_t n = 0; n < g.numNodes; ++n) {
    acc += g.adj[n].size();
    put64(b, acc);
  }
  for (uint64_t n = 0; n < g.numNodes; ++n)
    for (auto& e : g.adj[n]) {
      if (g.version == 1)
        put32(b, (uint32_t)e.first);
      else
        put64(b, e.first);
    }
  if (g.version == 1 && (ne & 1))
    put32(b, 0);
  for (uint64_t n = 0; n < g.numNodes; ++n)
    for (auto& e : g.adj[n])
      put_data(b, e.second, g.sizeofEdge);
  return b;
}

inline bool write_file(const std::string& path, const std::vector<unsigned char>& b) {
  FILE* f = fopen(path.c_str(), "wb");
  if (!f)
    return false;
  size_t w = b.empty() ? 0 : fwrite(b.data(), 1, b.size(), f);
  fclose(f);
  return w == b.size();
}
inline bool read_file(const std::string& path, std::vector<unsigned char>& b) {
  FILE* f = fopen(path.c_str(), "rb");
  if (!f)
    return false;
  fseek(f, 0, SEEK_END);
  long n = ftell(f);
  fseek(f, 0, SEEK_SET);
  b.resize((size_t)n);
  size_t r = n ? fread(b.data(), 1, (size_t)n, f) : 0;
  fclose(f);
  return r == (size_t)n;
}
inline uint64_t get64(const unsigned char* p) {
  uint64_t v = 0;
  for (int i = 0; i < 8; ++i)
    v |= (uint64_t)p[i] << (8 * i);
  return v;
}
inline uint32_t get32(const unsigned char* p) {
  uint32_t v = 0;
  for (int i = 0; i < 4; ++i)
    v |= (uint32_t)p[i] << (8 * i);
  return v;
}
// decode; edge data kept as raw bytes offset; returns false on a malformed file
struct Decoded {
  uint64_t version, sizeofEdge, numNodes, numEdges;
  std::vector<uint64_t> outIdx, dst;
  size_t dataOffset;
};
inline bool decode(const std::vector<unsigned char>& b, Decoded& d) {
  if (b.size() < 32)
    return false;
  d.version    = get64(&b[0]);
  d.sizeofEdge = get64(&b[8]);
  d.numNodes   = get64(&b[16]);
  d.numEdges   = get64(&b[24]);
  if (d.version != 1 && d.version != 2)
    return false;
  size_t off = 32;
  if (b.size() < off + 8 * d.numNodes)
    return false;
  d.outIdx.resize(d.numNodes);
  for (uint64_t i = 0; i < d.numNodes; ++i, off += 8)
    d.outIdx[i] = get64(&b[off]);
  size_t w = d.version == 1 ? 4 : 8;
  if (b.size() < off + w * d.numEdges)
    return false;
  d.dst.resize(d.numEdges);
  for (uint64_t i = 0; i < d.numEdges; ++i, off += w)
    d.dst[i] = w == 4 ? get32(&b[off]) : get64(&b[off]);
  if (d.version == 1 && (d.numEdges & 1))
    off += 4;
  d.dataOffset = off;
  return b.size() >= off + d.sizeofEdge * d.numEdges;
}
} // namespace gr
