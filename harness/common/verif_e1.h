// Common driver for fork-per-case harnesses (engine E1 and the sequential
// fork-per-case histories).  The parent runs rapidcheck and never touches
// Galois; each generated case is executed in a fresh forked child, optionally
// under the gsched scheduler, and reports a one-line verdict through a pipe.
//
// A harness TU defines, before including this file, nothing; after including
// it defines:
//   const char* const HARNESS;                 // name
//   const std::vector<const char*> FIELDS;     // names of the case fields
//   Case generate();                           // inside rc::gen::exec
//   void run(const Case&);                     // child: vfail()/label()/...
//   std::string finding_key(const Case&, const std::string& failkey);
// and ends with  VERIF_E1_MAIN
#pragma once
#include <rapidcheck.h>

#include <algorithm>
#include <cerrno>
#include <csignal>
#include <cstdarg>
#include <cstdint>
#include <cstdio>
#include <cstdlib>
#include <cstring>
#include <fcntl.h>
#include <fstream>
#include <map>
#include <poll.h>
#include <set>
#include <sstream>
#include <string>
#include <sys/personality.h>
#include <sys/wait.h>
#include <unistd.h>
#include <vector>

#include "gsched.h"

namespace verif {

struct Case {
  std::vector<int64_t> f;
  int64_t& operator[](size_t i) { return f[i]; }
  int64_t operator[](size_t i) const { return f[i]; }
};

inline std::ostream& operator<<(std::ostream& os, const Case& c) {
  os << "Case[";
  for (size_t i = 0; i < c.f.size(); ++i)
    os << (i ? "," : "") << c.f[i];
  return os << "]";
}

// bookkeeping helpers: execution is serialised by gsched, so harness-side
// observation uses plain variables in uninstrumented functions -- they are
// invisible to the scheduler and add no happens-before edges of their own
#define VERIF_NOINSTR __attribute__((no_sanitize("thread"), noinline))

inline uint64_t prf(uint64_t seed, uint64_t a, uint64_t b = 0, uint64_t c = 0) {
  uint64_t z = seed * 0x9e3779b97f4a7c15ULL + a * 0xbf58476d1ce4e5b9ULL +
               b * 0x94d049bb133111ebULL + c * 0x2545F4914F6CDD1DULL + 0x1234567;
  z = (z ^ (z >> 30)) * 0xbf58476d1ce4e5b9ULL;
  z = (z ^ (z >> 27)) * 0x94d049bb133111ebULL;
  return z ^ (z >> 31);
}

// ---- provided by the harness TU
extern const char* const HARNESS;
extern const std::vector<const char*> FIELDS;
Case generate();
void run(const Case&);
std::string finding_key(const Case&, const std::string& failkey);
// optional: clamp arbitrary field values into the harness' input domain (used
// by the libFuzzer adapter, whose cases are decoded from raw bytes)
void normalize_case(Case& c) __attribute__((weak));
// optional: exhaustive enumeration of a small finite sub-domain (mode --enum)
void enumerate_cases(std::vector<Case>& out) __attribute__((weak));

// ------------------------------------------------------------ child side
static int g_verdict_fd = 2;
// in-process mode (value-quantified properties without per-case runtime
// state): run() is called in the rapidcheck process and verdicts are thrown
static bool g_inproc = false;
struct VerdictEx {
  std::string status, key, labels, nums, msg;
  bool nontrivial;
};
static std::map<std::string, std::string> g_labels;
static bool g_nontrivial = false;

inline void label(const std::string& k, const std::string& v) {
  g_labels[k] = v;
}
inline void label(const std::string& k, long v) {
  g_labels[k] = std::to_string(v);
}
inline void nontrivial(bool b) { g_nontrivial = b; }

static void write_all(int fd, const std::string& s) {
  size_t o = 0;
  while (o < s.size()) {
    ssize_t r = ::write(fd, s.data() + o, s.size() - o);
    if (r <= 0)
      break;
    o += r;
  }
}
static std::string labels_str() {
  std::string s;
  for (auto& kv : g_labels) {
    if (!s.empty())
      s += ";";
    s += kv.first + "=" + kv.second;
  }
  return s;
}
static std::string sanitize(std::string s) {
  for (auto& c : s)
    if (c == '\n' || c == '\t' || c == '"' || c == '\\')
      c = ' ';
  return s;
}

// verdict line: STATUS \t key \t nontrivial \t labels \t steps,switches,preempt \t msg
[[noreturn]] inline void vfinish(const char* status, const std::string& key,
                                 const std::string& msg) {
  char nums[96];
  snprintf(nums, sizeof nums, "%llu,%llu,%llu",
           (unsigned long long)gsched_now(),
           (unsigned long long)gsched_switches(),
           (unsigned long long)gsched_preemptions());
  if (g_inproc)
    throw VerdictEx{status, key, labels_str(), nums, sanitize(msg), g_nontrivial};
  std::string line = std::string(status) + "\t" + key + "\t" +
                     (g_nontrivial ? "1" : "0") + "\t" + labels_str() + "\t" +
                     nums + "\t" + sanitize(msg) + "\n";
  write_all(g_verdict_fd, line);
  _exit(0);
}
[[noreturn]] inline void vfail(const char* key, const char* fmt, ...) {
  char buf[1024];
  va_list ap;
  va_start(ap, fmt);
  vsnprintf(buf, sizeof buf, fmt, ap);
  va_end(ap);
  vfinish("FAIL", key, buf);
}
[[noreturn]] inline void vok() { vfinish("OK", "-", ""); }
[[noreturn]] inline void vinconclusive(const char* why) {
  vfinish("INCONCLUSIVE", why, "");
}
#define VCHECK(cond, key, ...)                                                 \
  do {                                                                         \
    if (!(cond))                                                               \
      ::verif::vfail(key, __VA_ARGS__);                                        \
  } while (0)

static void gsched_fail_to_verdict(const char* kind, const char* detail) {
  if (strcmp(kind, "budget") == 0)
    vinconclusive("step-budget");
  vfail(kind, "%s", detail);
}

// common schedule fields (first in every E1 case)
enum { S_STRATEGY = 0, S_PARAM, S_PLAIN, S_SPURIOUS, S_SEED, S_NFIELDS };
#define VERIF_SCHED_FIELDS "strategy", "sparam", "plain_gap", "spurious", "sseed"

inline void start_scheduler(const Case& c, uint64_t est_steps = 20000,
                            uint64_t step_budget = 0,
                            uint64_t hard_budget = 30000000) {
  gsched_config cfg{};
  cfg.seed        = (uint64_t)c[S_SEED];
  cfg.strategy    = (int)c[S_STRATEGY];
  cfg.param       = (int)c[S_PARAM];
  cfg.plain_gap   = (int)c[S_PLAIN];
  cfg.spurious    = (int)c[S_SPURIOUS];
  cfg.est_steps   = est_steps;
  cfg.step_budget = step_budget;
  cfg.hard_budget = hard_budget;
  gsched_set_fail_handler(gsched_fail_to_verdict);
  gsched_start(&cfg);
}

// uniform integer in [lo, hi): rapidcheck's inRange scales with the test size
// and collapses towards lo for the first cases; configuration choices must
// not, so they are drawn at full size (shrinking towards lo still works)
template <typename T>
rc::Gen<T> uni(T lo, T hi) {
  return rc::gen::resize(100, rc::gen::inRange<T>(lo, hi));
}

// generator for the common schedule fields (inside gen::exec)
inline void gen_schedule(Case& c) {
  using namespace rc;
  int strat = *gen::weightedElement<int>({{6, 0}, {3, 1}, {1, 2}});
  c[S_STRATEGY] = strat;
  if (strat == 0)
    c[S_PARAM] = *gen::element<int>(2, 3, 4, 8, 16, 32, 64);
  else if (strat == 1)
    c[S_PARAM] = *uni(1, 6);
  else
    c[S_PARAM] = *gen::element<int>(1, 2, 3, 5, 17);
  c[S_PLAIN]    = *gen::weightedElement<int>({{5, 0}, {2, 64}, {2, 8}});
  c[S_SPURIOUS] = *gen::weightedElement<int>({{3, 0}, {1, 1}});
  c[S_SEED]     = *gen::noShrink(uni<int64_t>(1, 1LL << 40));
}

// known-finding exclusion (VERIF_EXCLUDE="key1,key2")
inline bool excluded(const std::string& key) {
  static std::set<std::string> ex = [] {
    std::set<std::string> s;
    const char* e = getenv("VERIF_EXCLUDE");
    if (e) {
      std::stringstream ss(e);
      std::string tok;
      while (std::getline(ss, tok, ','))
        if (!tok.empty())
          s.insert(tok);
    }
    return s;
  }();
  return ex.count(key) != 0;
}
static long g_excluded_draws = 0;
inline void count_excluded() { ++g_excluded_draws; }

// ----------------------------------------------------------- parent side
struct Outcome {
  std::string status; // OK FAIL INCONCLUSIVE
  std::string key, labels, nums, msg;
  bool nontrivial = false;
};

static std::string case_json(const Case& c) {
  std::string s = "{";
  for (size_t i = 0; i < c.f.size(); ++i) {
    if (i)
      s += ",";
    // fields beyond the named ones are a variable-length tail x0, x1, ...
    s += "\"" + (i < FIELDS.size() ? std::string(FIELDS[i]) : "x" + std::to_string(i - FIELDS.size())) +
         "\":" + std::to_string(c.f[i]);
  }
  return s + "}";
}
static uint64_t case_hash(const Case& c) {
  uint64_t h = 1469598103934665603ULL;
  for (auto v : c.f) {
    for (int i = 0; i < 8; ++i) {
      h ^= (uint64_t)(v >> (8 * i)) & 0xff;
      h *= 1099511628211ULL;
    }
  }
  return h;
}

static int g_timeout_ms = 20000;

static char g_crash_line[4096];
static char g_crash_key[256];
static char g_crash_path[512];
static char g_crash_json[3072];
static bool g_replay_mode = false;
static void crash_handler(int sig) {
  if (g_replay_mode) {
    char line[1024];
    snprintf(line, sizeof line, "REPLAY harness=%s runs=1 fails=1 inconclusive=0 key=%s msg=crashed with signal %d in-process\n", HARNESS,
             g_crash_key, sig);
    ssize_t r = write(1, line, strlen(line));
    (void)r;
    _exit(1);
  }
  // in-process mode: save the running case as replay and report it
  int fd = open(g_crash_path, O_WRONLY | O_CREAT | O_TRUNC, 0644);
  if (fd >= 0) {
    ssize_t r = write(fd, g_crash_json, strlen(g_crash_json));
    (void)r;
    close(fd);
  }
  char sigs[32];
  snprintf(sigs, sizeof sigs, "%d", sig);
  ssize_t r = write(1, g_crash_line, strlen(g_crash_line));
  (void)r;
  _exit(1);
}
static std::string g_rdir = ".", g_tag = "w0";
std::string finding_key(const Case&, const std::string& failkey);
static uint64_t case_hash(const Case& c);
static std::string case_json(const Case& c);

static Outcome run_inproc(const Case& c) {
  Outcome o;
  g_labels.clear();
  g_nontrivial = false;
  std::string fkey = finding_key(c, "crash");
  snprintf(g_crash_key, sizeof g_crash_key, "%s", fkey.c_str());
  snprintf(g_crash_path, sizeof g_crash_path, "%s/%s-%s-crash-%llu.json", g_rdir.c_str(), HARNESS,
           g_tag.c_str(), (unsigned long long)(case_hash(c) % 100000000));
  snprintf(g_crash_json, sizeof g_crash_json,
           "{\"harness\":\"%s\",\"finding_key\":\"%s\",\"fail_key\":\"crash\",\"message\":\"crashed (signal) in-process; not shrunk\",\"case\":%s}\n",
           HARNESS, fkey.c_str(), case_json(c).c_str());
  snprintf(g_crash_line, sizeof g_crash_line,
           "FALSIFIED harness=%s key=%s replay=%s msg=crashed (signal) in-process; not shrunk\n", HARNESS,
           fkey.c_str(), g_crash_path);
  try {
    run(c);
    vok();
  } catch (VerdictEx& e) {
    o.status     = e.status;
    o.key        = e.key;
    o.labels     = e.labels;
    o.nums       = e.nums;
    o.msg        = e.msg;
    o.nontrivial = e.nontrivial;
  }
  return o;
}

static Outcome run_in_child(const Case& c) {
  if (g_inproc)
    return run_inproc(c);
  int fds[2];
  if (pipe(fds))
    abort();
  fflush(nullptr);
  pid_t pid = fork();
  if (pid == 0) {
    close(fds[0]);
    g_verdict_fd = fds[1];
    if (!getenv("VERIF_CHILD_STDERR")) {
      int dn = open("/dev/null", O_WRONLY);
      if (dn >= 0)
        dup2(dn, 2);
    }
    g_labels.clear();
    g_nontrivial = false;
    run(c);
    vok();
  }
  close(fds[1]);
  std::string out;
  char buf[4096];
  bool timedout = false;
  int left      = g_timeout_ms;
  while (true) {
    struct pollfd p = {fds[0], POLLIN, 0};
    int r           = poll(&p, 1, 250);
    if (r > 0) {
      ssize_t n = read(fds[0], buf, sizeof buf);
      if (n <= 0)
        break;
      out.append(buf, n);
    } else {
      left -= 250;
      if (left <= 0) {
        timedout = true;
        kill(pid, SIGKILL);
        break;
      }
    }
  }
  close(fds[0]);
  int st = 0;
  waitpid(pid, &st, 0);
  Outcome o;
  if (timedout) {
    o.status = "INCONCLUSIVE";
    o.key    = "watchdog";
    return o;
  }
  size_t nl = out.find('\n');
  if (nl == std::string::npos) {
    o.status = "FAIL";
    char b[64];
    if (WIFSIGNALED(st))
      snprintf(b, sizeof b, "crash-signal-%d", WTERMSIG(st));
    else
      snprintf(b, sizeof b, "exit-%d-without-verdict", WEXITSTATUS(st));
    o.key = b;
    o.msg = "child ended without verdict";
    return o;
  }
  std::vector<std::string> parts;
  std::string line = out.substr(0, nl), tok;
  std::stringstream ss(line);
  while (std::getline(ss, tok, '\t'))
    parts.push_back(tok);
  parts.resize(6);
  o.status     = parts[0];
  o.key        = parts[1];
  o.nontrivial = parts[2] == "1";
  o.labels     = parts[3];
  o.nums       = parts[4];
  o.msg        = parts[5];
  return o;
}

struct Agg {
  long evaluations = 0, inconclusive = 0, ok = 0;
  std::set<uint64_t> nontriv;
  std::map<std::string, std::map<std::string, long>> hist;
  std::vector<std::string> samples, nt_samples;
  std::map<std::string, long> inconclusive_kinds;
  void add(const Case& c, const Outcome& o) {
    ++evaluations;
    if (o.status == "INCONCLUSIVE") {
      ++inconclusive;
      ++inconclusive_kinds[o.key];
      return;
    }
    if (o.status == "OK")
      ++ok;
    if (o.nontrivial)
      nontriv.insert(case_hash(c));
    std::stringstream ss(o.labels);
    std::string kv;
    while (std::getline(ss, kv, ';')) {
      size_t e = kv.find('=');
      if (e != std::string::npos)
        ++hist[kv.substr(0, e)][kv.substr(e + 1)];
    }
    std::string s = "{\"case\":" + case_json(c) + ",\"labels\":\"" + o.labels +
                    "\",\"steps_switches_preempt\":\"" + o.nums + "\"}";
    if (samples.size() < 3)
      samples.push_back(s);
    if (o.nontrivial && nt_samples.size() < 5)
      nt_samples.push_back(s);
  }
  std::string json() const {
    std::string s = "{\"evaluations\":" + std::to_string(evaluations) +
                    ",\"ok\":" + std::to_string(ok) +
                    ",\"inconclusive\":" + std::to_string(inconclusive) +
                    ",\"excluded_draws\":" + std::to_string(g_excluded_draws) +
                    ",\"nontrivial_hashes\":[";
    bool first = true;
    for (auto h : nontriv) {
      if (!first)
        s += ",";
      first = false;
      s += "\"" + std::to_string(h) + "\"";
    }
    s += "],\"inconclusive_kinds\":{";
    first = true;
    for (auto& kv : inconclusive_kinds) {
      if (!first)
        s += ",";
      first = false;
      s += "\"" + kv.first + "\":" + std::to_string(kv.second);
    }
    s += "},\"hist\":{";
    first = true;
    for (auto& kv : hist) {
      if (!first)
        s += ",";
      first = false;
      s += "\"" + kv.first + "\":{";
      bool f2 = true;
      for (auto& vv : kv.second) {
        if (!f2)
          s += ",";
        f2 = false;
        s += "\"" + vv.first + "\":" + std::to_string(vv.second);
      }
      s += "}";
    }
    s += "},\"samples\":[";
    first = true;
    for (auto* v : {&nt_samples, &samples})
      for (auto& x : *v) {
        if (!first)
          s += ",";
        first = false;
        s += x;
      }
    s += "]}";
    return s;
  }
};

static bool parse_case_file(const char* path, Case& c) {
  std::ifstream in(path);
  if (!in)
    return false;
  std::stringstream ss;
  ss << in.rdbuf();
  std::string s = ss.str();
  c.f.assign(FIELDS.size(), 0);
  for (size_t i = 0; i < FIELDS.size(); ++i) {
    std::string k = "\"" + std::string(FIELDS[i]) + "\"";
    size_t p      = s.find(k);
    if (p == std::string::npos)
      continue;
    p = s.find(':', p);
    if (p == std::string::npos)
      continue;
    c.f[i] = strtoll(s.c_str() + p + 1, nullptr, 10);
  }
  for (size_t i = 0;; ++i) {
    std::string k = "\"x" + std::to_string(i) + "\"";
    size_t p      = s.find(k);
    if (p == std::string::npos)
      break;
    p = s.find(':', p);
    c.f.push_back(strtoll(s.c_str() + p + 1, nullptr, 10));
  }
  return true;
}

static void write_replay(const std::string& path, const Case& c,
                         const Outcome& o, const std::string& fkey) {
  std::ofstream out(path);
  out << "{\"harness\":\"" << HARNESS << "\",\"finding_key\":\"" << fkey
      << "\",\"fail_key\":\"" << o.key << "\",\"message\":\"" << sanitize(o.msg)
      << "\",\"case\":" << case_json(c) << "}\n";
}

inline void ensure_no_aslr(char** argv) {
  int p = personality(0xffffffff);
  if (p != -1 && !(p & ADDR_NO_RANDOMIZE) && !getenv("VERIF_NO_REEXEC")) {
    if (personality(p | ADDR_NO_RANDOMIZE) != -1) {
      setenv("VERIF_NO_REEXEC", "1", 1);
      execv("/proc/self/exe", argv);
    }
  }
}

// usage:
//   harness --gen  --out <stats.json> [--replay-dir d] [--tag t]   (RC_PARAMS from env)
//   harness --replay <file> [--times k]
inline int e1_main(int argc, char** argv, bool inproc = false) {
  g_inproc = inproc;
  if (inproc) {
    signal(SIGSEGV, crash_handler);
    signal(SIGABRT, crash_handler);
    signal(SIGFPE, crash_handler);
    signal(SIGBUS, crash_handler);
  } else
    ensure_no_aslr(argv);
  std::string mode, out, replay, rdir = ".", tag = "w0";
  int times = 1, sweep = 1;
  for (int i = 1; i < argc; ++i) {
    std::string a = argv[i];
    if (a == "--gen")
      mode = "gen";
    else if (a == "--enum")
      mode = "enum";
    else if (a == "--seeds" && i + 1 < argc) {
      mode = "seeds";
      out  = argv[++i];
    }
    else if (a == "--replay" && i + 1 < argc) {
      mode   = "replay";
      replay = argv[++i];
    } else if (a == "--out" && i + 1 < argc)
      out = argv[++i];
    else if (a == "--times" && i + 1 < argc)
      times = atoi(argv[++i]);
    else if (a == "--sweep" && i + 1 < argc)
      sweep = atoi(argv[++i]);
    else if (a == "--replay-dir" && i + 1 < argc)
      g_rdir = rdir = argv[++i];
    else if (a == "--tag" && i + 1 < argc)
      g_tag = tag = argv[++i];
    else if (a == "--timeout-ms" && i + 1 < argc)
      g_timeout_ms = atoi(argv[++i]);
  }
  if (mode == "replay") {
    g_replay_mode = true; // an in-process crash is reported as a failed replay
    Case c;
    if (!parse_case_file(replay.c_str(), c)) {
      fprintf(stderr, "cannot read %s\n", replay.c_str());
      return 2;
    }
    int fails = 0, inconc = 0;
    std::string lastkey, lastmsg;
    // --sweep N: the saved schedule seed only reproduces on an identical
    // binary; a regression replay therefore also tries the N-1 following
    // schedule seeds of the same case and counts how many fail
    // (only harnesses whose cases begin with the schedule fields have a
    // schedule seed; the others replay the saved case unchanged, a few times)
    Case base       = c;
    bool sched_case = FIELDS.size() > (size_t)S_SEED && std::string(FIELDS[S_SEED]) == "sseed";
    if (!sched_case)
      sweep = std::min(sweep, 3);
    times *= sweep;
    for (int i = 0; i < times; ++i) {
      c         = base;
      if (sched_case)
        c[S_SEED] += i % sweep;
      Outcome o = run_in_child(c);
      if (o.status == "FAIL") {
        ++fails;
        lastkey = finding_key(c, o.key);
        lastmsg = o.msg;
      } else if (o.status != "OK")
        ++inconc;
    }
    printf("REPLAY harness=%s runs=%d fails=%d inconclusive=%d key=%s msg=%s\n",
           HARNESS, times, fails, inconc, lastkey.c_str(), lastmsg.c_str());
    return fails ? 1 : 0;
  }
  if (mode == "seeds") {
    // starting corpus for the libFuzzer build of this harness: generated cases
    // in the byte encoding fuzz_one() decodes (2 bytes per field, 1 per tail value)
    int k = 0;
    rc::check(std::string("seeds ") + HARNESS, [&] {
      Case c = *rc::gen::exec([] { return generate(); });
      std::string b;
      for (size_t i = 0; i < c.f.size(); ++i) {
        b.push_back((char)(c.f[i] & 0xff));
        if (i < FIELDS.size())
          b.push_back((char)((c.f[i] >> 8) & 0xff));
      }
      char name[64];
      snprintf(name, sizeof name, "/seed-%05d", k++);
      std::ofstream f(out + name, std::ios::binary);
      f.write(b.data(), (std::streamsize)b.size());
    });
    printf("SEEDS harness=%s written=%d\n", HARNESS, k);
    return 0;
  }
  if (mode == "enum") {
    std::vector<Case> cases;
    if (enumerate_cases)
      enumerate_cases(cases);
    Agg agg;
    for (auto& c : cases) {
      Outcome o = run_in_child(c);
      agg.add(c, o);
      if (o.status == "FAIL") {
        std::string fkey = finding_key(c, o.key);
        std::string path = rdir + "/" + HARNESS + "-enum-" + std::to_string(case_hash(c) % 100000000) + ".json";
        write_replay(path, c, o, fkey);
        if (!out.empty()) {
          std::ofstream f(out);
          f << agg.json() << "\n";
        }
        printf("FALSIFIED harness=%s key=%s replay=%s msg=%s\n", HARNESS, fkey.c_str(), path.c_str(), o.msg.c_str());
        return 1;
      }
    }
    if (!out.empty()) {
      std::ofstream f(out);
      f << agg.json() << "\n";
    }
    printf("PASSED harness=%s exhaustive evaluations=%ld nontrivial=%zu\n", HARNESS, agg.evaluations, agg.nontriv.size());
    return 0;
  }
  if (mode != "gen") {
    fprintf(stderr, "usage: %s --gen --out f | --replay f\n", argv[0]);
    return 2;
  }
  Agg agg;
  Case lastfail, firstfail;
  Outcome lastout, firstout;
  bool any_fail = false;
  bool okall    = rc::check(std::string("property ") + HARNESS, [&] {
    Case c    = *rc::gen::exec([] { return generate(); });
    Outcome o = run_in_child(c);
    agg.add(c, o);
    if (o.status == "FAIL") {
      if (!any_fail) { // the case that failed first, before any shrinking
        firstfail = c;
        firstout  = o;
      }
      lastfail = c;
      lastout  = o;
      any_fail = true;
      RC_FAIL(o.key + ": " + o.msg);
    }
  });
  if (!out.empty()) {
    std::ofstream f(out);
    f << agg.json() << "\n";
  }
  if (!okall && any_fail) {
    std::string fkey = finding_key(lastfail, lastout.key);
    std::string path = rdir + "/" + HARNESS + "-" + tag + "-" +
                       std::to_string(case_hash(lastfail) % 100000000) + ".json";
    write_replay(path, lastfail, lastout, fkey);
    // in-process harnesses may carry state of the subject from one case to the next (deliberately, where
    // reuse is part of the property); a shrunk case found in a process that already saw a failure need not
    // fail in a fresh one, the first failing case does: it is kept next to the shrunk one
    write_replay(path + ".orig", firstfail, firstout, finding_key(firstfail, firstout.key));
    printf("FALSIFIED harness=%s key=%s replay=%s msg=%s\n", HARNESS,
           fkey.c_str(), path.c_str(), lastout.msg.c_str());
    return 1;
  }
  printf("PASSED harness=%s evaluations=%ld nontrivial=%zu inconclusive=%ld\n",
         HARNESS, agg.evaluations, agg.nontriv.size(), agg.inconclusive);
  return 0;
}

} // namespace verif

#ifdef VERIF_LIBFUZZER
// ---- libFuzzer adapter: the same harness as a coverage-guided fuzz target.
// Bytes -> Case: the first FIELDS.size() bytes (2 bytes each, little endian)
// are the named fields, the rest is the variable tail (one value per byte);
// normalize_case() clamps them into the domain.  A failing case is written as
// the same JSON replay file the rapidcheck driver writes, then the process
// traps so that libFuzzer also keeps its crash artifact.
namespace verif {
static Agg g_fuzz_agg;
static void fuzz_dump_stats() {
  const char* p = getenv("VERIF_STATS");
  if (p) {
    std::ofstream f(p);
    f << g_fuzz_agg.json() << "\n";
  }
}
inline int fuzz_one(const uint8_t* data, size_t size) {
  Case c;
  size_t nf = FIELDS.size();
  c.f.assign(nf, 0);
  size_t o = 0;
  for (size_t i = 0; i < nf && o + 1 < size; ++i, o += 2)
    c.f[i] = (int64_t)data[o] | ((int64_t)data[o + 1] << 8);
  for (; o < size; ++o)
    c.f.push_back(data[o]);
  if (normalize_case)
    normalize_case(c);
  if (const char* dump = getenv("VERIF_DUMP_CASE")) { // artifact -> replay file
    Outcome o;
    o.key = "crash";
    o.msg = "decoded from a libFuzzer artifact";
    write_replay(dump, c, o, finding_key(c, "crash"));
  }
  g_inproc  = true;
  Outcome r = run_inproc(c);
  g_fuzz_agg.add(c, r);
  if (r.status == "FAIL") {
    std::string fkey = finding_key(c, r.key);
    const char* rd   = getenv("VERIF_REPLAY_DIR");
    std::string path = std::string(rd ? rd : ".") + "/" + HARNESS + "-fz-" + std::to_string(case_hash(c) % 100000000) + ".json";
    write_replay(path, c, r, fkey);
    printf("FALSIFIED harness=%s key=%s replay=%s msg=%s\n", HARNESS, fkey.c_str(), path.c_str(), r.msg.c_str());
    fflush(stdout);
    fuzz_dump_stats();
    __builtin_trap();
  }
  return 0;
}
} // namespace verif
#define VERIF_INPROC_MAIN(init)                                                \
  extern "C" int LLVMFuzzerInitialize(int*, char***) {                         \
    static init;                                                               \
    atexit(verif::fuzz_dump_stats);                                            \
    return 0;                                                                  \
  }                                                                            \
  extern "C" int LLVMFuzzerTestOneInput(const uint8_t* d, size_t n) {          \
    return verif::fuzz_one(d, n);                                              \
  }
#else
// in-process variant: `init` is a statement list run once before the search
#define VERIF_INPROC_MAIN(init)                                                \
  int main(int argc, char** argv) {                                            \
    init;                                                                      \
    return verif::e1_main(argc, argv, true);                                   \
  }
#endif
#define VERIF_E1_MAIN                                                          \
  int main(int argc, char** argv) { return verif::e1_main(argc, argv); }
