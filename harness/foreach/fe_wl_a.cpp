#include "fe_wl.h"
namespace fe {
using namespace galois::worklists;
const Entry GROUP_A[] = {
    {"PerSocketChunkFIFO<1>", &run_loop<PerSocketChunkFIFO<1>>, 0, 0},
    {"PerSocketChunkFIFO<4>", &run_loop<PerSocketChunkFIFO<4>>, 0, 0},
    {"PerSocketChunkFIFO<64>", &run_loop<PerSocketChunkFIFO<64>>, 0, 0},
    {"PerSocketChunkLIFO<1>", &run_loop<PerSocketChunkLIFO<1>>, 0, 0},
    {"PerSocketChunkLIFO<4>", &run_loop<PerSocketChunkLIFO<4>>, 0, 0},
    {"PerSocketChunkBag<2>", &run_loop<PerSocketChunkBag<2>>, 0, 0},
    {"ChunkFIFO<1>", &run_loop<ChunkFIFO<1>>, 0, 0},
    {"ChunkFIFO<4>", &run_loop<ChunkFIFO<4>>, 0, 0},
    {"ChunkLIFO<4>", &run_loop<ChunkLIFO<4>>, 0, 0},
};
const int GROUP_A_N = sizeof(GROUP_A) / sizeof(GROUP_A[0]);
} // namespace fe
