#include "fe_wl.h"
namespace fe {
using namespace galois::worklists;
const Entry GROUP_B[] = {
    {"PerThreadChunkFIFO<1>", &run_loop<PerThreadChunkFIFO<1>>, 0, 0},
    {"PerThreadChunkFIFO<4>", &run_loop<PerThreadChunkFIFO<4>>, 0, 0},
    {"PerThreadChunkLIFO<1>", &run_loop<PerThreadChunkLIFO<1>>, 0, 0},
    {"PerThreadChunkLIFO<4>", &run_loop<PerThreadChunkLIFO<4>>, 0, 0},
    {"FIFO", &run_loop<FIFO<>>, 0, 0},
    {"LIFO", &run_loop<LIFO<>>, 0, 0},
    {"GFIFO", &run_loop<GFIFO<>>, 0, 0},
    {"GLIFO", &run_loop<GLIFO<>>, 0, 0},
};
const int GROUP_B_N = sizeof(GROUP_B) / sizeof(GROUP_B[0]);
} // namespace fe
