#include "fe_wl.h"
#include "galois/worklists/AdaptiveObim.h"
namespace fe {
using namespace galois::worklists;
typedef OrderedByIntegerMetric<Indexer, PerSocketChunkFIFO<4>> OBIM;
typedef OrderedByIntegerMetric<Indexer, PerSocketChunkLIFO<1>> OBIM1;
typedef AdaptiveOrderedByIntegerMetric<Indexer, PerSocketChunkFIFO<4>> AOBIM;
const Entry GROUP_C[] = {
    {"OBIM", &run_loop<OBIM>, 0, 0},
    {"OBIM-noBSP", &run_loop<OBIM::with_back_scan_prevention<false>::type>, 0, 0},
    {"OBIM-period1", &run_loop<OBIM1::with_block_period<1>::type>, 0, 0},
    {"OBIM-period3", &run_loop<OBIM::with_block_period<3>::type>, 0, 0},
    {"OBIM-descending", &run_loop<OBIM::with_descending<true>::type>, 0, 0},
    {"OBIM-barrier", &run_loop<OBIM::with_barrier<true>::type>, 2, 4},
    {"OBIM-barrier-monotonic",
     &run_loop<OBIM::with_barrier<true>::type::with_monotonic<true>::type>, 2, 1},
    {"OBIM-barrier-descending",
     &run_loop<OBIM::with_barrier<true>::type::with_descending<true>::type>, 2, 2},
    {"OBIM-monotonic", &run_loop<OBIM1::with_monotonic<true>::type>, 0, 3},
    {"AdaptiveOBIM", &run_loop<AOBIM>, 0, 0},
};
const int GROUP_C_N = sizeof(GROUP_C) / sizeof(GROUP_C[0]);
} // namespace fe
