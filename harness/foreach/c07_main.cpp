// C07 -- deterministic scheduling: results independent of schedule and thread
// count.  One case = one program; it is executed several times in the same
// child process with different thread counts while the scheduler's random
// stream keeps producing new interleavings; the per-object commit sequences,
// final values and executed item multiset must be identical across executions.
// Runs under gsched (E1).  DESIGN.md 4/C07.
#include "fe_common.h"

#include "galois/runtime/Executor_Deterministic.h"

using namespace verif;

namespace fe {
World* W = nullptr;
void post_loop_checks(World&) {}
} // namespace fe

namespace verif {
const char* const HARNESS = "c07";
enum {
  F_VARIANT = S_NFIELDS,
  F_T0,
  F_T1,
  F_T2,
  F_T3,
  F_EXECS,
  F_NINIT,
  F_FANOUT,
  F_DEPTH,
  F_NOBJ,
  F_MAXNH,
  F_DELAY,
  F_BREAK,
  F_PSEED,
  F_COUNT
};
const std::vector<const char*> FIELDS = {VERIF_SCHED_FIELDS, "variant", "t0", "t1", "t2", "t3", "execs", "ninit", "fanout",
                                         "depth", "nobj", "maxnh", "delay", "breakat", "pseed"};
static const char* VARIANTS[] = {"plain", "det_id", "fixed_neighborhood", "local_state", "det_parallel_break", "per_iter_alloc", "det_id_wide"};
constexpr int NVAR            = 7;

Case generate() {
  using namespace rc;
  Case c;
  c.f.assign(F_COUNT, 0);
  gen_schedule(c);
  c[F_VARIANT] = *uni(0, NVAR);
  // known finding: the fixed-neighbourhood (DAG) variant does not order
  // iterations that share an object -> not generated while the finding is listed
  while (c[F_VARIANT] == 2 && excluded("C07/fixed_neighborhood/not-isolated")) {
    count_excluded();
    c[F_VARIANT] = *uni(0, NVAR);
  }
  for (int i = 0; i < 4; ++i)
    c[F_T0 + i] = *gen::element<int>(1, 2, 3, 4, 8);
  c[F_EXECS]  = *uni(3, 5);
  c[F_NINIT]  = *gen::inRange(1, 40);
  c[F_FANOUT] = *gen::inRange(0, 4);
  c[F_DEPTH]  = *gen::inRange(0, 4);
  c[F_NOBJ]   = *gen::weightedElement<int>({{3, 1}, {3, 2}, {3, 3}, {2, 5}, {2, 8}, {1, 16}});
  c[F_MAXNH]  = *uni(1, 6);
  c[F_DELAY]  = *uni(0, 3);
  c[F_BREAK]  = *gen::inRange(1, 60);
  c[F_PSEED]  = *uni(0, 1 << 24);
  return c;
}

std::string finding_key(const Case& c, const std::string& failkey) {
  std::string k = failkey;
  if (k == "spin-deadlock" || k == "deadlock" || k == "liveness")
    k = "no-return";
  if (c[F_VARIANT] == 2)
    return "C07/fixed_neighborhood/not-isolated"; // every symptom of the DAG variant
  return std::string("C07/") + VARIANTS[c[F_VARIANT]] + "/" + k;
}

// ---- per-execution record (quiet)
struct Exec {
  std::vector<std::vector<uint64_t>> obj_log; // per object: item ids in commit order
  std::vector<uint64_t> executed;             // sorted multiset of committed item ids
  std::vector<uint64_t> final_val;
  long conflicts = 0; // attempts beyond one per item
  long pushes    = 0;
  unsigned threads = 0;
};
static Exec* cur;
static long committed_count;
static long break_at;

struct LocalState {
  uint64_t token;
  int k;
  LocalState(uint64_t t, int kk) : token(t), k(kk) {}
};

template <bool UseLocalState, bool UsePia>
struct DetOp {
  void operator()(const fe::Item& it, galois::UserContext<fe::Item>& ctx) const {
    fe::World& w         = *fe::W;
    const fe::Program& P = w.P;
    int idx;
    {
      fe::Quiet q;
      auto f = w.B.index.find(it.id);
      if (f == w.B.index.end())
        vfail("unknown-item", "executed item %llx was never created by the program", (unsigned long long)it.id);
      idx = f->second;
      w.B.attempts[idx]++;
    }
    int k = P.nh_size(it.id);
    if (UseLocalState) {
      // state created in the first pass and consumed in the second
      if (ctx.isFirstPass()) {
        ctx.template createLocalState<LocalState>(it.id * 31 + 7, k);
      } else {
        LocalState* ls = ctx.template getLocalState<LocalState>();
        if (!ls || ls->token != it.id * 31 + 7 || ls->k != k)
          vfail("local-state", "item %llx: local state created in the first pass is not what the second pass received",
                (unsigned long long)it.id);
      }
    }
    void* blk = nullptr;
    if (UsePia) {
      blk = ctx.getPerIterAlloc().allocate(16);
      memset(blk, 0x5a, 16);
    }
    for (int a = 0; a < k; ++a) {
      galois::runtime::acquire(&w.objs[P.nh_obj(it.id, a)], galois::MethodFlag::WRITE);
      for (int d = (int)(prf(P.seed, it.id, 50 + a) % (uint64_t)(P.delay + 1)); d > 0; --d)
        gsched_point();
    }
    ctx.cautiousPoint();
    // ---- second pass only: this iteration commits
    {
      fe::Quiet q;
      if (w.B.committed[idx]++)
        vfail("duplicate-commit", "item %llx committed twice in one execution", (unsigned long long)it.id);
      ++committed_count;
      cur->executed.push_back(it.id);
      for (int a = 0; a < k; ++a) {
        int o    = P.nh_obj(it.id, a);
        bool dup = false;
        for (int b = 0; b < a; ++b)
          if (P.nh_obj(it.id, b) == o)
            dup = true;
        if (!dup)
          cur->obj_log[o].push_back(it.id);
      }
    }
    for (int a = 0; a < k; ++a) {
      int o    = P.nh_obj(it.id, a);
      bool dup = false;
      for (int b = 0; b < a; ++b)
        if (P.nh_obj(it.id, b) == o)
          dup = true;
      if (!dup)
        w.val[o] = w.val[o] * 1000003ULL + it.id; // non-commutative
    }
    if (blk)
      for (int i = 0; i < 16; ++i)
        if (((unsigned char*)blk)[i] != 0x5a)
          vfail("pia-corrupt", "per-iteration allocation overwritten");
    int nc = P.nchildren(it.id, it.depth);
    for (int j = 0; j < nc; ++j) {
      ctx.push(P.child(it, j));
      fe::Quiet q;
      cur->pushes++;
    }
  }
};

struct IdFn {
  uintptr_t operator()(const fe::Item& i) const { return (uintptr_t)i.id; }
};
// ids above 2^32 whose low 32 bits collide for many items ("(partition << 32) | index" style): unique and
// stable, which is all an id function has to be
struct IdFnWide {
  uintptr_t operator()(const fe::Item& i) const { return ((uintptr_t)i.id << 32) | (uintptr_t)(verif::prf(77, i.id) & 7); }
};
struct BreakFn {
  bool operator()() const { return committed_count >= break_at; }
};

static void run_variant(int variant, std::vector<fe::Item>& init) {
  typedef galois::worklists::Deterministic<> DWL;
  switch (variant) {
  case 0:
    galois::for_each(galois::iterate(init), DetOp<false, false>(), galois::wl<DWL>());
    break;
  case 1:
    galois::for_each(galois::iterate(init), DetOp<false, false>(), galois::wl<DWL>(), galois::det_id<IdFn>());
    break;
  case 2:
    galois::for_each(galois::iterate(init), DetOp<false, false>(), galois::wl<DWL>(), galois::fixed_neighborhood(), galois::det_id<IdFn>()); // the executor requires an id function with a fixed neighbourhood
    break;
  case 3:
    galois::for_each(galois::iterate(init), DetOp<true, false>(), galois::wl<DWL>(), galois::local_state<LocalState>());
    break;
  case 4:
    galois::for_each(galois::iterate(init), DetOp<false, false>(), galois::wl<DWL>(), galois::det_parallel_break<BreakFn>());
    break;
  case 6:
    galois::for_each(galois::iterate(init), DetOp<false, false>(), galois::wl<DWL>(), galois::det_id<IdFnWide>());
    break;
  default:
    galois::for_each(galois::iterate(init), DetOp<false, true>(), galois::wl<DWL>(), galois::per_iter_alloc());
  }
}

void run(const Case& c) {
  setenv("GALOIS_VERIF_TOPO", "8", 1);
  start_scheduler(c, 30000, 0, 80000000);
  galois::SharedMemSys G;
  fe::World w;
  fe::W          = &w;
  fe::Program& P = w.P;
  P.seed         = (uint64_t)c[F_PSEED];
  P.n_initial    = (int)c[F_NINIT];
  P.fanout       = (int)c[F_FANOUT];
  P.maxdepth     = (int)c[F_DEPTH];
  P.nobj         = (int)c[F_NOBJ];
  P.maxnh        = (int)c[F_MAXNH];
  P.delay        = (int)c[F_DELAY];
  P.conflicts    = 1;
  P.prio_mode    = 1;
  int variant    = (int)c[F_VARIANT];
  break_at       = c[F_BREAK];
  {
    fe::Quiet q;
    while (true) {
      w.B = fe::Book();
      w.B.build(P);
      if (w.B.items.size() <= 300 || P.maxdepth == 0)
        break;
      --P.maxdepth;
    }
  }
  w.val = (uint64_t*)gsched_arena_alloc(sizeof(uint64_t) * fe::MAXOBJ);
  std::vector<fe::Item> initial;
  for (int i = 0; i < P.n_initial; ++i)
    initial.push_back(P.root(i));
  int E = (int)c[F_EXECS];
  std::vector<Exec> execs(E);
  bool multi_thread = false, conflicts = false, created = false;
  for (int e = 0; e < E; ++e) {
    unsigned t = galois::setActiveThreads((unsigned)c[F_T0 + e]);
    {
      fe::Quiet q;
      cur = &execs[e];
      cur->obj_log.assign(P.nobj, {});
      cur->threads = t;
      committed_count = 0;
      std::fill(w.B.committed.begin(), w.B.committed.end(), 0);
      std::fill(w.B.attempts.begin(), w.B.attempts.end(), 0);
    }
    for (int o = 0; o < P.nobj; ++o)
      w.val[o] = 0;
    gsched_liveness_mark(3000000, 6000000);
    run_variant(variant, initial);
    gsched_liveness_clear();
    for (int o = 0; o < P.nobj; ++o)
      execs[e].final_val.push_back(w.val[o]);
    fe::Quiet q;
    std::sort(execs[e].executed.begin(), execs[e].executed.end());
    // C01/C02 inside each execution: without a break every expected item commits exactly once
    if (variant != 4)
      for (size_t i = 0; i < w.B.items.size(); ++i)
        if (w.B.committed[i] != 1)
          vfail("lost-item", "execution %d (%u threads): item %llx committed %d times", e, t, (unsigned long long)w.B.items[i].id,
                w.B.committed[i]);
    fe::Peek peek;
    for (int o = 0; o < P.nobj; ++o)
      if (fe::Peek::owner(&w.objs[o]) != nullptr)
        vfail("object-still-owned", "execution %d: object %d still owned after the loop returned", e, o);
    for (size_t i = 0; i < w.B.items.size(); ++i)
      if (w.B.attempts[i] > 2)
        cur->conflicts++;
    if (t >= 2)
      multi_thread = true;
    if (cur->pushes)
      created = true;
    // determinism: compare with the first execution
    const Exec& a = execs[0];
    const Exec& b = execs[e];
    if (e > 0) {
      if (a.executed != b.executed)
        vfail("executed-set-differs", "execution 0 (%u threads) committed %zu items, execution %d (%u threads) committed %zu%s",
              a.threads, a.executed.size(), e, b.threads, b.executed.size(), a.executed.size() == b.executed.size() ? " (different items)" : "");
      for (int o = 0; o < P.nobj; ++o) {
        if (a.obj_log[o] != b.obj_log[o]) {
          size_t pos = 0;
          while (pos < a.obj_log[o].size() && pos < b.obj_log[o].size() && a.obj_log[o][pos] == b.obj_log[o][pos])
            ++pos;
          vfail("commit-order-differs", "object %d: executions 0 (%u threads) and %d (%u threads) commit in different orders from "
                "position %zu on (%llx vs %llx)", o, a.threads, e, b.threads, pos,
                (unsigned long long)(pos < a.obj_log[o].size() ? a.obj_log[o][pos] : 0),
                (unsigned long long)(pos < b.obj_log[o].size() ? b.obj_log[o][pos] : 0));
        }
        if (a.final_val[o] != b.final_val[o])
          vfail("final-state-differs", "object %d: final values differ between executions 0 and %d", o, e);
      }
    }
  }
  {
    fe::Quiet q;
    // >= 2 items conflicted on an object: some object has >= 2 committers
    for (auto& l : execs[0].obj_log)
      if (l.size() >= 2)
        conflicts = true;
  }
  label("variant", VARIANTS[variant]);
  label("execs", E);
  label("items", (long)(w.B.items.size() / 10 * 10));
  label("conflicts", conflicts);
  label("created", created);
  label("strategy", c[S_STRATEGY]);
  nontrivial(multi_thread && conflicts && created);
  vok();
}
} // namespace verif

VERIF_E1_MAIN
