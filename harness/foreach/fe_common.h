// Shared program model for the for_each harnesses (C01, C02, C08; reused by
// C06/C07).  A "program" is a PRF-defined forest of items; everything an item
// does is a function of (program seed, item id).  See DESIGN.md 4/C01, 4/C02.
#pragma once
#include "verif_e1.h"

#include "galois/Galois.h"
#include "galois/runtime/Context.h"
#include "galois/worklists/WorkList.h"

#include <unordered_map>

namespace fe {
using verif::prf;

struct Item {
  uint64_t id;
  uint32_t depth;
  uint32_t prio; // OBIM index
};

struct Quiet {
  Quiet() { gsched_quiet(1); }
  ~Quiet() { gsched_quiet(-1); }
};

constexpr uint64_t POISON = 1ULL << 62;
constexpr int MAXOBJ      = 16;
constexpr int MAXNH       = 8;

struct Program {
  uint64_t seed = 0;
  int n_initial = 0, fanout = 0, maxdepth = 0;
  int nobj = 1, maxnh = 0;
  int vaborts   = 0; // voluntary aborts allowed
  int conflicts = 1; // conflict detection on
  int threads   = 1;
  int prio_mode = 0; // 0 = hash%8, 1 = depth (monotone: child > parent), 2 = depth/2
  int descending = 0;
  int pia       = 0; // use per-iteration allocator
  int delay     = 0; // max scheduling points inside critical phases

  uint32_t prio_of(uint64_t id, uint32_t depth) const {
    uint32_t p;
    switch (prio_mode) {
    case 1:
      p = depth;
      break;
    case 2:
      p = depth * 3 + (uint32_t)(prf(seed, id, 7) % 3);
      break;
    default:
      p = (uint32_t)(prf(seed, id, 7) % 8);
    }
    // index 0 (the index type's minimum) is reserved: OBIM's monotonic mode
    // asserts that every pushed index is later than the initial one
    return descending ? 100 - p : p + 1;
  }
  int nchildren(uint64_t id, uint32_t depth) const {
    if ((int)depth >= maxdepth || fanout == 0)
      return 0;
    return (int)(prf(seed, id, 1) % (uint64_t)(fanout + 1));
  }
  Item child(const Item& p, int j) const {
    Item c;
    c.id    = p.id * 8 + (uint64_t)(j + 1);
    c.depth = p.depth + 1;
    c.prio  = prio_of(c.id, c.depth);
    return c;
  }
  Item root(int i) const {
    Item r;
    r.id    = (uint64_t)(i + 1) * 8 + 7;
    r.depth = 0;
    r.prio  = prio_of(r.id, 0);
    return r;
  }
  int nh_size(uint64_t id) const {
    if (!maxnh)
      return 0;
    return (int)(prf(seed, id, 2) % (uint64_t)(maxnh + 1));
  }
  int nh_obj(uint64_t id, int i) const {
    return (int)(prf(seed, id, 10 + i) % (uint64_t)nobj);
  }
  // position (0..k) before which acquire the j-th child is pushed; k = after
  // the last acquire
  int push_pos(uint64_t id, int j, int k) const {
    return (int)(prf(seed, id, 30 + j) % (uint64_t)(k + 1));
  }
  int n_vaborts(uint64_t id) const {
    if (!vaborts || !conflicts || threads < 2)
      return 0;
    uint64_t r = prf(seed, id, 3);
    return (r % 4 == 0) ? 1 + (int)((r >> 8) % 2) : 0;
  }
};

// ---- bookkeeping (all accessed under Quiet; execution is serialised)
struct Book {
  std::unordered_map<uint64_t, int> index; // expected closure
  std::vector<Item> items;
  std::vector<int> committed, attempts, exec_thread, pusher_thread;
  std::vector<uint64_t> start_clock, commit_clock, end_clock;
  std::vector<int> parent;
  std::vector<std::pair<uint64_t, int>> ticket_log; // (item id, idx)
  long total_committed = 0, unknown = 0, poison = 0, dup = 0;
  uint64_t first_bad  = 0;
  long cross_thread   = 0; // executed by another thread than the pusher
  unsigned thread_mask = 0;
  long shared_obj_commits = 0;
  int last_committer[MAXOBJ];
  uint64_t all_done_at = 0;

  void build(const Program& P) {
    std::vector<Item> stack;
    for (int i = 0; i < P.n_initial; ++i)
      stack.push_back(P.root(i));
    while (!stack.empty()) {
      Item it = stack.back();
      stack.pop_back();
      index[it.id] = (int)items.size();
      items.push_back(it);
      int nc = P.nchildren(it.id, it.depth);
      for (int j = 0; j < nc; ++j)
        stack.push_back(P.child(it, j));
    }
    size_t n = items.size();
    committed.assign(n, 0);
    attempts.assign(n, 0);
    exec_thread.assign(n, -1);
    pusher_thread.assign(n, -1);
    start_clock.assign(n, 0);
    commit_clock.assign(n, 0);
    end_clock.assign(n, 0);
    parent.assign(n, -1);
    for (size_t i = 0; i < n; ++i) {
      int nc = P.nchildren(items[i].id, items[i].depth);
      for (int j = 0; j < nc; ++j)
        parent[index[P.child(items[i], j).id]] = (int)i;
    }
    for (auto& x : last_committer)
      x = -1;
  }
};

struct Obj : public galois::runtime::Lockable {};

struct Peek : public galois::runtime::LockManagerBase {
  static galois::runtime::LockManagerBase* owner(galois::runtime::Lockable* l) {
    return getOwner(l);
  }
  bool try_take(galois::runtime::Lockable* l) {
    return tryAcquire(l) == NEW_OWNER;
  }
  void give(galois::runtime::Lockable* l) { release(l); }
};

struct World {
  Program P;
  Book B;
  Obj objs[MAXOBJ];
  uint64_t* val   = nullptr; // arena payload: non-commutative accumulator
  uint64_t* stamp = nullptr; // arena payload: ownership stamp
  bool check_c02  = false;   // conflict detection active (threads >= 2)
  int level_mode  = 0;       // C08: 1 = rounds by depth, 2 = priority levels
  long conflict_aborts_seen = 0;
};

extern World* W;

inline int my_tid() { return (int)galois::substrate::ThreadPool::getTID(); }

// The operator (fe_op.cpp).  Cautious: all acquires, commit point, writes.
void the_operator(const Item& it, galois::UserContext<Item>& ctx);

struct Op {
  void operator()(const Item& it, galois::UserContext<Item>& ctx) const {
    the_operator(it, ctx);
  }
};

struct Indexer {
  uint32_t operator()(const Item& i) const { return i.prio; }
};

// checks after the loop returned; fails the case or returns
void post_loop_checks(World& w);

} // namespace fe
