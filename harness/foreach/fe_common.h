// Shared program model for the for_each harnesses (C01, C02, C08; reused by
// C06/C07).  A "program" is a PRF-defined forest of items; everything an item
// does is a function of (program seed, item id).  See DESIGN.md 4/C01, 4/C02.
#pragma once
#include "verif_e1.h"

#include "galois/Galois.h"
#include "galois/runtime/Context.h"
#include "galois/worklists/WorkList.h"

#include <unordered_map>

namespace fe {
using verif::prf;

struct Item {
  uint64_t id;
  uint32_t depth;
  uint32_t prio; // OBIM index
  uint32_t rank; // urgency rank (ascending), see Program::rank_of
};

struct Quiet {
  Quiet() { gsched_quiet(1); }
  ~Quiet() { gsched_quiet(-1); }
};

constexpr uint64_t POISON = 1ULL << 62;
constexpr int MAXOBJ      = 16;
constexpr int MAXNH       = 8;

struct Program {
  uint64_t seed = 0;
  int n_initial = 0, fanout = 0, maxdepth = 0;
  int nobj = 1, maxnh = 0;
  int vaborts   = 0; // voluntary aborts allowed
  int conflicts = 1; // conflict detection on
  int threads   = 1;
  int prio_mode = 0; // see rank_of
  int descending = 0;
  int pia       = 0; // use per-iteration allocator
  int delay     = 0; // max scheduling points inside critical phases
  int wide      = 0; // some items at the last inner level push > 64 children

  // urgency rank of an item (smaller = more urgent); the worklist index is
  // rank or, for descending order, 1000 - rank.  Index 0 (the index type's
  // minimum) is reserved: OBIM's monotonic mode asserts that every pushed index
  // is later than the initial one.
  uint32_t rank_of(uint32_t parent_rank, bool is_root, uint64_t id) const {
    uint64_t h = prf(seed, id, 7);
    switch (prio_mode) {
    case 1: // dense, strictly later
      return is_root ? 1 : parent_rank + 1;
    case 2: // sparse, strictly later
      return is_root ? 1 + (uint32_t)(h % 3) * 2 : parent_rank + 1 + (uint32_t)(h % 3);
    case 3: { // sparse, equal or later
      static const uint32_t D[] = {0, 0, 1, 3};
      return is_root ? 1 + (uint32_t)(h % 3) * 2 : parent_rank + D[h % 4];
    }
    default: // unordered
      return 1 + (uint32_t)(h % 8);
    }
  }
  uint32_t index_of(uint32_t rank) const { return descending ? 1000 - rank : rank; }
  int nchildren(uint64_t id, uint32_t depth) const {
    if ((int)depth >= maxdepth || fanout == 0)
      return 0;
    // the executor's push buffer has a fast path above 64 buffered items
    if (wide && (int)depth == maxdepth - 1 && prf(seed, id, 6) % 6 == 0)
      return 65 + (int)(prf(seed, id, 8) % 8);
    return (int)(prf(seed, id, 1) % (uint64_t)(fanout + 1));
  }
  Item child(const Item& p, int j) const {
    Item c;
    // ids are octal paths: root = r 7, child = parent d with d in 1..6 (unique
    // decomposition at the last 7).  Children beyond the sixth (wide items,
    // always leaves) live in a separate id space marked by bit 61.
    c.id    = j < 6 ? p.id * 8 + (uint64_t)(j + 1)
                    : (1ULL << 61) | (p.id << 7) | (uint64_t)j;
    c.depth = p.depth + 1;
    c.rank  = rank_of(p.rank, false, c.id);
    c.prio  = index_of(c.rank);
    return c;
  }
  Item root(int i) const {
    Item r;
    r.id    = (uint64_t)(i + 1) * 8 + 7;
    r.depth = 0;
    r.rank  = rank_of(0, true, r.id);
    r.prio  = index_of(r.rank);
    return r;
  }
  int nh_size(uint64_t id) const {
    if (!maxnh)
      return 0;
    return (int)(prf(seed, id, 2) % (uint64_t)(maxnh + 1));
  }
  int nh_obj(uint64_t id, int i) const {
    return (int)(prf(seed, id, 10 + i) % (uint64_t)nobj);
  }
  // position (0..k) before which acquire the j-th child is pushed; k = after
  // the last acquire
  int push_pos(uint64_t id, int j, int k) const {
    return (int)(prf(seed, id, 1000 + j) % (uint64_t)(k + 1));
  }
  int n_vaborts(uint64_t id) const {
    if (!vaborts || !conflicts || threads < 2)
      return 0;
    uint64_t r = prf(seed, id, 3);
    return (r % 4 == 0) ? 1 + (int)((r >> 8) % 2) : 0;
  }
};

// ---- bookkeeping (all accessed under Quiet; execution is serialised)
struct Book {
  std::unordered_map<uint64_t, int> index; // expected closure
  std::vector<Item> items;
  std::vector<int> committed, attempts, exec_thread, pusher_thread;
  std::vector<uint64_t> start_clock, commit_clock, end_clock;
  std::vector<int> parent;
  std::vector<std::pair<uint64_t, int>> ticket_log; // (item id, idx)
  long total_committed = 0, unknown = 0, poison = 0, dup = 0;
  uint64_t first_bad  = 0;
  long cross_thread   = 0; // executed by another thread than the pusher
  unsigned thread_mask = 0;
  long shared_obj_commits = 0;
  int last_committer[MAXOBJ];
  uint64_t all_done_at = 0;

  void build(const Program& P) {
    std::vector<Item> stack;
    for (int i = 0; i < P.n_initial; ++i)
      stack.push_back(P.root(i));
    while (!stack.empty()) {
      Item it = stack.back();
      stack.pop_back();
      index[it.id] = (int)items.size();
      items.push_back(it);
      int nc = P.nchildren(it.id, it.depth);
      for (int j = 0; j < nc; ++j)
        stack.push_back(P.child(it, j));
    }
    size_t n = items.size();
    committed.assign(n, 0);
    attempts.assign(n, 0);
    exec_thread.assign(n, -1);
    pusher_thread.assign(n, -1);
    start_clock.assign(n, 0);
    commit_clock.assign(n, 0);
    end_clock.assign(n, 0);
    parent.assign(n, -1);
    for (size_t i = 0; i < n; ++i) {
      int nc = P.nchildren(items[i].id, items[i].depth);
      for (int j = 0; j < nc; ++j)
        parent[index[P.child(items[i], j).id]] = (int)i;
    }
    for (auto& x : last_committer)
      x = -1;
  }
};

struct Obj : public galois::runtime::Lockable {};

struct Peek : public galois::runtime::LockManagerBase {
  static galois::runtime::LockManagerBase* owner(galois::runtime::Lockable* l) {
    return getOwner(l);
  }
  bool try_take(galois::runtime::Lockable* l) {
    return tryAcquire(l) == NEW_OWNER;
  }
  void give(galois::runtime::Lockable* l) { release(l); }
};

struct World {
  Program P;
  Book B;
  Obj objs[MAXOBJ];
  uint64_t* val   = nullptr; // arena payload: non-commutative accumulator
  uint64_t* stamp = nullptr; // arena payload: ownership stamp
  uint64_t* cell  = nullptr; // arena payload: one cell per item, written by the pusher before push, read after pop
  bool check_c02  = false;   // conflict detection active (threads >= 2)
  int level_mode  = 0;       // C08: 1 = rounds by depth, 2 = priority levels
  long conflict_aborts_seen = 0;
};

extern World* W;

inline int my_tid() { return (int)galois::substrate::ThreadPool::getTID(); }

// The operator (fe_op.cpp).  Cautious: all acquires, commit point, writes.
void the_operator(const Item& it, galois::UserContext<Item>& ctx);

struct Op {
  void operator()(const Item& it, galois::UserContext<Item>& ctx) const {
    the_operator(it, ctx);
  }
};

struct Indexer {
  uint32_t operator()(const Item& i) const { return i.prio; }
};

// checks after the loop returned; fails the case or returns
void post_loop_checks(World& w);

} // namespace fe
