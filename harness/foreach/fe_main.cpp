// for_each harness: work conservation (C01), isolation (C02).  Runs generated
// operator programs on every shipped worklist under gsched schedules and
// synthetic topologies.  DESIGN.md 4/C01, 4/C02.
#include "fe_common.h"
#include "fe_wl.h"

using namespace verif;

namespace fe {
World* W = nullptr;
}

namespace verif {
const char* const HARNESS = "foreach";
enum {
  F_WL = S_NFIELDS,
  F_TOPO,
  F_THREADS,
  F_CONFLICTS,
  F_NINIT,
  F_FANOUT,
  F_DEPTH,
  F_NOBJ,
  F_MAXNH,
  F_VABORTS,
  F_PRIO,
  F_PIA,
  F_DELAY,
  F_WIDE,
  F_PSEED,
  F_COUNT
};
const std::vector<const char*> FIELDS = {
    VERIF_SCHED_FIELDS, "wl",    "topo",  "threads", "conflicts", "ninit",
    "fanout",           "depth", "nobj",  "maxnh",   "vaborts",   "prio",
    "pia",              "delay", "wide", "pseed"};

static const char* TOPOS[]      = {"1",     "2",   "4",  "2,2",  "3,1", "1,1,1,1",
                                   "2,1,1", "4,4", "8",  "3,3,2", "1,3"};
static const int TOPO_THREADS[] = {1, 2, 4, 4, 4, 4, 4, 8, 8, 8, 4};
constexpr int NTOPO             = 11;

static std::string family(int wl) {
  std::string n = fe::worklist_name(wl);
  size_t p      = n.find_first_of("<-");
  return p == std::string::npos ? n : n.substr(0, p);
}

static int prop_mode() { // 1 = C01 emphasis, 2 = C02 emphasis, 8 = C08
  const char* p = getenv("VERIF_PROP");
  if (p && strcmp(p, "C08") == 0)
    return 8;
  return (p && strcmp(p, "C02") == 0) ? 2 : 1;
}

Case generate() {
  using namespace rc;
  Case c;
  c.f.assign(F_COUNT, 0);
  gen_schedule(c);
  int mode = prop_mode();
  const char* pname = mode == 2 ? "C02" : mode == 8 ? "C08" : "C01";
  int wl            = *uni(0, fe::num_worklists());
  if (mode == 8) { // only the level-synchronous schedulers
    std::vector<int> lv;
    for (int i = 0; i < fe::num_worklists(); ++i)
      if (fe::worklist_levels(i))
        lv.push_back(i);
    wl = *gen::elementOf(lv);
  }
  // known finding: bulk-synchronous scheduling loses the children of retried
  // (aborted) iterations -> with the finding listed, that configuration is
  // not generated (C02 needs conflicts, so it redraws the worklist)
  bool bs_excl = excluded(std::string(pname) + "/BulkSynchronous+conflicts/lost-item");
  // C02 never generates bulk-synchronous scheduling: with conflict aborts it
  // is a C01/C08 finding, and C02 needs conflict detection
  if (mode == 2)
    while (family(wl) == "BulkSynchronous")
      wl = *uni(0, fe::num_worklists());
  c[F_WL]   = wl;
  c[F_TOPO] = *uni(mode != 1 ? 1 : 0, NTOPO);
  int maxt  = TOPO_THREADS[c[F_TOPO]];
  c[F_THREADS]   = (mode != 1 || maxt < 2 || *gen::weightedElement<int>({{1, 0}, {9, 1}})) ? *uni(std::min(2, maxt), maxt + 1) : 1;
  c[F_CONFLICTS] = mode == 2 ? 1 : *gen::weightedElement<int>({{3, 1}, {1, 0}});
  if (mode != 2 && bs_excl && family(wl) == "BulkSynchronous" && c[F_CONFLICTS] && c[F_THREADS] > 1) {
    count_excluded();
    c[F_CONFLICTS] = 0;
  }
  c[F_NINIT]     = *gen::weightedElement<int>({{1, 0}, {1, 1}, {8, -1}});
  if (c[F_NINIT] < 0)
    c[F_NINIT] = *gen::inRange(2, 65);
  c[F_FANOUT] = *gen::inRange(0, 5);
  c[F_DEPTH]  = *gen::inRange(0, 5);
  if (mode == 8) { // several levels matter more than wide trees
    c[F_FANOUT] = *uni(1, 4);
    c[F_DEPTH]  = *uni(2, 7);
  }
  c[F_NOBJ]   = *gen::weightedElement<int>({{3, 1}, {3, 2}, {3, 3}, {2, 5}, {2, 8}, {1, 16}});
  c[F_MAXNH]  = mode == 2 ? *uni(1, fe::MAXNH + 1) : *uni(0, fe::MAXNH + 1);
  c[F_VABORTS] = *uni(0, 2);
  c[F_PRIO]    = *uni(0, 4);
  c[F_PIA]     = *uni(0, 2);
  c[F_DELAY]   = *uni(0, 4);
  c[F_WIDE]    = mode == 8 ? *uni(0, 2) : *gen::weightedElement<int>({{3, 0}, {1, 1}});
  c[F_PSEED]   = *uni(0, 1 << 24);
  return c;
}

std::string finding_key(const Case& c, const std::string& failkey) {
  std::string k = failkey;
  if (k == "spin-deadlock" || k == "liveness")
    k = "no-return";
  if (k == "deadlock")
    k = "no-return";
  const char* p = getenv("VERIF_PROP");
  std::string cfg = family((int)c[F_WL]);
  if (c[F_CONFLICTS] && c[F_THREADS] > 1)
    cfg += "+conflicts";
  return std::string(p ? p : "C01") + "/" + cfg + "/" + k;
}

void run(const Case& c) {
  setenv("GALOIS_VERIF_TOPO", TOPOS[c[F_TOPO]], 1);
  start_scheduler(c, 30000, 0, 40000000);
  galois::SharedMemSys G;
  fe::World w;
  fe::W         = &w;
  fe::Program& P = w.P;
  P.seed        = (uint64_t)c[F_PSEED];
  P.n_initial   = (int)c[F_NINIT];
  P.fanout      = (int)c[F_FANOUT];
  P.maxdepth    = (int)c[F_DEPTH];
  P.nobj        = (int)c[F_NOBJ];
  P.maxnh       = (int)c[F_MAXNH];
  P.vaborts     = (int)c[F_VABORTS];
  P.conflicts   = (int)c[F_CONFLICTS];
  P.threads     = (int)c[F_THREADS];
  P.prio_mode   = (int)c[F_PRIO];
  P.pia         = (int)c[F_PIA];
  P.delay       = (int)c[F_DELAY];
  P.wide        = (int)c[F_WIDE];
  int wl        = (int)c[F_WL];
  fe::adjust_program_for_worklist(wl, P);
  {
    fe::Quiet q;
    // keep the closure bounded: lower the depth until it fits
    while (true) {
      w.B = fe::Book();
      w.B.build(P);
      if (w.B.items.size() <= 600 || P.maxdepth == 0)
        break;
      --P.maxdepth;
    }
  }
  w.val       = (uint64_t*)gsched_arena_alloc(sizeof(uint64_t) * fe::MAXOBJ);
  w.stamp     = (uint64_t*)gsched_arena_alloc(sizeof(uint64_t) * fe::MAXOBJ);
  w.cell      = (uint64_t*)gsched_arena_alloc(sizeof(uint64_t) * (w.B.items.size() + 1));
  for (int i = 0; i < P.n_initial; ++i) {
    fe::Quiet q;
    int ci = w.B.index.find(P.root(i).id)->second;
    gsched_quiet(-1);
    w.cell[ci] = P.root(i).id;
    gsched_quiet(1);
  }
  unsigned nt = galois::setActiveThreads((unsigned)P.threads);
  P.threads   = (int)nt;
  w.check_c02 = P.conflicts && nt > 1;
  w.level_mode = fe::worklist_levels(wl);

  std::vector<fe::Item> initial;
  for (int i = 0; i < P.n_initial; ++i)
    initial.push_back(P.root(i));

  fe::run_worklist(wl, initial, P.conflicts != 0, P.pia != 0);
  gsched_liveness_clear();
  fe::post_loop_checks(w);

  fe::Quiet q;
  fe::Book& B = w.B;
  long aborts = 0, pushes = 0;
  for (size_t i = 0; i < B.items.size(); ++i) {
    aborts += B.attempts[i] - 1;
    if (B.items[i].depth > 0)
      ++pushes;
  }
  int nthreads_used = __builtin_popcount(B.thread_mask);
  label("wl", fe::worklist_name(wl));
  label("topo", TOPOS[c[F_TOPO]]);
  label("threads", (long)nt);
  label("conflicts", P.conflicts);
  label("items", B.items.size() < 10 ? (long)B.items.size() : (long)(B.items.size() / 10 * 10));
  label("aborts", aborts > 5 ? 5 : aborts);
  label("threads_used", nthreads_used);
  label("strategy", c[S_STRATEGY]);
  label("wide", P.wide);
  bool nt1 = nthreads_used >= 2 && pushes >= 1 && (aborts >= 1 || B.cross_thread >= 1);
  bool nt2 = w.conflict_aborts_seen >= 1 && B.shared_obj_commits >= 1;
  label("nt_c01", nt1);
  label("nt_c02", nt2);
  // C08: >= 2 threads, >= 3 levels, some level executed by >= 2 threads
  bool nt8 = false;
  if (w.level_mode) {
    std::map<uint32_t, unsigned> lvl_threads;
    for (size_t i = 0; i < B.items.size(); ++i) {
      uint32_t lv = w.level_mode == 1 ? B.items[i].depth : B.items[i].rank;
      lvl_threads[lv] |= 1u << B.exec_thread[i];
    }
    bool shared = false;
    for (auto& kv : lvl_threads)
      if (__builtin_popcount(kv.second) >= 2)
        shared = true;
    nt8 = nthreads_used >= 2 && lvl_threads.size() >= 3 && shared;
    label("levels", (long)std::min<size_t>(lvl_threads.size(), 8));
  }
  label("nt_c08", nt8);
  nontrivial(prop_mode() == 2 ? nt2 : prop_mode() == 8 ? nt8 : nt1);
  vok();
}
} // namespace verif

namespace fe {
void post_loop_checks(World& w) {
  Quiet q;
  Book& B          = w.B;
  const Program& P = w.P;
  VCHECK(B.poison == 0, "aborted-push-executed",
         "%ld items pushed by voluntarily aborted attempts were executed "
         "(first id %llx)",
         B.poison, (unsigned long long)B.first_bad);
  VCHECK(B.unknown == 0, "unknown-item",
         "%ld executed items were never pushed (first id %llx)", B.unknown,
         (unsigned long long)B.first_bad);
  long vab_total = 0;
  for (size_t i = 0; i < B.items.size(); ++i) {
    VCHECK(B.committed[i] <= 1, "duplicate-commit",
           "item %llx (depth %u) committed %d times",
           (unsigned long long)B.items[i].id, B.items[i].depth, B.committed[i]);
    VCHECK(B.committed[i] == 1, "lost-item",
           "item %llx (depth %u) never committed although the loop returned; "
           "%ld of %zu committed",
           (unsigned long long)B.items[i].id, B.items[i].depth,
           B.total_committed, B.items.size());
    VCHECK(B.attempts[i] >= B.committed[i], "attempts", "attempt accounting");
    int vab = P.n_vaborts(B.items[i].id);
    vab_total += vab;
    if (B.attempts[i] - 1 > vab)
      w.conflict_aborts_seen += B.attempts[i] - 1 - vab;
  }
  if (P.conflicts) {
    // quiescence: every object is free again
    Peek peek;
    for (int o = 0; o < P.nobj; ++o) {
      VCHECK(Peek::owner(&w.objs[o]) == nullptr, "object-still-owned",
             "object %d is still owned after the loop returned", o);
      VCHECK(peek.try_take(&w.objs[o]), "object-still-locked",
             "object %d is still locked after the loop returned", o);
      peek.give(&w.objs[o]);
    }
  }
  if (w.level_mode == 1) {
    // bulk-synchronous: nothing of round r+1 starts before all of round r ended
    std::map<uint32_t, uint64_t> max_end, min_start;
    std::map<uint32_t, size_t> arg_end, arg_start;
    for (size_t i = 0; i < B.items.size(); ++i) {
      uint32_t d = B.items[i].depth;
      if (!max_end.count(d) || B.end_clock[i] > max_end[d]) {
        max_end[d] = B.end_clock[i];
        arg_end[d] = i;
      }
      if (!min_start.count(d) || B.start_clock[i] < min_start[d]) {
        min_start[d]  = B.start_clock[i];
        arg_start[d] = i;
      }
    }
    for (auto& kv : min_start) {
      uint32_t d = kv.first;
      if (d == 0 || !max_end.count(d - 1))
        continue;
      VCHECK(kv.second > max_end[d - 1], "level-order",
             "round %u item %llx started at step %llu before round %u item "
             "%llx finished at step %llu",
             d, (unsigned long long)B.items[arg_start[d]].id,
             (unsigned long long)kv.second, d - 1,
             (unsigned long long)B.items[arg_end[d - 1]].id,
             (unsigned long long)max_end[d - 1]);
    }
  } else if (w.level_mode == 2) {
    // priority levels with barrier: X must not start while a strictly more
    // urgent item that already exists is unfinished
    size_t n = B.items.size();
    for (size_t x = 0; x < n; ++x) {
      uint64_t s = B.start_clock[x];
      for (size_t y = 0; y < n; ++y) {
        bool more_urgent = B.items[y].rank < B.items[x].rank;
        if (!more_urgent)
          continue;
        uint64_t exists_at = B.parent[y] < 0 ? 0 : B.end_clock[B.parent[y]];
        VCHECK(!(exists_at < s && B.end_clock[y] > s), "level-order",
               "item %llx (priority %u) started at step %llu while item %llx "
               "(priority %u, existing since step %llu) was unfinished until "
               "step %llu",
               (unsigned long long)B.items[x].id, B.items[x].prio,
               (unsigned long long)s, (unsigned long long)B.items[y].id,
               B.items[y].prio, (unsigned long long)exists_at,
               (unsigned long long)B.end_clock[y]);
      }
    }
  }
  gsched_quiet(-1); // payload reads below are HB-checked (loop-return edge)
  uint64_t got[MAXOBJ];
  for (int o = 0; o < P.nobj; ++o)
    got[o] = w.val[o];
  gsched_quiet(1);
  if (P.conflicts) {
    // serialisability: replay the commit log sequentially
    uint64_t model[MAXOBJ] = {0};
    for (auto& t : B.ticket_log) {
      uint64_t id = t.first;
      int k       = P.nh_size(id);
      for (int a = 0; a < k; ++a) {
        int o    = P.nh_obj(id, a);
        bool dup = false;
        for (int b = 0; b < a; ++b)
          if (P.nh_obj(id, b) == o)
            dup = true;
        if (!dup)
          model[o] = model[o] * 1000003ULL + id;
      }
    }
    for (int o = 0; o < P.nobj; ++o)
      VCHECK(got[o] == model[o], "not-serialisable",
             "object %d: final value differs from the sequential replay of "
             "the %zu committed iterations in commit order",
             o, B.ticket_log.size());
  }
}
} // namespace fe

VERIF_E1_MAIN
