#include "fe_wl.h"
namespace fe {
using namespace galois::worklists;
struct OwnerFn {
  unsigned operator()(const Item& i) const {
    return (unsigned)(i.id % (uint64_t)galois::getActiveThreads());
  }
};
const Entry GROUP_D[] = {
    {"BulkSynchronous<PerSocketChunkFIFO<4>>",
     &run_loop<BulkSynchronous<PerSocketChunkFIFO<4>>>, 1, 0},
    {"BulkSynchronous<PerSocketChunkLIFO<1>>",
     &run_loop<BulkSynchronous<PerSocketChunkLIFO<1>>>, 1, 0},
    {"LocalQueue<PerSocketChunkFIFO<4>,GFIFO>",
     &run_loop<LocalQueue<PerSocketChunkFIFO<4>, GFIFO<>>>, 0, 0},
    {"LocalQueue<PerSocketChunkLIFO<1>,GLIFO>",
     &run_loop<LocalQueue<PerSocketChunkLIFO<1>, GLIFO<>>>, 0, 0},
    {"OwnerComputes<ChunkLIFO<4>>", &run_loop<OwnerComputes<OwnerFn, ChunkLIFO<4>>>, 0, 0},
    {"StableIterator<steal>", &run_loop<StableIterator<true>>, 0, 0},
    {"StableIterator<nosteal>", &run_loop<StableIterator<false>>, 0, 0},
};
const int GROUP_D_N = sizeof(GROUP_D) / sizeof(GROUP_D[0]);
} // namespace fe
