#include "fe_wl.h"
namespace fe {
static const Entry& entry(int wl) {
  if (wl < GROUP_A_N)
    return GROUP_A[wl];
  wl -= GROUP_A_N;
  if (wl < GROUP_B_N)
    return GROUP_B[wl];
  wl -= GROUP_B_N;
  if (wl < GROUP_C_N)
    return GROUP_C[wl];
  wl -= GROUP_C_N;
  return GROUP_D[wl];
}
int num_worklists() { return GROUP_A_N + GROUP_B_N + GROUP_C_N + GROUP_D_N; }
const char* worklist_name(int wl) { return entry(wl).name; }
int worklist_levels(int wl) { return entry(wl).levels; }
void adjust_program_for_worklist(int wl, Program& P) {
  int m = entry(wl).need_monotone;
  if (m) {
    if (P.prio_mode == 0)
      P.prio_mode = 2;
    if (P.prio_mode == 3 && m != 4 && m != 2)
      P.prio_mode = 2; // equal urgency is only allowed without the monotonic assumption
    P.descending = (m == 2);
    // OBIM's monotonic mode without the barrier asserts that every push is
    // later than the pushing thread's current level; a retried (aborted) item
    // runs on whatever thread the abort queue forwards it to, so the
    // assumption only makes sense without conflict aborts
    if (m == 3)
      P.conflicts = 0;
  }
}
void run_worklist(int wl, std::vector<Item>& initial, bool conflicts, bool pia) {
  entry(wl).fn(initial, conflicts, pia);
}
} // namespace fe
