// The generated-program operator shared by the for_each harnesses.
#include "fe_common.h"

namespace fe {
// The operator.  Cautious: all acquires, commit point, then writes.
// No object with a destructor may be live across an acquire (longjmp).
void the_operator(const Item& it, galois::UserContext<Item>& ctx) {
  World& w         = *W;
  const Program& P = w.P;
  int idx;
  int attempt;
  {
    Quiet q;
    if (it.id & POISON) {
      w.B.poison++;
      if (!w.B.first_bad)
        w.B.first_bad = it.id;
      return;
    }
    auto f = w.B.index.find(it.id);
    if (f == w.B.index.end()) {
      w.B.unknown++;
      if (!w.B.first_bad)
        w.B.first_bad = it.id;
      return;
    }
    idx     = f->second;
    attempt = w.B.attempts[idx]++;
    if (attempt == 0)
      w.B.start_clock[idx] = gsched_now();
    if (w.check_c02) {
      // clean abort / clean start: this thread's context owns nothing
      auto* me = galois::runtime::getThreadContext();
      for (int o = 0; o < P.nobj; ++o)
        if (Peek::owner(&w.objs[o]) == me && me)
          verif::vfail("owned-at-entry",
                       "item %llu attempt %d starts while its context still "
                       "owns object %d",
                       (unsigned long long)it.id, attempt, o);
    }
  }
  // worklist push -> pop edge: the pusher wrote this item's cell before
  // ctx.push (the caller before for_each for initial items)
  if (w.cell[idx] != it.id)
    verif::vfail("push-pop-payload", "item %llx popped by thread %d reads payload %llx written before its push",
                 (unsigned long long)it.id, my_tid(), (unsigned long long)w.cell[idx]);
  int k      = P.conflicts ? P.nh_size(it.id) : 0;
  int nc     = P.nchildren(it.id, it.depth);
  int vab    = P.n_vaborts(it.id);
  bool doomed = attempt < vab; // this attempt will abort voluntarily
  int abort_after = doomed ? (int)(prf(P.seed, it.id, 4 + attempt) % (uint64_t)(k + 1)) : -1;
  void* pia_block = nullptr;
  if (P.pia) {
    pia_block = ctx.getPerIterAlloc().allocate(24);
    memset(pia_block, 0x5a, 24);
  }
  for (int a = 0; a <= k; ++a) {
    // pushes placed before acquire #a (a == k: after the last acquire)
    if (a < k || doomed) {
      for (int j = 0; j < nc; ++j)
        if (P.push_pos(it.id, j, k) == a) {
          if (doomed) {
            Item p = P.child(it, j);
            p.id |= POISON;
            ctx.push(p);
          } else {
            Item ch = P.child(it, j);
            int ci;
            {
              Quiet q;
              ci = w.B.index.find(ch.id)->second;
            }
            w.cell[ci] = ch.id;
            ctx.push(ch); // must vanish if a conflict aborts us
          }
        }
    }
    if (doomed && a == abort_after) {
      ctx.abort();
    }
    if (a < k) {
      // mixed flags: READ and WRITE both take the conflict lock (exclusive
      // ownership either way); UNPROTECTED / PREVIOUS on an object that is
      // already owned must neither lock again nor disturb the ownership
      uint64_t fh = prf(P.seed, it.id, 70 + a);
      galois::runtime::acquire(&w.objs[P.nh_obj(it.id, a)],
                               fh % 10 < 3 ? galois::MethodFlag::READ : galois::MethodFlag::WRITE);
      if ((fh >> 8) % 4 == 0)
        galois::runtime::acquire(&w.objs[P.nh_obj(it.id, a)],
                                 (fh >> 16) % 2 ? galois::MethodFlag::UNPROTECTED : galois::MethodFlag::PREVIOUS);
      for (int d = (int)(prf(P.seed, it.id, 50 + a) % (uint64_t)(P.delay + 1)); d > 0; --d)
        gsched_point();
    }
  }
  // ---- commit point: no more acquires, no abort possible from here on
  uint64_t token;
  {
    Quiet q;
    Book& B = w.B;
    if (B.committed[idx]++) {
      B.dup++;
      if (!B.first_bad)
        B.first_bad = it.id;
    }
    B.total_committed++;
    B.exec_thread[idx] = my_tid();
    B.thread_mask |= 1u << my_tid();
    B.commit_clock[idx] = gsched_now();
    if (B.pusher_thread[idx] >= 0 && B.pusher_thread[idx] != my_tid())
      B.cross_thread++;
    for (int j = 0; j < nc; ++j) {
      auto f = B.index.find(P.child(it, j).id);
      if (f != B.index.end())
        B.pusher_thread[f->second] = my_tid();
    }
    B.ticket_log.emplace_back(it.id, idx);
    token = B.ticket_log.size();
    if (w.check_c02) {
      auto* me = galois::runtime::getThreadContext();
      for (int a = 0; a < k; ++a) {
        int o = P.nh_obj(it.id, a);
        if (Peek::owner(&w.objs[o]) != me)
          verif::vfail("not-owner",
                       "item %llu at its commit point does not own object %d "
                       "it acquired",
                       (unsigned long long)it.id, o);
        if (B.last_committer[o] >= 0 && B.last_committer[o] != idx)
          B.shared_obj_commits++;
        B.last_committer[o] = idx;
      }
    }
    if ((size_t)B.total_committed == B.items.size() && !B.all_done_at)
      B.all_done_at = gsched_now();
  }
  if (P.conflicts && k > 0) {
    // exclusive ownership: stamp, let others run, re-read
    for (int a = 0; a < k; ++a)
      w.stamp[P.nh_obj(it.id, a)] = token;
    for (int d = (int)(prf(P.seed, it.id, 5) % (uint64_t)(P.delay + 1)); d > 0; --d)
      gsched_point();
    for (int a = 0; a < k; ++a) {
      int o = P.nh_obj(it.id, a);
      if (w.stamp[o] != token)
        verif::vfail("ownership-violated",
                     "item %llu holds object %d but another iteration wrote it "
                     "meanwhile",
                     (unsigned long long)it.id, o);
    }
    // non-commutative update, once per distinct object
    for (int a = 0; a < k; ++a) {
      int o    = P.nh_obj(it.id, a);
      bool dup = false;
      for (int b = 0; b < a; ++b)
        if (P.nh_obj(it.id, b) == o)
          dup = true;
      if (!dup)
        w.val[o] = w.val[o] * 1000003ULL + it.id;
    }
  }
  if (pia_block) {
    const unsigned char* p = (const unsigned char*)pia_block;
    for (int i = 0; i < 24; ++i)
      if (p[i] != 0x5a)
        verif::vfail("pia-corrupt",
                     "per-iteration allocation of item %llu was overwritten "
                     "before the iteration ended",
                     (unsigned long long)it.id);
  }
  // pushes after the last acquire
  for (int j = 0; j < nc; ++j)
    if (P.push_pos(it.id, j, k) == k) {
      Item ch = P.child(it, j);
      int ci;
      {
        Quiet q;
        ci = w.B.index.find(ch.id)->second;
      }
      w.cell[ci] = ch.id;
      ctx.push(ch);
    }
  {
    Quiet q;
    w.B.end_clock[idx] = gsched_now();
    if (w.B.all_done_at) // bounded liveness: the loop must now wind down
      gsched_liveness_mark(200000, 1000000);
  }
}

} // namespace fe
