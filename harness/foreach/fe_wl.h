// Worklist registry of the for_each harness (split over several TUs because
// every for_each instantiation costs seconds of compile time).
#pragma once
#include "fe_common.h"

namespace fe {
int num_worklists();
const char* worklist_name(int wl);
// some worklists state requirements on the program (monotone priorities)
void adjust_program_for_worklist(int wl, Program& P);
int worklist_levels(int wl);
void run_worklist(int wl, std::vector<Item>& initial, bool conflicts, bool pia);

template <typename WL>
void run_loop(std::vector<Item>& init, bool conflicts, bool pia) {
  if (!conflicts)
    galois::for_each(galois::iterate(init), Op(), galois::wl<WL>(),
                     galois::disable_conflict_detection());
  else if (pia)
    galois::for_each(galois::iterate(init), Op(), galois::wl<WL>(),
                     galois::per_iter_alloc());
  else
    galois::for_each(galois::iterate(init), Op(), galois::wl<WL>());
}

struct Entry {
  const char* name;
  void (*fn)(std::vector<Item>&, bool, bool);
  int levels;        // C08: 0 none, 1 = bulk-synchronous rounds, 2 = priority levels with barrier
  int need_monotone; // 0 no, 1 children strictly later, 2 same + descending, 3 = 1 + no conflict aborts, 4/2 = equal or later (2: descending)
};
// each group TU exports its table
extern const Entry GROUP_A[];
extern const int GROUP_A_N;
extern const Entry GROUP_B[];
extern const int GROUP_B_N;
extern const Entry GROUP_C[];
extern const int GROUP_C_N;
extern const Entry GROUP_D[];
extern const int GROUP_D_N;
} // namespace fe
