// C15 -- reductions and concurrent collections give the sequential answer.
// In-process rapidcheck with the real thread pool (E3 + real threads).
#include "verif_e1.h"

#include "galois/Galois.h"
#include "galois/Reduction.h"
#include "galois/AtomicHelpers.h"
#include "galois/DynamicBitset.h"
#include "galois/UnionFind.h"
#include "galois/Bag.h"
#include "galois/PerThreadContainer.h"

#include <set>

using namespace verif;

namespace verif {
const char* const HARNESS = "c15";
enum { F_FN = 0, F_TYPE, F_THREADS, F_ASEED, F_A, F_B, F_C, F_COUNT };
const std::vector<const char*> FIELDS = {"fn", "type", "threads", "aseed", "a", "b", "c"};
// tail: values / operations

static const char* FN_NAMES[] = {"accumulator", "reduce_max", "reduce_min", "logical", "user_reducible", "insert_bag",
                                 "bitset_range", "bitset_concurrent", "bitset_ops", "atomic_helpers", "union_find",
                                 "per_thread_containers"};
constexpr int NFN = 12;

// dyadic rationals k/16 with |k| < 2^20: exact under any association order
static double dy(int64_t k) { return (double)k / 16.0; }

static rc::Gen<int64_t> value_gen(int shape) {
  using namespace rc;
  switch (shape) {
  case 0: // small positive
    return gen::inRange<int64_t>(0, 100);
  case 1: // all negative
    return gen::inRange<int64_t>(-1000000, 0);
  case 2: // mixed
    return gen::inRange<int64_t>(-1000000, 1000000);
  default: // extremes mixed in (kept small enough that sums stay in range)
    return gen::oneOf(gen::inRange<int64_t>(-5, 6), gen::element<int64_t>((1LL << 31) - 1, -(1LL << 31), (1LL << 40), -(1LL << 40)));
  }
}

Case generate() {
  using namespace rc;
  Case c;
  c.f.assign(F_COUNT, 0);
  int fn = *gen::weightedElement<int>({{6, 0}, {4, 1}, {3, 2}, {2, 3}, {3, 4}, {3, 5}, {4, 6}, {3, 7}, {3, 8}, {3, 9}, {3, 10}, {2, 11}});
  // known findings (excluded by construction when listed)
  c[F_FN]      = fn;
  c[F_THREADS] = *gen::weightedElement<int>({{1, 1}, {3, 2}, {3, 3}, {3, 4}, {2, 8}, {2, 16}});
  c[F_ASEED]   = *uni(0, 1 << 20);
  int n        = *gen::inRange(0, 80);
  if (fn <= 2) {
    c[F_TYPE] = *uni(0, 5); // int32, int64, uint64, float, double
    int shape = *uni(0, 4);
    if (c[F_TYPE] == 2 && fn != 0)
      shape = 0; // unsigned: non-negative values
    c[F_A] = shape;
    c[F_B] = *uni(0, 2); // fn 0: use -= for odd-indexed values
    if (fn == 0 && c[F_B] && excluded("C15/GAccumulator/operator-=")) {
      count_excluded();
      c[F_B] = 0;
    }
    if (fn == 1 && (shape == 1) && (c[F_TYPE] == 3 || c[F_TYPE] == 4) && excluded("C15/GReduceMax/float-identity")) {
      count_excluded();
      shape = 2;
      c[F_A] = shape;
    }
    c[F_C] = *uni(1, 4); // rounds of update..reduce(..reset)
    for (int i = 0; i < n; ++i) {
      int64_t v = *value_gen(shape);
      if (c[F_TYPE] == 2 && v < 0)
        v = -v;
      c.f.push_back(v);
    }
    return c;
  }
  if (fn == 3 || fn == 4 || fn == 5 || fn == 9 || fn == 11) {
    c[F_TYPE] = *uni(0, 3);
    for (int i = 0; i < n; ++i)
      c.f.push_back(*gen::inRange<int64_t>(-1000, 1000));
    return c;
  }
  if (fn == 6) { // reset(begin,end) on a random larger bitset
    int64_t size = *gen::inRange<int64_t>(1, 3000);
    c[F_A]       = size;
    c[F_B]       = *uni<int64_t>(0, size);
    c[F_C]       = *uni<int64_t>(c[F_B], size);
    return c;
  }
  if (fn == 7 || fn == 8) {
    int64_t size = *gen::inRange<int64_t>(1, 600);
    c[F_A]       = size;
    c[F_TYPE]    = *uni(0, 5); // fn 8: which operation
    int m        = *gen::inRange(0, 200);
    for (int i = 0; i < m; ++i)
      c.f.push_back(*uni<int64_t>(0, 2 * size)); // op: index + size*(set|reset)
    return c;
  }
  if (fn == 10) {
    int64_t nodes = *gen::inRange<int64_t>(1, 60);
    c[F_A]        = nodes;
    int m         = *gen::inRange(0, 120);
    for (int i = 0; i < m; ++i)
      c.f.push_back(*uni<int64_t>(0, nodes * nodes));
    return c;
  }
  return c;
}

void enumerate_cases(std::vector<Case>& out) {
  // DynamicBitSet::reset(begin,end) for every alignment pair on sizes 1..200
  for (int64_t size = 1; size <= 200; ++size) {
    Case c;
    c.f.assign(F_COUNT, 0);
    c[F_FN]      = 6;
    c[F_THREADS] = 1;
    c[F_A]       = size;
    c[F_B]       = -1; // all pairs
    out.push_back(c);
  }
}

std::string finding_key(const Case& c, const std::string& failkey) {
  int fn = (int)c[F_FN];
  if (fn == 0 && c[F_B] && failkey == "sum")
    return "C15/GAccumulator/operator-=";
  if (fn == 1 && (c[F_TYPE] == 3 || c[F_TYPE] == 4) && failkey == "max")
    return "C15/GReduceMax/float-identity";
  return std::string("C15/") + FN_NAMES[fn] + "/" + failkey;
}

template <typename F>
static void spread(const Case& c, size_t n, F f) {
  // element i is handled by thread prf(aseed, i) % threads
  uint64_t aseed = (uint64_t)c[F_ASEED];
  galois::on_each([&](unsigned tid, unsigned nt) {
    for (size_t i = 0; i < n; ++i)
      if (prf(aseed, i) % nt == tid)
        f(i, tid);
  });
}

template <typename T>
static T conv(int64_t v, bool fp) {
  return fp ? (T)dy(v) : (T)v;
}

template <typename T>
static void run_accumulator(const Case& c, bool fp) {
  size_t n = c.f.size() - F_COUNT;
  galois::GAccumulator<T> acc;
  T model     = T(0);
  bool minus  = c[F_B] != 0;
  int rounds  = (int)c[F_C];
  for (int r = 0; r < rounds; ++r) {
    spread(c, n, [&](size_t i, unsigned) {
      T v = conv<T>(c.f[F_COUNT + i], fp);
      if (minus && (i & 1))
        acc -= v;
      else if (i % 3 == 0)
        acc.update(v);
      else
        acc += v;
    });
    for (size_t i = 0; i < n; ++i) {
      T v = conv<T>(c.f[F_COUNT + i], fp);
      if (minus && (i & 1))
        model = (T)(model - v);
      else
        model = (T)(model + v);
    }
    T got = acc.reduce();
    VCHECK(got == model, "sum", "GAccumulator round %d: reduce() = %.17g, sequential fold = %.17g (%zu updates%s)", r,
           (double)got, (double)model, n, minus ? ", odd ones with -=" : "");
    if (r % 2 == 1) {
      acc.reset();
      model = T(0);
      T z   = acc.reduce();
      VCHECK(z == T(0), "reset", "GAccumulator after reset reduces to %.17g", (double)z);
    }
  }
}

template <typename T, bool IsMax>
static void run_minmax(const Case& c, bool fp) {
  size_t n = c.f.size() - F_COUNT;
  typename std::conditional<IsMax, galois::GReduceMax<T>, galois::GReduceMin<T>>::type red;
  int rounds = (int)c[F_C];
  for (int r = 0; r < rounds; ++r) {
    spread(c, n, [&](size_t i, unsigned) { red.update(conv<T>(c.f[F_COUNT + i], fp)); });
    T got = red.reduce();
    if (n > 0) {
      T model = conv<T>(c.f[F_COUNT], fp);
      for (size_t i = 1; i < n; ++i) {
        T v   = conv<T>(c.f[F_COUNT + i], fp);
        model = IsMax ? std::max(model, v) : std::min(model, v);
      }
      VCHECK(got == model, IsMax ? "max" : "min", "GReduce%s round %d: reduce() = %.17g, sequential fold = %.17g over %zu updates",
             IsMax ? "Max" : "Min", r, (double)got, (double)model, n);
    }
    red.reset();
    // reset restores the identity: folding one more value must give that value
    T probe = conv<T>(IsMax ? -7 : 7, fp);
    if (std::is_unsigned<T>::value)
      probe = (T)7;
    red.update(probe);
    T one = red.reduce();
    if (!(std::is_unsigned<T>::value && IsMax))
      VCHECK(one == probe, IsMax ? "max" : "min", "GReduce%s after reset: folding the single value %.17g gives %.17g",
             IsMax ? "Max" : "Min", (double)probe, (double)one);
    red.reset();
  }
}

struct MoveOnly {
  std::unique_ptr<int64_t> p;
  MoveOnly() : p(new int64_t(0)) {}
  explicit MoveOnly(int64_t v) : p(new int64_t(v)) {}
  MoveOnly(MoveOnly&&)            = default;
  MoveOnly& operator=(MoveOnly&&) = default;
};

void run(const Case& c) {
  int fn = (int)c[F_FN];
  label("fn", FN_NAMES[fn]);
  unsigned t = galois::setActiveThreads((unsigned)c[F_THREADS]);
  label("threads", (long)t);
  size_t n = c.f.size() - F_COUNT;
  if (fn == 0 || fn == 1 || fn == 2) {
    int ty  = (int)c[F_TYPE];
    bool fp = ty >= 3;
#define DISPATCH(F, ...)                                                                                               \
  switch (ty) {                                                                                                        \
  case 0:                                                                                                              \
    F<int32_t __VA_ARGS__>(d, false);                                                                                  \
    break;                                                                                                             \
  case 1:                                                                                                              \
    F<int64_t __VA_ARGS__>(d, false);                                                                                  \
    break;                                                                                                             \
  case 2:                                                                                                              \
    F<uint64_t __VA_ARGS__>(d, false);                                                                                 \
    break;                                                                                                             \
  case 3:                                                                                                              \
    F<float __VA_ARGS__>(d, true);                                                                                     \
    break;                                                                                                             \
  default:                                                                                                             \
    F<double __VA_ARGS__>(d, true);                                                                                    \
  }
    Case d = c;
    // keep sums in range: signed overflow / inexact float sums are outside the domain
    if (fn == 0 && ty == 0)
      for (size_t i = F_COUNT; i < d.f.size(); ++i)
        d.f[i] %= 100000;
    if (ty == 3) // float: 24-bit mantissa, keep dyadic values exact
      for (size_t i = F_COUNT; i < d.f.size(); ++i)
        d.f[i] %= 1000;
    if (ty == 0)
      for (size_t i = F_COUNT; i < d.f.size(); ++i)
        d.f[i] = (int32_t)d.f[i];
    if (fn == 0) {
      DISPATCH(run_accumulator)
    } else if (fn == 1) {
      DISPATCH(run_minmax, , true)
    } else {
      DISPATCH(run_minmax, , false)
    }
    label("type", ty);
    label("shape", c[F_A]);
    nontrivial(t >= 2 && n >= 2 && (c[F_A] != 0 || c[F_B] != 0));
    vok();
  }
  if (fn == 3) {
    galois::GReduceLogicalAnd a;
    galois::GReduceLogicalOr o;
    bool ma = true, mo = false;
    spread(c, n, [&](size_t i, unsigned) {
      bool v = (c.f[F_COUNT + i] & 1) || c[F_TYPE] == 1;
      if (c[F_TYPE] == 2)
        v = false;
      a.update(v);
      o.update(v);
    });
    for (size_t i = 0; i < n; ++i) {
      bool v = (c.f[F_COUNT + i] & 1) || c[F_TYPE] == 1;
      if (c[F_TYPE] == 2)
        v = false;
      ma = ma && v;
      mo = mo || v;
    }
    VCHECK(a.reduce() == ma, "logical-and", "GReduceLogicalAnd = %d, fold = %d over %zu", (int)a.reduce(), (int)ma, n);
    VCHECK(o.reduce() == mo, "logical-or", "GReduceLogicalOr = %d, fold = %d over %zu", (int)o.reduce(), (int)mo, n);
    a.reset();
    o.reset();
    VCHECK(a.reduce() == true && o.reduce() == false, "reset", "logical reducers after reset: and=%d or=%d", (int)a.reduce(),
           (int)o.reduce());
    nontrivial(t >= 2 && n >= 2);
    vok();
  }
  if (fn == 4) {
    // user-defined merge with identity: (a) gcd-like commutative monoid on int64 (xor),
    // (b) set union, (c) move-only max
    if (c[F_TYPE] == 0) {
      auto red = galois::make_reducible([](int64_t a, int64_t b) { return a ^ b; }, []() { return (int64_t)0; });
      int64_t model = 0;
      spread(c, n, [&](size_t i, unsigned) { red.update(c.f[F_COUNT + i] * 2654435761LL); });
      for (size_t i = 0; i < n; ++i)
        model ^= c.f[F_COUNT + i] * 2654435761LL;
      VCHECK(red.reduce() == model, "user-merge", "xor reducible = %lld, fold = %lld", (long long)red.reduce(), (long long)model);
      red.reset();
      VCHECK(red.reduce() == 0, "reset", "xor reducible after reset = %lld", (long long)red.reduce());
    } else if (c[F_TYPE] == 1) {
      auto red = galois::make_reducible(
          [](std::set<int64_t> a, const std::set<int64_t>& b) {
            a.insert(b.begin(), b.end());
            return a;
          },
          []() { return std::set<int64_t>(); });
      std::set<int64_t> model;
      spread(c, n, [&](size_t i, unsigned) { red.update(std::set<int64_t>{c.f[F_COUNT + i]}); });
      for (size_t i = 0; i < n; ++i)
        model.insert(c.f[F_COUNT + i]);
      VCHECK(red.reduce() == model, "user-merge", "set-union reducible has %zu elements, fold has %zu", red.reduce().size(),
             model.size());
    } else {
      auto red = galois::make_reducible(
          [](MoveOnly& lhs, MoveOnly&& rhs) -> MoveOnly& { // the documented moving merge signature
            if (*rhs.p > *lhs.p)
              lhs = std::move(rhs);
            return lhs;
          },
          []() { return MoveOnly(INT64_MIN); });
      int64_t model = INT64_MIN;
      spread(c, n, [&](size_t i, unsigned) { red.update(MoveOnly(c.f[F_COUNT + i])); });
      for (size_t i = 0; i < n; ++i)
        model = std::max(model, c.f[F_COUNT + i]);
      MoveOnly& got = red.reduce();
      VCHECK(got.p && *got.p == model, "user-merge", "move-only max reducible = %lld, fold = %lld", got.p ? (long long)*got.p : -1LL,
             (long long)model);
    }
    label("type", c[F_TYPE]);
    nontrivial(t >= 2 && n >= 2);
    vok();
  }
  if (fn == 5) {
    galois::InsertBag<int64_t> bag;
    std::vector<int64_t> vals(c.f.begin() + F_COUNT, c.f.end());
    if (c[F_TYPE] == 0)
      galois::do_all(galois::iterate(vals), [&](int64_t v) { bag.push(v); }, galois::steal());
    else
      spread(c, n, [&](size_t i, unsigned) {
        if (i & 1)
          bag.push_back(vals[i]);
        else
          bag.emplace(vals[i]);
      });
    std::multiset<int64_t> got(bag.begin(), bag.end()), want(vals.begin(), vals.end());
    VCHECK(got == want, "bag-contents", "InsertBag filled by %u threads holds %zu elements, inserted %zu (multisets differ)", t,
           got.size(), want.size());
    VCHECK(bag.empty() == vals.empty(), "bag-empty", "InsertBag::empty() = %d with %zu elements", (int)bag.empty(), vals.size());
    bag.clear();
    VCHECK(bag.begin() == bag.end(), "bag-clear", "InsertBag not empty after clear");
    nontrivial(t >= 2 && n >= 2);
    vok();
  }
  if (fn == 6) {
    size_t size = (size_t)c[F_A];
    galois::DynamicBitSet bs;
    bs.resize(size);
    auto check_pair = [&](size_t b, size_t e) {
      for (size_t i = 0; i < size; ++i)
        bs.set(i);
      bs.reset(b, e); // inclusive range
      for (size_t i = 0; i < size; ++i) {
        bool want = !(i >= b && i <= e);
        if (bs.test(i) != want)
          vfail("bitset-reset-range", "DynamicBitSet(size %zu).reset(%zu,%zu): bit %zu is %d", size, b, e, i, (int)bs.test(i));
      }
    };
    if (c[F_B] < 0) {
      for (size_t b = 0; b < size; ++b)
        for (size_t e = b; e < size; ++e)
          check_pair(b, e);
    } else
      check_pair((size_t)c[F_B], (size_t)c[F_C]);
    nontrivial(size > 64);
    vok();
  }
  if (fn == 7) {
    // concurrent set/reset(i); threads work on disjoint op subsets whose
    // final result per index is schedule independent: each index is only
    // touched by one thread (others' bits in the same word are the point)
    size_t size = (size_t)c[F_A];
    galois::DynamicBitSet bs;
    bs.resize(size);
    std::vector<bool> model(size, false);
    for (size_t i = 0; i < n; ++i) {
      size_t idx = (size_t)c.f[F_COUNT + i] % size;
      bool set   = (size_t)c.f[F_COUNT + i] >= size;
      model[idx] = set;
    }
    galois::on_each([&](unsigned tid, unsigned nt) {
      for (size_t i = 0; i < n; ++i) {
        size_t idx = (size_t)c.f[F_COUNT + i] % size;
        if (idx % nt != tid)
          continue;
        if ((size_t)c.f[F_COUNT + i] >= size)
          bs.set(idx);
        else
          bs.reset(idx);
      }
    });
    uint64_t cnt = 0;
    for (size_t i = 0; i < size; ++i) {
      VCHECK(bs.test(i) == model[i], "bitset-concurrent", "bit %zu is %d after concurrent set/reset, sequential result %d", i,
             (int)bs.test(i), (int)model[i]);
      cnt += model[i];
    }
    VCHECK(bs.count() == cnt, "bitset-count", "count() = %llu, expected %llu", (unsigned long long)bs.count(), (unsigned long long)cnt);
    auto offs = bs.getOffsets();
    std::vector<uint32_t> want;
    for (size_t i = 0; i < size; ++i)
      if (model[i])
        want.push_back((uint32_t)i);
    VCHECK(offs == want, "bitset-offsets", "getOffsets() returned %zu offsets, expected %zu (or different order)", offs.size(),
           want.size());
    nontrivial(t >= 2 && n >= 2 && size > 64);
    vok();
  }
  if (fn == 8) {
    size_t size = (size_t)c[F_A];
    galois::DynamicBitSet a, b, d;
    a.resize(size);
    b.resize(size);
    d.resize(size);
    std::vector<bool> ma(size), mb(size), md(size);
    for (size_t i = 0; i < n; ++i) {
      size_t idx = (size_t)c.f[F_COUNT + i] % size;
      int which  = (int)(prf(c[F_ASEED], i) % 3);
      (which == 0 ? a : which == 1 ? b : d).set(idx);
      (which == 0 ? ma : which == 1 ? mb : md)[idx] = true;
    }
    int op = (int)c[F_TYPE];
    switch (op) {
    case 0:
      a.bitwise_or(b);
      break;
    case 1:
      a.bitwise_and(b);
      break;
    case 2:
      a.bitwise_xor(b);
      break;
    case 3:
      a.bitwise_and(b, d);
      break;
    default:
      a.bitwise_xor(b, d);
    }
    for (size_t i = 0; i < size; ++i) {
      bool want = op == 0 ? (ma[i] | mb[i]) : op == 1 ? (ma[i] & mb[i]) : op == 2 ? (ma[i] ^ mb[i]) : op == 3 ? (mb[i] & md[i]) : (mb[i] ^ md[i]);
      VCHECK(a.test(i) == want, "bitset-bitwise", "bitwise op %d: bit %zu is %d, expected %d", op, i, (int)a.test(i), (int)want);
    }
    label("op", op);
    nontrivial(t >= 2 && size > 64 && n >= 2);
    vok();
  }
  if (fn == 9) {
    std::atomic<int64_t> mn{INT64_MAX}, mx{INT64_MIN}, sum{0}, sub{0};
    spread(c, n, [&](size_t i, unsigned) {
      int64_t v = c.f[F_COUNT + i];
      galois::atomicMin(mn, v);
      galois::atomicMax(mx, v);
      galois::atomicAdd(sum, v);
      galois::atomicSubtract(sub, v);
    });
    int64_t wmn = INT64_MAX, wmx = INT64_MIN, wsum = 0;
    for (size_t i = 0; i < n; ++i) {
      int64_t v = c.f[F_COUNT + i];
      wmn       = std::min(wmn, v);
      wmx       = std::max(wmx, v);
      wsum += v;
    }
    VCHECK(mn == wmn && mx == wmx, "atomic-minmax", "atomicMin/Max = %lld/%lld, expected %lld/%lld", (long long)mn.load(),
           (long long)mx.load(), (long long)wmn, (long long)wmx);
    VCHECK(sum == wsum && sub == -wsum, "atomic-add", "atomicAdd/Subtract = %lld/%lld, expected %lld/%lld", (long long)sum.load(),
           (long long)sub.load(), (long long)wsum, (long long)-wsum);
    nontrivial(t >= 2 && n >= 2);
    vok();
  }
  if (fn == 10) {
    struct Node : public galois::UnionFindNode<Node> {
      Node() : galois::UnionFindNode<Node>(this) {}
    };
    size_t nodes = (size_t)c[F_A];
    std::vector<Node> uf(nodes);
    std::vector<size_t> model(nodes);
    for (size_t i = 0; i < nodes; ++i)
      model[i] = i;
    std::function<size_t(size_t)> find = [&](size_t x) { return model[x] == x ? x : model[x] = find(model[x]); };
    for (size_t i = 0; i < n; ++i) {
      size_t a = (size_t)c.f[F_COUNT + i] % nodes, b = ((size_t)c.f[F_COUNT + i] / nodes) % nodes;
      model[find(a)] = find(b);
    }
    spread(c, n, [&](size_t i, unsigned) {
      size_t a = (size_t)c.f[F_COUNT + i] % nodes, b = ((size_t)c.f[F_COUNT + i] / nodes) % nodes;
      uf[a].merge(&uf[b]);
      if (i % 5 == 0)
        uf[a].findAndCompress();
    });
    for (size_t i = 0; i < nodes; ++i)
      for (size_t j = i + 1; j < nodes; ++j) {
        bool same = uf[i].find() == uf[j].find();
        VCHECK(same == (find(i) == find(j)), "union-find", "nodes %zu and %zu: concurrent union-find says %s, sequential says %s", i, j,
               same ? "same" : "different", find(i) == find(j) ? "same" : "different");
      }
    nontrivial(t >= 2 && n >= 2);
    vok();
  }
  if (fn == 11) {
    std::vector<int64_t> vals(c.f.begin() + F_COUNT, c.f.end());
    std::multiset<int64_t> want(vals.begin(), vals.end()), got;
    if (c[F_TYPE] == 0) {
      galois::PerThreadVector<int64_t> ptv;
      spread(c, n, [&](size_t i, unsigned) { ptv.get().push_back(vals[i]); });
      got.insert(ptv.begin_all(), ptv.end_all());
      VCHECK(ptv.size_all() == vals.size(), "per-thread-size", "PerThreadVector::size_all() = %zu, inserted %zu", ptv.size_all(),
             vals.size());
    } else if (c[F_TYPE] == 1) {
      galois::PerThreadDeque<int64_t> ptd;
      spread(c, n, [&](size_t i, unsigned) {
        if (i & 1)
          ptd.get().push_front(vals[i]);
        else
          ptd.get().push_back(vals[i]);
      });
      got.insert(ptd.begin_all(), ptd.end_all());
    } else {
      galois::PerThreadSet<int64_t> pts;
      spread(c, n, [&](size_t i, unsigned) { pts.get().insert(vals[i] * 1000 + (int64_t)i); });
      want.clear();
      for (size_t i = 0; i < n; ++i)
        want.insert(vals[i] * 1000 + (int64_t)i);
      // begin_all()/end_all() do not compile for set-like containers (const
      // iterators): rows are read one by one
      for (unsigned r = 0; r < pts.numRows(); ++r)
        got.insert(pts.get(r).begin(), pts.get(r).end());
    }
    VCHECK(got == want, "per-thread-contents", "per-thread container (kind %d) holds %zu elements, inserted %zu (multisets differ)",
           (int)c[F_TYPE], got.size(), want.size());
    label("type", c[F_TYPE]);
    nontrivial(t >= 2 && n >= 2);
    vok();
  }
  vok();
}
} // namespace verif

VERIF_INPROC_MAIN(galois::SharedMemSys G)
