// C15 (schedule-controlled part) -- the CAS loops behind the atomic min/max/add
// helpers, the concurrent bitset set()/reset() and the lock-free union-find,
// explored under gsched (E1): every interleaving point between the load and
// the compare-exchange of each helper is a scheduling decision.  Oracle: the
// sequential answer of the same operations.  DESIGN.md 4/C15.
#include "verif_e1.h"

#include "galois/Galois.h"
#include "galois/AtomicHelpers.h"
#include "galois/DynamicBitset.h"
#include "galois/UnionFind.h"
#include "galois/FixedSizeRing.h"

#include <map>
#include <set>

using namespace verif;

namespace verif {
const char* const HARNESS = "c15s";
enum { F_FN = S_NFIELDS, F_THREADS, F_N, F_DELAY, F_OSEED, F_COUNT };
const std::vector<const char*> FIELDS = {VERIF_SCHED_FIELDS, "fn", "threads", "n", "delay", "oseed"};
// tail: one value per operation: thread + 8 * (kind + 4 * value)
static const char* FN_NAMES[] = {"atomic_helpers", "bitset_concurrent", "union_find", "concurrent_bag_push"};
constexpr int NFN = 4;

Case generate() {
  using namespace rc;
  Case c;
  c.f.assign(F_COUNT, 0);
  gen_schedule(c);
  c[F_FN]      = *uni(0, NFN);
  c[F_THREADS] = *gen::weightedElement<int>({{4, 2}, {3, 3}, {2, 4}, {1, 6}});
  c[F_N]       = *uni(2, 11);
  c[F_DELAY]   = *uni(0, 3);
  c[F_OSEED]   = *uni(0, 1 << 20);
  int nops     = *uni(2, 25);
  for (int i = 0; i < nops; ++i) {
    int thr  = *uni(0, 8);
    int kind = *uni(0, 4);
    int val  = *gen::weightedElement<int>({{3, 0}, {3, 1}, {2, 2}, {2, 3}, {1, 5}, {1, 9}, {1, 17}, {1, 40}, {1, 63}});
    if (*uni(0, 3) == 0)
      val = *uni(0, 64);
    c.f.push_back(thr + 8 * (kind + 4 * val));
  }
  return c;
}

std::string finding_key(const Case& c, const std::string& failkey) {
  return std::string("C15/") + FN_NAMES[c[F_FN] % NFN] + "/" + failkey;
}

struct Quiet {
  Quiet() { gsched_quiet(1); }
  ~Quiet() { gsched_quiet(-1); }
};

struct Op {
  int thr, kind, val;
};

struct UFNode : public galois::UnionFindNode<UFNode> {
  UFNode() : galois::UnionFindNode<UFNode>(this) {}
};

static int mfind(std::vector<int>& p, int x) {
  while (p[x] != x)
    x = p[x] = p[p[x]];
  return x;
}

void run(const Case& c) {
  setenv("GALOIS_VERIF_TOPO", "8", 1);
  start_scheduler(c, 20000, 0, 60000000);
  galois::SharedMemSys G;
  auto& tp    = galois::substrate::getThreadPool();
  int fn      = (int)(c[F_FN] % NFN);
  unsigned T  = galois::setActiveThreads((unsigned)c[F_THREADS]);
  int N       = (int)c[F_N];
  int delay   = (int)c[F_DELAY];
  uint64_t sd = (uint64_t)c[F_OSEED];
  std::vector<std::vector<Op>> per(T);
  size_t nops = c.f.size() - F_COUNT;
  for (size_t i = 0; i < nops; ++i) {
    int64_t x = c.f[F_COUNT + i];
    Op o{(int)(x % 8) % (int)T, (int)((x / 8) % 4), (int)((x / 32) % 64)};
    per[o.thr].push_back(o);
  }
  unsigned busy = 0;
  for (auto& v : per)
    busy += !v.empty();
  label("fn", FN_NAMES[fn]);
  label("threads", (long)T);
  label("busy_threads", (long)busy);
  label("strategy", c[S_STRATEGY]);
  auto pause = [&](unsigned tid, size_t i) {
    for (int d = (int)(prf(sd, tid, i) % (uint64_t)(delay + 1)); d > 0; --d)
      gsched_point();
  };
  gsched_liveness_mark(400000, 4000000);

  if (fn == 0) {
    // ---- atomicMin / atomicMax / atomicAdd / atomicSubtract on shared cells
    std::atomic<int64_t> mn{1000}, mx{-1000}, sum{0}, sub{0};
    std::atomic<uint32_t> umn{1000}, umx{0};
    struct Ret {
      int64_t old, delta;
    };
    std::vector<std::vector<Ret>> addret(T), subret(T);
    std::vector<std::vector<int64_t>> minret(T), maxret(T);
    tp.run(T, [&]() {
      unsigned tid = galois::substrate::ThreadPool::getTID();
      for (size_t i = 0; i < per[tid].size(); ++i) {
        Op o = per[tid][i];
        pause(tid, i);
        int64_t v = o.val - 20; // negative and positive values
        switch (o.kind) {
        case 0: {
          int64_t r = galois::atomicMin(mn, v);
          galois::atomicMin(umn, (uint32_t)o.val);
          Quiet q;
          minret[tid].push_back(r);
        } break;
        case 1: {
          int64_t r = galois::atomicMax(mx, v);
          galois::atomicMax(umx, (uint32_t)o.val);
          Quiet q;
          maxret[tid].push_back(r);
        } break;
        case 2: {
          int64_t r = galois::atomicAdd(sum, (int64_t)(o.val + 1));
          Quiet q;
          addret[tid].push_back({r, o.val + 1});
        } break;
        default: {
          int64_t r = galois::atomicSubtract(sub, (int64_t)(o.val + 1));
          Quiet q;
          subret[tid].push_back({r, o.val + 1});
        }
        }
      }
    });
    gsched_liveness_clear();
    int64_t wmn = 1000, wmx = -1000, wsum = 0, wsub = 0;
    uint32_t wumn = 1000, wumx = 0;
    int contended = 0;
    std::map<int, std::set<int>> kinds_by_thread;
    for (unsigned t = 0; t < T; ++t)
      for (auto& o : per[t]) {
        kinds_by_thread[o.kind].insert((int)t);
        int64_t v = o.val - 20;
        if (o.kind == 0)
          wmn = std::min(wmn, v), wumn = std::min(wumn, (uint32_t)o.val);
        else if (o.kind == 1)
          wmx = std::max(wmx, v), wumx = std::max(wumx, (uint32_t)o.val);
        else if (o.kind == 2)
          wsum += o.val + 1;
        else
          wsub -= o.val + 1;
      }
    for (auto& kv : kinds_by_thread)
      contended += kv.second.size() >= 2;
    VCHECK(mn.load() == wmn && umn.load() == wumn, "atomic-min", "atomicMin from %u threads leaves %lld (unsigned cell %u), the minimum of all offered values is %lld (%u)",
           T, (long long)mn.load(), umn.load(), (long long)wmn, wumn);
    VCHECK(mx.load() == wmx && umx.load() == wumx, "atomic-max", "atomicMax from %u threads leaves %lld (unsigned cell %u), the maximum of all offered values is %lld (%u)",
           T, (long long)mx.load(), umx.load(), (long long)wmx, wumx);
    VCHECK(sum.load() == wsum, "atomic-add", "atomicAdd from %u threads leaves %lld, the sum is %lld", T, (long long)sum.load(), (long long)wsum);
    VCHECK(sub.load() == wsub, "atomic-add", "atomicSubtract from %u threads leaves %lld, expected %lld", T, (long long)sub.load(), (long long)wsub);
    // returned old values: each thread sees the cell move monotonically, and never
    // below/above the final value
    for (unsigned t = 0; t < T; ++t) {
      for (size_t i = 0; i < minret[t].size(); ++i)
        VCHECK(minret[t][i] >= wmn && (i == 0 || minret[t][i] <= minret[t][i - 1]), "atomic-min-return",
               "atomicMin returned old value %lld (thread %u call %zu): not between the final minimum %lld and its previous return",
               (long long)minret[t][i], t, i, (long long)wmn);
      for (size_t i = 0; i < maxret[t].size(); ++i)
        VCHECK(maxret[t][i] <= wmx && (i == 0 || maxret[t][i] >= maxret[t][i - 1]), "atomic-max-return",
               "atomicMax returned old value %lld (thread %u call %zu): not between its previous return and the final maximum %lld",
               (long long)maxret[t][i], t, i, (long long)wmx);
    }
    // fetch-add chain: the returned old values are the partial sums of one order (deltas >= 1, so the chain is unique)
    for (int pass = 0; pass < 2; ++pass) {
      std::multimap<int64_t, int64_t> byold;
      for (unsigned t = 0; t < T; ++t)
        for (auto& r : (pass ? subret : addret)[t])
          byold.insert({r.old, r.delta});
      int64_t cur = 0;
      size_t used = 0;
      while (true) {
        auto it = byold.find(cur);
        if (it == byold.end())
          break;
        cur += pass ? -it->second : it->second;
        byold.erase(it);
        ++used;
      }
      VCHECK(byold.empty(), "atomic-add-return", "%s: the returned old values are not the partial sums of any order of the %zu calls (%zu chain, stuck at %lld)",
             pass ? "atomicSubtract" : "atomicAdd", used + byold.size(), used, (long long)cur);
    }
    label("contended_kinds", (long)contended);
    nontrivial(contended >= 1 && gsched_switches() >= 2);
    vok();
  }

  if (fn == 1) {
    // ---- DynamicBitSet: own bits interleaved in shared words + contended bits
    galois::DynamicBitSet own, shared, ranged;
    own.resize(64 * T);
    shared.resize(64);
    ranged.resize(128);
    own.reset();
    shared.reset();
    ranged.reset();
    std::set<size_t> ranged_set;
    long range_resets = 0;
    std::vector<std::vector<int>> first_setter(T); // contended bits for which set() returned "was clear"
    std::string err;
    tp.run(T, [&]() {
      unsigned tid = galois::substrate::ThreadPool::getTID();
      std::map<size_t, bool> mine;
      for (size_t i = 0; i < per[tid].size(); ++i) {
        Op o = per[tid][i];
        pause(tid, i);
        size_t bit = (size_t)o.val * T + tid; // only this thread touches this bit; its word is shared
        if (o.kind == 0 || o.kind == 1) {
          bool old = o.kind == 0 ? own.set(bit) : own.reset(bit);
          Quiet q;
          bool want = mine.count(bit) ? mine[bit] : false;
          if (old != want && err.empty()) {
            char b[200];
            snprintf(b, sizeof b, "%s(%zu) by its only user (thread %u) returned old value %d, that thread last left the bit %d", o.kind == 0 ? "set" : "reset", bit,
                     tid, (int)old, (int)want);
            err = b;
          }
          mine[bit] = o.kind == 0;
        } else if (o.kind == 2) {
          bool old = shared.set((size_t)o.val % 8);
          Quiet q;
          if (!old)
            first_setter[tid].push_back(o.val % 8);
        } else if (tid == 0) {
          // range reset inside the upper half of a word whose lower half other threads are setting:
          // the partially covered word must lose exactly the bits of the range
          size_t w = (size_t)o.val % 2, b = 64 * w + 32 + (size_t)(o.val / 2) % 8, e = 64 * w + 63 - (size_t)(o.val / 16) % 4;
          ranged.set(b);
          ranged.set(e);
          ranged.reset(b, e);
          Quiet q;
          ++range_resets;
          if ((ranged.test(b) || ranged.test(e)) && err.empty()) {
            char buf[160];
            snprintf(buf, sizeof buf, "reset(%zu,%zu) left bit %zu set", b, e, ranged.test(b) ? b : e);
            err = buf;
          }
        } else {
          size_t bit = 64 * ((size_t)o.val % 2) + (size_t)(o.val / 2) % 32; // lower half: never reset by anybody
          ranged.set(bit);
          Quiet q;
          ranged_set.insert(bit);
        }
      }
      Quiet q;
      for (auto& kv : mine)
        if (own.test(kv.first) != kv.second && err.empty()) {
          char b[200];
          snprintf(b, sizeof b, "bit %zu (only used by thread %u) reads %d after that thread's last operation left it %d", kv.first, tid, (int)own.test(kv.first),
                   (int)kv.second);
          err = b;
        }
    });
    gsched_liveness_clear();
    VCHECK(err.empty(), "bitset-neighbour-bits", "%s", err.c_str());
    // final state of the own bits, and the count
    std::map<size_t, bool> last;
    std::map<int, std::set<int>> setters;
    for (unsigned t = 0; t < T; ++t)
      for (auto& o : per[t]) {
        if (o.kind <= 1)
          last[(size_t)o.val * T + t] = o.kind == 0;
        else if (o.kind == 2)
          setters[o.val % 8].insert((int)t);
      }
    size_t want_count = 0;
    int shared_words  = 0;
    std::map<size_t, std::set<unsigned>> word_users;
    for (auto& kv : last) {
      VCHECK(own.test(kv.first) == kv.second, "bitset-neighbour-bits", "bit %zu reads %d, the last operation on it left it %d", kv.first, (int)own.test(kv.first),
             (int)kv.second);
      want_count += kv.second;
      word_users[kv.first / 64].insert((unsigned)(kv.first % T));
    }
    for (auto& kv : word_users)
      shared_words += kv.second.size() >= 2;
    VCHECK(own.count() == want_count, "bitset-count", "count() = %llu, %zu bits were left set", (unsigned long long)own.count(), want_count);
    int contended_bits = 0;
    for (auto& kv : setters) {
      int firsts = 0;
      for (unsigned t = 0; t < T; ++t)
        for (int b : first_setter[t])
          firsts += b == kv.first;
      VCHECK(shared.test((size_t)kv.first), "bitset-set-lost", "bit %d was set by %zu threads and reads 0", kv.first, kv.second.size());
      VCHECK(firsts == 1, "bitset-test-and-set", "bit %d set by %zu threads: %d calls returned 'was clear' (exactly one must)", kv.first, kv.second.size(), firsts);
      contended_bits += kv.second.size() >= 2;
    }
    for (size_t bit : ranged_set)
      VCHECK(ranged.test(bit), "bitset-range-reset-neighbour", "bit %zu was set and never reset, but reads 0 after %ld concurrent range resets of the other half of its word", bit,
             range_resets);
    label("range_resets_vs_sets", (long)(range_resets > 0 && !ranged_set.empty()));
    label("shared_words", (long)std::min(shared_words, 3));
    label("contended_bits", (long)std::min(contended_bits, 3));
    nontrivial((shared_words >= 1 || contended_bits >= 1 || (range_resets > 0 && !ranged_set.empty())) && gsched_switches() >= 2);
    vok();
  }

  if (fn == 3) {
    // ---- ConcurrentFixedSizeBag: concurrent pushes claim distinct slots; a push fails only when the bag is full
    galois::ConcurrentFixedSizeBag<int64_t, 8> bag;
    std::vector<std::vector<std::pair<int64_t, int64_t*>>> pushed(T);
    std::vector<long> refused(T, 0);
    long total = 0;
    tp.run(T, [&]() {
      unsigned tid = galois::substrate::ThreadPool::getTID();
      for (size_t i = 0; i < per[tid].size(); ++i) {
        pause(tid, i);
        int64_t v  = (int64_t)tid * 1000 + (int64_t)i;
        int64_t* p = bag.push_front(v);
        Quiet q;
        if (p)
          pushed[tid].push_back({v, p});
        else
          ++refused[tid];
      }
    });
    gsched_liveness_clear();
    std::map<int64_t*, int64_t> slots;
    long ok = 0, no = 0;
    for (unsigned t = 0; t < T; ++t) {
      total += (long)per[t].size();
      no += refused[t];
      for (auto& pv : pushed[t]) {
        ++ok;
        VCHECK(!slots.count(pv.second), "bag-slot-shared", "two concurrent push_front calls (values %lld and %lld) were given the same slot", (long long)slots[pv.second],
               (long long)pv.first);
        slots[pv.second] = pv.first;
        VCHECK(*pv.second == pv.first, "bag-value-lost", "slot of value %lld holds %lld after all pushes", (long long)pv.first, (long long)*pv.second);
      }
    }
    VCHECK(ok == std::min<long>(total, 8) && ok + no == total, "bag-refused", "%ld of %ld concurrent pushes into an 8-slot bag succeeded (%ld refused)", ok, total, no);
    VCHECK((long)bag.size() == ok, "bag-size", "size() = %u after %ld successful pushes", bag.size(), ok);
    std::multiset<int64_t> got(bag.begin(), bag.end()), want;
    for (auto& kv : slots)
      want.insert(kv.second);
    VCHECK(got == want, "bag-content", "the bag's %zu elements are not the %zu values pushed successfully", got.size(), want.size());
    label("pushes", (long)std::min<long>(total, 12));
    nontrivial(busy >= 2 && total >= 3 && gsched_switches() >= 2);
    vok();
  }

  if (fn == 2) {
    // ---- lock-free union-find: concurrent merge / find / findAndCompress
    std::vector<UFNode> nodes((size_t)N);
    std::vector<int> model((size_t)N);
    for (int i = 0; i < N; ++i)
      model[i] = i;
    int merges_planned = 0;
    for (unsigned t = 0; t < T; ++t)
      for (auto& o : per[t])
        if (o.kind <= 1) {
          int a = o.val % N, b = (o.val / 8 + o.kind) % N;
          int ra = mfind(model, a), rb = mfind(model, b);
          if (ra != rb)
            model[ra] = rb;
          ++merges_planned;
        }
    std::vector<long> merged(T, 0);
    std::string err;
    tp.run(T, [&]() {
      unsigned tid = galois::substrate::ThreadPool::getTID();
      for (size_t i = 0; i < per[tid].size(); ++i) {
        Op o = per[tid][i];
        pause(tid, i);
        int a = o.val % N, b = (o.val / 8 + o.kind) % N;
        if (o.kind <= 1) {
          UFNode* r = nodes[a].merge(&nodes[b]);
          Quiet q;
          if (r)
            ++merged[tid];
        } else {
          UFNode* r = o.kind == 2 ? nodes[a].find() : nodes[a].findAndCompress();
          Quiet q;
          long idx = r - nodes.data();
          // components only grow: a representative seen at any time lies in the final component
          if ((idx < 0 || idx >= N || mfind(model, (int)idx) != mfind(model, a)) && err.empty()) {
            char buf[160];
            snprintf(buf, sizeof buf, "%s(node %d) during the merges returned node %ld, which is not in node %d's component", o.kind == 2 ? "find" : "findAndCompress", a,
                     idx, a);
            err = buf;
          }
        }
      }
    });
    gsched_liveness_clear();
    VCHECK(err.empty(), "union-find-find", "%s", err.c_str());
    int comps = 0;
    for (int i = 0; i < N; ++i)
      comps += mfind(model, i) == i;
    long done = 0;
    for (long m : merged)
      done += m;
    for (int i = 0; i < N; ++i)
      for (int j = i + 1; j < N; ++j) {
        bool same = nodes[i].find() == nodes[j].find();
        bool want = mfind(model, i) == mfind(model, j);
        VCHECK(same == want, "union-find-partition", "after %d merges from %u threads nodes %d and %d are %s, sequentially they are %s", merges_planned, T, i, j,
               same ? "in one component" : "in different components", want ? "in one component" : "in different components");
      }
    for (int i = 0; i < N; ++i) {
      UFNode* r = nodes[i].find();
      VCHECK(r->isRep(), "union-find-partition", "find(node %d) returns a node that is not a representative", i);
    }
    VCHECK(done == N - comps, "union-find-merge-count", "%ld merge calls reported a union, %d nodes form %d components (exactly %d unions happened)", done, N, comps,
           N - comps);
    label("components", (long)std::min(comps, 4));
    nontrivial(N - comps >= 2 && busy >= 2 && gsched_switches() >= 2);
    vok();
  }
  vok();
}
} // namespace verif

VERIF_E1_MAIN
