// C17 (a) -- serialisation round trips: deserialising what was serialised yields
// equal values for every supported type and any concatenation of them, at any
// byte alignment of the buffer, consuming exactly the bytes that were produced.
// In-process rapidcheck (E3); the same file is the libFuzzer target (E2).
// DESIGN.md 4/C17.
//
// One code path (the Tr<T>::make functions driven by a `Src`) both GENERATES the
// case tail (drawing from rapidcheck and appending what it drew) and DECODES it
// in run() (reading the tail back, reduced modulo the valid range), so generator
// and decoder cannot drift apart and run() accepts arbitrary tails.
#include "verif_e1.h"

#include "galois/Galois.h"
#include "galois/runtime/Serialize.h"

#include <cmath>
#include <functional>
#include <memory>
#include <tuple>
#include <utility>

#if defined(__has_include)
#if __has_include(<sanitizer/common_interface_defs.h>)
#include <sanitizer/common_interface_defs.h>
#define C17A_HAVE_SANITIZER_ITF 1
#endif
#endif

using namespace verif;
namespace grt = galois::runtime;

namespace verif {
const char* const HARNESS = "c17a";
enum { F_NITEMS = 0, F_PREFIX, F_SUFFIX, F_MODE, F_SEED, F_COUNT };
const std::vector<const char*> FIELDS = {"nitems", "prefix", "suffix", "mode", "seed"};
// tail x0.. : per item [menu slot][how] and the type-specific payload (lengths, values, chars)

constexpr int NMODE                    = 7;
static const char* MODE_NAMES[NMODE] = {"vec+start", "from-SerializeBuffer+pop", "iter-range+extract", "count+linearData",
                                        "swap-vec+setOffset", "reset+linearData", "rewrap+move-assign"};

// known findings (excluded by construction when listed in VERIF_EXCLUDE)
static const char* const KEY_PRA_EMPTY = "C17/PODResizeableArray/empty-aligned-deserialize";
static const char* const KEY_TUPLE     = "C17/std::tuple/roundtrip";
static const char* const KEY_EMPTY_DESER = "C17/DeSerializeBuffer/empty-r_linearData";

// ------------------------------------------------------------------ source
enum Kind { K_CHOICE, K_CHAR };
struct PodSeqRec {
  size_t off;   // model offset of the payload in the buffer it is deserialised from
  size_t align; // alignof(element)
  size_t n;
  bool pra;   // target is a PODResizeableArray (also DynamicBitSet's word array)
  bool inner; // deserialised from a nested (inner) buffer, not the final one
};

struct Len {
  size_t n;
  bool synth;
};

struct Src {
  enum Mode { DECODE, GEN, ENUM } mode = DECODE;
  const Case* in = nullptr;
  Case* out      = nullptr;
  size_t pos     = F_COUNT;
  uint64_t seed  = 0;
  int synth      = 0; // >0: elements of a long sequence, derived from prf() and not from the tail
  uint64_t sctr  = 0;
  long budget    = 30000; // total sequence elements per case
  size_t off     = 0;     // model offset (see PodSeqRec::off)
  bool inner     = false;
  int depth      = 0;
  std::vector<PodSeqRec> podseqs;
  int nonpod_seqs = 0, long_seqs = 0, empty_seqs = 0, maxdepth = 0;
  bool excluded_shape = false; // DECODE: the case contains a shape ruled out by VERIF_EXCLUDE (libFuzzer build skips it)
  // ENUM presets
  int64_t enum_slot = 0, enum_len = 0, force_slot = -1;
  uint64_t ectr     = 0;

  static int64_t fmod(int64_t v, int64_t m) {
    int64_t r = v % m;
    return r < 0 ? r + m : r;
  }
  int64_t raw_next() { return pos < in->f.size() ? in->f[pos++] : 0; }
  int64_t emit(int64_t v) {
    out->f.push_back(v);
    return v;
  }

  // uniform-ish choice in [lo, hi)
  int64_t draw(Kind k, int64_t lo, int64_t hi) {
    int64_t span = hi - lo;
    if (synth)
      return lo + (int64_t)(prf(seed, 0x51, sctr++) % (uint64_t)span);
    switch (mode) {
    case DECODE:
      return lo + fmod(raw_next(), span);
    case GEN:
      if (k == K_CHAR) // mostly letters, sometimes any non-NUL byte
        return emit(*rc::gen::weightedOneOf<int64_t>({{4, rc::gen::inRange<int64_t>('a', 'z' + 1)}, {1, uni<int64_t>(lo, hi)}}));
      return emit(*uni<int64_t>(lo, hi));
    default:
      if (k == K_CHAR)
        return emit('a' + (int64_t)(ectr++ % 26));
      return emit(lo + (int64_t)(ectr++ % (uint64_t)span));
    }
  }

  // arbitrary 64-bit value: even tail entries are the value (>> 1), odd ones
  // are expanded by prf (so byte-sized libFuzzer entries reach wide values)
  int64_t value() {
    if (synth) {
      uint64_t r = prf(seed, 0x77, sctr++);
      return (r & 3) ? (int64_t)r : (int64_t)((r >> 2) % 33) - 16;
    }
    int64_t v;
    switch (mode) {
    case DECODE:
      v = raw_next();
      break;
    case GEN:
      v = emit(*rc::gen::weightedOneOf<int64_t>(
          {{4, rc::gen::map(rc::gen::inRange<int64_t>(-40, 41), [](int64_t x) { return x * 2; })},
           {2, rc::gen::map(rc::gen::pair(rc::gen::inRange(0, 63), rc::gen::inRange<int64_t>(-2, 3)),
                            [](std::pair<int, int64_t> p) { return (int64_t)(((1ULL << p.first) + (uint64_t)p.second) << 1); })},
           {3, rc::gen::arbitrary<int64_t>()}}));
      break;
    default:
      v = emit(2 * ((int64_t)(ectr % 11) - 5) + (int64_t)((ectr / 11) & 1));
      ++ectr;
    }
    return (v & 1) ? (int64_t)prf(seed, (uint64_t)v, 0x99) : (v >> 1);
  }

  // sequence length: tail entry L in [0,256): L < 48 -> L explicit elements
  // taken from the tail, otherwise (L-47)*24 elements filled from prf
  Len len(size_t minn = 0) {
    if (synth) {
      size_t n = (size_t)(prf(seed, 0x33, sctr++) % 5);
      n        = std::max(n, minn);
      if ((long)n > budget)
        n = budget > 0 ? (size_t)budget : (n ? 1 : 0);
      budget -= (long)n;
      return {n, false};
    }
    int64_t L;
    switch (mode) {
    case DECODE:
      L = fmod(raw_next(), 256);
      break;
    case GEN: {
      int cls = *rc::gen::weightedElement<int>({{3, 0}, {8, 1}, {4, 2}, {1, 3}});
      L       = cls == 0 ? 0 : cls == 1 ? *rc::gen::inRange<int64_t>(1, 6) : cls == 2 ? *rc::gen::inRange<int64_t>(6, 48) : *rc::gen::inRange<int64_t>(48, 256);
      if ((size_t)L < minn) {
        count_excluded();
        L = (int64_t)minn;
      }
      emit(L);
      break;
    }
    default:
      L = std::max<int64_t>(enum_len, (int64_t)minn);
      emit(L);
    }
    size_t n  = L < 48 ? (size_t)L : (size_t)(L - 47) * 24;
    bool sy   = L >= 48;
    size_t av = budget > 0 ? (size_t)budget : 0;
    if (n > av)
      n = av ? av : (n ? 1 : 0); // the budget never turns a non-empty sequence into an empty one
    budget -= (long)n;
    if (sy)
      ++long_seqs;
    if (n == 0)
      ++empty_seqs;
    return {n, sy};
  }

  // bit count of a DynamicBitSet: L < 128 -> L bits, otherwise (L-127)*67
  size_t bits(size_t minn) {
    int64_t L;
    switch (mode) {
    case DECODE:
      L = fmod(raw_next(), 256);
      break;
    case GEN: {
      L = *rc::gen::weightedOneOf<int64_t>({{2, rc::gen::just<int64_t>(0)},
                                            {4, rc::gen::inRange<int64_t>(1, 64)},
                                            {2, rc::gen::element<int64_t>(64, 65, 127)},
                                            {3, rc::gen::inRange<int64_t>(64, 128)},
                                            {3, rc::gen::inRange<int64_t>(128, 256)}});
      if ((size_t)L < minn) {
        count_excluded();
        L = (int64_t)minn;
      }
      emit(L);
      break;
    }
    default: {
      static const int64_t B[] = {0, 1, 64, 65, 127, 130};
      L                        = std::max<int64_t>(B[enum_len % 6], (int64_t)minn);
      emit(L);
    }
    }
    return L < 128 ? (size_t)L : (size_t)(L - 127) * 67;
  }

  bool note_podseq(size_t align, size_t n, bool pra) {
    podseqs.push_back({off, align, n, pra, inner});
    return off % align == 0;
  }
};

static std::string hex128(unsigned __int128 v) {
  char b[48];
  snprintf(b, sizeof b, "0x%016llx%016llx", (unsigned long long)(uint64_t)(v >> 64), (unsigned long long)(uint64_t)v);
  return b;
}

// ------------------------------------------------------------------ element types
enum class EnumU8 : uint8_t { A = 0, B = 1, Z = 255 };
struct P3 { // POD with internal and tail padding
  char a;
  int32_t b;
  int16_t c;
};
// user type with its own serialize/deserialize (trait tt_has_serialize)
struct HS {
  using tt_has_serialize = int;
  int32_t a              = 0;
  std::string s;
  void serialize(grt::SerializeBuffer& b) const { grt::gSerialize(b, a, s); }
  void deserialize(grt::DeSerializeBuffer& b) { grt::gDeserialize(b, a, s); }
};
// user type declared memory copyable (trait tt_is_copyable) with a user-provided copy constructor
struct CP {
  using tt_is_copyable = int;
  int32_t a;
  int64_t b;
  CP() : a(0), b(0) {}
  CP(const CP& o) : a(o.a), b(o.b) {}
  CP& operator=(const CP& o) {
    a = o.a;
    b = o.b;
    return *this;
  }
};

template <typename T>
struct Tr;

template <typename T>
constexpr bool is_mc() {
  return grt::is_memory_copyable<T>::value;
}

// Does the library offer size / serialise / deserialise overloads for a T
// object?  gSerialize itself is not SFINAE friendly (it fails in its body), so
// the overload sets it dispatches to are probed.  Used for types whose support
// depends on the library's is_memory_copyable classification (std::tuple
// objects: accepted only while clang builds took the __has_trivial_copy branch
// of ExtraTraits.h).
template <typename T, typename = void>
struct can_ser : std::false_type {};
template <typename T>
struct can_ser<T, std::void_t<decltype(grt::internal::gSizedObj(std::declval<const T&>())),
                              decltype(grt::internal::gSerializeObj(std::declval<grt::SerializeBuffer&>(), std::declval<const T&>())),
                              decltype(grt::internal::gDeserializeObj(std::declval<grt::DeSerializeBuffer&>(), std::declval<T&>()))>>
    : std::true_type {};

#define C17A_INT(T, NAME)                                                                                              \
  template <>                                                                                                          \
  struct Tr<T> {                                                                                                       \
    static constexpr bool exact = true;                                                                                \
    static void make(Src& S, T& x) {                                                                                   \
      x = (T)(uint64_t)S.value();                                                                                      \
      S.off += sizeof(T);                                                                                              \
    }                                                                                                                  \
    static bool eq(const T& a, const T& b, std::string& why) {                                                         \
      if (a == b)                                                                                                      \
        return true;                                                                                                   \
      why = std::string(NAME " ") + std::to_string((long long)b) + " (decoded) != " + std::to_string((long long)a);    \
      return false;                                                                                                    \
    }                                                                                                                  \
  };
C17A_INT(char, "char")
C17A_INT(int8_t, "i8")
C17A_INT(uint8_t, "u8")
C17A_INT(int16_t, "i16")
C17A_INT(uint16_t, "u16")
C17A_INT(int32_t, "i32")
C17A_INT(uint32_t, "u32")
C17A_INT(int64_t, "i64")
C17A_INT(uint64_t, "u64")

template <>
struct Tr<bool> {
  static constexpr bool exact = true;
  static void make(Src& S, bool& x) {
    x = (S.value() & 1) != 0;
    S.off += sizeof(bool);
  }
  static bool eq(const bool& a, const bool& b, std::string& why) {
    if (a == b)
      return true;
    why = std::string("bool ") + (b ? "true" : "false") + " (decoded) != " + (a ? "true" : "false");
    return false;
  }
};
template <>
struct Tr<EnumU8> {
  static constexpr bool exact = true;
  static void make(Src& S, EnumU8& x) {
    x = (EnumU8)(uint8_t)S.value();
    S.off += 1;
  }
  static bool eq(const EnumU8& a, const EnumU8& b, std::string& why) {
    if (a == b)
      return true;
    why = "enum " + std::to_string((int)b) + " (decoded) != " + std::to_string((int)a);
    return false;
  }
};
template <>
struct Tr<__int128> {
  static constexpr bool exact = true;
  static void make(Src& S, __int128& x) {
    unsigned __int128 u = ((unsigned __int128)(uint64_t)S.value() << 64) | (uint64_t)S.value();
    x                   = (__int128)u;
    S.off += sizeof(__int128);
  }
  static bool eq(const __int128& a, const __int128& b, std::string& why) {
    if (a == b)
      return true;
    why = "i128 " + hex128((unsigned __int128)b) + " (decoded) != " + hex128((unsigned __int128)a);
    return false;
  }
};
static double special_double(int64_t v) {
  switch (Src::fmod(v, 8)) {
  case 0:
    return 0.0;
  case 1:
    return -0.0;
  case 2:
    return INFINITY;
  case 3:
    return NAN;
  case 4:
    return 4.9406564584124654e-324;
  case 5:
    return -1.5;
  default:
    return (double)(v % 1000003) / 3.0;
  }
}
template <typename F>
struct FloatTr {
  static constexpr bool exact = true;
  static void make(Src& S, F& x) {
    x = (F)special_double(S.value());
    S.off += sizeof(F);
  }
  static bool eq(const F& a, const F& b, std::string& why) {
    if (a == b && std::signbit(a) == std::signbit(b))
      return true;
    if (std::isnan(a) && std::isnan(b))
      return true;
    char buf[128];
    snprintf(buf, sizeof buf, "float%zu %.17Lg (decoded) != %.17Lg", sizeof(F) * 8, (long double)b, (long double)a);
    why = buf;
    return false;
  }
};
template <>
struct Tr<float> : FloatTr<float> {};
template <>
struct Tr<double> : FloatTr<double> {};
template <>
struct Tr<long double> : FloatTr<long double> {};

template <>
struct Tr<P3> {
  static constexpr bool exact = true;
  static void make(Src& S, P3& x) {
    size_t start = S.off;
    Tr<char>::make(S, x.a);
    Tr<int32_t>::make(S, x.b);
    Tr<int16_t>::make(S, x.c);
    S.off = start + sizeof(P3);
  }
  static bool eq(const P3& a, const P3& b, std::string& why) {
    if (a.a == b.a && a.b == b.b && a.c == b.c)
      return true;
    why = "P3{" + std::to_string(b.a) + "," + std::to_string(b.b) + "," + std::to_string(b.c) + "} (decoded) != {" + std::to_string(a.a) + "," +
          std::to_string(a.b) + "," + std::to_string(a.c) + "}";
    return false;
  }
};
template <>
struct Tr<CP> {
  static constexpr bool exact = true;
  static void make(Src& S, CP& x) {
    size_t start = S.off;
    Tr<int32_t>::make(S, x.a);
    Tr<int64_t>::make(S, x.b);
    S.off = start + sizeof(CP);
  }
  static bool eq(const CP& a, const CP& b, std::string& why) {
    if (a.a == b.a && a.b == b.b)
      return true;
    why = "CP{" + std::to_string(b.a) + "," + std::to_string(b.b) + "} (decoded) != {" + std::to_string(a.a) + "," + std::to_string(a.b) + "}";
    return false;
  }
};

static std::string show_str(const std::string& s) {
  std::string r = "'";
  for (size_t i = 0; i < s.size() && i < 24; ++i) {
    unsigned char ch = (unsigned char)s[i];
    if (ch >= 32 && ch < 127 && ch != '\'')
      r += (char)ch;
    else {
      char b[8];
      snprintf(b, sizeof b, "<%02x>", ch);
      r += b;
    }
  }
  if (s.size() > 24)
    r += "...";
  return r + "'(" + std::to_string(s.size()) + ")";
}

template <typename A>
struct Tr<std::basic_string<char, std::char_traits<char>, A>> {
  typedef std::basic_string<char, std::char_traits<char>, A> Str;
  static constexpr bool exact = true;
  static void make(Src& S, Str& x) {
    Len l = S.len();
    if (l.synth)
      S.synth++;
    x.clear();
    for (size_t i = 0; i < l.n; ++i)
      x.push_back((char)(unsigned char)S.draw(K_CHAR, 1, 256)); // no embedded NUL: NUL-terminated encoding by design
    if (l.synth)
      S.synth--;
    S.off += l.n + 1;
  }
  static bool eq(const Str& a, const Str& b, std::string& why) {
    if (a == b)
      return true;
    why = "string " + show_str(b) + " (decoded) != " + show_str(a);
    return false;
  }
};

template <typename T>
struct Tr<galois::CopyableAtomic<T>> {
  static constexpr bool exact = false; // no gSizedObj overload
  static void make(Src& S, galois::CopyableAtomic<T>& x) {
    T v;
    size_t o = S.off;
    Tr<T>::make(S, v);
    S.off = o + sizeof(T);
    x.store(v);
  }
  static bool eq(const galois::CopyableAtomic<T>& a, const galois::CopyableAtomic<T>& b, std::string& why) {
    T x = a.load(), y = b.load();
    if (Tr<T>::eq(x, y, why))
      return true;
    why = "CopyableAtomic: " + why;
    return false;
  }
};

template <>
struct Tr<HS> {
  static constexpr bool exact = false; // documented: gSizedObj returns sizeof(uintptr_t) for has_serialize types
  static void make(Src& S, HS& x) {
    Tr<int32_t>::make(S, x.a);
    Tr<std::string>::make(S, x.s);
  }
  static bool eq(const HS& a, const HS& b, std::string& why) {
    if (!Tr<int32_t>::eq(a.a, b.a, why) || !Tr<std::string>::eq(a.s, b.s, why)) {
      why = "HS: " + why;
      return false;
    }
    return true;
  }
};

template <typename A, typename B>
struct Tr<std::pair<A, B>> {
  static constexpr bool exact = Tr<A>::exact && Tr<B>::exact;
  static void make(Src& S, std::pair<A, B>& x) {
    Tr<A>::make(S, x.first);
    Tr<B>::make(S, x.second);
  }
  static bool eq(const std::pair<A, B>& a, const std::pair<A, B>& b, std::string& why) {
    if (!Tr<A>::eq(a.first, b.first, why)) {
      why = "pair.first: " + why;
      return false;
    }
    if (!Tr<B>::eq(a.second, b.second, why)) {
      why = "pair.second: " + why;
      return false;
    }
    return true;
  }
};
template <typename A, typename B>
struct Tr<galois::Pair<A, B>> {
  static constexpr bool lin   = is_mc<A>() && is_mc<B>(); // memcpy of the whole struct
  static constexpr bool exact = lin;
  static void make(Src& S, galois::Pair<A, B>& x) {
    size_t start = S.off;
    Tr<A>::make(S, x.first);
    Tr<B>::make(S, x.second);
    if (lin)
      S.off = start + sizeof(x);
  }
  static bool eq(const galois::Pair<A, B>& a, const galois::Pair<A, B>& b, std::string& why) {
    if (!Tr<A>::eq(a.first, b.first, why)) {
      why = "Pair.first: " + why;
      return false;
    }
    if (!Tr<B>::eq(a.second, b.second, why)) {
      why = "Pair.second: " + why;
      return false;
    }
    return true;
  }
};
template <typename A, typename B, typename C>
struct Tr<galois::TupleOfThree<A, B, C>> {
  static constexpr bool lin   = is_mc<A>() && is_mc<B>() && is_mc<C>();
  static constexpr bool exact = lin;
  static void make(Src& S, galois::TupleOfThree<A, B, C>& x) {
    size_t start = S.off;
    Tr<A>::make(S, x.first);
    Tr<B>::make(S, x.second);
    Tr<C>::make(S, x.third);
    if (lin)
      S.off = start + sizeof(x);
  }
  static bool eq(const galois::TupleOfThree<A, B, C>& a, const galois::TupleOfThree<A, B, C>& b, std::string& why) {
    if (!Tr<A>::eq(a.first, b.first, why)) {
      why = "TupleOfThree.first: " + why;
      return false;
    }
    if (!Tr<B>::eq(a.second, b.second, why)) {
      why = "TupleOfThree.second: " + why;
      return false;
    }
    if (!Tr<C>::eq(a.third, b.third, why)) {
      why = "TupleOfThree.third: " + why;
      return false;
    }
    return true;
  }
};

// a std::tuple OBJECT passed to gSerialize (only instantiated where can_ser
// says that the library accepts it)
template <typename... Ts>
struct Tr<std::tuple<Ts...>> {
  typedef std::tuple<Ts...> Tup;
  static constexpr bool lin   = grt::is_memory_copyable<Tup>::value; // memory copy of the whole object
  static constexpr bool exact = lin || (Tr<Ts>::exact && ...);
  template <size_t... I>
  static void make_impl(Src& S, Tup& x, std::index_sequence<I...>) {
    (Tr<Ts>::make(S, std::get<I>(x)), ...);
  }
  static void make(Src& S, Tup& x) {
    size_t start = S.off;
    make_impl(S, x, std::index_sequence_for<Ts...>{});
    if (lin)
      S.off = start + sizeof(Tup);
  }
  template <size_t... I>
  static bool eq_impl(const Tup& a, const Tup& b, std::string& why, std::index_sequence<I...>) {
    bool ok  = true;
    auto one = [&](size_t idx, const auto& x, const auto& y) {
      typedef typename std::decay<decltype(x)>::type E;
      if (ok && !Tr<E>::eq(x, y, why)) {
        why = "std::tuple element " + std::to_string(idx) + ": " + why;
        ok  = false;
      }
    };
    (one(I, std::get<I>(a), std::get<I>(b)), ...);
    return ok;
  }
  static bool eq(const Tup& a, const Tup& b, std::string& why) { return eq_impl(a, b, why, std::index_sequence_for<Ts...>{}); }
};

template <typename SeqT, typename E>
static bool seq_eq(const char* what, const SeqT& a, const SeqT& b, std::string& why) {
  if (a.size() != b.size()) {
    why = std::string(what) + " size " + std::to_string(b.size()) + " (decoded) != " + std::to_string(a.size());
    return false;
  }
  auto ia = a.begin(), ib = b.begin();
  size_t n = a.size(), i = 0;
  for (; i < n; ++i, ++ia, ++ib) {
    if (ia == a.end() || ib == b.end()) {
      why = std::string(what) + " iteration ends after " + std::to_string(i) + " of " + std::to_string(n) + " elements";
      return false;
    }
    if (!Tr<E>::eq(*ia, *ib, why)) {
      why = std::string(what) + "[" + std::to_string(i) + "/" + std::to_string(n) + "]: " + why;
      return false;
    }
  }
  if (!(ia == a.end()) || !(ib == b.end())) {
    why = std::string(what) + " iteration does not end after size()=" + std::to_string(n) + " elements";
    return false;
  }
  return true;
}

template <typename E, typename A>
struct Tr<std::vector<E, A>> {
  typedef std::vector<E, A> V;
  static constexpr bool lin   = is_mc<E>(); // gSerializeLinearSeq / gDeserializeLinearSeq
  static constexpr bool exact = lin;       // gSizedSeq estimates sizeof(uintptr_t) per non-copyable element
  static void make(Src& S, V& x) {
    Len l = S.len();
    S.off += sizeof(typename V::size_type);
    size_t payload = S.off;
    if (lin)
      S.note_podseq(alignof(E), l.n, false);
    else
      S.nonpod_seqs++;
    if (l.synth)
      S.synth++;
    x.clear();
    for (size_t i = 0; i < l.n; ++i) {
      E e{};
      Tr<E>::make(S, e);
      x.push_back(std::move(e));
    }
    if (l.synth)
      S.synth--;
    if (lin)
      S.off = payload + l.n * sizeof(E);
  }
  static bool eq(const V& a, const V& b, std::string& why) { return seq_eq<V, E>("vector", a, b, why); }
};

template <typename E>
struct Tr<galois::PODResizeableArray<E>> {
  typedef galois::PODResizeableArray<E> V;
  static constexpr bool exact = true;
  static void make(Src& S, V& x) {
    bool aligned = (S.off + sizeof(size_t)) % alignof(E) == 0;
    size_t minn  = (S.mode != Src::DECODE && aligned && excluded(KEY_PRA_EMPTY)) ? 1 : 0;
    Len l        = S.len(minn);
    if (S.mode == Src::DECODE && aligned && l.n == 0 && excluded(KEY_PRA_EMPTY))
      S.excluded_shape = true;
    S.off += sizeof(size_t);
    size_t payload = S.off;
    S.note_podseq(alignof(E), l.n, true);
    if (l.synth)
      S.synth++;
    x.clear();
    for (size_t i = 0; i < l.n; ++i) {
      E e{};
      Tr<E>::make(S, e);
      x.push_back(e);
    }
    if (l.synth)
      S.synth--;
    S.off = payload + l.n * sizeof(E);
  }
  static bool eq(const V& a, const V& b, std::string& why) { return seq_eq<V, E>("PODResizeableArray", a, b, why); }
};

template <typename E, unsigned CS>
struct Tr<galois::gdeque<E, CS>> {
  typedef galois::gdeque<E, CS> V;
  static constexpr bool exact = is_mc<E>(); // element-wise encoding, sizeof(E) each when copyable
  static void make(Src& S, V& x) {
    Len l = S.len();
    S.off += sizeof(size_t);
    S.nonpod_seqs++; // always the element-wise path
    if (l.synth)
      S.synth++;
    for (size_t i = 0; i < l.n; ++i) {
      E e{};
      Tr<E>::make(S, e);
      x.push_back(e);
    }
    if (l.synth)
      S.synth--;
  }
  static bool eq(const V& a, const V& b, std::string& why) { return seq_eq<V, E>("gdeque", a, b, why); }
};

template <>
struct Tr<galois::DynamicBitSet> {
  static constexpr bool exact = false; // tt_is_copyable: gSizedObj = sizeof(DynamicBitSet), the encoding is custom
  static void make(Src& S, galois::DynamicBitSet& x) {
    // layout: size_t num_bits, size_t words, words * uint64_t
    bool aligned = (S.off + 2 * sizeof(size_t)) % alignof(uint64_t) == 0;
    size_t minn  = (S.mode != Src::DECODE && aligned && excluded(KEY_PRA_EMPTY)) ? 1 : 0;
    size_t bits  = S.bits(minn);
    if (S.mode == Src::DECODE && aligned && bits == 0 && excluded(KEY_PRA_EMPTY))
      S.excluded_shape = true;
    int density  = (int)S.draw(K_CHOICE, 0, 4);
    uint64_t k   = (uint64_t)S.value();
    x.resize(bits);
    for (size_t i = 0; i < bits; ++i) {
      bool set = density == 0 ? false : density == 1 ? true : density == 2 ? (prf(k, i) & 1) : (prf(k, i) % 9 == 0);
      if (set)
        x.set(i);
    }
    S.off += 2 * sizeof(size_t);
    size_t words = (bits + 63) / 64;
    S.note_podseq(alignof(uint64_t), words, true);
    S.off += words * sizeof(uint64_t);
  }
  static bool eq(const galois::DynamicBitSet& a, const galois::DynamicBitSet& b, std::string& why) {
    if (a.size() != b.size()) {
      why = "DynamicBitSet size " + std::to_string(b.size()) + " (decoded) != " + std::to_string(a.size());
      return false;
    }
    if (a.get_vec().size() != b.get_vec().size()) {
      why = "DynamicBitSet word count " + std::to_string(b.get_vec().size()) + " (decoded) != " + std::to_string(a.get_vec().size()) + " for " +
            std::to_string(a.size()) + " bits";
      return false;
    }
    for (size_t i = 0; i < a.size(); ++i)
      if (a.test(i) != b.test(i)) {
        why = "DynamicBitSet(" + std::to_string(a.size()) + " bits) bit " + std::to_string(i) + " is " + std::to_string((int)b.test(i)) +
              " (decoded), original " + std::to_string((int)a.test(i));
        return false;
      }
    return true;
  }
};

// ------------------------------------------------------------------ items
struct Item {
  const char* name    = "?";
  const char* subject = "?";
  int cls             = 0;
  size_t produced     = 0;
  size_t rec_b = 0, rec_e = 0; // its records in Src::podseqs
  virtual ~Item() {}
  virtual void build(Src&)                        = 0;
  virtual void ser(grt::SerializeBuffer&)         = 0;
  virtual bool exact() const                      = 0;
  virtual size_t gsized()                         = 0;
  virtual void deser(grt::DeSerializeBuffer&)     = 0;
  virtual bool equal(std::string& why)            = 0;
};

// ---- crash attribution: the death callback / signal handler report the
// operation that was running (a sanitizer abort cannot be caught otherwise)
static char g_hint_subject[96] = "unknown";
static char g_hint_kind[96]    = "run"; // "<kind>-crash" is reported unless the kind names a known shape
static bool g_hint_named       = false;
static std::string g_case_json_cur;
static uint64_t g_case_hash_cur = 0;
static void set_hint(const char* subject, const char* kind, bool named = false) {
  snprintf(g_hint_subject, sizeof g_hint_subject, "%s", subject);
  snprintf(g_hint_kind, sizeof g_hint_kind, "%s", kind);
  g_hint_named = named;
}
static std::string fkey(const char* subject, const char* kind) { return std::string(subject) + "|" + kind; }

static std::vector<PodSeqRec>* g_recs = nullptr;
static uintptr_t g_base               = 0; // address of the final deserialise buffer
static bool has_pra_empty_aligned(const Item& it) {
  if (!g_recs)
    return false;
  for (size_t i = it.rec_b; i < it.rec_e && i < g_recs->size(); ++i) {
    const PodSeqRec& r = (*g_recs)[i];
    if (r.pra && r.n == 0 && ((r.inner ? 0 : g_base) + r.off) % r.align == 0)
      return true;
  }
  return false;
}

static void ser_checked(Item& it, grt::SerializeBuffer& b) {
  size_t before = b.size();
  set_hint(it.subject, "serialize");
  it.ser(b);
  size_t after = b.size();
  VCHECK(after >= before, fkey(it.subject, "produced").c_str(), "%s: buffer shrank from %zu to %zu bytes while serialising", it.name, before, after);
  it.produced = after - before;
  if (it.exact()) {
    size_t g = it.gsized();
    VCHECK(g == it.produced, fkey(it.subject, "gsized").c_str(), "%s: gSized() = %zu but gSerialize produced %zu bytes", it.name, g, it.produced);
  }
}
static void deser_checked(Item& it, grt::DeSerializeBuffer& d) {
  if (has_pra_empty_aligned(it))
    set_hint("PODResizeableArray", "empty-aligned-deserialize", true);
  else
    set_hint(it.subject, "deserialize");
  unsigned before = d.getOffset();
  it.deser(d);
  unsigned after = d.getOffset();
  VCHECK((size_t)(after - before) == it.produced, fkey(it.subject, "consumed").c_str(),
         "%s: gSerialize produced %zu bytes, gDeserialize consumed %lld (offset %u -> %u, buffer address %% 16 = %u)", it.name, it.produced,
         (long long)after - (long long)before, before, after, (unsigned)(g_base % 16));
  std::string why;
  VCHECK(it.equal(why), fkey(it.subject, "value").c_str(), "%s at buffer offset %u (address %% 16 = %u): %s", it.name, before,
         (unsigned)((g_base + before) % 16), why.c_str());
}

template <typename... Ts>
struct PackItem : Item {
  typedef std::tuple<Ts...> Tup;
  Tup orig;
  std::unique_ptr<Tup> got;
  int how = 0;
  template <size_t... I>
  void build_impl(Src& S, std::index_sequence<I...>) {
    (Tr<Ts>::make(S, std::get<I>(orig)), ...);
  }
  void build(Src& S) override {
    how = (int)S.draw(K_CHOICE, 0, 2);
    build_impl(S, std::index_sequence_for<Ts...>{});
  }
  void ser(grt::SerializeBuffer& b) override {
    std::apply([&](auto&... a) { grt::gSerialize(b, a...); }, orig);
  }
  bool exact() const override { return (Tr<Ts>::exact && ...); }
  size_t gsized() override {
    return std::apply([&](auto&... a) { return grt::gSized(a...); }, orig);
  }
  void deser(grt::DeSerializeBuffer& d) override {
    got.reset(new Tup()); // freshly constructed targets
    if (how == 0)
      std::apply([&](auto&... a) { grt::gDeserialize(d, a...); }, *got);
    else
      grt::gDeserialize(d, *got); // a parameter pack read back as std::tuple
  }
  template <size_t... I>
  bool eq_impl(std::string& why, std::index_sequence<I...>) {
    bool ok  = true;
    auto one = [&](size_t idx, const auto& x, const auto& y) {
      typedef typename std::decay<decltype(x)>::type E;
      if (ok && !Tr<E>::eq(x, y, why)) {
        if (sizeof...(Ts) > 1)
          why = "value " + std::to_string(idx) + " of " + std::to_string(sizeof...(Ts)) + ": " + why;
        ok = false;
      }
    };
    (one(I, std::get<I>(orig), std::get<I>(*got)), ...);
    return ok;
  }
  bool equal(std::string& why) override { return eq_impl(why, std::index_sequence_for<Ts...>{}); }
};

// parameter pack that is always read back as std::tuple (stands in for the
// std::tuple-object entries where the library does not serialise tuple objects)
template <typename... Ts>
struct TuplePackItem : PackItem<Ts...> {
  void deser(grt::DeSerializeBuffer& d) override {
    this->got.reset(new std::tuple<Ts...>());
    grt::gDeserialize(d, *this->got);
  }
};

// memory-copyable value read back through gDeserializeRaw(iterator, T&)
template <typename T>
struct RawItem : Item {
  T orig{}, got{};
  bool iter_ok = true;
  void build(Src& S) override { Tr<T>::make(S, orig); }
  void ser(grt::SerializeBuffer& b) override { grt::gSerialize(b, orig); }
  bool exact() const override { return true; }
  size_t gsized() override { return grt::gSized(orig); }
  void deser(grt::DeSerializeBuffer& d) override {
    got            = T{};
    const uint8_t* it = d.r_linearData();
    const uint8_t* r  = grt::gDeserializeRaw(it, got);
    iter_ok        = r == it + sizeof(T);
    d.setOffset(d.getOffset() + (unsigned)(r - it));
  }
  bool equal(std::string& why) override {
    if (!iter_ok) {
      why = "gDeserializeRaw did not advance the iterator by sizeof(T)";
      return false;
    }
    return Tr<T>::eq(orig, got, why);
  }
};

// vector<T> produced through gSerializeLazySeq / gSerializeLazy
template <typename T>
struct LazyItem : Item {
  std::vector<T> orig, got;
  int order = 0;
  void build(Src& S) override {
    order = (int)S.draw(K_CHOICE, 0, 2);
    Tr<std::vector<T>>::make(S, orig);
  }
  void ser(grt::SerializeBuffer& b) override {
    unsigned n = (unsigned)orig.size();
    auto ref   = grt::gSerializeLazySeq(b, n, (std::vector<T>*)nullptr);
    for (unsigned k = 0; k < n; ++k) {
      unsigned i = order ? n - 1 - k : k;
      grt::gSerializeLazy(b, ref, i, T(orig[i]));
    }
  }
  bool exact() const override { return true; }
  size_t gsized() override { return grt::gSized(orig); }
  void deser(grt::DeSerializeBuffer& d) override {
    got = std::vector<T>();
    grt::gDeserialize(d, got);
  }
  bool equal(std::string& why) override { return Tr<std::vector<T>>::eq(orig, got, why); }
};

static std::unique_ptr<Item> make_item(Src& S);

// a SerializeBuffer serialised into another one: its bytes are spliced in, so
// the values it holds are read back from the outer stream
struct NestedSer : Item {
  std::vector<std::unique_ptr<Item>> subs;
  int variant = 0;
  size_t gs   = 0;
  void build(Src& S) override {
    variant = (int)S.draw(K_CHOICE, 0, 2);
    int k   = (int)S.draw(K_CHOICE, 0, 4);
    S.depth++;
    S.maxdepth = std::max(S.maxdepth, S.depth);
    for (int i = 0; i < k; ++i)
      subs.push_back(make_item(S));
    S.depth--;
  }
  void ser(grt::SerializeBuffer& b) override {
    grt::SerializeBuffer inner;
    for (auto& s : subs)
      ser_checked(*s, inner);
    set_hint(subject, "serialize");
    if (variant == 1) { // through the (const char*, len) constructor
      grt::SerializeBuffer copy((const char*)inner.linearData(), (unsigned)inner.size());
      gs = grt::gSized(copy);
      grt::gSerialize(b, copy);
    } else {
      gs = grt::gSized(inner);
      grt::gSerialize(b, inner);
    }
  }
  bool exact() const override { return true; }
  size_t gsized() override { return gs; }
  void deser(grt::DeSerializeBuffer& d) override {
    for (auto& s : subs)
      deser_checked(*s, d);
  }
  bool equal(std::string&) override { return true; }
};

// a partly consumed DeSerializeBuffer serialised into a SerializeBuffer: only
// its remaining bytes are forwarded
struct NestedDeser : Item {
  std::vector<std::unique_ptr<Item>> skips, kept;
  size_t gs = 0, model_bytes = 0;
  void build_subs(Src& S, int j, int k) {
    S.depth++;
    S.maxdepth   = std::max(S.maxdepth, S.depth);
    size_t save  = S.off;
    bool saveinn = S.inner;
    S.off        = 0; // the skipped values are read from the inner buffer
    S.inner      = true;
    for (int i = 0; i < j; ++i)
      skips.push_back(make_item(S));
    model_bytes = S.off;
    S.off       = save;
    S.inner     = saveinn;
    for (int i = 0; i < k; ++i)
      kept.push_back(make_item(S));
    model_bytes += S.off - save;
    S.depth--;
  }
  void build(Src& S) override {
    Src snapshot = S;
    size_t mark  = S.out ? S.out->f.size() : 0;
    int j        = (int)S.draw(K_CHOICE, 0, 3);
    int k        = (int)S.draw(K_CHOICE, 0, 4);
    build_subs(S, j, k);
    if (S.mode == Src::DECODE && model_bytes == 0 && excluded(KEY_EMPTY_DESER))
      S.excluded_shape = true;
    if (S.mode != Src::DECODE && model_bytes == 0 && excluded(KEY_EMPTY_DESER)) {
      // known finding: an inner buffer that never held a byte. Redo this item
      // as "skip nothing, keep one bool".
      count_excluded();
      skips.clear();
      kept.clear();
      S = snapshot;
      S.out->f.resize(mark);
      S.emit(0);
      S.emit(1);
      S.force_slot = 0;
      build_subs(S, 0, 1);
    }
  }
  void ser(grt::SerializeBuffer& b) override {
    grt::SerializeBuffer inner;
    for (auto& s : skips)
      ser_checked(*s, inner);
    for (auto& s : kept)
      ser_checked(*s, inner);
    size_t total = inner.size();
    grt::DeSerializeBuffer din(std::move(inner));
    uintptr_t save_base = g_base;
    g_base              = 0;
    for (auto& s : skips)
      deser_checked(*s, din);
    g_base = save_base;
    size_t rest = 0;
    for (auto& s : kept)
      rest += s->produced;
    if (total == 0) // the inner buffer never allocated
      set_hint("DeSerializeBuffer", "empty-r_linearData", true);
    else
      set_hint(subject, "serialize");
    VCHECK(din.r_size() == rest && din.size() == total, fkey(subject, "r_size").c_str(),
           "DeSerializeBuffer of %zu bytes after consuming %zu: r_size() = %zu, expected %zu", total, total - rest, din.r_size(), rest);
    gs = grt::gSized(din);
    grt::gSerialize(b, din);
  }
  bool exact() const override { return true; }
  size_t gsized() override { return gs; }
  void deser(grt::DeSerializeBuffer& d) override {
    for (auto& s : kept)
      deser_checked(*s, d);
  }
  bool equal(std::string&) override { return true; }
};

// ------------------------------------------------------------------ menu
enum Cls { C_SCALAR = 0, C_PAIR, C_STRING, C_PODVEC, C_NONPODVEC, C_PRA, C_GDEQUE, C_BITSET, C_NESTED, C_PACK, C_USER, C_STDTUPLE, C_LAZY, C_RAW, C_NCLS };
static const char* CLS_NAMES[C_NCLS] = {"scalar", "pair", "string", "podvec", "nonpodvec", "pra", "gdeque", "bitset", "nested", "pack", "user", "stdtuple", "lazy", "raw"};

struct Entry {
  const char* name;
  const char* subject;
  int cls;
  int weight;
  const char* excl; // finding key that rules this entry out, or null
  bool leaf;        // false: nested item (needs depth budget)
  std::function<Item*()> mk;
};
static std::vector<Entry> g_menu;
static std::vector<int> g_slots; // entry index repeated `weight` times

template <typename... Ts>
static void add(const char* name, const char* subject, int cls, int weight, const char* excl = nullptr) {
  g_menu.push_back({name, subject, cls, weight, excl, true, [] { return (Item*)new PackItem<Ts...>(); }});
}
template <typename I>
static void add_item(const char* name, const char* subject, int cls, int weight, bool leaf = true) {
  g_menu.push_back({name, subject, cls, weight, nullptr, leaf, [] { return (Item*)new I(); }});
}

template <typename... Ts>
static void add_tuple(const char* objname, const char* packname, int weight) {
  if constexpr (can_ser<std::tuple<Ts...>>::value)
    add<std::tuple<Ts...>>(objname, "std::tuple", C_STDTUPLE, weight, KEY_TUPLE);
  else
    g_menu.push_back({packname, "pack", C_PACK, weight, nullptr, true, [] { return (Item*)new TuplePackItem<Ts...>(); }});
}

using galois::CopyableAtomic;
using galois::DynamicBitSet;
using galois::gdeque;
using galois::PODResizeableArray;
using std::string;
using std::vector;
typedef galois::Pair<int32_t, double> PairID;
typedef galois::Pair<int32_t, string> PairIS;
typedef galois::TupleOfThree<int32_t, char, double> T3POD;
typedef galois::TupleOfThree<int32_t, string, double> T3S;

static void build_menu() {
  if (!g_menu.empty())
    return;
  // scalars of all widths
  add<bool>("bool", "scalar", C_SCALAR, 1);
  add<char>("char", "scalar", C_SCALAR, 1);
  add<int8_t>("i8", "scalar", C_SCALAR, 1);
  add<uint8_t>("u8", "scalar", C_SCALAR, 2);
  add<int16_t>("i16", "scalar", C_SCALAR, 1);
  add<uint16_t>("u16", "scalar", C_SCALAR, 1);
  add<int32_t>("i32", "scalar", C_SCALAR, 1);
  add<uint32_t>("u32", "scalar", C_SCALAR, 1);
  add<int64_t>("i64", "scalar", C_SCALAR, 1);
  add<uint64_t>("u64", "scalar", C_SCALAR, 1);
  add<float>("float", "scalar", C_SCALAR, 1);
  add<double>("double", "scalar", C_SCALAR, 1);
  add<long double>("long double", "scalar", C_SCALAR, 1);
  add<__int128>("i128", "scalar", C_SCALAR, 1);
  add<EnumU8>("enum:u8", "scalar", C_SCALAR, 1);
  add<P3>("struct P3{char,i32,i16}", "scalar", C_SCALAR, 1);
  add<CP>("struct CP (tt_is_copyable)", "tt_is_copyable", C_USER, 1);
  add<HS>("struct HS (tt_has_serialize)", "tt_has_serialize", C_USER, 2);
  // pairs and tuples
  add<std::pair<int32_t, double>>("std::pair<i32,double>", "std::pair", C_PAIR, 2);
  add<std::pair<uint8_t, uint16_t>>("std::pair<u8,u16>", "std::pair", C_PAIR, 1);
  add<std::pair<int64_t, char>>("std::pair<i64,char>", "std::pair", C_PAIR, 1);
  add<std::pair<std::pair<int32_t, int32_t>, char>>("std::pair<std::pair<i32,i32>,char>", "std::pair", C_PAIR, 1);
  add<std::pair<HS, int32_t>>("std::pair<HS,i32>", "std::pair", C_PAIR, 1);
  add<PairID>("galois::Pair<i32,double>", "galois::Pair", C_PAIR, 2);
  add<galois::Pair<uint8_t, uint64_t>>("galois::Pair<u8,u64>", "galois::Pair", C_PAIR, 1);
  add<galois::Pair<char, char>>("galois::Pair<char,char>", "galois::Pair", C_PAIR, 1);
  add<T3POD>("galois::TupleOfThree<i32,char,double>", "galois::TupleOfThree", C_PAIR, 2);
  add<galois::TupleOfThree<uint16_t, uint16_t, uint8_t>>("galois::TupleOfThree<u16,u16,u8>", "galois::TupleOfThree", C_PAIR, 1);
  // strings
  add<string>("std::string", "std::string", C_STRING, 5);
  // vectors of memory-copyable elements
  add<vector<uint8_t>>("vector<u8>", "vector<POD>", C_PODVEC, 2);
  add<vector<char>>("vector<char>", "vector<POD>", C_PODVEC, 1);
  add<vector<int16_t>>("vector<i16>", "vector<POD>", C_PODVEC, 2);
  add<vector<int32_t>>("vector<i32>", "vector<POD>", C_PODVEC, 4);
  add<vector<int64_t>>("vector<i64>", "vector<POD>", C_PODVEC, 4);
  add<vector<double>>("vector<double>", "vector<POD>", C_PODVEC, 2);
  add<vector<float>>("vector<float>", "vector<POD>", C_PODVEC, 1);
  add<vector<__int128>>("vector<i128>", "vector<POD>", C_PODVEC, 2);
  add<vector<long double>>("vector<long double>", "vector<POD>", C_PODVEC, 1);
  add<vector<PairID>>("vector<galois::Pair<i32,double>>", "vector<POD>", C_PODVEC, 2);
  add<vector<T3POD>>("vector<galois::TupleOfThree<i32,char,double>>", "vector<POD>", C_PODVEC, 1);
  add<vector<P3>>("vector<P3>", "vector<POD>", C_PODVEC, 1);
  add<vector<CP>>("vector<CP>", "vector<POD>", C_PODVEC, 1);
  add<vector<std::pair<int32_t, int32_t>>>("vector<std::pair<i32,i32>>", "vector<std::pair>", C_PODVEC, 1);
  // vectors of non-copyable elements
  add<vector<string>>("vector<string>", "vector<nonPOD>", C_NONPODVEC, 5);
  add<vector<vector<int32_t>>>("vector<vector<i32>>", "vector<nonPOD>", C_NONPODVEC, 5);
  add<vector<vector<int64_t>>>("vector<vector<i64>>", "vector<nonPOD>", C_NONPODVEC, 2);
  add<vector<vector<string>>>("vector<vector<string>>", "vector<nonPOD>", C_NONPODVEC, 2);
  add<vector<std::pair<int32_t, string>>>("vector<std::pair<i32,string>>", "vector<nonPOD>", C_NONPODVEC, 2);
  add<vector<PairIS>>("vector<galois::Pair<i32,string>>", "vector<nonPOD>", C_NONPODVEC, 2);
  add<vector<T3S>>("vector<galois::TupleOfThree<i32,string,double>>", "vector<nonPOD>", C_NONPODVEC, 2);
  add<vector<HS>>("vector<HS>", "vector<nonPOD>", C_NONPODVEC, 2);
  add<vector<galois::Pair<HS, int32_t>>>("vector<galois::Pair<HS,i32>>", "vector<nonPOD>", C_NONPODVEC, 1);
  add<vector<CopyableAtomic<int32_t>>>("vector<CopyableAtomic<i32>>", "CopyableAtomic", C_NONPODVEC, 2);
  add<vector<CopyableAtomic<uint64_t>>>("vector<CopyableAtomic<u64>>", "CopyableAtomic", C_NONPODVEC, 2);
  // PODResizeableArray (element alignment <= 8: see the exclusion of KEY_PRA_EMPTY)
  add<PODResizeableArray<uint8_t>>("PODResizeableArray<u8>", "PODResizeableArray", C_PRA, 2);
  add<PODResizeableArray<int32_t>>("PODResizeableArray<i32>", "PODResizeableArray", C_PRA, 3);
  add<PODResizeableArray<int64_t>>("PODResizeableArray<i64>", "PODResizeableArray", C_PRA, 3);
  add<PODResizeableArray<PairID>>("PODResizeableArray<galois::Pair<i32,double>>", "PODResizeableArray", C_PRA, 2);
  add<PODResizeableArray<CopyableAtomic<uint64_t>>>("PODResizeableArray<CopyableAtomic<u64>>", "PODResizeableArray", C_PRA, 1);
  // gdeque
  add<gdeque<int32_t>>("gdeque<i32>", "gdeque", C_GDEQUE, 3);
  add<gdeque<int64_t, 4>>("gdeque<i64,4>", "gdeque", C_GDEQUE, 2);
  add<gdeque<string>>("gdeque<string>", "gdeque", C_GDEQUE, 3);
  add<gdeque<PairIS>>("gdeque<galois::Pair<i32,string>>", "gdeque", C_GDEQUE, 1);
  add<gdeque<vector<int32_t>>>("gdeque<vector<i32>>", "gdeque", C_GDEQUE, 2);
  add<gdeque<CopyableAtomic<int32_t>>>("gdeque<CopyableAtomic<i32>>", "CopyableAtomic", C_GDEQUE, 1);
  add<gdeque<HS>>("gdeque<HS>", "gdeque", C_GDEQUE, 1);
  // bitset
  add<DynamicBitSet>("DynamicBitSet", "DynamicBitSet", C_BITSET, 6);
  // parameter packs (one gSerialize call; read back as pack or as std::tuple)
  add<int32_t, string, vector<int64_t>>("pack(i32,string,vector<i64>)", "pack", C_PACK, 3);
  add<uint8_t, double>("pack(u8,double)", "pack", C_PACK, 1);
  add<uint8_t, vector<int64_t>>("pack(u8,vector<i64>)", "pack", C_PACK, 3);
  add<vector<string>, int64_t, PairID, string>("pack(vector<string>,i64,Pair<i32,double>,string)", "pack", C_PACK, 2);
  add<string, string, string>("pack(string,string,string)", "pack", C_PACK, 2);
  add<char, PODResizeableArray<int32_t>, char, DynamicBitSet>("pack(char,PODResizeableArray<i32>,char,DynamicBitSet)", "pack", C_PACK, 3);
  add<uint8_t, int16_t, int32_t, int64_t, float, double, string, vector<int16_t>>("pack(u8,i16,i32,i64,float,double,string,vector<i16>)", "pack", C_PACK, 2);
  add<gdeque<int32_t>, bool, vector<vector<int32_t>>>("pack(gdeque<i32>,bool,vector<vector<i32>>)", "pack", C_PACK, 2);
  add<string, vector<__int128>, std::pair<int32_t, double>, HS>("pack(string,vector<i128>,std::pair<i32,double>,HS)", "pack", C_PACK, 2);
  // lazy sequences, raw iterator reads
  add_item<LazyItem<int32_t>>("lazy vector<i32>", "lazy-seq", C_LAZY, 2);
  add_item<LazyItem<int64_t>>("lazy vector<i64>", "lazy-seq", C_LAZY, 2);
  add_item<LazyItem<PairID>>("lazy vector<galois::Pair<i32,double>>", "lazy-seq", C_LAZY, 1);
  add_item<RawItem<int32_t>>("raw i32", "gDeserializeRaw", C_RAW, 1);
  add_item<RawItem<double>>("raw double", "gDeserializeRaw", C_RAW, 1);
  add_item<RawItem<PairID>>("raw galois::Pair<i32,double>", "gDeserializeRaw", C_RAW, 1);
  // nested buffers
  add_item<NestedSer>("nested SerializeBuffer", "nested-SerializeBuffer", C_NESTED, 6, false);
  add_item<NestedDeser>("nested DeSerializeBuffer", "nested-DeSerializeBuffer", C_NESTED, 6, false);
  // (last in the menu) std::tuple objects where gSerialize accepts them, else the
  // same values as a parameter pack read back as std::tuple; same tail layout and
  // slot numbers either way
  add_tuple<int64_t>("std::tuple<i64>", "pack(i64)->std::tuple", 1);
  add_tuple<int32_t, double>("std::tuple<i32,double>", "pack(i32,double)->std::tuple", 2);
  add_tuple<int32_t, int32_t>("std::tuple<i32,i32>", "pack(i32,i32)->std::tuple", 1);
  add_tuple<uint8_t, int16_t, int64_t>("std::tuple<u8,i16,i64>", "pack(u8,i16,i64)->std::tuple", 1);
  for (size_t i = 0; i < g_menu.size(); ++i)
    for (int w = 0; w < g_menu[i].weight; ++w)
      g_slots.push_back((int)i);
}

static int g_cls_seen[C_NCLS];

static bool entry_ok(const Entry& e, const Src& S) {
  if (e.excl && excluded(e.excl))
    return false;
  (void)S;
  return true;
}

static std::unique_ptr<Item> make_item(Src& S) {
  int nslots = (int)g_slots.size();
  int slot   = 0;
  if (S.mode == Src::DECODE) {
    slot = (int)Src::fmod(S.raw_next(), nslots);
  } else if (S.force_slot >= 0) {
    slot         = (int)S.force_slot;
    S.force_slot = -1;
    S.emit(slot);
  } else if (S.mode == Src::GEN) {
    for (int tries = 0;; ++tries) {
      slot = *uni(0, nslots);
      if (entry_ok(g_menu[g_slots[slot]], S) || tries > 50)
        break;
      count_excluded();
    }
    if (!entry_ok(g_menu[g_slots[slot]], S))
      slot = 0;
    S.emit(slot);
  } else {
    if (S.depth == 0)
      slot = (int)S.enum_slot;
    else
      for (int tries = 0; tries < nslots; ++tries) {
        slot = (int)((S.ectr++ * 7) % (uint64_t)nslots);
        if (entry_ok(g_menu[g_slots[slot]], S))
          break;
      }
    S.emit(slot);
  }
  const Entry* e = &g_menu[g_slots[slot]];
  if (!e->leaf && S.depth >= 2) // depth budget: a scalar instead of a third nesting level
    e = &g_menu[g_slots[(size_t)slot % 8]];
  if (S.mode == Src::DECODE && !entry_ok(*e, S))
    S.excluded_shape = true;
  std::unique_ptr<Item> it(e->mk());
  it->name    = e->name;
  it->subject = e->subject;
  it->cls     = e->cls;
  g_cls_seen[e->cls]++;
  it->rec_b = S.podseqs.size();
  it->build(S);
  it->rec_e = S.podseqs.size();
  return it;
}

void normalize_case(Case& c) {
  if (c.f.size() < (size_t)F_COUNT)
    c.f.resize(F_COUNT, 0);
  c[F_NITEMS] = 1 + Src::fmod(c[F_NITEMS] - 1, 8);
  c[F_PREFIX] = Src::fmod(c[F_PREFIX], 16);
  c[F_SUFFIX] = Src::fmod(c[F_SUFFIX], 8);
  c[F_MODE]   = Src::fmod(c[F_MODE], NMODE);
  c[F_SEED]   = Src::fmod(c[F_SEED], 1 << 20);
}

Case generate() {
  using namespace rc;
  build_menu();
  Case c;
  c.f.assign(F_COUNT, 0);
  c[F_NITEMS] = *gen::weightedOneOf<int64_t>({{1, gen::just<int64_t>(1)}, {3, gen::inRange<int64_t>(1, 9)}, {2, uni<int64_t>(1, 9)}});
  // aligned starts (0, 8) are as interesting as the misaligned ones: both paths of gDeserializeLinearSeq
  c[F_PREFIX] = *gen::weightedOneOf<int64_t>({{3, gen::element<int64_t>(0, 8)}, {1, gen::element<int64_t>(4, 12)}, {4, uni<int64_t>(0, 16)}});
  c[F_SUFFIX] = *uni(0, 8);
  c[F_MODE]   = *uni(0, NMODE);
  c[F_SEED]   = *uni(0, 1 << 20);
  Src S;
  S.mode = Src::GEN;
  S.out  = &c;
  S.seed = (uint64_t)c[F_SEED];
  S.off  = (size_t)c[F_PREFIX];
  for (int i = 0; i < c[F_NITEMS]; ++i)
    make_item(S); // the values are dropped: only the tail that was drawn matters
  return c;
}

// every menu entry alone at every buffer offset 0..15 with a few lengths
void enumerate_cases(std::vector<Case>& out) {
  build_menu();
  size_t slot = 0;
  for (size_t e = 0; e < g_menu.size(); slot += g_menu[e].weight, ++e) {
    if (g_menu[e].excl && excluded(g_menu[e].excl))
      continue;
    for (int prefix = 0; prefix < 16; ++prefix)
      for (int len : {0, 1, 2, 5}) {
        Case c;
        c.f.assign(F_COUNT, 0);
        c[F_NITEMS] = 1;
        c[F_PREFIX] = prefix;
        c[F_SUFFIX] = prefix % 3;
        c[F_MODE]   = (prefix + (int)e + len) % NMODE;
        c[F_SEED]   = (int64_t)e * 16 + prefix;
        Src S;
        S.mode      = Src::ENUM;
        S.out       = &c;
        S.seed      = (uint64_t)c[F_SEED];
        S.off       = (size_t)prefix;
        S.enum_slot = (int64_t)slot;
        S.enum_len  = len;
        S.ectr      = (uint64_t)len * 3 + (uint64_t)prefix;
        make_item(S);
        out.push_back(c);
      }
  }
}

std::string finding_key(const Case&, const std::string& failkey) {
  size_t bar = failkey.find('|');
  if (bar == std::string::npos)
    return "C17/serialize/" + failkey;
  std::string subject = failkey.substr(0, bar), kind = failkey.substr(bar + 1);
  if (subject == "std::tuple") // one defect, several symptoms
    return KEY_TUPLE;
  return "C17/" + subject + "/" + kind;
}

// ------------------------------------------------------------------ crash reporting
#ifndef VERIF_LIBFUZZER
static void c17a_die(int sig) {
  static volatile int once = 0;
  if (once)
    _exit(1);
  once = 1;
  char kind[128], key[256];
  snprintf(kind, sizeof kind, "%s%s", g_hint_kind, g_hint_named ? "" : "-crash");
  snprintf(key, sizeof key, "%s", finding_key(Case(), fkey(g_hint_subject, kind)).c_str());
  char line[1024];
  if (g_replay_mode) {
    snprintf(line, sizeof line, "REPLAY harness=%s runs=1 fails=1 inconclusive=0 key=%s msg=crashed with signal %d in-process (%s)\n", HARNESS,
             key, sig ? sig : 6, sig ? "signal" : "sanitizer abort");
    write_all(1, line);
    _exit(1);
  }
  char path[600];
  snprintf(path, sizeof path, "%s/%s-%s-crash-%llu.json", g_rdir.c_str(), HARNESS, g_tag.c_str(), (unsigned long long)(g_case_hash_cur % 100000000));
  int fd = open(path, O_WRONLY | O_CREAT | O_TRUNC, 0644);
  if (fd >= 0) {
    std::string doc = std::string("{\"harness\":\"") + HARNESS + "\",\"finding_key\":\"" + key + "\",\"fail_key\":\"" + g_hint_subject + "|" +
                      kind + "\",\"message\":\"crashed (" + (sig ? "signal " + std::to_string(sig) : std::string("sanitizer abort")) +
                      ") in-process; not shrunk\",\"case\":" + g_case_json_cur + "}\n";
    write_all(fd, doc);
    close(fd);
  }
  snprintf(line, sizeof line, "FALSIFIED harness=%s key=%s replay=%s msg=crashed (%s) in-process during %s of %s; not shrunk\n", HARNESS, key, path,
           sig ? "signal" : "sanitizer abort", g_hint_kind, g_hint_subject);
  write_all(1, line);
  _exit(1);
}
static void c17a_death_callback() { c17a_die(0); }
static void install_crash_reporting() {
  static bool done = false;
  if (done)
    return;
  done = true;
  signal(SIGSEGV, c17a_die);
  signal(SIGABRT, c17a_die);
  signal(SIGFPE, c17a_die);
  signal(SIGBUS, c17a_die);
  signal(SIGILL, c17a_die);
#ifdef C17A_HAVE_SANITIZER_ITF
#if defined(__SANITIZE_ADDRESS__)
  __sanitizer_set_death_callback(c17a_death_callback);
#elif defined(__has_feature)
#if __has_feature(address_sanitizer) || __has_feature(undefined_behavior_sanitizer)
  __sanitizer_set_death_callback(c17a_death_callback);
#endif
#endif
#endif
}
#else
static void install_crash_reporting() {}
#endif

// ------------------------------------------------------------------ run
static uint8_t junk(uint64_t seed, size_t i) { return (uint8_t)(prf(seed, 0xBEEF, i) & 0xff); }

static void run_body(const Case& c) {
  typedef galois::PODResizeableArray<uint8_t> vTy;
  size_t nitems = (size_t)c[F_NITEMS], prefix = (size_t)c[F_PREFIX], suffix = (size_t)c[F_SUFFIX];
  int mode      = (int)c[F_MODE];
  uint64_t seed = (uint64_t)c[F_SEED];

  Src S;
  S.mode = Src::DECODE;
  S.in   = &c;
  S.seed = seed;
  S.off  = prefix;
  std::fill(g_cls_seen, g_cls_seen + C_NCLS, 0);
  std::vector<std::unique_ptr<Item>> items;
  for (size_t i = 0; i < nitems; ++i)
    items.push_back(make_item(S));
  g_recs = &S.podseqs;
  g_base = 0;
#ifdef VERIF_LIBFUZZER
  // the fuzzer cannot exclude by construction: inputs with a known-finding shape are skipped
  if (S.excluded_shape) {
    label("skipped_excluded", 1);
    return;
  }
#endif

  label("mode", MODE_NAMES[mode]);
  label("nitems", (long)nitems);
  label("prefix_mod8", (long)(prefix % 8));
  for (int k = 0; k < C_NCLS; ++k)
    label(std::string("has_") + CLS_NAMES[k], g_cls_seen[k] ? 1 : 0);
  label("nonpod_seq", S.nonpod_seqs ? 1 : 0);
  label("long_seq", S.long_seqs ? 1 : 0);
  label("empty_seq", S.empty_seqs ? 1 : 0);
  label("nest_depth", (long)S.maxdepth);
  size_t model_end = S.off;

  // ---- serialise
  grt::SerializeBuffer sb;
  if (mode == 1)
    for (size_t i = 0; i < prefix; ++i)
      sb.push((char)junk(seed, i));
  size_t start = sb.size();
  for (auto& it : items)
    ser_checked(*it, sb);
  size_t n = sb.size() - start, total = prefix + n + suffix;
  size_t sum = 0;
  for (auto& it : items)
    sum += it->produced;
  VCHECK(sum == n, "buffer|produced", "SerializeBuffer grew by %zu bytes, the items produced %zu", n, sum);
  label("model_ok", model_end == prefix + n ? 1 : 0); // the harness' own size model (classification only)
  label("bytes", n < 64 ? "<64" : n < 1024 ? "<1K" : n < 65536 ? "<64K" : ">=64K");
  if (mode == 1)
    for (size_t i = 0; i < suffix; ++i)
      sb.push((char)junk(seed, prefix + n + i));

  // the complete byte image: junk prefix, payload, junk suffix
  std::vector<uint8_t> img(total);
  for (size_t i = 0; i < prefix; ++i)
    img[i] = junk(seed, i);
  if (n)
    memcpy(img.data() + prefix, sb.linearData() + start, n);
  for (size_t i = 0; i < suffix; ++i)
    img[prefix + n + i] = junk(seed, prefix + n + i);

  // ---- the deserialise buffer, positioned behind the junk prefix
  set_hint("DeSerializeBuffer", "construct");
  std::unique_ptr<grt::DeSerializeBuffer> dp;
  vTy vec;
  switch (mode) {
  case 0: { // DeSerializeBuffer(vec&&, start)
    vec.resize(total);
    if (total)
      memcpy(vec.data(), img.data(), total);
    dp.reset(new grt::DeSerializeBuffer(std::move(vec), (uint32_t)prefix));
    break;
  }
  case 1: { // from the SerializeBuffer itself; junk skipped with pop()
    dp.reset(new grt::DeSerializeBuffer(std::move(sb)));
    for (size_t i = 0; i < prefix; ++i) {
      unsigned char b = dp->pop();
      VCHECK(b == junk(seed, i), "buffer|pop", "pop() #%zu returned %u, pushed %u", i, (unsigned)b, (unsigned)junk(seed, i));
    }
    break;
  }
  case 2: { // iterator range; junk skipped with extract()
    dp.reset(new grt::DeSerializeBuffer(img.begin(), img.end()));
    uint8_t tmp[16];
    dp->extract(tmp, prefix);
    for (size_t i = 0; i < prefix; ++i)
      VCHECK(tmp[i] == junk(seed, i), "buffer|extract", "extract() byte %zu is %u, stored %u", i, (unsigned)tmp[i], (unsigned)junk(seed, i));
    break;
  }
  case 3: { // DeSerializeBuffer(count) filled through linearData()
    dp.reset(new grt::DeSerializeBuffer((int)total));
    if (total)
      memcpy(dp->linearData(), img.data(), total);
    dp->setOffset((unsigned)prefix);
    break;
  }
  case 4: { // explicit DeSerializeBuffer(vec&): swaps
    vec.resize(total);
    if (total)
      memcpy(vec.data(), img.data(), total);
    dp.reset(new grt::DeSerializeBuffer(vec));
    dp->setOffset((unsigned)prefix);
    dp->pop_back((unsigned)suffix); // drops the junk behind the payload
    total -= suffix;
    suffix = 0;
    break;
  }
  case 5: { // default constructed, reset(count)
    dp.reset(new grt::DeSerializeBuffer());
    dp->reset((int)total);
    if (total)
      memcpy(dp->linearData(), img.data(), total);
    dp->setOffset((unsigned)prefix);
    break;
  }
  default: { // re-wrapped in a SerializeBuffer(const char*, len), move-assigned
    grt::SerializeBuffer sb2((const char*)img.data(), (unsigned)total);
    grt::DeSerializeBuffer tmp(std::move(sb2));
    dp.reset(new grt::DeSerializeBuffer());
    *dp = std::move(tmp);
    dp->setOffset((unsigned)prefix);
    dp->pop_back((unsigned)suffix);
    total -= suffix;
    suffix = 0;
  }
  }
  grt::DeSerializeBuffer& d = *dp;
  VCHECK(d.size() == total && d.getOffset() == prefix && d.r_size() == n + suffix && d.empty() == (total == 0), "buffer|construct",
         "DeSerializeBuffer (%s) of %zu bytes at offset %zu: size()=%u getOffset()=%u r_size()=%zu empty()=%d", MODE_NAMES[mode], total, prefix,
         d.size(), d.getOffset(), d.r_size(), (int)d.empty());
  g_base = total ? (uintptr_t)d.linearData() : 0;

  // classification with the real buffer address
  bool mis = false, ali = false;
  for (auto& r : S.podseqs) {
    if (r.align <= 1 || r.n == 0)
      continue;
    if (((r.inner ? 0 : g_base) + r.off) % r.align)
      mis = true;
    else
      ali = true;
  }
  label("misaligned_podseq", mis ? 1 : 0);
  label("aligned_podseq", ali ? 1 : 0);
  label("base_mod16", (long)(g_base % 16));
  nontrivial(S.nonpod_seqs > 0 || mis);

  // ---- deserialise into fresh targets, item by item
  for (auto& it : items)
    deser_checked(*it, d);
  set_hint("DeSerializeBuffer", "final-checks");
  VCHECK(d.getOffset() == prefix + n && d.r_size() == suffix, "buffer|consumed-total",
         "after reading all %zu items: offset %u, expected %zu; r_size() %zu, expected %zu", nitems, d.getOffset(), prefix + n, d.r_size(), suffix);
  if (suffix) {
    const uint8_t* rest = d.r_linearData();
    for (size_t i = 0; i < suffix; ++i)
      VCHECK(rest[i] == img[prefix + n + i], "buffer|suffix", "byte %zu behind the payload is %u, stored %u", i, (unsigned)rest[i],
             (unsigned)img[prefix + n + i]);
  }
  g_recs = nullptr;
}

void run(const Case& c0) {
  build_menu();
  Case c = c0;
  normalize_case(c);
  install_crash_reporting();
  g_case_json_cur = case_json(c0);
  g_case_hash_cur = case_hash(c0);
  set_hint("unknown", "run");
  try {
    run_body(c);
  } catch (const VerdictEx&) {
    throw;
  } catch (const std::exception& e) {
    vfail(fkey(g_hint_subject, "exception").c_str(), "std::exception during %s of %s: %s", g_hint_kind, g_hint_subject, e.what());
  }
  vok();
}

struct Init {
  galois::SharedMemSys G;
  Init() {
    if (getenv("C17A_DUMP_MENU")) { // first tail entry of an item -> type
      build_menu();
      size_t slot = 0;
      for (auto& e : g_menu) {
        printf("slot %3zu..%3zu  %-20s %s\n", slot, slot + e.weight - 1, e.subject, e.name);
        slot += e.weight;
      }
      printf("slots: %zu\n", g_slots.size());
      exit(0);
    }
  }
};
} // namespace verif

VERIF_INPROC_MAIN(verif::Init g_c17a_init)
