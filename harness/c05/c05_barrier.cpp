// C05 -- barriers separate phases, never deadlock, are reusable and can be
// re-initialised.  Runs under gsched (E1).  DESIGN.md section 4/C05.
#include "verif_e1.h"

#include "galois/Galois.h"
#include "galois/substrate/Barrier.h"
#include "galois/substrate/ThreadPool.h"

using namespace verif;

namespace verif {
const char* const HARNESS = "c05";
enum {
  F_IMPL = S_NFIELDS,
  F_TOPO,
  F_REGIONS,
  F_N0,
  F_N1,
  F_N2,
  F_N3,
  F_P0,
  F_P1,
  F_P2,
  F_P3,
  F_DSEED,
  F_COUNT
};
const std::vector<const char*> FIELDS = {VERIF_SCHED_FIELDS,
                                         "impl",
                                         "topo",
                                         "regions",
                                         "n0",
                                         "n1",
                                         "n2",
                                         "n3",
                                         "p0",
                                         "p1",
                                         "p2",
                                         "p3",
                                         "dseed"};

static const char* IMPLS[] = {"system",        "counting", "mcs",
                              "dissemination", "pthread",  "simple",
                              "topo"};
static const char* TOPOS[] = {"1", "2", "4", "2,2", "3,1", "1,1,1,1",
                              "2,1,1", "4,4", "8", "3,3,2"};
static const int TOPO_THREADS[] = {1, 2, 4, 4, 4, 4, 4, 8, 8, 8};
constexpr int NTOPO             = 10;

Case generate() {
  using namespace rc;
  Case c;
  c.f.assign(F_COUNT, 0);
  gen_schedule(c);
  c[F_IMPL] = *uni(0, 7);
  c[F_TOPO] = *uni(1, NTOPO);
  int maxt  = TOPO_THREADS[c[F_TOPO]];
  c[F_REGIONS] = *uni(1, 5);
  bool simple_excl = c[F_IMPL] == 5 && excluded("C05/simple/deadlock");
  for (int r = 0; r < 4; ++r) {
    int n = *uni(1, maxt + 1);
    if (simple_excl && n > 1) {
      count_excluded();
      n = 1;
    }
    c[F_N0 + r] = n;
    c[F_P0 + r] = *uni(1, 13);
  }
  c[F_DSEED] = *uni(0, 1 << 20);
  return c;
}

std::string finding_key(const Case& c, const std::string& failkey) {
  std::string k = failkey == "spin-deadlock" ? "deadlock" : failkey;
  return std::string("C05/") + IMPLS[c[F_IMPL]] + "/" + k;
}

// ---- bookkeeping (uninstrumented, serialised by the scheduler)
constexpr int MAXPH = 64, MAXTH = 8;
static int arrived[MAXPH], departed[MAXPH];
static int overlap_seen = 0;
static int cur_n        = 0;
static int phase_base   = 0;

VERIF_NOINSTR static void note_arrive(int gk) {
  // a fast thread enters phase gk while another has not yet left phase gk-1
  if (gk > phase_base && departed[gk - 1] < cur_n)
    overlap_seen = 1;
  arrived[gk]++;
}
VERIF_NOINSTR static int note_depart(int gk) {
  int a = arrived[gk];
  departed[gk]++;
  return a;
}
VERIF_NOINSTR static int get_arrived(int gk) { return arrived[gk]; }

void run(const Case& c) {
  setenv("GALOIS_VERIF_TOPO", TOPOS[c[F_TOPO]], 1);
  start_scheduler(c, 20000, 3000000, 30000000);
  galois::SharedMemSys G;
  auto& tp = galois::substrate::getThreadPool();

  int impl = (int)c[F_IMPL];
  int R    = (int)c[F_REGIONS];
  std::unique_ptr<galois::substrate::Barrier> own;
  galois::substrate::Barrier* bar = nullptr;
  int total_phases                = 0;
  for (int r = 0; r < R; ++r)
    total_phases += (int)c[F_P0 + r];
  // one single-assignment payload cell per (phase, thread)
  uint64_t* stamp =
      (uint64_t*)gsched_arena_alloc(sizeof(uint64_t) * total_phases * MAXTH);
  uint64_t dseed = (uint64_t)c[F_DSEED];

  int base = 0;
  for (int r = 0; r < R; ++r) {
    unsigned n = (unsigned)c[F_N0 + r];
    int P      = (int)c[F_P0 + r];
    if (impl == 0) {
      bar = &galois::substrate::getBarrier(n);
    } else if (!own) {
      switch (impl) {
      case 1:
        own = galois::substrate::createCountingBarrier(n);
        break;
      case 2:
        own = galois::substrate::createMCSBarrier(n);
        break;
      case 3:
        own = galois::substrate::createDisseminationBarrier(n);
        break;
      case 4:
        own = galois::substrate::createPthreadBarrier(n);
        break;
      case 5:
        own = galois::substrate::createSimpleBarrier(n);
        break;
      default:
        own = galois::substrate::createTopoBarrier(n);
        break;
      }
      bar = own.get();
      if (!bar) { // documented way of saying "not provided in this build"
        label("impl", std::string(IMPLS[impl]) + "-unavailable");
        vok();
      }
    } else {
      own->reinit(n);
    }
    cur_n      = (int)n;
    phase_base = base;
    tp.run(n, [&, n, P, base]() {
      unsigned tid = galois::substrate::ThreadPool::getTID();
      for (int k = 0; k < P; ++k) {
        int gk = base + k;
        int d  = (int)(prf(dseed, gk, tid) % 4);
        for (int i = 0; i < d; ++i)
          gsched_point();
        stamp[gk * MAXTH + tid] = 1 + tid; // payload written before arrival
        note_arrive(gk);
        bar->wait();
        int a = note_depart(gk);
        VCHECK(a == (int)n, "phase-separation",
               "thread %u returned from wait %d (region %d, n=%u) after only "
               "%d arrivals",
               tid, k, r, n, a);
        for (unsigned j = 0; j < n; ++j) // arrival -> departure edge
          VCHECK(stamp[gk * MAXTH + j] == 1 + j, "stamp-missing",
                 "thread %u after wait %d does not see the stamp of thread %u",
                 tid, k, j);
      }
    });
    for (int k = 0; k < P; ++k)
      VCHECK(get_arrived(base + k) == (int)n, "participants",
             "phase %d of region %d saw %d arrivals, expected %u", k, r,
             get_arrived(base + k), n);
    base += P;
  }
  int maxn = 0;
  for (int r = 0; r < R; ++r)
    maxn = std::max<int>(maxn, c[F_N0 + r]);
  label("impl", IMPLS[impl]);
  label("topo", TOPOS[c[F_TOPO]]);
  label("maxn", maxn);
  label("regions", R);
  label("overlap", overlap_seen);
  label("strategy", c[S_STRATEGY]);
  nontrivial(maxn >= 2 && total_phases >= 2 && overlap_seen);
  vok();
}
} // namespace verif

VERIF_E1_MAIN
