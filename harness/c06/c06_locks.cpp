// C06 -- locks exclude and admit; lock release -> next acquire is a
// happens-before edge.  Runs under gsched (E1).  DESIGN.md 4/C06.
// (The other promised edges -- lockable hand-over, barrier, loop entry/return,
// worklist push->pop -- are checked by the payload cells of the foreach, c05
// and c03 harnesses, which the C06 check also runs.)
#include "verif_e1.h"

#include "galois/Galois.h"
#include "galois/substrate/SimpleLock.h"
#include "galois/substrate/PtrLock.h"
#include "galois/substrate/PaddedLock.h"
#include "galois/substrate/ThreadRWlock.h"

#include <mutex>

using namespace verif;

namespace verif {
const char* const HARNESS = "c06";
enum { F_KIND = S_NFIELDS, F_THREADS, F_OPS, F_DELAY, F_OSEED, F_COUNT };
const std::vector<const char*> FIELDS = {VERIF_SCHED_FIELDS, "kind", "threads", "ops", "delay", "oseed"};
static const char* KINDS[] = {"SimpleLock", "PtrLock", "PaddedLock", "ThreadRWlock", "lock_guard<SimpleLock>"};

Case generate() {
  using namespace rc;
  Case c;
  c.f.assign(F_COUNT, 0);
  gen_schedule(c);
  if (c[S_PLAIN] == 0 && *gen::weightedElement<int>({{1, 0}, {1, 1}}))
    c[S_PLAIN] = 8;
  c[F_KIND]    = *uni(0, 5);
  c[F_THREADS] = *uni(2, 7);
  c[F_OPS]     = *gen::inRange(1, 13);
  c[F_DELAY]   = *uni(0, 4);
  c[F_OSEED]   = *uni(0, 1 << 24);
  return c;
}

std::string finding_key(const Case& c, const std::string& failkey) {
  std::string k = failkey;
  if (k == "spin-deadlock" || k == "deadlock" || k == "liveness")
    k = "no-admission";
  return std::string("C06/") + KINDS[c[F_KIND]] + "/" + k;
}

struct Quiet {
  Quiet() { gsched_quiet(1); }
  ~Quiet() { gsched_quiet(-1); }
};

// bookkeeping (quiet)
static int writers_in, readers_in;
static long handovers, preempt_in_cs, writes_done;
static int last_holder = -1;
static uint64_t* shared_cell; // arena payload
static int the_delay;
static uint64_t the_seed;

static void enter(bool writer, unsigned tid, const char* kind) {
  Quiet q;
  if (writer ? (writers_in || readers_in) : writers_in)
    vfail("mutual-exclusion", "%s: thread %u entered its %s section while %d writer(s) and %d reader(s) were inside", kind, tid,
          writer ? "write" : "read", writers_in, readers_in);
  (writer ? writers_in : readers_in)++;
  if (writer)
    ++writes_done;
  if (last_holder >= 0 && last_holder != (int)tid)
    ++handovers;
  last_holder = (int)tid;
}
static void leave(bool writer) {
  Quiet q;
  (writer ? writers_in : readers_in)--;
}
static void body(bool writer, unsigned tid, uint64_t opid, const char* kind) {
  enter(writer, tid, kind);
  uint64_t sw0 = gsched_switches();
  uint64_t v   = *shared_cell; // plain read: ordered after the previous holder's write?
  for (int d = (int)(prf(the_seed, opid, 5) % (uint64_t)(the_delay + 1)); d > 0; --d)
    gsched_point();
  if (writer)
    *shared_cell = v + 1; // plain write
  {
    Quiet q;
    if (gsched_switches() != sw0)
      ++preempt_in_cs;
  }
  leave(writer);
}

void run(const Case& c) {
  setenv("GALOIS_VERIF_TOPO", "8", 1);
  start_scheduler(c, 20000, 0, 60000000);
  galois::SharedMemSys G;
  auto& tp     = galois::substrate::getThreadPool();
  unsigned n   = galois::setActiveThreads((unsigned)c[F_THREADS]);
  int kind     = (int)c[F_KIND];
  int ops      = (int)c[F_OPS];
  the_delay    = (int)c[F_DELAY];
  the_seed     = (uint64_t)c[F_OSEED];
  shared_cell  = (uint64_t*)gsched_arena_alloc(8);
  *shared_cell = 0;
  galois::substrate::SimpleLock sl;
  galois::substrate::PtrLock<int> pl;
  galois::substrate::PaddedLock<true> pad;
  galois::substrate::ThreadRWlock rw;
  static int ptr_targets[4];
  long expected_writes = 0;
  gsched_liveness_mark(400000, 4000000);
  tp.run(n, [&]() {
    unsigned tid = galois::substrate::ThreadPool::getTID();
    for (int i = 0; i < ops; ++i) {
      uint64_t opid = (uint64_t)tid * 1000 + (uint64_t)i;
      uint64_t h    = prf(the_seed, opid, 1);
      for (int d = (int)(h >> 40) % (the_delay + 1); d > 0; --d)
        gsched_point();
      switch (kind) {
      case 0:
        if (h % 3 == 0) {
          if (sl.try_lock()) {
            body(true, tid, opid, "SimpleLock::try_lock");
            sl.unlock();
          }
        } else {
          sl.lock();
          body(true, tid, opid, "SimpleLock::lock");
          sl.unlock();
        }
        break;
      case 1: {
        bool got = true;
        if (h % 4 == 0)
          got = pl.try_lock();
        else
          pl.lock();
        if (got) {
          body(true, tid, opid, "PtrLock");
          if ((h >> 8) % 4 == 0)
            pl.setValue(&ptr_targets[(h >> 12) % 4]); // value change under the lock
          switch ((h >> 16) % 3) {
          case 0:
            pl.unlock();
            break;
          case 1:
            pl.unlock_and_clear();
            break;
          default:
            pl.unlock_and_set(&ptr_targets[(h >> 20) % 4]);
          }
        } else if ((h >> 24) % 2) {
          // CAS only works on unlocked values: must never disturb a holder
          int* cur = pl.getValue();
          pl.CAS(cur, &ptr_targets[(h >> 28) % 4]);
        }
      } break;
      case 2:
        if (h % 3 == 0) {
          if (pad.try_lock()) {
            body(true, tid, opid, "PaddedLock::try_lock");
            pad.unlock();
          }
        } else {
          pad.lock();
          body(true, tid, opid, "PaddedLock::lock");
          pad.unlock();
        }
        break;
      case 3:
        if (h % 3 == 0) {
          rw.writeLock();
          body(true, tid, opid, "ThreadRWlock::writeLock");
          rw.writeUnlock();
        } else {
          rw.readLock();
          body(false, tid, opid, "ThreadRWlock::readLock");
          rw.readUnlock();
        }
        break;
      default: {
        std::lock_guard<galois::substrate::SimpleLock> g(sl);
        body(true, tid, opid, "lock_guard<SimpleLock>");
      }
      }
    }
  });
  gsched_liveness_clear();
  (void)expected_writes;
  uint64_t final = *shared_cell; // return edge + last release
  VCHECK((long)final == writes_done, "lost-update", "%s: %ld write sections ran but the protected counter is %llu", KINDS[kind],
         writes_done, (unsigned long long)final);
  label("kind", KINDS[kind]);
  label("threads", (long)n);
  label("handover", handovers > 0);
  label("preempt_in_cs", preempt_in_cs > 0);
  label("strategy", c[S_STRATEGY]);
  nontrivial(handovers >= 1 && preempt_in_cs >= 1);
  vok();
}
} // namespace verif

VERIF_E1_MAIN
