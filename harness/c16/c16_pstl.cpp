// C16 -- ParallelSTL algorithms equal their std:: counterparts.
// In-process rapidcheck with the real thread pool.  DESIGN.md 4/C16.
#include "verif_e1.h"
#include <set>
#include <string>

#include "galois/Galois.h"
#include "galois/ParallelSTL.h"

#include <numeric>
#include <string>

using namespace verif;

namespace verif {
#ifdef C16_E1
const char* const HARNESS = "c16e1";
#else
const char* const HARNESS = "c16";
#endif
// the schedule fields are only used by the gsched build (-DC16_E1)
enum { F_FN = S_NFIELDS, F_ELEM, F_THREADS, F_SIZE, F_PATTERN, F_PRED, F_VSEED, F_COUNT };
const std::vector<const char*> FIELDS = {VERIF_SCHED_FIELDS, "fn", "elem", "threads", "size", "pattern", "pred", "vseed"};

static const char* FN_NAMES[] = {"sort", "partition", "count_if", "find_if", "accumulate", "map_reduce", "partial_sum", "destroy"};

Case generate() {
  using namespace rc;
  Case c;
  c.f.assign(F_COUNT, 0);
  gen_schedule(c);
#ifdef C16_E1
  c[S_PLAIN] = 0; // element accesses are private to a block: only claims matter
  c[F_FN]    = *gen::weightedElement<int>({{2, 0}, {6, 1}, {1, 3}, {1, 6}});
#else
  c[F_FN]      = *uni(0, 8);
#endif
  c[F_ELEM]    = *uni(0, 3); // int, pair<int,int> with key comparator, string
  c[F_THREADS] = *gen::weightedElement<int>({{1, 1}, {3, 2}, {3, 3}, {3, 4}, {2, 7}, {2, 8}, {3, 16}});
  int64_t base = *gen::weightedElement<int64_t>({{2, 0}, {1, 1}, {3, 1023}, {3, 1024}, {3, 1025}, {2, 2047}, {2, 2048}, {2, 2049},
                                                 {3, -1}, {3, -2}});
  if (base == -1)
    base = *gen::inRange<int64_t>(0, 1024);
  else if (base == -2)
    base = 1024 * *gen::inRange<int64_t>(1, 20) + *gen::inRange<int64_t>(0, 1024);
#ifdef C16_E1
  if (base > 5000)
    base = 1024 + base % 4000;
  if (c[F_THREADS] > 8)
    c[F_THREADS] = 8;
  // partition: sizes that are exact multiples of the 1024-element claim block
  // make "both blocks exhausted at once" reachable
  if (c[F_FN] == 1 && *gen::weightedElement<int>({{1, 0}, {1, 1}}))
    base = 1024 * *gen::inRange<int64_t>(2, 5);
#endif
  c[F_SIZE]    = base;
  c[F_PATTERN] = *uni(0, 7); // random, all-equal, sorted, reversed, few-distinct, block-structured 1024 / 512
  c[F_PRED]    = *uni(0, 5); // all-true, all-false, threshold low / mid / high
  c[F_VSEED]   = *uni(0, 1 << 20);
  return c;
}

std::string finding_key(const Case& c, const std::string& failkey) {
  if (c[F_FN] == 1 && c[F_SIZE] > 1024) // the parallel path of partition
    return "C16/partition/parallel-path";
  return std::string("C16/") + FN_NAMES[c[F_FN]] + "/" + failkey;
}

static std::vector<int> make_ints(const Case& c) {
  size_t n = (size_t)c[F_SIZE];
  std::vector<int> v(n);
  uint64_t s = (uint64_t)c[F_VSEED];
  for (size_t i = 0; i < n; ++i) {
    switch (c[F_PATTERN]) {
    case 0:
      v[i] = (int)(prf(s, i) % 2000001) - 1000000;
      break;
    case 1:
      v[i] = 42;
      break;
    case 2:
      v[i] = (int)i - 500;
      break;
    case 3:
      v[i] = (int)(n - i);
      break;
    case 4:
      v[i] = (int)(prf(s, i) % 3);
      break;
    case 5: // whole claim blocks are all-true / all-false under the threshold predicates
      v[i] = (prf(s, i / 1024) & 1) ? -950000 : 950000;
      break;
    default:
      v[i] = (prf(s, i / 512) & 1) ? -950000 : 950000;
    }
  }
  return v;
}

struct Tracked {
  static long live, destroyed;
  int v;
  Tracked(int x = 0) : v(x) { ++live; }
  Tracked(const Tracked& o) : v(o.v) { ++live; }
  ~Tracked() {
    __atomic_fetch_sub(&live, 1, __ATOMIC_RELAXED);
    __atomic_fetch_add(&destroyed, 1, __ATOMIC_RELAXED);
  }
};
long Tracked::live = 0, Tracked::destroyed = 0;

static bool pred_of(const Case& c, int x) {
  switch (c[F_PRED]) {
  case 0:
    return true;
  case 1:
    return false;
  case 2:
    return x < -900000;
  case 3:
    return x < 1;
  default:
    return x < 900000;
  }
}

void run(const Case& c) {
  int fn     = (int)c[F_FN];
#ifdef C16_E1
  setenv("GALOIS_VERIF_TOPO", c[F_THREADS] > 4 ? "8" : "4", 1);
  start_scheduler(c, 20000, 0, 60000000);
  galois::SharedMemSys G;
#endif
  unsigned t = galois::setActiveThreads((unsigned)c[F_THREADS]);
  label("fn", FN_NAMES[fn]);
  label("threads", (long)t);
  size_t n = (size_t)c[F_SIZE];
  label("sizeclass", n == 0 ? "0" : n <= 1024 ? "<=1024" : n < 2050 ? "1025..2049" : ">2049");
  label("pattern", c[F_PATTERN]);
  nontrivial(n > 1024 && t >= 2);
  std::vector<int> v = make_ints(c);
  namespace P        = galois::ParallelSTL;
  if (fn == 0) {
    int elem = (int)c[F_ELEM];
    label("elem", elem);
    if (elem == 0) {
      std::vector<int> got = v, want = v;
      bool desc = c[F_PRED] & 1;
      if (desc) {
        P::sort(got.begin(), got.end(), std::greater<int>());
        std::sort(want.begin(), want.end(), std::greater<int>());
      } else {
        P::sort(got.begin(), got.end());
        std::sort(want.begin(), want.end());
      }
      VCHECK(got == want, "sort", "sort of %zu ints (pattern %d) on %u threads differs from std::sort", n, (int)c[F_PATTERN], t);
    } else if (elem == 1) {
      typedef std::pair<int, int> PR;
      std::vector<PR> got(n);
      for (size_t i = 0; i < n; ++i)
        got[i] = {v[i], (int)i};
      auto cmp = [](const PR& a, const PR& b) { return a.first < b.first; };
      P::sort(got.begin(), got.end(), cmp);
      VCHECK(std::is_sorted(got.begin(), got.end(), cmp), "sort", "sort by key of %zu pairs on %u threads: output not ordered", n, t);
      std::vector<char> seen(n, 0); // permutation: every original index once, with its key
      for (auto& p : got) {
        VCHECK(p.second >= 0 && (size_t)p.second < n && !seen[p.second] && v[p.second] == p.first, "sort",
               "sort by key of %zu pairs: output is not a permutation of the input (payload %d)", n, p.second);
        seen[p.second] = 1;
      }
    } else {
      std::vector<std::string> got(n), want;
      for (size_t i = 0; i < n; ++i)
        got[i] = "k" + std::to_string(v[i]);
      want = got;
      P::sort(got.begin(), got.end());
      std::sort(want.begin(), want.end());
      VCHECK(got == want, "sort", "sort of %zu strings on %u threads differs from std::sort", n, t);
    }
    vok();
  }
  if (fn == 1) {
    std::vector<int> got = v;
    auto pr              = [&](int x) { return pred_of(c, x); };
    auto it              = P::partition(got.begin(), got.end(), pr);
    size_t p             = it - got.begin();
    size_t want_true     = std::count_if(v.begin(), v.end(), pr);
    VCHECK(p == want_true, "partition", "partition point %zu, but %zu elements satisfy the predicate (n=%zu, %u threads)", p, want_true,
           n, t);
    for (size_t i = 0; i < n; ++i)
      VCHECK(pr(got[i]) == (i < p), "partition", "element %zu (%d) is on the wrong side of partition point %zu", i, got[i], p);
    std::vector<int> a = got, b = v;
    std::sort(a.begin(), a.end());
    std::sort(b.begin(), b.end());
    VCHECK(a == b, "partition", "partition output is not a permutation of the input (n=%zu, %u threads)", n, t);
    label("pred", c[F_PRED]);
    vok();
  }
  if (fn == 2) {
    auto pr    = [&](int x) { return pred_of(c, x); };
    size_t got = P::count_if(v.begin(), v.end(), pr);
    size_t want = std::count_if(v.begin(), v.end(), pr);
    VCHECK(got == want, "count_if", "count_if = %zu, std = %zu (n=%zu, %u threads)", got, want, n, t);
    vok();
  }
  if (fn == 3) {
    // needle: one value, zero/one/many occurrences
    int needle = (c[F_PRED] == 1 || n == 0) ? 123456789 : v[(size_t)(prf(c[F_VSEED], 77) % n)];
    auto pr    = [&](int x) { return x == needle; };
    auto it    = P::find_if(v.begin(), v.end(), pr);
    bool exists = std::find_if(v.begin(), v.end(), pr) != v.end();
    if (!exists)
      VCHECK(it == v.end(), "find_if", "find_if returned position %zd although no element satisfies the predicate", it - v.begin());
    else
      VCHECK(it != v.end() && pr(*it), "find_if", "find_if %s although an element satisfies the predicate (n=%zu, %u threads)",
             it == v.end() ? "returned last" : "returned a non-matching element", n, t);
    label("exists", exists);
    vok();
  }
  if (fn == 4) {
    std::vector<long> lv(v.begin(), v.end());
    // (the 3-argument overload is ambiguous with std::accumulate through ADL
    // once <numeric> is visible, so the 4-argument form is what is tested)
    long got2 = P::accumulate(lv.begin(), lv.end(), 0L, std::plus<long>());
    long want = std::accumulate(lv.begin(), lv.end(), 0L);
    VCHECK(got2 == want, "accumulate", "accumulate = %ld, std = %ld (n=%zu, %u threads)", got2, want, n, t);
    // user operation with identity
    long gmx  = P::accumulate(lv.begin(), lv.end(), LONG_MIN, [](long a, long b) { return std::max(a, b); });
    long wmx  = std::accumulate(lv.begin(), lv.end(), LONG_MIN, [](long a, long b) { return std::max(a, b); });
    VCHECK(gmx == wmx, "accumulate", "accumulate(max) = %ld, std = %ld", gmx, wmx);
    // dyadic doubles: exact under any association
    std::vector<double> dv(n);
    for (size_t i = 0; i < n; ++i)
      dv[i] = (double)(v[i] % 4096) / 16.0;
    double gd = P::accumulate(dv.begin(), dv.end(), 0.0, std::plus<double>());
    double wd = std::accumulate(dv.begin(), dv.end(), 0.0);
    VCHECK(gd == wd, "accumulate", "accumulate(double) = %.17g, std = %.17g", gd, wd);
    // class types with a real move constructor and an identity that is not their empty state:
    // smallest string (identity: a string above every element), set intersection (identity: the universe)
    if (n <= 3000) {
      std::vector<std::string> sv(n);
      for (size_t i = 0; i < n; ++i)
        sv[i] = "k" + std::to_string(v[i] % 1000 + 1000) + std::string((size_t)(v[i] & 3), 'x');
      std::string top(40, '\x7f');
      auto smin      = [](const std::string& a, const std::string& b) { return a < b ? a : b; };
      std::string gs = P::accumulate(sv.begin(), sv.end(), top, smin);
      std::string ws = std::accumulate(sv.begin(), sv.end(), top, smin);
      VCHECK(gs == ws, "accumulate", "accumulate(smallest string) = '%s', std = '%s' (n=%zu, %u threads)", gs.c_str(), ws.c_str(), n, t);
      std::set<int> universe;
      for (int i = 0; i < 12; ++i)
        universe.insert(i);
      auto isect = [](const std::set<int>& a, const std::set<int>& b) {
        std::set<int> r;
        for (int x : a)
          if (b.count(x))
            r.insert(x);
        return r;
      };
      std::set<int> gi = P::map_reduce(
          v.begin(), v.end(),
          [](int x) {
            std::set<int> r;
            for (int i = 0; i < 12; ++i)
              if (i != (x & 7) % 12)
                r.insert(i);
            return r;
          },
          isect, universe);
      std::set<int> wi = universe;
      for (int x : v)
        wi.erase((x & 7) % 12);
      VCHECK(gi == wi, "map_reduce", "map_reduce(set intersection) has %zu elements, sequentially %zu (n=%zu, %u threads)", gi.size(), wi.size(), n, t);
    }
    vok();
  }
  if (fn == 5) {
    long got  = P::map_reduce(v.begin(), v.end(), [](int x) { return (long)x * 3 + 1; }, std::plus<long>(), 0L);
    long want = 0;
    for (int x : v)
      want += (long)x * 3 + 1;
    VCHECK(got == want, "map_reduce", "map_reduce = %ld, sequential = %ld (n=%zu, %u threads)", got, want, n, t);
    vok();
  }
  if (fn == 6) {
    std::vector<long> lv(v.begin(), v.end()), got(n, -1), want(n, -1);
    auto e = P::partial_sum(lv.begin(), lv.end(), got.begin());
    std::partial_sum(lv.begin(), lv.end(), want.begin());
    VCHECK(e == got.begin() + n, "partial_sum", "partial_sum returned end offset %zd for %zu elements", e - got.begin(), n);
    for (size_t i = 0; i < n; ++i)
      VCHECK(got[i] == want[i], "partial_sum", "partial_sum[%zu] = %ld, std = %ld (n=%zu, %u threads)", i, got[i], want[i], n, t);
    // in place (d_first == first), as std::partial_sum allows
    std::vector<long> inplace(lv);
    auto e2 = P::partial_sum(inplace.begin(), inplace.end(), inplace.begin());
    VCHECK(e2 == inplace.begin() + n, "partial_sum", "in-place partial_sum returned end offset %zd for %zu elements", e2 - inplace.begin(), n);
    for (size_t i = 0; i < n; ++i)
      VCHECK(inplace[i] == want[i], "partial_sum", "in-place partial_sum[%zu] = %ld, std = %ld (n=%zu, %u threads)", i, inplace[i], want[i], n, t);
    vok();
  }
  if (fn == 7) {
    Tracked::live = Tracked::destroyed = 0;
    Tracked* mem = (Tracked*)malloc(sizeof(Tracked) * (n ? n : 1));
    for (size_t i = 0; i < n; ++i)
      new (&mem[i]) Tracked((int)i);
    P::destroy(mem, mem + n);
    long live = Tracked::live, destroyed = Tracked::destroyed;
    free(mem);
    VCHECK(live == 0 && destroyed == (long)n, "destroy", "destroy of %zu objects on %u threads ran %ld destructors, %ld still live", n, t,
           destroyed, live);
    vok();
  }
  vok();
}
} // namespace verif

#ifdef C16_E1
VERIF_E1_MAIN
#else
VERIF_INPROC_MAIN(galois::SharedMemSys G)
#endif
