// C03 -- do_all / on_each run each element / thread id exactly once and join;
// consecutive regions with different thread counts do not interfere.
// Runs under gsched (E1).  DESIGN.md 4/C03.
#include "verif_e1.h"

#include "galois/Galois.h"
#include "galois/Bag.h"
#include "galois/gdeque.h"

#include <atomic>
#include <forward_list>
#include <functional>
#include <list>
#include <set>

using namespace verif;

namespace verif {
const char* const HARNESS = "c03";
constexpr int MAXR        = 4;
enum { F_TOPO = S_NFIELDS, F_REGIONS, F_FAST, F_FILLT, F_R0 };
enum { R_KIND = 0, R_THREADS, R_SIZE, R_CHUNK, R_STEAL, R_N };
constexpr int F_DED   = F_R0 + MAXR * R_N; // dedicated threads started (ThreadPool::runDedicated) before the regions
constexpr int F_COUNT = F_DED + 1;
const std::vector<const char*> FIELDS = {VERIF_SCHED_FIELDS, "topo", "regions", "fast", "fillt",
                                         "k0", "t0", "n0", "c0", "s0", "k1", "t1", "n1", "c1", "s1",
                                         "k2", "t2", "n2", "c2", "s2", "k3", "t3", "n3", "c3", "s3", "ded"};

static const char* KINDS[] = {"do_all-int", "do_all-vector", "do_all-list", "do_all-forward_list", "do_all-set",
                              "do_all-InsertBag", "do_all-gdeque", "on_each", "pool-run", "for_each"};
constexpr int NKIND        = 10;
static const char* TOPOS[] = {"1", "2", "4", "2,2", "3,1", "1,1,1,1", "2,1,1", "4,4", "8", "3,3,2", "1,3"};
static const int TOPO_THREADS[] = {1, 2, 4, 4, 4, 4, 4, 8, 8, 8, 4};
constexpr int NTOPO             = 11;

Case generate() {
  using namespace rc;
  Case c;
  c.f.assign(F_COUNT, 0);
  gen_schedule(c);
  c[F_TOPO]    = *uni(0, NTOPO);
  int maxt     = TOPO_THREADS[c[F_TOPO]];
  c[F_REGIONS] = *uni(1, MAXR + 1);
  c[F_FAST]    = *uni(0, 16); // bit r: burnPower before region r (else beKind)
  c[F_FILLT]   = *uni(1, maxt + 1);
  // dedicated threads reserve the highest pool threads; every region calls
  // setActiveThreads again afterwards (the documented order -- runDedicated's
  // TODO says it does not lower a thread count that was set before it)
  if (maxt >= 3 && *gen::weightedElement<int>({{3, 0}, {1, 1}}))
    c[F_DED] = *uni(1, std::min(maxt - 1, 3));
  // +4: one (more) dedicated thread is started AFTER region 0's setActiveThreads, which is
  // not called again before the region runs (known finding: the active count stays stale)
  if (maxt >= 3 && *uni(0, 12) == 0) {
    if (excluded("C03/runDedicated-after-setActiveThreads/stale-active-count"))
      count_excluded();
    else
      c[F_DED] = (c[F_DED] & 1) + 4;
  }
  bool bag_excl = excluded("C03/do_all-InsertBag/fewer-active-threads");
  for (int r = 0; r < MAXR; ++r) {
    int64_t* f   = &c.f[F_R0 + r * R_N];
    f[R_KIND]    = *uni(0, NKIND);
    // requests above the usable count (up to max + 1) must be clamped by setActiveThreads
    f[R_THREADS] = maxt > 1 && *gen::weightedElement<int>({{1, 0}, {6, 1}}) ? *uni(2, maxt + 2) : 1;
    int64_t chunk = *gen::element<int64_t>(1, 2, 3, 32, 4096);
    f[R_CHUNK]    = chunk;
    // sizes: 0, 1, < threads, chunk +- 1, k*chunk + r, larger
    int pick = *uni(0, 7);
    int64_t n;
    switch (pick) {
    case 0:
      n = 0;
      break;
    case 1:
      n = 1;
      break;
    case 2:
      n = *uni<int64_t>(0, f[R_THREADS] + 1);
      break;
    case 3:
      n = std::min<int64_t>(chunk, 300) + *uni(-1, 2);
      break;
    case 4:
      n = std::min<int64_t>(chunk, 40) * *uni(1, 6) + *uni(0, 3);
      break;
    default:
      n = *gen::inRange<int64_t>(2, 400);
    }
    f[R_SIZE]  = std::max<int64_t>(0, n);
    f[R_STEAL] = *uni(0, 2);
    if (f[R_KIND] == 5 && bag_excl && f[R_THREADS] < c[F_FILLT]) {
      count_excluded();
      f[R_THREADS] = c[F_FILLT];
    }
  }
  return c;
}

static const Case* g_case;
std::string finding_key(const Case& c, const std::string& failkey) {
  // which region failed is encoded by the harness in the fail key: "<kind>/<what>"
  if (failkey.find("do_all-InsertBag/missed") == 0) {
    for (int r = 0; r < c[F_REGIONS]; ++r)
      if (c[F_R0 + r * R_N + R_KIND] == 5 && c[F_R0 + r * R_N + R_THREADS] < c[F_FILLT])
        return "C03/do_all-InsertBag/fewer-active-threads";
  }
  std::string k = failkey;
  if ((c[F_DED] & 4) && c[F_R0 + R_THREADS] >= TOPO_THREADS[c[F_TOPO]] - (c[F_DED] & 3) &&
      (k.find("/missed") != std::string::npos || k.find("crash") == 0 || k.find("/wrong-id") != std::string::npos))
    return "C03/runDedicated-after-setActiveThreads/stale-active-count";
  if (k == "spin-deadlock" || k == "deadlock" || k == "liveness")
    k = "no-return";
  return "C03/" + k;
}

// ---- bookkeeping under quiet
struct Quiet {
  Quiet() { gsched_quiet(1); }
  ~Quiet() { gsched_quiet(-1); }
};
static int cur_region = -1;
static std::vector<int> count_, exec_tid;
static long done_calls   = 0;
static unsigned cur_n    = 0;
static int stolen_seen   = 0;
static const char* cur_kind = "";
static uint64_t* in_cell;  // arena: written by the caller before the region
static uint64_t* out_cell; // arena: written by workers, read by the caller after

static void visit(int region, size_t idx) {
  // payload: entry edge (caller -> worker) and return edge (worker -> caller)
  uint64_t v = in_cell[idx];
  out_cell[idx] = v + 1;
  Quiet q;
  if (region != cur_region)
    vfail((std::string(cur_kind) + "/late-call").c_str(), "an invocation of region %d ran while region %d was current", region,
          cur_region);
  if (idx >= count_.size())
    vfail((std::string(cur_kind) + "/foreign-element").c_str(), "element index %zu outside the range of size %zu", idx, count_.size());
  if (v != 1000 + idx)
    vfail((std::string(cur_kind) + "/entry-edge").c_str(), "element %zu: worker read %llu, caller had written %llu before the region", idx,
          (unsigned long long)v, (unsigned long long)(1000 + idx));
  count_[idx]++;
  exec_tid[idx] = (int)galois::substrate::ThreadPool::getTID();
  ++done_calls;
}

template <typename C>
static void fill_seq(C& cont, size_t n) {
  for (size_t i = 0; i < n; ++i)
    cont.insert(cont.end(), (int)i);
}

template <typename R>
static void run_do_all(int region, const R& range, bool steal, unsigned chunk) {
  auto op = [region](int i) { visit(region, (size_t)i); };
  if (steal)
    galois::do_all(range, op, galois::steal(), galois::chunk_size<32>(chunk));
  else
    galois::do_all(range, op, galois::chunk_size<32>(chunk));
}

void run(const Case& c) {
  g_case = &c;
  setenv("GALOIS_VERIF_TOPO", TOPOS[c[F_TOPO]], 1);
  start_scheduler(c, 20000, 0, 60000000);
  galois::SharedMemSys G;
  auto& tp = galois::substrate::getThreadPool();
  int R    = (int)c[F_REGIONS];
  bool nt  = false;
  // ---- dedicated threads first
  int ded   = (int)(c[F_DED] & 3);
  bool late = (c[F_DED] & 4) != 0;
  static std::atomic<long> ded_ran;
  ded_ran = 0;
  std::function<void(void)> dedfn = []() { ++ded_ran; };
  unsigned usable = tp.getMaxUsableThreads();
  for (int d = 0; d < ded && tp.getMaxUsableThreads() > 1; ++d) {
    tp.runDedicated(dedfn);
    usable = tp.getMaxUsableThreads();
  }
  bool clamped = false;
  unsigned prev_threads = 0;
  long total_elems = 0;
  for (int r = 0; r < R; ++r) {
    const int64_t* f = &c.f[F_R0 + r * R_N];
    int kind         = (int)f[R_KIND];
    size_t n         = (size_t)f[R_SIZE];
    bool steal       = f[R_STEAL] != 0;
    unsigned chunk   = (unsigned)f[R_CHUNK];
    cur_kind         = KINDS[kind];
    // experimental busy-wait mode toggles between regions (precondition read
    // from runInternal's assertion: while busy-waiting, every region uses the
    // thread count given to burnPower -- so the bag is filled in sleep mode)
    tp.beKind();
    galois::InsertBag<int> bag;
    if (kind == 5) { // fill the bag in a region with `fillt` threads
      unsigned ft = galois::setActiveThreads((unsigned)c[F_FILLT]);
      galois::on_each([&](unsigned tid, unsigned nthr) {
        for (size_t i = 0; i < n; ++i)
          if (i % nthr == tid)
            bag.push((int)i);
      });
      (void)ft;
    }
    unsigned t = galois::setActiveThreads((unsigned)f[R_THREADS]);
    if (t != galois::getActiveThreads() || t < 1)
      vfail("threads/active-count", "setActiveThreads(%u) returned %u, getActiveThreads() = %u", (unsigned)f[R_THREADS], t, galois::getActiveThreads());
    clamped |= (unsigned)f[R_THREADS] > usable;
    if (late && r == 0 && tp.getMaxUsableThreads() > 1) {
      tp.runDedicated(dedfn); // the active thread count is now possibly above the usable count
      ++ded;
      usable = tp.getMaxUsableThreads();
    }
    if ((c[F_FAST] >> r) & 1)
      tp.burnPower(t);
    if (kind == 7 || kind == 8)
      n = t;
    {
      Quiet q;
      cur_region = r;
      cur_n      = t;
      count_.assign(n, 0);
      exec_tid.assign(n, -1);
      done_calls = 0;
    }
    in_cell  = (uint64_t*)gsched_arena_alloc(sizeof(uint64_t) * (n + 1));
    out_cell = (uint64_t*)gsched_arena_alloc(sizeof(uint64_t) * (n + 1));
    for (size_t i = 0; i < n; ++i)
      in_cell[i] = 1000 + i;
    switch (kind) {
    case 0:
      run_do_all(r, galois::iterate((int)0, (int)n), steal, chunk);
      break;
    case 1: {
      std::vector<int> v;
      fill_seq(v, n);
      run_do_all(r, galois::iterate(v), steal, chunk);
    } break;
    case 2: {
      std::list<int> v;
      fill_seq(v, n);
      run_do_all(r, galois::iterate(v), steal, chunk);
    } break;
    case 3: {
      std::forward_list<int> v;
      for (size_t i = n; i > 0; --i)
        v.push_front((int)(i - 1));
      run_do_all(r, galois::iterate(v.begin(), v.end()), steal, chunk);
    } break;
    case 4: {
      std::set<int> v;
      fill_seq(v, n);
      run_do_all(r, galois::iterate(v), steal, chunk);
    } break;
    case 5:
      run_do_all(r, galois::iterate(bag), steal, chunk);
      break;
    case 6: {
      galois::gdeque<int> v;
      for (size_t i = 0; i < n; ++i)
        v.push_back((int)i);
      run_do_all(r, galois::iterate(v), steal, chunk);
    } break;
    case 7:
      galois::on_each([&, r, t](unsigned tid, unsigned nthr) {
        if (nthr != t || tid != galois::substrate::ThreadPool::getTID())
          vfail("on_each/wrong-id", "on_each called fn(%u,%u) on pool thread %u with %u active threads", tid, nthr,
                galois::substrate::ThreadPool::getTID(), t);
        visit(r, tid);
      });
      break;
    case 8:
      tp.run(t, [&, r]() { visit(r, galois::substrate::ThreadPool::getTID()); });
      break;
    default: {
      std::vector<int> v;
      fill_seq(v, n);
      galois::for_each(galois::iterate(v), [r](int i, auto&) { visit(r, (size_t)i); }, galois::no_pushes(),
                       galois::disable_conflict_detection());
    }
    }
    // ---- the call returned: everything must be finished, exactly once
    {
      Quiet q;
      long total = 0;
      for (size_t i = 0; i < n; ++i)
        total += count_[i];
      if (done_calls != total)
        vfail("bookkeeping", "internal");
      for (size_t i = 0; i < n; ++i) {
        if (count_[i] == 0)
          vfail((std::string(cur_kind) + "/missed").c_str(), "region %d (%s, n=%zu, %u threads, chunk %u, steal %d): element %zu was not "
                "visited when the call returned (%ld of %zu visited)", r, cur_kind, n, t, chunk, (int)steal, i, total, n);
        if (count_[i] > 1)
          vfail((std::string(cur_kind) + "/duplicate").c_str(), "region %d (%s, n=%zu, %u threads, chunk %u, steal %d): element %zu visited %d times",
                r, cur_kind, n, t, chunk, (int)steal, i, count_[i]);
      }
      // steal detection: element executed by another thread than its block owner
      if (kind <= 4 || kind == 6)
        for (size_t i = 0; i < n; ++i) {
          auto pr = galois::block_range((size_t)0, n, 0u, t);
          (void)pr;
          unsigned owner = 0;
          for (unsigned tid = 0; tid < t; ++tid) {
            auto b = galois::block_range((size_t)0, n, tid, t);
            if (i >= b.first && i < b.second)
              owner = tid;
          }
          if ((unsigned)exec_tid[i] != owner)
            stolen_seen = 1;
        }
      if (t >= 2 && (stolen_seen || (prev_threads && prev_threads != t)))
        nt = true;
      prev_threads = t;
      total_elems += (long)n;
      cur_region = -100 - r; // nothing of this region may run from now on
    }
    for (size_t i = 0; i < n; ++i) // return edge: plain reads of worker-written payload
      if (out_cell[i] != 1001 + i)
        vfail((std::string(cur_kind) + "/return-edge").c_str(), "element %zu: caller reads %llu after the region, worker wrote %llu", i,
              (unsigned long long)out_cell[i], (unsigned long long)(1001 + i));
    label(std::string("kind") + std::to_string(r), KINDS[kind]);
  }
  tp.beKind();
  // the dedicated function runs asynchronously, exactly once per runDedicated
  long ded_want = std::min<long>(ded, TOPO_THREADS[c[F_TOPO]] - 1);
  while (ded_ran.load() < ded_want)
    sched_yield();
  if (ded_ran.load() != ded_want)
    vfail("dedicated/run-count", "%d dedicated thread(s) started, their function ran %ld times", ded, ded_ran.load());
  label("dedicated", (long)ded);
  label("dedicated_after_set", late);
  label("over_asked", clamped);
  label("topo", TOPOS[c[F_TOPO]]);
  label("regions", R);
  label("stolen", stolen_seen);
  label("strategy", c[S_STRATEGY]);
  nontrivial(nt && total_elems > 0);
  vok();
}
} // namespace verif

VERIF_E1_MAIN
