// C12a -- graph files round-trip at library level.  In-process rapidcheck
// (later also a libFuzzer target through the adapter in verif_e1.h).
// DESIGN.md 4/C12 part (a).
//
// Source graph (edges in the case tail, optional pseudo-random background)
//   -> FileGraphWriter (+ toFile)            [always format version 1]
//   |  independent encoder gr::encode, V1    [layout as documented]
//   |  independent encoder gr::encode, V2    [layout as documented]
// -> file -> independent decoder (writer source) and every library reader:
//   FileGraph::fromFile, fromFileInterleaved, partFromFile (every split
//   point), OCFileGraph segments, OfflineGraph, BufferedGraph (whole and
//   partial), copy/move of FileGraph + toFile (re-written file decoded and
//   re-read), makeSymmetric, permute, fromGraph.
#include "verif_e1.h"
#include "grfile.h"

#include "galois/Galois.h"
#include "galois/graphs/FileGraph.h"
#include "galois/graphs/OCGraph.h"
#include "galois/graphs/OfflineGraph.h"
#include "galois/graphs/BufferedGraph.h"

#include <array>
#include <functional>
#include <memory>
#include <type_traits>

using namespace verif;
namespace GG = galois::graphs;

namespace verif {
const char* const HARNESS = "c12a";
enum { F_SRC = 0, F_WIDTH, F_N, F_HUGE, F_WMODE, F_PERM, F_PSEED, F_READERS, F_BGDEG, F_BGSEED, F_COUNT };
const std::vector<const char*> FIELDS = {"src", "width", "n", "huge", "wmode", "perm", "pseed", "readers", "bgdeg", "bgseed"};
// tail x0.. : edges as triples (src, dst, weight-seed); src/dst are taken
// modulo the node count, negative values count from the last node

// ---- known findings (excluded by construction when listed in VERIF_EXCLUDE).
// The generator avoids the graph shape where the shape is a property of the
// whole case (K_V2PAD: adds an edge to make the count even; K_W1: 2-byte
// instead of 1-byte data).  Where the shape is one of the many sub-range reads
// a case performs (K_BUFEMPTY, K_MAP0; K_V2PAD for fromGraph / copies of
// parts) run() does not issue that one operation; run() also applies the
// whole-case exclusions, so that replayed, shrunk and fuzzer-made cases honour
// them too.  Every avoided operation is counted with count_excluded().
//
// K_V2PAD: version 2, odd edge count, edge data: fromMem()/fromArrays() skip 8
//   bytes of padding the documented V2 layout, rawBlockSize(), partFromFile()
//   and OfflineGraph do not have (all in-memory FileGraph readers are skipped)
// K_BUFEMPTY: BufferedGraph::loadPartialGraph of nodes without edges at an edge
//   offset > 0: edgeBegin(first node) was 0  (fixed in the tree by 82e549e)
// K_W1: 1-byte edge data: fromMem(lenlimit) decides "file has no edge data"
// K_MAP0: partFromFile maps a zero-length piece whose file offset is a multiple
//   of allocSize() (2 MiB): mmap(length 0) fails and the library aborts
static const char* const K_V2PAD    = "C12/FileGraph/v2-odd-edges-padding";
static const char* const K_BUFEMPTY = "C12/BufferedGraph/empty-part-edge-begin";
static const char* const K_W1       = "C12/FileGraph/w1-edge-data-dropped";
static const char* const K_MAP0     = "C12/partFromFile/zero-length-aligned-map";

static const uint64_t WIDTHS[] = {0, 4, 8, 12, 1, 2};
constexpr int NWIDTH            = 6;
static const char* SRC_NAMES[]  = {"writer", "crafted-v1", "crafted-v2"};
constexpr uint64_t HUGE_BASE    = 262140; // 32 + 8 * 262140 == 2 MiB == allocSize()
constexpr uint64_t ALLOC_SIZE   = 2 * 1024 * 1024;
constexpr size_t MAX_TAIL_EDGES = 4096;

enum {
  R_FROMFILE = 1 << 0,
  R_INTERLEAVED = 1 << 1,
  R_PART = 1 << 2,
  R_OC = 1 << 3,
  R_OFFLINE = 1 << 4,
  R_BUFFERED = 1 << 5,
  R_COPY = 1 << 6,
  R_SYM = 1 << 7,
  R_PERM = 1 << 8,
  R_FROMGRAPH = 1 << 9,
  R_ALL = (1 << 10) - 1
};

// 12-byte edge data (constructible from int: BufferedGraph::edgeData returns 0
// for an empty load)
struct E12 {
  uint32_t v[3];
  E12() = default;
  E12(int x) { v[0] = v[1] = v[2] = (uint32_t)x; }
};
static_assert(sizeof(E12) == 12, "E12 must be 12 bytes");

template <typename E>
constexpr size_t width_of() {
  if constexpr (std::is_void<E>::value)
    return 0;
  else
    return sizeof(E);
}

// ------------------------------------------------------------------ model
typedef std::array<uint8_t, 12> Bytes;
struct EdgeRec {
  uint64_t dst;
  Bytes d;
  bool operator<(const EdgeRec& o) const { return dst != o.dst ? dst < o.dst : d < o.d; }
};
static Bytes bytes_of(uint64_t v, uint64_t w) { // same derivation as gr::put_data
  Bytes b{};
  for (uint64_t i = 0; i < w && i < 12; ++i)
    b[i] = (uint8_t)((v >> (8 * (i % 8))) ^ (i / 8));
  return b;
}
static std::string hex(const Bytes& b, uint64_t w) {
  static const char* H = "0123456789abcdef";
  std::string s;
  for (uint64_t i = 0; i < w && i < 12; ++i) {
    s += H[b[i] >> 4];
    s += H[b[i] & 15];
  }
  return s.empty() ? "-" : s;
}

struct Model {
  uint64_t n = 0, m = 0, w = 0;
  int version = 1;
  std::vector<uint64_t> prefix; // n + 1
  std::vector<EdgeRec> flat;    // file order
  const EdgeRec* node(uint64_t N) const { return flat.data() + prefix[N]; }
  uint64_t deg(uint64_t N) const { return prefix[N + 1] - prefix[N]; }
};
static Model model_from_adj(uint64_t n, uint64_t w, int version, const std::vector<std::vector<EdgeRec>>& adj) {
  Model M;
  M.n       = n;
  M.w       = w;
  M.version = version;
  M.prefix.assign(n + 1, 0);
  for (uint64_t i = 0; i < n; ++i)
    M.prefix[i + 1] = M.prefix[i] + adj[i].size();
  M.m = M.prefix[n];
  M.flat.reserve(M.m);
  for (uint64_t i = 0; i < n; ++i)
    for (auto& e : adj[i])
      M.flat.push_back(e);
  return M;
}

struct InsEdge {
  uint64_t src, dst, val;
};
struct Built {
  Model M;
  gr::Graph g;              // for the independent encoder
  std::vector<InsEdge> ins; // insertion order for the writer
  std::vector<uint64_t> tail_nodes;
  bool selfloop = false, dup = false;
};

static uint64_t node_of(int64_t v, uint64_t n) {
  if (v >= 0)
    return (uint64_t)v % n;
  uint64_t k = (uint64_t)(-(v + 1)) % n;
  return n - 1 - k;
}
static uint64_t nodes_of_case(const Case& c) { return c[F_HUGE] ? HUGE_BASE - (uint64_t)(c[F_HUGE] - 1) : (uint64_t)c[F_N]; }
static uint64_t bg_degree(const Case& c, uint64_t i) {
  if (!c[F_BGDEG])
    return 0;
  if (prf((uint64_t)c[F_BGSEED], i, 2) % 3 == 0)
    return 0; // isolated
  return prf((uint64_t)c[F_BGSEED], i, 1) % ((uint64_t)c[F_BGDEG] + 1);
}
static size_t tail_edges(const Case& c, uint64_t n) {
  if (n == 0 || c.f.size() <= (size_t)F_COUNT)
    return 0;
  return std::min<size_t>((c.f.size() - F_COUNT) / 3, MAX_TAIL_EDGES);
}
static uint64_t count_edges(const Case& c) {
  uint64_t n = nodes_of_case(c), m = tail_edges(c, n);
  if (c[F_BGDEG])
    for (uint64_t i = 0; i < n; ++i)
      m += bg_degree(c, i);
  return m;
}

// c must be normalized
static Built build(const Case& c) {
  Built B;
  uint64_t n = nodes_of_case(c), w = WIDTHS[c[F_WIDTH]];
  if (c[F_BGDEG])
    for (uint64_t i = 0; i < n; ++i) {
      uint64_t d = bg_degree(c, i);
      for (uint64_t k = 0; k < d; ++k)
        B.ins.push_back({i, prf((uint64_t)c[F_BGSEED], i, 3 + k) % n, prf(0xB6, i, k)});
    }
  size_t te = tail_edges(c, n);
  for (size_t i = 0; i < te; ++i) {
    uint64_t s = node_of(c.f[F_COUNT + 3 * i], n), d = node_of(c.f[F_COUNT + 3 * i + 1], n);
    B.ins.push_back({s, d, prf(0xC12A, (uint64_t)c.f[F_COUNT + 3 * i + 2], i)});
    if (B.tail_nodes.size() < 64) {
      B.tail_nodes.push_back(s);
      B.tail_nodes.push_back(d);
    }
  }
  std::vector<std::vector<EdgeRec>> adj(n);
  B.g.numNodes   = n;
  B.g.sizeofEdge = w;
  B.g.version    = c[F_SRC] == 2 ? 2 : 1;
  B.g.adj.resize(n);
  for (auto& e : B.ins) {
    B.selfloop |= e.src == e.dst;
    for (auto& x : adj[e.src])
      B.dup |= x.dst == e.dst;
    adj[e.src].push_back({e.dst, bytes_of(e.val, w)});
    B.g.adj[e.src].push_back({e.dst, e.val});
  }
  B.M = model_from_adj(n, w, B.g.version, adj);
  return B;
}

static std::vector<uint64_t> permutation_of(const Case& c, uint64_t n) {
  std::vector<uint64_t> p(n);
  for (uint64_t i = 0; i < n; ++i)
    p[i] = i;
  switch (c[F_PERM]) {
  case 0:
    break;
  case 1:
    std::reverse(p.begin(), p.end());
    break;
  case 2:
    if (n)
      std::rotate(p.begin(), p.begin() + 1, p.end());
    break;
  default:
    for (uint64_t i = n; i > 1; --i)
      std::swap(p[i - 1], p[prf((uint64_t)c[F_PSEED], i) % i]);
  }
  return p;
}

// does the case contain the operation shape of a known finding?
static bool shape_v2pad(int src, uint64_t w, uint64_t m) { return src == 2 && w > 0 && (m & 1); }
static bool shape_w1(uint64_t w, uint64_t m) { return w == 1 && m > 0; }

void normalize_case(Case& c) {
  if (c.f.size() < (size_t)F_COUNT)
    c.f.resize(F_COUNT, 0);
  auto mod = [](int64_t v, int64_t m) { return ((v % m) + m) % m; };
  c[F_SRC]   = mod(c[F_SRC], 3);
  c[F_WIDTH] = mod(c[F_WIDTH], NWIDTH);
  c[F_N]     = mod(c[F_N], 1201);
  c[F_HUGE]  = mod(c[F_HUGE], 64);
  if (c[F_HUGE] > 9)
    c[F_HUGE] = 0;
  c[F_WMODE]   = mod(c[F_WMODE], 4);
  c[F_PERM]    = mod(c[F_PERM], 4);
  c[F_PSEED]   = mod(c[F_PSEED], 1 << 16);
  c[F_READERS] = mod(c[F_READERS], R_ALL + 1);
  c[F_BGDEG]   = mod(c[F_BGDEG], 4);
  if (c[F_HUGE])
    c[F_BGDEG] = 0;
  c[F_BGSEED] = mod(c[F_BGSEED], 1 << 16);
}

Case generate() {
  using namespace rc;
  Case c;
  c.f.assign(F_COUNT, 0);
  int cls    = *gen::weightedElement<int>({{190, 0}, {9, 1}, {1, 2}}); // small, big, huge
  c[F_SRC]   = *gen::weightedElement<int>({{4, 0}, {2, 1}, {4, 2}});
  c[F_WIDTH] = *gen::weightedElement<int>({{3, 0}, {4, 1}, {4, 2}, {3, 3}, {1, 4}, {1, 5}});
  if (c[F_WIDTH] == 4 && excluded(K_W1)) { // 1-byte edge data: avoided altogether
    count_excluded();
    c[F_WIDTH] = 5;
  }
  uint64_t n;
  if (cls == 0) {
    int k = *gen::weightedElement<int>({{1, 0}, {1, 1}, {14, -1}});
    n     = k >= 0 ? k : *gen::inRange(2, 41);
  } else if (cls == 1) {
    n           = *uni(200, 1201);
    c[F_BGDEG]  = *uni(1, 4);
    c[F_BGSEED] = *uni(0, 1 << 16);
  } else {
    c[F_HUGE] = *uni(1, 10);
    n         = HUGE_BASE - (c[F_HUGE] - 1);
  }
  c[F_N]       = cls == 2 ? 0 : (int64_t)n;
  c[F_WMODE]   = *uni(0, 4);
  c[F_PERM]    = *uni(0, 4);
  c[F_PSEED]   = *uni(0, 1 << 16);
  c[F_READERS] = *gen::weightedElement<int>({{3, 0}, {1, 1}}) ? *uni(1, R_ALL + 1) : R_ALL;
  // fromFileInterleaved (and partFromFile's numaMap) start a run on every pool
  // thread, which is very slow on a loaded machine: on 1 case in 24
  if (*gen::weightedElement<int>({{23, 1}, {1, 0}}))
    c[F_READERS] &= ~(int64_t)R_INTERLEAVED;
  if (c[F_READERS] == 0)
    c[F_READERS] = R_FROMFILE;
  if (cls == 2) // 2 MiB files: sub-range reads plus a few of the other readers
    c[F_READERS] = R_PART | (1 << *uni(0, 10)) | (1 << *uni(0, 10));
  int ne       = n == 0 ? 0 : *gen::inRange(0, cls == 0 ? 70 : 24);
  int64_t ps = 0, pd = 0;
  for (int i = 0; i < ne; ++i) {
    int kind = *gen::weightedElement<int>({{8, 0}, {1, 1}, {1, 2}});
    int64_t s, d;
    if (cls == 2) { // near the first and the last nodes
      s = *uni<int64_t>(-6, 7);
      d = *uni<int64_t>(-6, 7);
    } else {
      s = *uni<int64_t>(0, (int64_t)n);
      d = *uni<int64_t>(0, (int64_t)n);
    }
    if (kind == 1)
      d = s;
    if (kind == 2 && i > 0) {
      s = ps;
      d = pd;
    }
    ps = s;
    pd = d;
    c.f.push_back(s);
    c.f.push_back(d);
    c.f.push_back(*uni(0, 256));
  }
  // known finding: V2 + odd edge count + edge data -> keep the count even
  if (excluded(K_V2PAD) && n > 0 && shape_v2pad((int)c[F_SRC], WIDTHS[c[F_WIDTH]], count_edges(c))) {
    count_excluded();
    c.f.push_back(0);
    c.f.push_back(0);
    c.f.push_back(0);
  }
  return c;
}

// ------------------------------------------------------------ reporting
[[noreturn]] static void sfail(const std::string& subj, const char* key, const char* fmt, ...) {
  char buf[1024];
  va_list ap;
  va_start(ap, fmt);
  vsnprintf(buf, sizeof buf, fmt, ap);
  va_end(ap);
  vfinish("FAIL", subj + "." + key, buf);
}
#define SCHECK(cond, subj, key, ...)                                           \
  do {                                                                         \
    if (!(cond))                                                               \
      sfail(subj, key, __VA_ARGS__);                                           \
  } while (0)
typedef unsigned long long ull;

static bool mem_family(const std::string& subj) {
  static const char* S[] = {"fromFile", "fromFileInterleaved", "copy", "copy-assign", "move", "move-assign", "copy-toFile",
                            "recopy", "makeSymmetric", "makeSymmetric-toFile", "permute", "permute-toFile", "fromGraph",
                            "fromGraph-toFile", "partcopy"};
  for (auto s : S)
    if (subj == s)
      return true;
  return false;
}

std::string finding_key(const Case& c0, const std::string& failkey) {
  Case c = c0;
  normalize_case(c);
  std::string subj = "filegraph", key = failkey;
  size_t p = failkey.find('.');
  if (p != std::string::npos) {
    subj = failkey.substr(0, p);
    key  = failkey.substr(p + 1);
  }
  if (key == "empty-part-edge-begin")
    return K_BUFEMPTY;
  if (key == "zero-length-aligned-map")
    return K_MAP0;
  bool mem   = failkey == "crash" || mem_family(subj);
  uint64_t w = WIDTHS[c[F_WIDTH]];
  if (mem && (shape_v2pad((int)c[F_SRC], w, count_edges(c)) || (subj == "partcopy" && c[F_SRC] == 2 && w > 0)))
    return K_V2PAD;
  // fromGraph<T> gives a graph without edge data 4-byte data: same padding
  if (subj.compare(0, 9, "fromGraph") == 0 && shape_v2pad((int)c[F_SRC], 4, count_edges(c)))
    return K_V2PAD;
  if (mem && shape_w1(w, count_edges(c)) && (key == "no-edge-data" || key == "edge-data" || key == "edge-multiset" || key == "crash"))
    return K_W1;
  return "C12/" + subj + "/" + key;
}

// ------------------------------------------------------------ comparison
static void compare_edges(const std::string& subj, uint64_t N, std::vector<EdgeRec>& got, const EdgeRec* want, uint64_t nwant,
                          bool ordered, uint64_t w) {
  SCHECK(got.size() == nwant, subj, "degree", "node %llu has %zu edges, source graph has %llu", (ull)N, got.size(), (ull)nwant);
  std::vector<EdgeRec> ws(want, want + nwant);
  if (!ordered) {
    std::sort(got.begin(), got.end());
    std::sort(ws.begin(), ws.end());
  }
  for (uint64_t i = 0; i < nwant; ++i) {
    if (ordered) {
      SCHECK(got[i].dst == ws[i].dst, subj, "edge-dst", "node %llu edge %llu: destination %llu, source graph has %llu", (ull)N, (ull)i,
             (ull)got[i].dst, (ull)ws[i].dst);
      SCHECK(got[i].d == ws[i].d, subj, "edge-data", "node %llu edge %llu (dst %llu): %llu-byte edge data %s, source graph has %s",
             (ull)N, (ull)i, (ull)ws[i].dst, (ull)w, hex(got[i].d, w).c_str(), hex(ws[i].d, w).c_str());
    } else {
      SCHECK(got[i].dst == ws[i].dst && got[i].d == ws[i].d, subj, "edge-multiset",
             "node %llu: sorted edge %llu is (dst %llu, data %s), expected (dst %llu, data %s)", (ull)N, (ull)i, (ull)got[i].dst,
             hex(got[i].d, w).c_str(), (ull)ws[i].dst, hex(ws[i].d, w).c_str());
    }
  }
}

template <typename E>
static Bytes to_bytes(const void* p) {
  Bytes b{};
  if constexpr (!std::is_void<E>::value)
    memcpy(b.data(), p, sizeof(E));
  return b;
}

// nodes whose adjacency is read back: all of them unless the graph is huge
// or the part is one of many large parts of a big graph
static std::vector<uint64_t> nodes_to_check(const Built& B, uint64_t a, uint64_t b) {
  std::vector<uint64_t> r;
  bool whole = a == 0 && b == B.M.n;
  if (whole ? b - a <= 3000 : b - a <= 256) {
    for (uint64_t i = a; i < b; ++i)
      r.push_back(i);
    return r;
  }
  std::set<uint64_t> s;
  for (uint64_t i = 0; i < 24; ++i) {
    s.insert(a + i);
    s.insert(b - 1 - i);
    s.insert(a + prf(17, i, a, b) % (b - a));
  }
  for (auto t : B.tail_nodes)
    for (uint64_t x : {t, t + 1, t + B.M.n - 1})
      if (x % B.M.n >= a && x % B.M.n < b)
        s.insert(x % B.M.n);
  return std::vector<uint64_t>(s.begin(), s.end());
}

// ----------------------------------------------------- independent decoder
static void check_decoded(const std::string& subj, const std::vector<unsigned char>& bytes, const Model& M, bool ordered) {
  gr::Decoded d;
  bool ok = gr::decode(bytes, d);
  SCHECK(ok, subj, "malformed", "file of %zu bytes does not decode (header: version %llu, edge size %llu, %llu nodes, %llu edges)",
         bytes.size(), bytes.size() >= 32 ? (ull)gr::get64(&bytes[0]) : 0ULL, bytes.size() >= 32 ? (ull)gr::get64(&bytes[8]) : 0ULL,
         bytes.size() >= 32 ? (ull)gr::get64(&bytes[16]) : 0ULL, bytes.size() >= 32 ? (ull)gr::get64(&bytes[24]) : 0ULL);
  SCHECK((int)d.version == M.version, subj, "version", "file version %llu, expected %d", (ull)d.version, M.version);
  SCHECK(d.sizeofEdge == M.w, subj, "edge-size", "file says %llu bytes of edge data, expected %llu", (ull)d.sizeofEdge, (ull)M.w);
  SCHECK(d.numNodes == M.n, subj, "num-nodes", "file has %llu nodes, source graph %llu", (ull)d.numNodes, (ull)M.n);
  SCHECK(d.numEdges == M.m, subj, "num-edges", "file has %llu edges, source graph %llu", (ull)d.numEdges, (ull)M.m);
  for (uint64_t i = 0; i < M.n; ++i)
    SCHECK(d.outIdx[i] == M.prefix[i + 1], subj, "out-index", "outIdx[%llu] = %llu, expected %llu", (ull)i, (ull)d.outIdx[i],
           (ull)M.prefix[i + 1]);
  std::vector<EdgeRec> got;
  for (uint64_t N = 0; N < M.n; ++N) {
    got.clear();
    for (uint64_t e = M.prefix[N]; e < M.prefix[N + 1]; ++e) {
      EdgeRec r{d.dst[e], Bytes{}};
      memcpy(r.d.data(), &bytes[d.dataOffset + e * M.w], M.w);
      got.push_back(r);
    }
    compare_edges(subj, N, got, M.node(N), M.deg(N), ordered, M.w);
  }
  SCHECK(bytes.size() == d.dataOffset + M.w * M.m, subj, "file-size", "file has %zu bytes, the documented layout has %llu", bytes.size(),
         (ull)(d.dataOffset + M.w * M.m));
}

// --------------------------------------------------------------- FileGraph
struct Peek : GG::FileGraph {
  static char* edge_data(GG::FileGraph& g) {
    char* GG::FileGraph::*p = &Peek::edgeData;
    return g.*p;
  }
};

// fg holds nodes [a, b) of M (whole graph: a = 0, b = n)
template <typename E>
static void check_fg(const std::string& subj, GG::FileGraph& fg, const Built& B, const Model& M, uint64_t a, uint64_t b, bool ordered) {
  uint64_t pn = b - a, pe = M.prefix[b] - M.prefix[a], eo = M.prefix[a];
  SCHECK(fg.size() == pn, subj, "num-nodes", "size() = %zu, expected %llu (nodes [%llu,%llu))", fg.size(), (ull)pn, (ull)a, (ull)b);
  SCHECK(fg.sizeEdges() == pe, subj, "num-edges", "sizeEdges() = %zu, expected %llu (nodes [%llu,%llu))", fg.sizeEdges(), (ull)pe,
         (ull)a, (ull)b);
  SCHECK(fg.edgeSize() == M.w, subj, "edge-size", "edgeSize() = %zu, expected %llu", fg.edgeSize(), (ull)M.w);
  SCHECK(*fg.begin() == a && *fg.end() == b, subj, "node-range", "begin()/end() = [%llu,%llu), expected [%llu,%llu)", (ull)*fg.begin(),
         (ull)*fg.end(), (ull)a, (ull)b);
  if (M.w && pe)
    SCHECK(Peek::edge_data(fg) != nullptr, subj, "no-edge-data", "graph with %llu edges of %llu-byte data has a null edge data array",
           (ull)pe, (ull)M.w);
  std::vector<EdgeRec> got;
  int extras = 0;
  for (uint64_t N : nodes_to_check(B, a, b)) {
    uint64_t eb = *fg.edge_begin(N), ee = *fg.edge_end(N);
    uint64_t lb = M.prefix[N] - eo, le = M.prefix[N + 1] - eo;
    SCHECK(eb == lb && ee == le, subj, "edge-range", "node %llu of part [%llu,%llu): edges [%llu,%llu), expected [%llu,%llu)", (ull)N,
           (ull)a, (ull)b, (ull)eb, (ull)ee, (ull)lb, (ull)le);
    got.clear();
    for (uint64_t i = eb; i < ee; ++i) {
      GG::FileGraph::edge_iterator it(i);
      EdgeRec r{fg.getEdgeDst(it), Bytes{}};
      if constexpr (!std::is_void<E>::value)
        r.d = to_bytes<E>(&fg.getEdgeData<E>(it));
      got.push_back(r);
    }
    compare_edges(subj, N, got, M.node(N), M.deg(N), ordered, M.w);
    // secondary accessors on a few nodes with edges
    if (ordered && M.deg(N) && extras < 48) {
      ++extras;
      const EdgeRec* wn = M.node(N);
      uint64_t absent   = M.n; // a destination node N has no edge to
      for (uint64_t cand = 0; cand < M.n && absent == M.n; ++cand) {
        bool has = false;
        for (uint64_t i = 0; i < M.deg(N); ++i)
          has |= wn[i].dst == cand;
        if (!has)
          absent = cand;
      }
      if (absent != M.n)
        SCHECK(!fg.hasNeighbor(N, absent), subj, "has-neighbor", "hasNeighbor(%llu,%llu) is true, there is no such edge", (ull)N,
               (ull)absent);
      for (uint64_t i = 0; i < M.deg(N); ++i) {
        SCHECK(fg.hasNeighbor(N, wn[i].dst), subj, "has-neighbor", "hasNeighbor(%llu,%llu) is false for an existing edge", (ull)N,
               (ull)wn[i].dst);
        if constexpr (!std::is_void<E>::value) {
          uint64_t first = 0; // getEdgeData(src, dst) addresses the first such edge
          while (wn[first].dst != wn[i].dst)
            ++first;
          Bytes g = to_bytes<E>(&fg.getEdgeData<E>(N, wn[i].dst));
          SCHECK(g == wn[first].d, subj, "edge-data", "getEdgeData(%llu,%llu) = %s, source graph has %s", (ull)N, (ull)wn[i].dst,
                 hex(g, M.w).c_str(), hex(wn[first].d, M.w).c_str());
        }
      }
      if (M.version == 1) { // documented as version-1 only
        uint64_t i = 0;
        for (auto ni = fg.neighbor_begin(N), ne = fg.neighbor_end(N); ni != ne && i <= M.deg(N); ++ni, ++i)
          SCHECK(i < M.deg(N) && *ni == wn[i].dst, subj, "neighbor-iterator", "neighbor %llu of node %llu is %llu, expected %llu of %llu",
                 (ull)i, (ull)N, (ull)*ni, i < M.deg(N) ? (ull)wn[i].dst : 0ULL, (ull)M.deg(N));
        SCHECK(i == M.deg(N), subj, "neighbor-iterator", "neighbor range of node %llu has %llu entries, expected %llu", (ull)N, (ull)i,
               (ull)M.deg(N));
      }
    }
  }
  if (ordered && pn <= 3000) {
    uint64_t i = 0;
    for (auto ii = fg.edge_id_begin(), ei = fg.edge_id_end(); ii != ei && i <= pn; ++ii, ++i)
      SCHECK(i < pn && *ii == M.prefix[a + i + 1], subj, "edge-id-iterator", "edge_id[%llu] = %llu, expected %llu (part [%llu,%llu))",
             (ull)i, (ull)*ii, i < pn ? (ull)M.prefix[a + i + 1] : 0ULL, (ull)a, (ull)b);
    SCHECK(i == pn, subj, "edge-id-iterator", "edge_id range has %llu entries, expected %llu", (ull)i, (ull)pn);
    if (M.version == 1) {
      i = 0;
      for (auto ii = fg.node_id_begin(), ei = fg.node_id_end(); ii != ei && i <= pe; ++ii, ++i)
        SCHECK(i < pe && *ii == M.flat[eo + i].dst, subj, "node-id-iterator", "node_id[%llu] = %llu, expected %llu", (ull)i, (ull)*ii,
               i < pe ? (ull)M.flat[eo + i].dst : 0ULL);
      SCHECK(i == pe, subj, "node-id-iterator", "node_id range has %llu entries, expected %llu", (ull)i, (ull)pe);
    }
  }
}

// ------------------------------------------------------------------ files
struct TmpFile {
  std::string path;
  explicit TmpFile(const char* suffix) {
    const char* d = getenv("VERIF_TMP");
    path          = std::string(d ? d : "/tmp") + "/c12a-" + std::to_string(getpid()) + suffix;
  }
  ~TmpFile() { unlink(path.c_str()); }
};

static std::vector<unsigned char> slurp(const std::string& subj, const std::string& path) {
  std::vector<unsigned char> b;
  SCHECK(gr::read_file(path, b), subj, "io", "cannot read back %s", path.c_str());
  return b;
}

// ----------------------------------------------------------------- writer
template <typename E>
static void write_with_writer(const Case& c, const Built& B, const std::string& path) {
  const Model& M = B.M;
  GG::FileGraphWriter wr;
  wr.setNumNodes(M.n);
  wr.setNumEdges<E>(M.m);
  wr.phase1();
  if (c[F_WMODE] & 2) {
    for (uint64_t i = 0; i < M.n; ++i)
      if (M.deg(i))
        wr.incrementDegree(i, M.deg(i));
  } else {
    for (auto& e : B.ins)
      wr.incrementDegree(e.src);
  }
  wr.phase2();
  std::vector<uint64_t> cnt(M.n, 0);
  std::vector<std::pair<size_t, uint64_t>> later; // (index, value) for the finish<T>() form
  for (auto& e : B.ins) {
    size_t idx, want = M.prefix[e.src] + cnt[e.src]++;
    if constexpr (std::is_void<E>::value) {
      idx = wr.addNeighbor(e.src, e.dst);
    } else {
      if (c[F_WMODE] & 1) {
        idx = wr.addNeighbor(e.src, e.dst);
        later.push_back({idx, e.val});
      } else {
        E data;
        Bytes b = bytes_of(e.val, sizeof(E));
        memcpy(&data, b.data(), sizeof(E));
        idx = wr.template addNeighbor<E>(e.src, e.dst, data);
      }
    }
    SCHECK(idx == want, "writer", "add-index", "addNeighbor(%llu,%llu) returned edge index %zu, expected %zu", (ull)e.src, (ull)e.dst, idx,
           want);
  }
  if constexpr (std::is_void<E>::value) {
    wr.finish();
  } else {
    if (c[F_WMODE] & 1) {
      E* data = wr.template finish<E>();
      SCHECK(data != nullptr || M.m == 0, "writer", "no-edge-data", "finish<T>() returned null for %llu edges", (ull)M.m);
      for (auto& l : later) {
        Bytes b = bytes_of(l.second, sizeof(E));
        memcpy(&data[l.first], b.data(), sizeof(E));
      }
    } else
      wr.finish();
  }
  check_fg<E>("writer", wr, B, M, 0, M.n, true); // "finish(), use as FileGraph"
  wr.toFile(path);
}

// ---------------------------------------------------------- sub-ranges
typedef std::pair<uint64_t, uint64_t> Range;
static std::vector<Range> ranges_of(const Case& c, const Built& B) {
  uint64_t n = B.M.n;
  std::set<Range> s;
  if (n <= 48) {
    for (uint64_t k = 0; k <= n; ++k) { // every split point
      s.insert({0, k});
      s.insert({k, n});
      if (k < n && (n <= 24 || prf((uint64_t)c[F_PSEED], k, n) % n < 8)) // single-node parts: all / a sample
        s.insert({k, k + 1});
    }
    if (n <= 8)
      for (uint64_t a = 0; a < n; ++a)
        for (uint64_t b = a + 1; b <= n; ++b)
          s.insert({a, b});
  } else {
    std::set<uint64_t> ks = {0, 1, 2, n - 2, n - 1, n};
    for (uint64_t i = 0; i < 10; ++i)
      ks.insert(prf((uint64_t)c[F_PSEED], i, 99) % (n + 1));
    for (size_t i = 0; i < B.tail_nodes.size() && i < 8; ++i) {
      ks.insert(B.tail_nodes[i]);
      ks.insert(B.tail_nodes[i] + 1);
    }
    for (auto k : ks) {
      s.insert({0, k});
      s.insert({k, n});
      if (k < n)
        s.insert({k, k + 1});
    }
  }
  std::vector<Range> v(s.begin(), s.end());
  // non-empty node ranges first: a failure is then reported on the more
  // convincing shape if both kinds fail
  std::stable_partition(v.begin(), v.end(), [](const Range& r) { return r.first < r.second; });
  return v;
}

// pieces partFromFile maps: (file offset, length); a zero-length piece whose
// offset is a multiple of allocSize() asks mmap for 0 bytes
static bool part_has_zero_aligned_piece(const Model& M, uint64_t a, uint64_t b) {
  uint64_t pn = b - a, pe = M.prefix[b] - M.prefix[a], eo = M.prefix[a];
  uint64_t dw = M.version == 1 ? 4 : 8;
  uint64_t o1 = 32 + 8 * a;
  uint64_t o2 = 32 + 8 * M.n + dw * eo;
  uint64_t o3 = 32 + 8 * M.n + dw * M.m + (M.version == 1 && (M.m & 1) ? 4 : 0) + M.w * eo;
  return (pn == 0 && o1 % ALLOC_SIZE == 0) || (pe == 0 && o2 % ALLOC_SIZE == 0) || (M.w && pe == 0 && o3 % ALLOC_SIZE == 0);
}

static void do_part_from_file(GG::FileGraph& fg, const std::string& path, const Model& M, uint64_t a, uint64_t b, bool numa) {
  typedef GG::FileGraph FG;
  fg.partFromFile(path, FG::NodeRange(FG::iterator(a), FG::iterator(b)),
                  FG::EdgeRange(FG::edge_iterator(M.prefix[a]), FG::edge_iterator(M.prefix[b])), numa);
}

// runs f in a forked child; returns the wait status (the library reports
// resource errors with abort())
static int in_child(const std::function<void()>& f) {
  fflush(nullptr);
  pid_t pid = fork();
  if (pid == 0) {
    signal(SIGABRT, SIG_DFL);
    signal(SIGSEGV, SIG_DFL);
    signal(SIGBUS, SIG_DFL);
    if (!getenv("VERIF_CHILD_STDERR")) {
      int dn = open("/dev/null", O_WRONLY);
      if (dn >= 0)
        dup2(dn, 2);
    }
    f();
    _exit(0);
  }
  int st = 0;
  waitpid(pid, &st, 0);
  return st;
}

template <typename E>
static void check_part_from_file(const Case& c, const Built& B, const std::string& path, const std::vector<Range>& ranges) {
  const Model& M = B.M;
  size_t idx     = 0;
  for (auto& r : ranges) {
    uint64_t a = r.first, b = r.second;
    ++idx;
    if (part_has_zero_aligned_piece(M, a, b)) {
      if (excluded(K_MAP0)) {
        count_excluded();
        continue;
      }
      int st = in_child([&] {
        GG::FileGraph fg;
        do_part_from_file(fg, path, M, a, b, false);
      });
      SCHECK(WIFEXITED(st) && WEXITSTATUS(st) == 0, "partFromFile", "zero-length-aligned-map",
             "partFromFile(nodes [%llu,%llu), edges [%llu,%llu)) of a %llu-node %llu-edge V%d file died (wait status 0x%x): a piece of "
             "length 0 starts at a file offset that is a multiple of allocSize()",
             (ull)a, (ull)b, (ull)M.prefix[a], (ull)M.prefix[b], (ull)M.n, (ull)M.m, M.version, st);
    }
    GG::FileGraph fg;
    do_part_from_file(fg, path, M, a, b, (c[F_READERS] & R_INTERLEAVED) && (idx == 3 || idx == 12)); // numaMap: pages in with 2 threads
    check_fg<E>("partFromFile", fg, B, M, a, b, true);
    if (idx % 3 == 0 || ranges.size() <= 24) { // a copy of a partially loaded graph is the same part
      uint64_t pe = M.prefix[b] - M.prefix[a];
      if (excluded(K_V2PAD) && M.version == 2 && M.w && (pe & 1))
        continue; // fromArrays writes past its block for odd V2 edge counts
      GG::FileGraph cp(fg);
      check_fg<E>("partcopy", cp, B, M, a, b, true);
    }
    if (idx % 2 == 0 || ranges.size() <= 24) { // a moved partially loaded graph is the same part (construction, assignment, stored in a vector)
      GG::FileGraph mv(std::move(fg));
      check_fg<E>("partmove", mv, B, M, a, b, true);
      GG::FileGraph as;
      as = std::move(mv);
      check_fg<E>("partmove", as, B, M, a, b, true);
      std::vector<GG::FileGraph> vec;
      vec.push_back(std::move(as));
      check_fg<E>("partmove", vec[0], B, M, a, b, true);
    }
  }
}

// ------------------------------------------------------------- OCFileGraph
struct SegGuard {
  GG::OCFileGraph& g;
  GG::OCFileGraph::segment_type seg;
  explicit SegGuard(GG::OCFileGraph& g) : g(g) {}
  ~SegGuard() { g.unload(seg); }
};

template <typename E>
static void check_oc(const Built& B, const std::string& path, const std::vector<Range>& ranges) {
  const Model& M       = B.M;
  const std::string sj = "OCFileGraph";
  GG::OCFileGraph oc;
  oc.fromFile(path);
  SCHECK(oc.size() == M.n && oc.sizeEdges() == M.m, sj, "num-nodes", "size() = %zu, sizeEdges() = %zu, expected %llu, %llu", oc.size(),
         oc.sizeEdges(), (ull)M.n, (ull)M.m);
  SCHECK(*oc.begin() == 0 && *oc.end() == M.n, sj, "node-range", "begin()/end() = [%u,%u)", *oc.begin(), *oc.end());
  SCHECK((uint64_t)(oc.edge_offset_end() - oc.edge_offset_begin()) == M.n, sj, "out-index", "edge offset range has %lld entries",
         (long long)(oc.edge_offset_end() - oc.edge_offset_begin()));
  for (uint64_t N : nodes_to_check(B, 0, M.n))
    SCHECK(*oc.edge_begin(N) == M.prefix[N] && *oc.edge_end(N) == M.prefix[N + 1], sj, "edge-range",
           "node %llu: edges [%llu,%llu), expected [%llu,%llu)", (ull)N, (ull)*oc.edge_begin(N), (ull)*oc.edge_end(N), (ull)M.prefix[N],
           (ull)M.prefix[N + 1]);
  size_t idx = 0;
  for (auto& r : ranges) {
    uint64_t a = r.first, b = r.second;
    if (a == b)
      continue; // a segment is loaded for a non-empty node range
    // each segment maps 2 x (2 MiB + data): all ranges of tiny graphs, else a sample
    if (ranges.size() > 40 && prf(M.n, M.m, ++idx) % ranges.size() >= 24)
      continue;
    SegGuard s(oc);
    oc.load(s.seg, oc.edge_begin(a), oc.edge_end(b - 1), width_of<E>());
    for (uint64_t e = M.prefix[a]; e < M.prefix[b]; ++e) {
      GG::OCFileGraph::edge_iterator it(e);
      uint64_t dst = oc.getEdgeDst(s.seg, it);
      SCHECK(dst == M.flat[e].dst, sj, "edge-dst", "segment of nodes [%llu,%llu): edge %llu has destination %llu, expected %llu", (ull)a,
             (ull)b, (ull)e, (ull)dst, (ull)M.flat[e].dst);
      if constexpr (!std::is_void<E>::value) {
        Bytes g = to_bytes<E>(&oc.getEdgeData<E>(s.seg, it));
        SCHECK(g == M.flat[e].d, sj, "edge-data", "segment of nodes [%llu,%llu): edge %llu has data %s, expected %s", (ull)a, (ull)b,
               (ull)e, hex(g, M.w).c_str(), hex(M.flat[e].d, M.w).c_str());
      }
    }
  }
}

// ------------------------------------------------------------ OfflineGraph
template <typename E>
static void check_offline(const Built& B, const std::string& path) {
  const Model& M       = B.M;
  const std::string sj = "OfflineGraph";
  std::unique_ptr<GG::OfflineGraph> og;
  try {
    og.reset(new GG::OfflineGraph(path));
  } catch (const char* what) {
    sfail(sj, "open", "constructor threw '%s' for a %llu-node %llu-edge V%d file", what, (ull)M.n, (ull)M.m, M.version);
  }
  SCHECK(og->size() == M.n && og->sizeEdges() == M.m, sj, "num-nodes", "size() = %zu, sizeEdges() = %zu, expected %llu, %llu", og->size(),
         og->sizeEdges(), (ull)M.n, (ull)M.m);
  SCHECK(og->edgeSize() == M.w, sj, "edge-size", "edgeSize() = %zu, expected %llu", og->edgeSize(), (ull)M.w);
  SCHECK(*og->begin() == 0 && *og->end() == M.n, sj, "node-range", "begin()/end() = [%llu,%llu)", (ull)*og->begin(), (ull)*og->end());
  std::vector<EdgeRec> got;
  for (uint64_t N : nodes_to_check(B, 0, M.n)) {
    uint64_t eb = *og->edge_begin(N), ee = *og->edge_end(N);
    SCHECK(eb == M.prefix[N] && ee == M.prefix[N + 1] && (*og)[N] == M.prefix[N + 1], sj, "edge-range",
           "node %llu: edges [%llu,%llu), expected [%llu,%llu)", (ull)N, (ull)eb, (ull)ee, (ull)M.prefix[N], (ull)M.prefix[N + 1]);
    got.clear();
    for (uint64_t e = eb; e < ee; ++e) {
      GG::OfflineGraph::edge_iterator it(e);
      EdgeRec r{og->getEdgeDst(it), Bytes{}};
      if constexpr (!std::is_void<E>::value) {
        E v = og->getEdgeData<E>(it);
        r.d = to_bytes<E>(&v);
        if (sizeof(E) >= 8) { // a narrower type reads the leading bytes (sizeof(T) <= stored size)
          uint32_t lo = og->getEdgeData<uint32_t>(it);
          SCHECK(memcmp(&lo, M.flat[e].d.data(), 4) == 0, sj, "edge-data", "edge %llu: getEdgeData<uint32_t> = %08x, stored data %s", (ull)e,
                 lo, hex(M.flat[e].d, M.w).c_str());
        }
      }
      got.push_back(r);
    }
    compare_edges(sj, N, got, M.node(N), M.deg(N), true, M.w);
  }
  // the class is movable: the moved-to object reads the same file
  GG::OfflineGraph moved(std::move(*og));
  SCHECK(moved.size() == M.n && moved.sizeEdges() == M.m, sj, "move", "moved-to graph: size() = %zu, sizeEdges() = %zu", moved.size(),
         moved.sizeEdges());
  for (uint64_t e = 0; e < M.m && e < 4; ++e)
    SCHECK(moved.getEdgeDst(GG::OfflineGraph::edge_iterator(e)) == M.flat[e].dst, sj, "move",
           "moved-to graph: edge %llu has destination %llu, expected %llu", (ull)e,
           (ull)moved.getEdgeDst(GG::OfflineGraph::edge_iterator(e)), (ull)M.flat[e].dst);
}

// ----------------------------------------------------------- BufferedGraph
template <typename E>
static void check_buffered_part(const std::string& sj, GG::BufferedGraph<E>& bg, const Built& B, uint64_t a, uint64_t b) {
  const Model& M = B.M;
  uint64_t pe    = M.prefix[b] - M.prefix[a];
  SCHECK(bg.size() == M.n && bg.sizeEdges() == M.m, sj, "num-nodes", "size() = %u, sizeEdges() = %u, expected %llu, %llu", bg.size(),
         bg.sizeEdges(), (ull)M.n, (ull)M.m);
  if (a == b)
    return;
  SCHECK(bg.getNodeOffset() == a, sj, "node-range", "getNodeOffset() = %llu after loading nodes [%llu,%llu)", (ull)bg.getNodeOffset(),
         (ull)a, (ull)b);
  std::vector<EdgeRec> got;
  for (uint64_t N : nodes_to_check(B, a, b)) {
    uint64_t eb = *bg.edgeBegin(N), ee = *bg.edgeEnd(N);
    const char* key = (pe == 0 && M.prefix[a] > 0 && N == a) ? "empty-part-edge-begin" : "edge-range";
    SCHECK(eb == M.prefix[N] && ee == M.prefix[N + 1], sj, key,
           "nodes [%llu,%llu) edges [%llu,%llu) loaded: node %llu has (global) edges [%llu,%llu), expected [%llu,%llu)", (ull)a, (ull)b,
           (ull)M.prefix[a], (ull)M.prefix[b], (ull)N, (ull)eb, (ull)ee, (ull)M.prefix[N], (ull)M.prefix[N + 1]);
    got.clear();
    for (uint64_t e = eb; e < ee; ++e) {
      EdgeRec r{bg.edgeDestination(e), Bytes{}};
      if constexpr (!std::is_void<E>::value) {
        E v = bg.edgeData(e);
        r.d = to_bytes<E>(&v);
      }
      got.push_back(r);
    }
    compare_edges(sj, N, got, M.node(N), M.deg(N), true, M.w);
  }
}

template <typename E>
static void check_buffered(const Built& B, const std::string& path, const std::vector<Range>& ranges) {
  const Model& M = B.M;
  GG::BufferedGraph<E> bg;
  bg.loadGraph(path);
  check_buffered_part<E>("BufferedGraph", bg, B, 0, M.n);
  size_t idx = 0;
  for (auto& r : ranges) {
    uint64_t a = r.first, b = r.second, pe = M.prefix[b] - M.prefix[a];
    if (excluded(K_BUFEMPTY) && a < b && pe == 0 && M.prefix[a] > 0) {
      count_excluded(); // known: edgeOffset stays 0 when no edge is loaded
      continue;
    }
    if (++idx % 5 == 0) { // a fresh object now and then, otherwise reuse after resetAndFree()
      GG::BufferedGraph<E> fresh;
      fresh.loadPartialGraph(path, a, b, M.prefix[a], M.prefix[b], M.n, M.m);
      check_buffered_part<E>("BufferedGraph", fresh, B, a, b);
      continue;
    }
    bg.resetAndFree();
    bg.loadPartialGraph(path, a, b, M.prefix[a], M.prefix[b], M.n, M.m);
    check_buffered_part<E>("BufferedGraph", bg, B, a, b);
  }
}

// ------------------------------------------------ copy / move / re-write
template <typename E>
static void check_copy_move(const Built& B, const std::string& path, const std::string& path2) {
  const Model& M = B.M;
  GG::FileGraph a;
  a.fromFile(path);
  GG::FileGraph b(a);
  check_fg<E>("copy", b, B, M, 0, M.n, true);
  GG::FileGraph c2;
  c2 = a;
  check_fg<E>("copy-assign", c2, B, M, 0, M.n, true);
  GG::FileGraph d(std::move(b));
  check_fg<E>("move", d, B, M, 0, M.n, true);
  GG::FileGraph e;
  e.fromFile(path); // move-assign over a loaded graph
  e = std::move(d);
  check_fg<E>("move-assign", e, B, M, 0, M.n, true);
  check_fg<E>("copy", a, B, M, 0, M.n, true); // the original is untouched
  e.toFile(path2);
  check_decoded("copy-toFile", slurp("copy-toFile", path2), M, true);
  GG::FileGraph f;
  f.fromFile(path2);
  check_fg<E>("recopy", f, B, M, 0, M.n, true);
}

template <typename E>
static void check_symmetric(const Built& B, const std::string& path, const std::string& path2) {
  const Model& M = B.M;
  std::vector<std::vector<EdgeRec>> adj(M.n);
  for (uint64_t s = 0; s < M.n; ++s)
    for (uint64_t i = 0; i < M.deg(s); ++i) {
      const EdgeRec& e = M.node(s)[i];
      adj[s].push_back(e);
      if (e.dst != s)
        adj[e.dst].push_back({s, e.d});
    }
  Model S = model_from_adj(M.n, M.w, 1, adj);
  GG::FileGraph in, out;
  in.fromFile(path);
  GG::makeSymmetric<E>(in, out);
  check_fg<E>("makeSymmetric", out, B, S, 0, S.n, false);
  check_fg<E>("makeSymmetric", in, B, M, 0, M.n, true); // input unchanged
  out.toFile(path2);
  check_decoded("makeSymmetric-toFile", slurp("makeSymmetric-toFile", path2), S, false);
}

template <typename E>
static void check_permute(const Case& c, const Built& B, const std::string& path, const std::string& path2) {
  const Model& M          = B.M;
  std::vector<uint64_t> p = permutation_of(c, M.n);
  std::vector<std::vector<EdgeRec>> adj(M.n);
  for (uint64_t s = 0; s < M.n; ++s)
    for (uint64_t i = 0; i < M.deg(s); ++i) {
      const EdgeRec& e = M.node(s)[i];
      adj[p[s]].push_back({p[e.dst], e.d});
    }
  Model P = model_from_adj(M.n, M.w, 1, adj);
  GG::FileGraph in, out;
  in.fromFile(path);
  GG::permute<E>(in, p, out);
  check_fg<E>("permute", out, B, P, 0, P.n, false);
  out.toFile(path2);
  check_decoded("permute-toFile", slurp("permute-toFile", path2), P, false);
}

// fromGraph<T>: connectivity only, the returned array is to be populated
template <typename E>
static void check_from_graph(const Built& B, const std::string& path, const std::string& path2) {
  typedef typename std::conditional<std::is_void<E>::value, uint32_t, E>::type T;
  const Model& M = B.M;
  Model N        = M;
  N.w            = sizeof(T);
  for (uint64_t e = 0; e < N.m; ++e)
    N.flat[e].d = bytes_of(prf(0xF6, e), sizeof(T));
  GG::FileGraph in, out;
  in.fromFile(path);
  T* data = out.fromGraph<T>(in);
  SCHECK(data != nullptr || M.m == 0, "fromGraph", "no-edge-data", "fromGraph<T>() returned null for %llu edges", (ull)M.m);
  for (uint64_t e = 0; e < N.m; ++e)
    memcpy(&data[e], N.flat[e].d.data(), sizeof(T));
  check_fg<T>("fromGraph", out, B, N, 0, N.n, true);
  out.toFile(path2);
  check_decoded("fromGraph-toFile", slurp("fromGraph-toFile", path2), N, true);
}

// ------------------------------------------------------------------- run
template <typename E>
static void run_typed(const Case& c, const Built& B) {
  const Model& M = B.M;
  int src        = (int)c[F_SRC];
  int readers    = (int)c[F_READERS];
  TmpFile f1("-a.gr"), f2("-b.gr");
  std::vector<unsigned char> bytes;
  if (src == 0) {
    write_with_writer<E>(c, B, f1.path);
    bytes = slurp("toFile", f1.path);
    check_decoded("toFile", bytes, M, true);
  } else {
    bytes = gr::encode(B.g);
    SCHECK(gr::write_file(f1.path, bytes), "harness", "io", "cannot write %s", f1.path.c_str());
  }
  // readers of the in-memory layout (fromMem / fromArrays) are skipped for the
  // shapes of known findings
  bool memblocked = false;
  if (excluded(K_V2PAD) && shape_v2pad(src, M.w, M.m))
    memblocked = true;
  if (excluded(K_W1) && shape_w1(M.w, M.m))
    memblocked = true;
  if (memblocked)
    count_excluded();
  std::vector<Range> ranges = ranges_of(c, B);
  bool interior             = false;
  for (auto& r : ranges)
    interior |= (r.first > 0 && r.first < M.n) || (r.second > 0 && r.second < M.n);
  bool v1 = M.version == 1;

  if ((readers & R_FROMFILE) && !memblocked) {
    GG::FileGraph fg;
    fg.fromFile(f1.path);
    check_fg<E>("fromFile", fg, B, M, 0, M.n, true);
    fg.initNodeDegrees(); // degree cache (whole graphs)
    for (uint64_t N : nodes_to_check(B, 0, M.n))
      SCHECK(fg.getDegree((uint32_t)N) == M.deg(N), "fromFile", "degree", "getDegree(%llu) = %llu after initNodeDegrees(), expected %llu",
             (ull)N, (ull)fg.getDegree((uint32_t)N), (ull)M.deg(N));
    fg.toFile(f2.path); // writes the mapping back: the same bytes
    std::vector<unsigned char> again = slurp("fromFile-toFile", f2.path);
    SCHECK(again == bytes, "fromFile-toFile", "bytes", "toFile() of a graph loaded with fromFile() wrote %zu bytes, the file has %zu%s",
           again.size(), bytes.size(), again.size() == bytes.size() ? " (content differs)" : "");
  }
  if ((readers & R_INTERLEAVED) && !memblocked) {
    GG::FileGraph fg;
    fg.fromFileInterleaved<E>(f1.path);
    check_fg<E>("fromFileInterleaved", fg, B, M, 0, M.n, true);
  }
  if (readers & R_OFFLINE)
    check_offline<E>(B, f1.path);
  if (readers & R_PART)
    check_part_from_file<E>(c, B, f1.path, ranges);
  if ((readers & R_OC) && v1) // OCFileGraph asserts version 1
    check_oc<E>(B, f1.path, ranges);
  if ((readers & R_BUFFERED) && v1) // BufferedGraph: version 1 only, sizeof(E) == stored size
    check_buffered<E>(B, f1.path, ranges);
  if ((readers & R_COPY) && !memblocked)
    check_copy_move<E>(B, f1.path, f2.path);
  if ((readers & R_SYM) && !memblocked)
    check_symmetric<E>(B, f1.path, f2.path);
  if ((readers & R_PERM) && !memblocked)
    check_permute<E>(c, B, f1.path, f2.path);
  if ((readers & R_FROMGRAPH) && !memblocked) {
    // the result always carries edge data, also for a source without
    if (excluded(K_V2PAD) && shape_v2pad(src, 4, M.m))
      count_excluded();
    else
      check_from_graph<E>(B, f1.path, f2.path);
  }

  bool subrange_read = interior && ((readers & R_PART) || (v1 && (readers & (R_OC | R_BUFFERED))));
  nontrivial(M.m >= 3 && (((M.m & 1) && M.w > 0) || subrange_read || M.version == 2));
}

void run(const Case& c0) {
  Case c = c0;
  normalize_case(c);
  galois::setActiveThreads(2);
  Built B        = build(c);
  const Model& M = B.M;
  label("source", SRC_NAMES[c[F_SRC]]);
  label("width", (long)M.w);
  label("class", c[F_HUGE] ? "huge" : M.n > 48 ? "big" : M.n == 0 ? "empty" : "small");
  label("edges", M.m == 0 ? "0" : M.m < 3 ? "1-2" : M.m < 16 ? "3-15" : "16+");
  label("parity", (M.m & 1) ? "odd" : "even");
  label("odd_with_data", (long)((M.m & 1) && M.w > 0));
  label("selfloop", (long)B.selfloop);
  label("duplicate", (long)B.dup);
  label("readers", (c[F_READERS] | R_INTERLEAVED) == R_ALL ? "all" : "subset");
  label("interleaved", (long)((c[F_READERS] & R_INTERLEAVED) != 0));
  bool isolated_tail = M.n > 0 && M.m > 0 && M.deg(M.n - 1) == 0;
  label("isolated_last_node", (long)isolated_tail);
  switch (c[F_WIDTH]) {
  case 0:
    run_typed<void>(c, B);
    break;
  case 1:
    run_typed<uint32_t>(c, B);
    break;
  case 2:
    run_typed<uint64_t>(c, B);
    break;
  case 3:
    run_typed<E12>(c, B);
    break;
  case 4:
    run_typed<uint8_t>(c, B);
    break;
  default:
    run_typed<uint16_t>(c, B);
  }
  vok();
}
} // namespace verif

VERIF_INPROC_MAIN(galois::SharedMemSys G)
