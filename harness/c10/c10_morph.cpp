// C10 -- concurrent morph-graph mutation is serialisable and structurally
// consistent.  Generated cautious mutation operators run inside for_each under
// gsched; the commit-ticket log is replayed on a reference adjacency model and
// a full structural dump through the public API is compared.  DESIGN.md 4/C10.
#include "verif_e1.h"

#include "galois/Galois.h"
#include "galois/graphs/MorphGraph.h"

#include <map>
#include <set>

using namespace verif;

namespace verif {
const char* const HARNESS = "c10";
enum { F_FLAVOR = S_NFIELDS, F_THREADS, F_NODES, F_INITEDGES, F_OPS, F_DELAY, F_OSEED, F_HOT, F_COUNT };
const std::vector<const char*> FIELDS = {VERIF_SCHED_FIELDS, "flavor", "threads", "nodes", "initedges", "ops", "delay", "oseed", "hot"};
static const char* FLAVORS[] = {"directed", "directed-inout", "undirected", "sorted", "no-lockable"};

Case generate() {
  using namespace rc;
  Case c;
  c.f.assign(F_COUNT, 0);
  gen_schedule(c);
  c[F_FLAVOR]    = *uni(0, 5);
  c[F_THREADS]   = c[F_FLAVOR] == 4 ? 1 : *gen::element<int>(1, 2, 2, 3, 4, 4, 8);
  c[F_NODES]     = *gen::inRange(1, 13);
  c[F_INITEDGES] = *gen::inRange(0, 20);
  c[F_OPS]       = *gen::inRange(1, 150);
  c[F_DELAY]     = *uni(0, 3);
  // hot pair: that share (in tenths) of the operations works on one node pair, in either direction, so
  // that operations on the same edge from both of its ends meet often
  c[F_HOT]       = *gen::weightedElement<int>({{2, 0}, {1, 3}, {1, 6}});
  c[F_OSEED]     = *uni(0, 1 << 24);
  return c;
}

std::string finding_key(const Case& c, const std::string& failkey) {
  std::string k = failkey;
  if (k == "spin-deadlock" || k == "deadlock" || k == "liveness")
    k = "no-return";
  return std::string("C10/") + FLAVORS[c[F_FLAVOR]] + "/" + k;
}

struct Quiet {
  Quiet() { gsched_quiet(1); }
  ~Quiet() { gsched_quiet(-1); }
};

struct NodeData {
  int id;
  uint64_t val;
};

// ---- reference model
struct Model {
  struct MNode {
    bool alive = true;
    uint64_t val = 0;
    std::multiset<std::pair<int, int>> out, in; // (neighbour id, edge data)
  };
  std::map<int, MNode> n;
  bool directed, inout;
  bool has(int a) { return n.count(a) && n[a].alive; }
  bool hasEdge(int a, int b) {
    for (auto& e : n[a].out)
      if (e.first == b)
        return true;
    return false;
  }
  void add(int a, int b, int d) {
    n[a].out.insert({b, d});
    if (!directed)
      n[b].out.insert({a, d});
    else
      n[b].in.insert({a, d});
  }
  // removes one a->b edge; all parallel a-b edges carry the same data by construction
  void removeOne(int a, int b) {
    auto& o = n[a].out;
    for (auto it = o.begin(); it != o.end(); ++it)
      if (it->first == b) {
        int d = it->second;
        o.erase(it);
        auto& r = directed ? n[b].in : n[b].out;
        auto f  = r.find({a, d});
        if (f != r.end())
          r.erase(f);
        return;
      }
  }
  void setData(int a, int b, int oldd, int newd) {
    // one a->b edge with data oldd gets newd on both sides
    auto& o = n[a].out;
    auto f  = o.find({b, oldd});
    if (f == o.end())
      return;
    o.erase(f);
    o.insert({b, newd});
    auto& r = directed ? n[b].in : n[b].out;
    auto g  = r.find({a, oldd});
    if (g != r.end()) {
      r.erase(g);
      r.insert({a, newd});
    }
  }
  void removeNode(int a) {
    MNode& m = n[a];
    m.alive  = false;
    for (auto& e : m.out) {
      auto& r = directed ? n[e.first].in : n[e.first].out;
      auto f  = r.find({a, e.second});
      if (f != r.end())
        r.erase(f);
    }
    for (auto& e : m.in) {
      auto& r = n[e.first].out;
      auto f  = r.find({a, e.second});
      if (f != r.end())
        r.erase(f);
    }
    m.out.clear();
    m.in.clear();
  }
};

struct LogEntry {
  int op;
  int found;      // findEdge result (-1: not applicable)
  int data;       // data read
  uint64_t scan;  // neighbour scan result
};

static std::vector<LogEntry> ticket_log; // quiet
static long conflict_aborts, removals, sym_inserts;
static std::vector<int> attempts;

// PRF-defined operation
struct OpDesc {
  int kind, a, b;
};
static uint64_t g_oseed;
static int g_pool, g_delay, g_hot;
static OpDesc op_desc(int op) {
  OpDesc d;
  uint64_t h = prf(g_oseed, op, 1);
  // 9/10: 'lazy' insertions that rely on the graph's own acquisition of the
  // second endpoint (in/out and undirected flavours; elsewhere they act as 1/0)
  // 11: 'lazy' lookup-and-update that relies on findEdge's own acquisition of the destination of a found edge
  static const int KW[] = {0, 0, 0, 1, 2, 2, 3, 4, 5, 6, 6, 7, 7, 8, 9, 10, 10, 11, 11};
  d.kind = KW[h % 19];
  d.a    = (int)((h >> 8) % (uint64_t)g_pool);
  d.b    = (int)((h >> 24) % (uint64_t)g_pool);
  if (g_hot && g_pool >= 2 && (int)((h >> 40) % 10) < g_hot) {
    d.a = (int)(prf(g_oseed, 77, 1) % (uint64_t)g_pool);
    d.b = (int)((d.a + 1 + prf(g_oseed, 77, 2) % (uint64_t)(g_pool - 1)) % (uint64_t)g_pool);
    if ((h >> 44) & 1)
      std::swap(d.a, d.b);
    // no parallel edges on the hot pair: they make the serial model ambiguous and waive its checks
    if (d.kind == 1)
      d.kind = 0;
    if (d.kind == 9)
      d.kind = 10;
  }
  if (d.b == d.a)
    d.b = (d.a + 1) % g_pool;
  if (g_pool == 1)
    d.b = d.a;
  return d;
}

struct OwnerPeek : public galois::runtime::LockManagerBase {
  static galois::runtime::LockManagerBase* owner(galois::runtime::Lockable* l) { return getOwner(l); }
};

template <typename G, bool Directed, bool InOut>
struct Runner {
  typedef typename G::GraphNode GNode;
  G graph;
  std::vector<GNode> pool;
  Model model;

  int eid(GNode n) { return graph.getData(n, galois::MethodFlag::UNPROTECTED).id; }

  template <typename Ctx>
  void the_op(int op, Ctx&) {
    OpDesc d = op_desc(op);
    {
      Quiet q;
      attempts[op]++;
    }
    GNode a = pool[d.a], b = pool[d.b];
    constexpr bool kLazyOk = !Directed || InOut; // the graph itself locks the second endpoint
    if (d.kind == 11) {
      // lazy lookup: the operator touches only the source; a successful findEdge locks the destination
      // itself ("After finding edge, lock dst"), so reading and updating the found edge's data without
      // further protection is what a cautious operator may do
      graph.getData(a, galois::MethodFlag::WRITE);
      bool alive = graph.containsNode(a);
      for (int i = (int)(prf(g_oseed, op, 2) % (uint64_t)(g_delay + 1)); i > 0; --i)
        gsched_point();
      typename G::edge_iterator fe = graph.edge_end(a);
      bool found                   = false;
      if (alive && d.a != d.b) {
        fe    = graph.findEdge(a, b);
        found = fe != graph.edge_end(a);
      }
      if constexpr (std::is_convertible<GNode, galois::runtime::Lockable*>::value) {
        // the mechanism the serialisability of such an operator rests on (read from findEdge: "After finding
        // edge, lock dst"): the iteration now owns the destination of the edge it found
        if (found && galois::runtime::getThreadContext() &&
            OwnerPeek::owner(static_cast<galois::runtime::Lockable*>(b)) != galois::runtime::getThreadContext())
          vfail("found-edge-destination-not-owned", "op %d: findEdge(%d,%d) returned an edge, but the iteration does not own node %d", op, d.a, d.b, d.b);
      }
      LogEntry le{op, found ? 1 : 0, 0, 0};
      size_t ticket;
      {
        Quiet q;
        ticket = ticket_log.size();
        ticket_log.push_back(le);
      }
      // long enough for a whole other operator to run in between
      for (int i = (int)(prf(g_oseed, op, 9) % (uint64_t)(12 * g_delay + 2)); i > 0; --i)
        gsched_point();
      if (found && graph.getEdgeData(fe, galois::MethodFlag::UNPROTECTED) < 50000)
        graph.getEdgeData(fe, galois::MethodFlag::UNPROTECTED) = 1000 + op;
      (void)ticket;
      return;
    }
    if (d.kind >= 9 && (!kLazyOk || d.a == d.b))
      d.kind = d.kind == 9 ? 1 : 0;
    if (d.kind >= 9) {
      // lazy insertion: only the source is touched by the operator; the graph
      // acquires the destination inside addEdge/addMultiEdge before it
      // modifies anything, so the operator is still cautious
      bool alive = graph.containsNode(a);
      for (int i = (int)(prf(g_oseed, op, 2) % (uint64_t)(g_delay + 1)); i > 0; --i)
        gsched_point();
      int nd = 1000 + op;
      int pd = !Directed ? 50000 + std::min(d.a, d.b) * 100 + std::max(d.a, d.b) : 50000 + d.a * 100 + d.b;
      if (alive) {
        if (d.kind == 9)
          graph.addMultiEdge(a, b, galois::MethodFlag::WRITE, pd);
        else {
          auto it = graph.addEdge(a, b);
          // (the returned iterator filters edges to removed nodes: it is the
          // end iterator when b is no longer in the graph)
          if (it != graph.edge_end(a) && graph.getEdgeData(it) == 0) // freshly created (value-initialised) edge
            graph.getEdgeData(it) = nd;
        }
      }
      Quiet q;
      ticket_log.push_back(LogEntry{op, -1, 0, 0});
      return;
    }
    // ---- phase 1: touch everything this operator will use (may abort)
    graph.getData(a, galois::MethodFlag::WRITE);
    for (int i = (int)(prf(g_oseed, op, 2) % (uint64_t)(g_delay + 1)); i > 0; --i)
      gsched_point();
    graph.getData(b, galois::MethodFlag::WRITE);
    bool alive_a = graph.containsNode(a), alive_b = graph.containsNode(b);
    LogEntry le{op, -1, 0, 0};
    if (d.kind == 7 && alive_a) { // neighbour scan: locks all neighbours
      uint64_t s = 0;
      for (auto e : graph.edges(a)) {
        GNode dst = graph.getEdgeDst(e);
        NodeData& nd = graph.getData(dst);
        s += (uint64_t)nd.id * 7 + (uint64_t)graph.getEdgeData(e) + nd.val;
      }
      le.scan = s;
    }
    typename G::edge_iterator fe = graph.edge_end(a);
    bool found                   = false;
    if (alive_a && alive_b && d.a != d.b && (d.kind == 0 || d.kind == 2 || d.kind == 3 || d.kind == 8)) {
      fe    = graph.findEdge(a, b);
      found = fe != graph.edge_end(a);
    }
    // ---- commit point
    size_t ticket;
    {
      Quiet q;
      ticket = ticket_log.size();
      ticket_log.push_back(le);
    }
    // (time passes between the commit point and the mutation: whoever does not really own what it is
    //  about to touch can now be overtaken by an iteration that committed later)
    for (int i = (int)(prf(g_oseed, op, 9) % (uint64_t)(g_delay + 2)); i > 0; --i)
      gsched_point();
    // ---- phase 2: mutate (only objects already held are touched)
    int newdata = 1000 + op;
    int pairdata = 50000 + d.a * 100 + d.b; // multi-edges of one pair carry the same data
    if (!Directed)
      pairdata = 50000 + std::min(d.a, d.b) * 100 + std::max(d.a, d.b);
    if (alive_a && alive_b && d.a != d.b) {
      switch (d.kind) {
      case 0: // addEdge with duplicate check
        if (!found) {
          auto it              = graph.addEdge(a, b);
          graph.getEdgeData(it) = newdata;
          Quiet q;
          ++sym_inserts;
        }
        break;
      case 1:
        graph.addMultiEdge(a, b, galois::MethodFlag::WRITE, pairdata);
        break;
      case 2:
        if (found)
          graph.removeEdge(a, fe);
        break;
      // a successful findEdge has locked both end points ("After finding edge, lock dst"): half of the
      // data accesses through the found edge therefore use UNPROTECTED, as a cautious operator may
      case 3:
        if (found)
          le.data = (op % 2) ? graph.getEdgeData(fe, galois::MethodFlag::UNPROTECTED) : graph.getEdgeData(fe);
        break;
      case 8:
        if (op % 2) {
          if (found && graph.getEdgeData(fe, galois::MethodFlag::UNPROTECTED) < 50000)
            graph.getEdgeData(fe, galois::MethodFlag::UNPROTECTED) = newdata;
        } else if (found && graph.getEdgeData(fe) < 50000) // leave multi-edge data alone (indistinguishable copies)
          graph.getEdgeData(fe) = newdata;
        break;
      default:
        break;
      }
    }
    if (d.kind == 4 && alive_a) {
      NodeData& nd = graph.getData(a);
      nd.val       = nd.val * 31 + (uint64_t)op;
    }
    if (d.kind == 5 && alive_a) {
      graph.removeNode(a);
      Quiet q;
      ++removals;
    }
    if (d.kind == 6 && alive_a && alive_b) {
      GNode x = graph.createNode(NodeData{100000 + op, (uint64_t)op});
      graph.addNode(x);
      auto i1               = graph.addEdge(x, a);
      graph.getEdgeData(i1) = newdata;
      if (d.a != d.b) {
        auto i2               = graph.addEdge(b, x);
        graph.getEdgeData(i2) = newdata + 1;
      }
    }
    {
      Quiet q;
      le.found           = found ? 1 : 0;
      ticket_log[ticket] = le;
    }
  }

  void replay_one(const LogEntry& le, size_t pos) {
    OpDesc d = op_desc(le.op);
    Model& m = model;
    bool alive_a = m.has(d.a), alive_b = m.has(d.b);
    constexpr bool kLazyOk = !Directed || InOut;
    if (d.kind == 11)
      d.kind = 8; // same meaning as the eager lookup-and-update
    if (d.kind >= 9 && (!kLazyOk || d.a == d.b))
      d.kind = d.kind == 9 ? 1 : 0;
    if (d.kind >= 9) {
      int pd = !Directed ? 50000 + std::min(d.a, d.b) * 100 + std::max(d.a, d.b) : 50000 + d.a * 100 + d.b;
      if (alive_a && alive_b) { // an edge to a removed node is never visible
        if (d.kind == 9)
          m.add(d.a, d.b, pd);
        else if (!m.hasEdge(d.a, d.b))
          m.add(d.a, d.b, 1000 + le.op);
      }
      return;
    }
    bool found = false;
    if (alive_a && alive_b && d.a != d.b && (d.kind == 0 || d.kind == 2 || d.kind == 3 || d.kind == 8))
      found = m.hasEdge(d.a, d.b);
    if (alive_a && alive_b && d.a != d.b && (d.kind == 0 || d.kind == 2 || d.kind == 3 || d.kind == 8))
      VCHECK((le.found == 1) == found, "read-mismatch", "commit #%zu (op %d kind %d): findEdge(%d,%d) returned %s, the serial model says %s",
             pos, le.op, d.kind, d.a, d.b, le.found == 1 ? "found" : "not found", found ? "found" : "not found");
    if (d.kind == 7 && alive_a) {
      uint64_t s = 0;
      for (auto& e : m.n[d.a].out)
        s += (uint64_t)e.first * 7 + (uint64_t)e.second + m.n[e.first].val;
      VCHECK(ambiguous || s == le.scan, "read-mismatch", "commit #%zu (op %d): neighbour scan of node %d read %llu, the serial model says %llu", pos,
             le.op, d.a, (unsigned long long)le.scan, (unsigned long long)s);
    }
    int newdata  = 1000 + le.op;
    int pairdata = 50000 + d.a * 100 + d.b;
    if (!Directed)
      pairdata = 50000 + std::min(d.a, d.b) * 100 + std::max(d.a, d.b);
    if (alive_a && alive_b && d.a != d.b) {
      switch (d.kind) {
      case 0:
        if (!found)
          m.add(d.a, d.b, newdata);
        break;
      case 1:
        m.add(d.a, d.b, pairdata);
        break;
      case 2:
        if (found) {
          // with parallel edges of different data the implementation may remove
          // either: only the unambiguous case is modelled
          std::set<int> distinct;
          for (auto& e : m.n[d.a].out)
            if (e.first == d.b)
              distinct.insert(e.second);
          if (distinct.size() > 1)
            ambiguous = true;
          m.removeOne(d.a, d.b);
        }
        break;
      case 3:
        if (found) {
          bool ok = ambiguous;
          for (auto& e : m.n[d.a].out)
            if (e.first == d.b && e.second == le.data)
              ok = true;
          VCHECK(ok, "read-mismatch", "commit #%zu (op %d): edge data %d read on %d->%d does not exist in the serial model", pos, le.op,
                 le.data, d.a, d.b);
        }
        break;
      case 8:
        if (found) {
          // the first found edge: if it is a single-data edge, it gets newdata
          int cnt = 0, single = -1;
          for (auto& e : m.n[d.a].out)
            if (e.first == d.b) {
              ++cnt;
              if (e.second < 50000)
                single = e.second;
            }
          // with parallel edges the implementation may find a multi-edge copy
          // first (no write) or the single edge (write): only the
          // unambiguous case is modelled
          if (cnt == 1 && single >= 0)
            m.setData(d.a, d.b, single, newdata);
          else if (single >= 0)
            ambiguous = true;
        }
        break;
      }
    }
    if (d.kind == 4 && alive_a)
      m.n[d.a].val = m.n[d.a].val * 31 + (uint64_t)le.op;
    if (d.kind == 5 && alive_a)
      m.removeNode(d.a);
    if (d.kind == 6 && alive_a && alive_b) {
      int x          = 100000 + le.op;
      m.n[x].val     = (uint64_t)le.op;
      m.add(x, d.a, newdata);
      if (d.a != d.b)
        m.add(d.b, x, newdata + 1);
    }
  }
  bool ambiguous = false;

  void run(const Case& c) {
    int N   = (int)c[F_NODES];
    g_pool  = N;
    g_delay = (int)c[F_DELAY];
    g_hot   = (int)c[F_HOT];
    g_oseed = (uint64_t)c[F_OSEED];
    model.directed = Directed;
    model.inout    = InOut;
    for (int i = 0; i < N; ++i) {
      GNode n = graph.createNode(NodeData{i, 0});
      graph.addNode(n);
      pool.push_back(n);
      model.n[i];
    }
    for (int e = 0; e < c[F_INITEDGES] && N > 1; ++e) {
      int a = (int)(prf(g_oseed, 900 + e, 1) % (uint64_t)N), b = (int)(prf(g_oseed, 900 + e, 2) % (uint64_t)N);
      if (a == b || model.hasEdge(a, b))
        continue;
      auto it              = graph.addEdge(pool[a], pool[b]);
      graph.getEdgeData(it) = 7000 + e;
      model.add(a, b, 7000 + e);
    }
    int M = (int)c[F_OPS];
    attempts.assign(M, 0);
    std::vector<int> ops(M);
    for (int i = 0; i < M; ++i)
      ops[i] = i;
    unsigned t = galois::setActiveThreads((unsigned)c[F_THREADS]);
    gsched_liveness_mark(4000000, 8000000);
    galois::for_each(galois::iterate(ops), [this](int op, auto& ctx) { this->the_op(op, ctx); }, galois::no_pushes(),
                     galois::wl<galois::worklists::PerSocketChunkFIFO<2>>());
    gsched_liveness_clear();
    // ---- replay + structural dump
    Quiet q;
    VCHECK((int)ticket_log.size() == M, "lost-operation", "%zu of %d operators committed", ticket_log.size(), M);
    for (size_t i = 0; i < ticket_log.size(); ++i)
      replay_one(ticket_log[i], i);
    for (int i = 0; i < M; ++i)
      conflict_aborts += attempts[i] - 1;
    std::set<int> seen;
    for (auto n : graph) {
      int id = eid(n);
      VCHECK(!seen.count(id), "node-twice", "node %d appears twice in node iteration", id);
      seen.insert(id);
      VCHECK(model.has(id), "removed-node-iterated", "node %d is iterated but was removed (or never existed) in the serial model", id);
      NodeData& nd = graph.getData(n, galois::MethodFlag::UNPROTECTED);
      VCHECK(nd.val == model.n[id].val, "node-data", "node %d data %llu, serial model %llu", id, (unsigned long long)nd.val,
             (unsigned long long)model.n[id].val);
      std::multiset<std::pair<int, int>> out, in;
      GNode prev = nullptr;
      for (auto e : graph.edges(n, galois::MethodFlag::UNPROTECTED)) {
        GNode dst = graph.getEdgeDst(e);
        int did   = eid(dst);
        VCHECK(model.has(did), "edge-to-removed-node", "node %d has an edge to node %d, which is removed in the serial model", id, did);
        out.insert({did, graph.getEdgeData(e)});
        if (c[F_FLAVOR] == 3) {
          VCHECK(!prev || !(dst < prev), "not-sorted", "sorted-neighbour graph: edges of node %d are not in destination order", id);
          prev = dst;
        }
      }
      if (!ambiguous)
        VCHECK(out == model.n[id].out, "out-edges", "node %d: %zu out-edges, serial model has %zu (or (dst,data) multisets differ)", id,
               out.size(), model.n[id].out.size());
      in_edges_check(n, id, in);
    }
    for (auto& kv : model.n)
      if (kv.second.alive)
        VCHECK(seen.count(kv.first), "node-missing", "node %d is alive in the serial model but not iterated", kv.first);
    // symmetric flavours: an edge and its reverse entry exist together and
    // share the SAME edge-data cell (checked by address, so it also holds for
    // parallel edges with equal values)
    reverse_check();
    label("flavor", FLAVORS[c[F_FLAVOR]]);
    label("threads", (long)t);
    label("aborts", conflict_aborts > 0);
    label("removals", removals > 0);
    label("ambiguous", ambiguous);
    label("strategy", c[S_STRATEGY]);
    nontrivial(t >= 2 && conflict_aborts >= 1 && removals >= 1 && sym_inserts >= 1);
    vok();
  }

  template <bool D = Directed, bool IO = InOut>
  typename std::enable_if<!D>::type reverse_check() {
    for (auto n : graph)
      for (auto e : graph.edges(n, galois::MethodFlag::UNPROTECTED)) {
        GNode dst = graph.getEdgeDst(e);
        int* cell = &graph.getEdgeData(e);
        long here = 0, there = 0;
        for (auto e2 : graph.edges(n, galois::MethodFlag::UNPROTECTED))
          if (graph.getEdgeDst(e2) == dst && &graph.getEdgeData(e2) == cell)
            ++here;
        for (auto e2 : graph.edges(dst, galois::MethodFlag::UNPROTECTED))
          if (graph.getEdgeDst(e2) == n && &graph.getEdgeData(e2) == cell)
            ++there;
        VCHECK(here == there, "reverse-edge", "undirected edge %d-%d (data %d): its data cell is referenced by %ld entries at node %d "
               "and %ld entries at node %d", eid(n), eid(dst), *cell, here, eid(n), there, eid(dst));
      }
  }
  template <bool D = Directed, bool IO = InOut>
  typename std::enable_if<D && IO>::type reverse_check() {
    for (auto n : graph)
      for (auto e : graph.edges(n, galois::MethodFlag::UNPROTECTED)) {
        GNode dst = graph.getEdgeDst(e);
        int* cell = &graph.getEdgeData(e);
        long here = 0, there = 0;
        for (auto e2 : graph.edges(n, galois::MethodFlag::UNPROTECTED))
          if (graph.getEdgeDst(e2) == dst && &graph.getEdgeData(e2) == cell)
            ++here;
        for (auto e2 : graph.in_edges(dst, galois::MethodFlag::UNPROTECTED))
          if (graph.getEdgeDst(e2) == n && &graph.getEdgeData(e2) == cell)
            ++there;
        VCHECK(here == there, "reverse-edge", "edge %d->%d (data %d): its data cell is referenced by %ld out-entries and %ld in-entries",
               eid(n), eid(dst), *cell, here, there);
      }
  }
  template <bool D = Directed, bool IO = InOut>
  typename std::enable_if<D && !IO>::type reverse_check() {}

  template <bool IO = InOut>
  typename std::enable_if<IO>::type in_edges_check(GNode n, int id, std::multiset<std::pair<int, int>>& in) {
    for (auto e : graph.in_edges(n, galois::MethodFlag::UNPROTECTED)) {
      GNode src = graph.getEdgeDst(e);
      in.insert({eid(src), graph.getEdgeData(e)});
    }
    if (!ambiguous)
      VCHECK(in == model.n[id].in, "in-edges", "node %d: %zu in-edges, serial model has %zu (or (src,data) multisets differ)", id, in.size(),
             model.n[id].in.size());
  }
  template <bool IO = InOut>
  typename std::enable_if<!IO>::type in_edges_check(GNode, int, std::multiset<std::pair<int, int>>&) {}
};

void run(const Case& c) {
  setenv("GALOIS_VERIF_TOPO", c[F_THREADS] > 4 ? "4,4" : "2,2", 1);
  start_scheduler(c, 30000, 0, 80000000);
  galois::SharedMemSys G;
  switch (c[F_FLAVOR]) {
  case 0: {
    Runner<galois::graphs::MorphGraph<NodeData, int, true>, true, false> r;
    r.run(c);
  } break;
  case 1: {
    Runner<galois::graphs::MorphGraph<NodeData, int, true, true>, true, true> r;
    r.run(c);
  } break;
  case 2: {
    Runner<galois::graphs::MorphGraph<NodeData, int, false>, false, false> r;
    r.run(c);
  } break;
  case 3: {
    Runner<galois::graphs::MorphGraph<NodeData, int, true, false, false, true>, true, false> r;
    r.run(c);
  } break;
  default: {
    Runner<galois::graphs::MorphGraph<NodeData, int, true, false, true>, true, false> r;
    r.run(c);
  }
  }
  vok();
}
} // namespace verif

VERIF_E1_MAIN
