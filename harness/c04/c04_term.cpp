// C04 -- termination detection is sound and live, and reusable.
// Runs under gsched (E1).  DESIGN.md 4/C04.
#include "verif_e1.h"

#include "galois/Galois.h"
#include "galois/substrate/Termination.h"
#include "galois/substrate/Barrier.h"

#include <deque>

using namespace verif;

namespace verif {
const char* const HARNESS = "c04";
constexpr int MAXROUNDS   = 4;
enum { F_DET = S_NFIELDS, F_TOPO, F_ROUNDS, F_N0, F_N1, F_N2, F_N3, F_INIT, F_FANOUT, F_DEPTH, F_DELAY, F_WSEED, F_COUNT };
const std::vector<const char*> FIELDS = {VERIF_SCHED_FIELDS, "detector", "topo", "rounds", "n0", "n1", "n2", "n3",
                                         "init", "fanout", "depth", "delay", "wseed"};
static const char* DETS[]  = {"ring", "tree"};
static const char* TOPOS[] = {"1", "2", "4", "2,2", "3,1", "8", "4,4", "3,3,2"};
static const int TOPO_THREADS[] = {1, 2, 4, 4, 4, 8, 8, 8};
constexpr int NTOPO             = 8;

Case generate() {
  using namespace rc;
  Case c;
  c.f.assign(F_COUNT, 0);
  gen_schedule(c);
  c[F_DET]    = *uni(0, 2);
  c[F_TOPO]   = *uni(0, NTOPO);
  int maxt    = TOPO_THREADS[c[F_TOPO]];
  c[F_ROUNDS] = *uni(1, MAXROUNDS + 1);
  for (int r = 0; r < MAXROUNDS; ++r)
    c[F_N0 + r] = maxt > 1 && *gen::weightedElement<int>({{1, 0}, {8, 1}}) ? *uni(2, maxt + 1) : 1;
  c[F_INIT]   = *uni(0, 6);  // initial units per thread (PRF-thinned)
  c[F_FANOUT] = *uni(0, 4);
  // long chains (fan-out 1) keep a little work moving between threads for a
  // long time while the token circulates
  c[F_DEPTH]  = c[F_FANOUT] == 1 ? *gen::inRange(0, 40) : *gen::inRange(0, 5);
  c[F_DELAY]  = *uni(0, 4);
  c[F_WSEED]  = *uni(0, 1 << 24);
  return c;
}

std::string finding_key(const Case& c, const std::string& failkey) {
  std::string k = failkey;
  if (k == "spin-deadlock" || k == "deadlock" || k == "liveness")
    k = "never-announced";
  return std::string("C04/") + DETS[c[F_DET]] + "/" + k;
}

struct Quiet {
  Quiet() { gsched_quiet(1); }
  ~Quiet() { gsched_quiet(-1); }
};

struct Tree : public galois::substrate::internal::TreeTerminationDetection<> {
  void arm(unsigned n) { init(n); }
};

struct Unit {
  uint64_t id;
  int depth;
};

// ---- bookkeeping (quiet)
constexpr int MAXT = 8;
static std::deque<Unit> mailbox[MAXT];
static long sent, processed, in_flight; // in_flight: units popped but not yet fully processed
static long idle_reports[MAXT];         // 1 = completed a localTermination(false) call in the current epoch
static long epochs_since_quiescence;    // epoch = every thread completed at least one idle report since the previous epoch ended
static bool quiescent;
static long late_delivery; // unit delivered to a thread after it had reported idle at least once in this round
static long reported_idle_once[MAXT];
static unsigned cur_n;
static long total_units;

static bool all_quiet() {
  if (sent != processed || in_flight)
    return false;
  for (unsigned i = 0; i < cur_n; ++i)
    if (!mailbox[i].empty())
      return false;
  return true;
}

void run(const Case& c) {
  setenv("GALOIS_VERIF_TOPO", TOPOS[c[F_TOPO]], 1);
  start_scheduler(c, 20000, 0, 60000000);
  galois::SharedMemSys G;
  auto& tp = galois::substrate::getThreadPool();
  Tree tree;
  uint64_t wseed = (uint64_t)c[F_WSEED];
  int fanout = (int)c[F_FANOUT], maxdepth = (int)c[F_DEPTH], delay = (int)c[F_DELAY];
  bool nontriv = false;
  for (int r = 0; r < c[F_ROUNDS]; ++r) {
    unsigned n = galois::setActiveThreads((unsigned)c[F_N0 + r]);
    galois::substrate::TerminationDetection* term;
    if (c[F_DET] == 0)
      term = &galois::substrate::getSystemTermination(n);
    else {
      tree.arm(n);
      term = &tree;
    }
    auto& barrier = galois::substrate::getBarrier(n);
    {
      Quiet q;
      cur_n = n;
      sent = processed = in_flight = 0;
      quiescent = false;
      for (unsigned i = 0; i < n; ++i) {
        mailbox[i].clear();
        idle_reports[i] = 0;
        reported_idle_once[i] = 0;
        epochs_since_quiescence = 0;
        int k = (int)(prf(wseed, r, i, 1) % (uint64_t)(c[F_INIT] + 1));
        for (int j = 0; j < k; ++j) {
          mailbox[i].push_back(Unit{(uint64_t)((r * 64 + i) * 8 + j + 1) * 1000003ULL, 0});
          ++sent;
        }
      }
      total_units += sent;
      if (all_quiet()) {
        quiescent = true;
        gsched_liveness_mark(300000, 3000000);
      }
    }
    tp.run(n, [&, n, r]() {
      unsigned tid = galois::substrate::ThreadPool::getTID();
      term->initializeThread();
      barrier.wait();
      while (true) {
        bool didWork = false;
        while (true) {
          Unit u;
          {
            Quiet q;
            if (mailbox[tid].empty())
              break;
            u = mailbox[tid].front();
            mailbox[tid].pop_front();
            ++in_flight;
          }
          didWork = true;
          for (int d = (int)(prf(wseed, u.id, 2) % (uint64_t)(delay + 1)); d > 0; --d)
            gsched_point();
          int k = (u.depth < maxdepth && fanout) ? (int)(prf(wseed, u.id, 3) % (uint64_t)(fanout + 1)) : 0;
          for (int j = 0; j < k; ++j) {
            unsigned dst = (unsigned)(prf(wseed, u.id, 10 + j) % n);
            {
              Quiet q;
              if (sent >= 200)
                break;
              mailbox[dst].push_back(Unit{u.id * 4 + (uint64_t)j + 1, u.depth + 1});
              ++sent;
              ++total_units;
              if (dst != tid && reported_idle_once[dst])
                ++late_delivery;
            }
            gsched_point();
          }
          {
            Quiet q;
            --in_flight;
            ++processed;
            if (all_quiet() && !quiescent) {
              quiescent = true;
              for (unsigned i = 0; i < n; ++i)
                idle_reports[i] = 0;
              epochs_since_quiescence = 0;
              gsched_liveness_mark(300000, 3000000);
            }
          }
        }
        bool idle_report = false;
        {
          Quiet q;
          if (!didWork) {
            reported_idle_once[tid] = 1;
            idle_report             = quiescent;
          }
        }
        term->localTermination(didWork);
        if (idle_report) {
          // promptness: the token moves one hop at the latest when its holder has COMPLETED two
          // idle reports (the first may have looked before the token arrived); a ring or tree
          // needs at most four sweeps after quiescence (one in progress, one tainted by threads
          // that worked after being visited, two clean).  Epochs are counted over completed
          // reports of EVERY thread, so a starved holder does not count against the detector.
          Quiet q;
          idle_reports[tid] = 1;
          bool all = true;
          for (unsigned i = 0; i < n; ++i)
            all &= idle_reports[i] != 0;
          if (all) {
            for (unsigned i = 0; i < n; ++i)
              idle_reports[i] = 0;
            ++epochs_since_quiescence;
            if (epochs_since_quiescence > 8 * (long)n + 16 && !term->globalTermination())
              vfail("late-announcement", "round %d, %u threads: %ld epochs (every thread completed an idle report) after quiescence and "
                    "termination is still not announced (bound %ld)", r, n, epochs_since_quiescence, 8 * (long)n + 16);
          }
        }
        gsched_point();
        if (term->globalTermination()) {
          Quiet q;
          // soundness: nobody may still hold or owe work
          if (!all_quiet())
            vfail("premature-termination", "round %d, %u threads: thread %u observed global termination while %ld units were "
                  "outstanding (sent %ld, processed %ld, in flight %ld)", r, n, tid, sent - processed, sent, processed, in_flight);
          break;
        }
        galois::substrate::asmPause();
      }
    });
    gsched_liveness_clear();
    {
      Quiet q;
      if (!all_quiet())
        vfail("premature-termination", "round %d: all threads left the loop with %ld units outstanding", r, sent - processed);
      if (n >= 2 && late_delivery)
        nontriv = true;
    }
  }
  label("detector", DETS[c[F_DET]]);
  label("topo", TOPOS[c[F_TOPO]]);
  label("rounds", c[F_ROUNDS]);
  label("late_delivery", late_delivery > 0);
  label("units", total_units < 10 ? total_units : total_units / 10 * 10);
  label("strategy", c[S_STRATEGY]);
  nontrivial(nontriv);
  vok();
}
} // namespace verif

VERIF_E1_MAIN
