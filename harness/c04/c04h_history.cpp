// C04 (history mode) -- termination detection driven by GENERATED HISTORIES.
// The gsched harness (c04_term.cpp) lets the schedule explorer interleave free
// running threads; protocol-level defects that need one thread to sit in the
// window between its empty pop and its localTermination() call while a
// specific sequence of other calls happens are rare there.  Here the case IS
// the history: a list of thread ids; each entry advances that pool thread by
// one step of the executor's loop
//     pop-and-process one unit | empty pop | localTermination(didWork)
// (executor-legal: the call always follows an empty pop, and work that arrives
// in between is not looked at before the call).  Steps run one at a time on
// the real pool threads (the detectors use the thread id and per-thread
// storage), handed over through a mutex/condition variable.  After the
// generated part a fair round-robin tail must lead to the announcement.
// Oracle: no announcement while a unit is pending (soundness); announcement
// within a bounded number of fair sweeps (liveness); the same object re-armed
// with other thread counts behaves the same (reuse).  DESIGN.md 4/C04.
#include "verif_e1.h"

#include "galois/Galois.h"
#include "galois/substrate/Termination.h"
#include "galois/substrate/Barrier.h"

#include <condition_variable>
#include <deque>
#include <mutex>

using namespace verif;

namespace verif {
const char* const HARNESS = "c04h";
constexpr int MAXROUNDS   = 3;
constexpr int MAXT        = 6;
enum { F_DET = 0, F_ROUNDS, F_N0, F_N1, F_N2, F_INIT, F_FANOUT, F_DEPTH, F_ROUTE, F_WSEED, F_BREAK, F_COUNT };
const std::vector<const char*> FIELDS = {"detector", "rounds", "n0", "n1", "n2", "init", "fanout", "depth", "route", "wseed", "break"};
// tail: the history, one value per entry: thread + 8 * (repeat - 1); split evenly over the rounds
static const char* DETS[] = {"ring", "tree"};

Case generate() {
  using namespace rc;
  Case c;
  c.f.assign(F_COUNT, 0);
  c[F_DET]    = *uni(0, 2);
  c[F_ROUNDS] = *gen::weightedElement<int>({{3, 1}, {2, 2}, {1, 3}});
  for (int r = 0; r < MAXROUNDS; ++r)
    c[F_N0 + r] = *gen::weightedElement<int>({{1, 1}, {6, 2}, {5, 3}, {2, 4}, {1, 5}, {1, 6}});
  c[F_INIT]   = *uni(0, 4);
  // chains (fan-out 1) keep one unit moving between threads while the token circulates
  c[F_FANOUT] = *gen::weightedElement<int>({{1, 0}, {3, 1}, {1, 2}});
  c[F_DEPTH]  = c[F_FANOUT] == 1 ? *uni(0, 12) : *uni(0, 4);
  c[F_ROUTE]  = *gen::weightedElement<int>({{1, 0}, {2, 1}, {1, 2}}); // 0 anywhere, 1 to the next thread, 2 towards the master and its successor
  c[F_WSEED]  = *uni(0, 1 << 24);
  // bit r: round r is abandoned after its generated steps (a loop left through parallel_break: the threads
  // simply stop calling the detector); the next round re-arms the same detector object
  c[F_BREAK]  = c[F_ROUNDS] >= 2 && *uni(0, 3) == 0 ? *uni(1, 4) : 0;
  if (c[F_BREAK]) // the round after an abandoned one: more threads, chains to the next thread
    for (int r = 1; r < MAXROUNDS; ++r)
      if ((c[F_BREAK] >> (r - 1)) & 1)
        c[F_N0 + r] = *gen::element<int>(3, 4, 4, 5);
  int len     = *uni(0, 60) * (int)c[F_ROUNDS];
  for (int i = 0; i < len; ++i)
    c.f.push_back(*uni(0, 8) + 8 * *gen::weightedElement<int>({{4, 0}, {3, 1}, {2, 2}, {1, 4}, {1, 7}}));
  return c;
}

std::string finding_key(const Case& c, const std::string& failkey) { return std::string("C04/") + DETS[c[F_DET] % 2] + "/" + failkey; }

struct Tree : public galois::substrate::internal::TreeTerminationDetection<> {
  void arm(unsigned n) { init(n); }
};

struct Unit {
  uint64_t id;
  int depth;
};

// ---- shared state, only touched by the thread whose turn it is (or under the mutex)
static std::mutex mu;
static std::condition_variable cv[MAXT]; // one per pool thread: a step wakes only the thread that runs the next one
static int turn;      // pool thread that executes the next step, -1 = everybody leaves
static std::deque<Unit> mailbox[MAXT];
static bool did_work[MAXT], checked_empty[MAXT], left[MAXT];
static long pending, sent_total, calls_total, window_calls;
static std::string failure_key, failure_msg;

static void fail_later(const char* key, const char* fmt, ...) {
  if (!failure_key.empty())
    return;
  char buf[600];
  va_list ap;
  va_start(ap, fmt);
  vsnprintf(buf, sizeof buf, fmt, ap);
  va_end(ap);
  failure_key = key;
  failure_msg = buf;
}

void run(const Case& c) {
  static Tree& tree = *new Tree; // one object for the whole process (never destroyed: its storage outlives the thread pool otherwise): reuse across cases and rounds is part of the property
  auto& tp        = galois::substrate::getThreadPool();
  uint64_t wseed  = (uint64_t)c[F_WSEED];
  int fanout = (int)c[F_FANOUT], maxdepth = (int)c[F_DEPTH], route = (int)c[F_ROUTE];
  int rounds      = (int)std::max<int64_t>(1, std::min<int64_t>(MAXROUNDS, c[F_ROUNDS]));
  size_t hist_len = (c.f.size() - F_COUNT) / rounds;
  failure_key.clear();
  long total_window = 0, total_units = 0;
  bool shrunk_threads = false;
  unsigned prev_n = 0;
  int abandoned_rounds = 0;
  for (int r = 0; r < rounds && failure_key.empty(); ++r) {
    unsigned n = galois::setActiveThreads((unsigned)std::max<int64_t>(1, std::min<int64_t>(MAXT, c[F_N0 + r])));
    galois::substrate::TerminationDetection* term;
    if (c[F_DET] % 2 == 0)
      term = &galois::substrate::getSystemTermination(n);
    else {
      tree.arm(n);
      term = &tree;
    }
    shrunk_threads |= prev_n > n;
    prev_n = n;
    auto& barrier = galois::substrate::getBarrier(n);
    pending = sent_total = calls_total = window_calls = 0;
    for (unsigned i = 0; i < n; ++i) {
      mailbox[i].clear();
      did_work[i] = checked_empty[i] = left[i] = false;
      int k = (int)(prf(wseed, r, i, 1) % (uint64_t)(c[F_INIT] + 1));
      for (int j = 0; j < k; ++j) {
        mailbox[i].push_back(Unit{(uint64_t)((r * 64 + i) * 8 + j + 1) * 1000003ULL, 0});
        ++pending;
        ++sent_total;
      }
    }
    // the script: generated part, then fair sweeps
    std::vector<int> script;
    for (size_t i = 0; i < hist_len; ++i) {
      int64_t v = c.f[F_COUNT + r * hist_len + i];
      for (int k = 0; k <= (int)((v / 8) % 8); ++k)
        script.push_back((int)((v % 8) % n));
    }
    size_t generated     = script.size();
    const int FAIR_SWEEPS = 12 * (int)n + 40; // every thread takes 3 steps per sweep: at least one complete idle report
    bool abandoned        = ((c[F_BREAK] >> r) & 1) && r + 1 < rounds;
    abandoned_rounds += abandoned;
    for (int s = 0; s < FAIR_SWEEPS && !abandoned; ++s)
      for (unsigned t = 0; t < n; ++t)
        for (int k = 0; k < 3; ++k)
          script.push_back((int)t);
    size_t pos = 0;
    bool announced = false;
    size_t announced_at = 0;
    turn = script.empty() ? -1 : script[0];
    tp.run(n, [&]() {
      unsigned tid = galois::substrate::ThreadPool::getTID();
      term->initializeThread();
      barrier.wait();
      std::unique_lock<std::mutex> lk(mu);
      while (true) {
        cv[tid].wait(lk, [&] { return turn == (int)tid || turn == -1; });
        if (turn == -1)
          break;
        // ---- the ring protocol circulates exactly one token (hook, GALOIS_VERIF): checked before and after every step
        auto tokens_ok = [&](const char* when) {
#ifdef GALOIS_VERIF
          if (auto* ring = dynamic_cast<galois::substrate::internal::LocalTerminationDetection<>*>(term)) {
            unsigned held = ring->verifTokensHeld();
            if (held != 1)
              fail_later("token-count", "round %d, %u threads, %s step %zu (thread %u): %u threads hold the token, the ring protocol has exactly one", r, n, when, pos,
                         tid, held);
          }
#endif
        };
        tokens_ok("before");
        // ---- one step of the executor loop of thread tid
        if (!left[tid]) {
          if (checked_empty[tid]) {
            // the call that follows the empty pop; work that arrived in between is not looked at first
            if (!mailbox[tid].empty())
              ++window_calls;
            bool dw = did_work[tid];
            did_work[tid] = checked_empty[tid] = false;
            term->localTermination(dw);
            ++calls_total;
            if (term->globalTermination()) {
              if (!announced) {
                announced    = true;
                announced_at = pos;
              }
              if (pending != 0)
                fail_later("premature-termination", "round %d, %u threads: thread %u observed global termination after its call #%ld while %ld unit(s) "
                           "were still pending (history position %zu of %zu generated steps)", r, n, tid, calls_total, pending, pos, generated);
              left[tid] = true; // the executor leaves its loop
            }
          } else if (!mailbox[tid].empty()) {
            Unit u = mailbox[tid].front();
            mailbox[tid].pop_front();
            did_work[tid] = true;
            int k = (u.depth < maxdepth && fanout) ? (int)(prf(wseed, u.id, 3) % (uint64_t)(fanout + 1)) : 0;
            for (int j = 0; j < k && sent_total < 60; ++j) {
              unsigned dst = (unsigned)(prf(wseed, u.id, 10 + j) % n);
              if (route == 1)
                dst = (tid + 1) % n;
              else if (route == 2)
                dst = (unsigned)(prf(wseed, u.id, 10 + j) % 2) % n;
              mailbox[dst].push_back(Unit{u.id * 4 + (uint64_t)j + 1, u.depth + 1});
              ++pending;
              ++sent_total;
            }
            --pending;
          } else
            checked_empty[tid] = true; // the empty pop
        }
        tokens_ok("after");
        // ---- next step
        ++pos;
        bool all_left = true;
        for (unsigned i = 0; i < n; ++i)
          all_left &= left[i];
        if (all_left || pos >= script.size() || !failure_key.empty()) {
          turn = -1;
          for (unsigned i = 0; i < n; ++i)
            cv[i].notify_one();
        } else {
          turn = script[pos];
          if (turn != (int)tid)
            cv[turn].notify_one();
        }
      }
    });
    if (failure_key.empty()) {
      bool all_left = true;
      for (unsigned i = 0; i < n; ++i)
        all_left &= left[i];
      if (!all_left && !abandoned)
        fail_later("never-announced", "round %d, %u threads: after %zu generated steps and %d fair sweeps (3 steps per thread each) %s; %ld unit(s) pending", r, n,
                   generated, FAIR_SWEEPS, announced ? "termination was announced but not every thread observed it" : "termination was never announced", pending);
    }
    total_window += window_calls;
    total_units += sent_total;
    (void)announced_at;
  }
  if (!failure_key.empty())
    vfail(failure_key.c_str(), "%s", failure_msg.c_str());
  label("detector", DETS[c[F_DET] % 2]);
  label("rounds", (long)rounds);
  label("threads0", (long)c[F_N0]);
  label("calls_with_unseen_work", (long)std::min<long>(total_window, 3));
  label("shrunk_thread_count", shrunk_threads);
  label("abandoned_rounds", (long)abandoned_rounds);
  label("units", (long)(total_units < 10 ? total_units : total_units / 10 * 10));
  nontrivial(total_window >= 1 || (shrunk_threads && total_units > 0));
  vok();
}
} // namespace verif

VERIF_INPROC_MAIN(galois::SharedMemSys G)
