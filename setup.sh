#!/bin/sh
# Build the framework from files on disk only (offline): configure the repo
# build variants under /verif/_build and compile every registered harness.
set -e
cd "$(dirname "$0")"
exec ./check all --build-only
