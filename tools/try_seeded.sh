#!/bin/bash
# usage: tools/try_seeded.sh <patch.diff> <PROP> [tier]
# applies a seeded change to /repo, runs the property's check, and undoes the change
set -u
PATCH=$1; PROP=$2; TIER=${3:-quick}
cd /repo || exit 2
if ! git diff --quiet; then echo "/repo has local modifications; abort"; exit 2; fi
git apply "$PATCH" || { echo "patch does not apply"; exit 2; }
cd /verif
START=$(date +%s)
./check "$PROP" --tier "$TIER" > /tmp/try_seeded.out 2>&1
RC=$?
END=$(date +%s)
git -C /repo checkout -- .
grep -E "VIOLATION|finding-key|KNOWN-FINDING|^PASS|^FAIL|ERROR" /tmp/try_seeded.out | head -8
echo "exit=$RC wall=$((END-START))s patch=$PATCH prop=$PROP"
