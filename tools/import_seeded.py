#!/usr/bin/env python3
"""usage: tools/import_seeded.py <prop-id> <n> <status> <observed...>
copies /tmp/wt-<id>/seeded/<n>/ (files only) to /verif/seeded/<ID>-<n>/ and augments meta.json"""
import json, os, shutil, sys
pid, n, status = sys.argv[1], sys.argv[2], sys.argv[3]
observed = " ".join(sys.argv[4:])
src = "/tmp/wt-%s/seeded/%s" % (pid.lower(), n)
dst = "/verif/seeded/%s-%s" % (pid, os.environ.get("DST_N", n))  # DST_N: number in /verif/seeded when it differs (second round)
os.makedirs(dst, exist_ok=True)
for f in os.listdir(src):
    if os.path.isfile(os.path.join(src, f)) and os.path.getsize(os.path.join(src, f)) < 2000000:
        shutil.copy(os.path.join(src, f), dst)
try:
    meta = json.load(open(os.path.join(src, "meta.json")))
except Exception as e:
    meta = {"property": pid, "note": "agent meta.json unreadable: %s" % e}
conf = ""
if os.path.exists("/tmp/confirm_seeded2.log"):
    for line in open("/tmp/confirm_seeded2.log"):
        if line.startswith("/tmp/wt-%s/%s:" % (pid.lower(), n)):
            conf = line.strip()
meta["breaks_property"] = pid
meta["origin"] = "fresh sub-agent given only the property text and a scratch worktree (no access to /verif)"
meta["confirmed_by_me"] = {"how": "scratch worktree: git apply patch, run seeded/<n>/run_demo.sh (expect failure), build and run the 68 baseline tests, revert, run_demo.sh again (expect pass)", "result": conf or "see DESIGN 9.3"}
meta["check_result"] = {"status": status, "what_i_ran": "tools/try_seeded.sh <patch> %s (git -C /repo apply; ./check %s --tier quick; git -C /repo checkout -- .)" % (pid, pid), "observed": observed}
json.dump(meta, open(os.path.join(dst, "meta.json"), "w"), indent=1)
print(dst, sorted(os.listdir(dst)))
