#!/usr/bin/env python3
"""Writes the brief for a seeded-defect sub-agent: only the property text and its own worktree."""
import json, sys
props={json.loads(l)['id']:json.loads(l) for l in open('/verif/properties.jsonl')}
def brief(pid, wt):
    p=props[pid]
    return f'''You are helping evaluate a verification effort for the C++ library Galois (IntelligentSoftwareSystems/Galois). Your job: produce TWO independent, realistic code changes ("seeded defects") to Galois, each of which BREAKS the semantic property below while the code still compiles and the repository's existing passing test suite still passes. Work ONLY inside your own scratch git worktree at {wt} (a checkout of the repository). Do NOT read, list or touch /verif or /repo, and do not look at other /tmp/wt-* directories. No network is available.

PROPERTY {pid}: {p['title']}
Statement: {p['statement']}
Quantified over: {p['quantifier']['text']}
Relevant source files (relative to the worktree): {', '.join(p['anchors']['files'])}

Requirements for each change:
- It must be a small, plausible edit to Galois source (headers/sources under libgalois, libdist, libgluon, libcusp, tools or lonestar as relevant to the property), the kind of mistake a maintainer could make in a refactor/optimisation: e.g. a dropped or weakened synchronisation, an off-by-one in an index, a skipped step on a rare path, a wrong memory order, two cooperating sites that each look fine alone. NOT a blatant break that any ordinary run exposes at once.
- It must need something SPECIFIC to manifest: a particular thread interleaving, a multi-socket/uneven topology, a particular type/parameter, a multi-step sequence, an unusual input or a boundary size. Say precisely what.
- The code must still compile, and the existing tests that pass on the unchanged tree must still pass with the change. To check: configure once with `cmake -G Ninja -S {wt} -B {wt}/_build -DCMAKE_BUILD_TYPE=RelWithDebInfo -DCMAKE_CXX_FLAGS=-Wno-error` then `cmake --build {wt}/_build -j4 -- -k 0` (a target named unit-logging fails to build on the unchanged tree too; ignore it) and run `ctest --test-dir {wt}/_build -j4 --timeout 900 -R "$(cat /tmp/baseline_regex.txt)"` — all 68 selected tests must pass (they do on the unchanged tree). Use at most 4 build jobs; the machine is shared and busy. Note the test machine has ONE socket and 16 hardware threads. If your change is in distributed code (libdist/libgluon/libcusp/lonestar distributed), you may additionally configure with -DGALOIS_ENABLE_DIST=ON in a second build directory to build and demonstrate it (`mpirun --allow-run-as-root --oversubscribe -np N` works), but the 68 baseline tests use the non-distributed configuration above.
- The two changes must differ in mechanism and location (not two variants of the same edit).
- Do not edit tests. Do not add new files to the library. Keep each patch minimal (a few lines).
- The repository contains hooks guarded by `#ifdef GALOIS_VERIF` (a spin hook in asmPause, a thread hook, a synthetic-topology env var GALOIS_VERIF_TOPO in HWTopoLinux.cpp, e.g. GALOIS_VERIF_TOPO="2,2" = two sockets with two threads each, only active when compiled with -DGALOIS_VERIF, and a master-list accessor in GluonSubstrate). Leave them alone; you may use -DGALOIS_VERIF and GALOIS_VERIF_TOPO in your demonstration if the defect needs a multi-socket topology.

Deliverables, in directory {wt}/seeded/ (create it): for each change N in (1,2):
  {wt}/seeded/N/patch.diff   — output of `git diff` for that change alone against the unchanged tree (apply-able with `git apply` from the repo root)
  {wt}/seeded/N/demo.cpp (or demo.sh + sources) — a small standalone demonstration program/test that FAILS (non-zero exit or printed mismatch) with the change and PASSES without it, plus a script {wt}/seeded/N/run_demo.sh that builds and runs it against the CURRENT state of the worktree and exits non-zero iff the defect shows (it must rebuild whatever library code it needs), and the explanation in {wt}/seeded/N/README.txt. A demonstration may need many repetitions, sleeps/yields at chosen places, a stress loop, or a forced topology to hit the interleaving; that is fine — state the observed failure rate. If you truly cannot make it fail dynamically, give a precise argument (interleaving trace with line numbers) for why the property is violated.
  {wt}/seeded/N/meta.json — {{"property": "{pid}", "summary": "...", "files_changed": [...], "needs_to_manifest": "...", "why_tests_still_pass": "...", "commands_run": [...], "observed": "..."}}
After finishing change 1, restore the tree (`git checkout -- .` inside the worktree; keep seeded/ which is untracked) before making change 2, and at the end leave the worktree sources unmodified (only seeded/ and build directories extra). Finally reply with a short summary of both changes (what, where, what it needs to manifest, whether your demo reproduced it and how often).'''
for pid in sys.argv[1:]:
    open(f'/tmp/brief-{pid}.txt','w').write(brief(pid, f'/tmp/wt-{pid.lower()}'))
    print(pid)
