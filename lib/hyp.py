"""Runner for Hypothesis drivers (py/<module>.py): W parallel workers with derived seeds."""
import json
import os
import re
import subprocess
import time

from . import runner


def run_unit(res, unit, findings, tier, seed, tmp):
    h = unit["harness"]  # "py:<module>"
    W = min(runner.NCPU, unit.get("workers", runner.NCPU))
    per = max(1, unit[tier] // W)
    excl = [f.key for f in findings if f.status == "known"] + unit.get("exclude", [])
    procs = []
    t0 = time.time()
    for w in range(W):
        env = dict(os.environ)
        env.update({"VERIF_EXAMPLES": str(per), "VERIF_HSEED": str(seed * 1000 + w + 1), "VERIF_EXCLUDE": ",".join(excl),
                    "VERIF_TIER": tier, "VERIF_PROP": res.prop, "VERIF_TMP": tmp})
        env.update(unit.get("env", {}))
        out = os.path.join(tmp, "%s-w%d.json" % (h.replace(":", "_"), w))
        cmd = runner.harness_cmd(h) + ["--gen", "--out", out, "--replay-dir", tmp, "--tag", "w%d" % w]
        procs.append((w, out, subprocess.Popen(cmd, stdout=subprocess.PIPE, stderr=subprocess.PIPE, text=True, env=env)))
    falsified = []
    for w, out, p in procs:
        so, se = p.communicate()
        if os.path.exists(out):
            try:
                res.merge_stats(json.load(open(out)), h)
            except Exception as e:
                res.notes.append("worker %d stats unreadable: %s" % (w, e))
        m = re.search(r"FALSIFIED harness=\S+ key=(\S+) replay=(\S+) msg=(.*)", so)
        if m:
            falsified.append(m.groups())
        elif p.returncode != 0:
            res.notes.append("worker %d of %s exited %d: %s" % (w, h, p.returncode, (so + se)[-400:]))
            res.violations.append(("driver-error", "", (so + se)[-300:]))
            print("ERROR: driver %s worker %d exited %d: %s" % (h, w, p.returncode, (so + se)[-300:].replace("\n", " ")), flush=True)
    res.units.append({"unit": h, "kind": "hypothesis over subprocesses", "workers": W, "max_examples_per_worker": per,
                      "wall_s": round(time.time() - t0, 1)})
    seen = set()
    for key, path, msg in falsified:
        if key in seen:
            continue
        seen.add(key)
        confirm_py(res, findings, key, path, msg)


def confirm_py(res, findings, key, path, msg):
    r = runner.replay_file(path, 2, prop=res.prop)
    if r["fails"] < 2:
        res.notes.append("FLAKY: %s failed in search but reproduced %d/2 (%s)" % (key, r["fails"], path))
        return
    for f in findings:
        if f.status == "known" and f.key == key:
            res.known(f)
            return
    res.violation(key, path, msg)
