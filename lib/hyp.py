"""Runner for Hypothesis drivers (py/<module>.py): W parallel workers with derived seeds."""
import json
import os
import re
import subprocess
import time

from . import runner


def run_unit(res, unit, findings, tier, seed, tmp):
    h = unit["harness"]  # "py:<module>"
    W = min(runner.NCPU, unit.get("workers", runner.NCPU))
    per = max(1, unit[tier] // W)
    excl = [f.key for f in findings if f.status == "known"] + unit.get("exclude", [])
    procs = []
    t0 = time.time()
    for w in range(W):
        env = dict(os.environ)
        env.update({"VERIF_EXAMPLES": str(per), "VERIF_HSEED": str(seed * 1000 + w + 1), "VERIF_EXCLUDE": ",".join(excl),
                    "VERIF_TIER": tier, "VERIF_PROP": res.prop, "VERIF_TMP": tmp})
        env.update(unit.get("env", {}))
        out = os.path.join(tmp, "%s-w%d.json" % (h.replace(":", "_"), w))
        cmd = runner.harness_cmd(h) + ["--gen", "--out", out, "--replay-dir", tmp, "--tag", "w%d" % w]
        procs.append((w, out, subprocess.Popen(cmd, stdout=subprocess.PIPE, stderr=subprocess.PIPE, text=True, env=env)))
    falsified = []
    for w, out, p in procs:
        so, se = p.communicate()
        if os.path.exists(out):
            try:
                res.merge_stats(json.load(open(out)), h)
            except Exception as e:
                res.notes.append("worker %d stats unreadable: %s" % (w, e))
        m = re.search(r"FALSIFIED harness=\S+ key=(\S+) replay=(\S+) msg=(.*)", so)
        if m:
            falsified.append(m.groups())
        elif p.returncode != 0:
            res.notes.append("worker %d of %s exited %d: %s" % (w, h, p.returncode, (so + se)[-400:]))
            res.violations.append(("driver-error", "", (so + se)[-300:]))
            print("ERROR: driver %s worker %d exited %d: %s" % (h, w, p.returncode, (so + se)[-300:].replace("\n", " ")), flush=True)
    res.units.append({"unit": h, "kind": "hypothesis over subprocesses", "workers": W, "max_examples_per_worker": per,
                      "wall_s": round(time.time() - t0, 1)})
    seen = set()
    for key, path, msg in falsified:
        if key in seen:
            continue
        seen.add(key)
        confirm_py(res, findings, key, path, msg, unit.get("confirm_runs", 2))


def confirm_py(res, findings, key, path, msg, runs=2):
    # subjects with real threads (applications) are replayed more often: a race that shows in 2 of 12
    # replays is a violation, one that never shows again is recorded as flaky and not reported
    r = runner.replay_file(path, runs, prop=res.prop)
    if r["fails"] < 2:
        res.notes.append("FLAKY: %s failed in search but reproduced %d/%d (%s)" % (key, r["fails"], runs, path))
        print("[check] flaky, not reported: %s reproduced %d/%d" % (key, r["fails"], runs), flush=True)
        return
    for f in findings:
        if f.status == "known" and f.key == key:
            res.known(f)
            return
    res.violation(key, path, msg)
