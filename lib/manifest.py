"""Generates MANIFEST.json from the registry (run: python3 -m lib.manifest)."""
import json
import os
import subprocess

from . import props

VERIF = os.path.dirname(os.path.dirname(os.path.abspath(__file__)))


def main():
    hooks = subprocess.run(["git", "-C", "/repo", "log", "--format=%H", "--grep=^verif hook"],
                           stdout=subprocess.PIPE, text=True).stdout.split()
    checks = []
    for pid in sorted(props.PROPS):
        s = props.PROPS[pid]
        checks.append({
            "property_id": pid,
            "quick_cmd": "./check %s --tier quick" % pid,
            "thorough_cmd": "./check %s --tier thorough" % pid,
            "evidence_file": "/verif/evidence/%s.json" % pid,
            "replay_cmd_template": "./check %s --replay {path}" % pid,
            "engine": s.get("engine", "gsched+rapidcheck"),
            "level_claimed": {"category": "exploration", "text": s["level_text"], "design_ref": s.get("design_ref", "DESIGN.md section 4/" + pid)},
            "level_note": s["level_note"],
            "technique": s["technique"],
        })
    all_ids = [json.loads(l)["id"] for l in open(os.path.join(VERIF, "properties.jsonl"))]
    na = [{"property_id": i, "reason": props.NOT_YET.get(i, "check not built yet in this round; planned with the same technique (see DESIGN.md section 4)")}
          for i in all_ids if i not in props.PROPS]
    m = {
        "version": 1,
        "setup_cmd": "./setup.sh",
        "hooks": {
            "guard": "GALOIS_VERIF",
            "enable": "checks configure the repo's own CMake out of tree under /verif/_build/<variant> with -DGALOIS_VERIF in CMAKE_CXX_FLAGS (lib/build.py)",
            "baseline_off_cmd": "cmake --build /repo/_build -j16 -- -k 0 ; ctest --test-dir /repo/_build -j8 --timeout 900",
            "source_commits": hooks,
            "add_only": True,
        },
        "engines": props.ENGINES,
        "checks": checks,
        "not_applicable": na,
        "notes": "Single driver ./check <id>; VERIF_SEED and VERIF_TIER honoured; known findings in known_findings.txt; see DESIGN.md.",
    }
    with open(os.path.join(VERIF, "MANIFEST.json"), "w") as f:
        json.dump(m, f, indent=1)
    print("wrote MANIFEST.json with", len(checks), "checks;", len(na), "not yet claimed")


if __name__ == "__main__":
    main()
