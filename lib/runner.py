"""Check runner: replay tier, known findings, parallel generated search,
confirmation of failures, evidence."""
import glob
import json
import os
import re
import shutil
import subprocess
import sys
import time

from . import build

VERIF = build.VERIF
NCPU = int(os.environ.get("VERIF_JOBS", "16"))


def log(*a):
    print("[check]", *a, file=sys.stderr, flush=True)


# ------------------------------------------------------------ known findings
class Finding:
    def __init__(self, status, prop, key, replay, what, commit=None):
        self.status, self.prop, self.key, self.replay, self.what, self.commit = \
            status, prop, key, replay, what, commit


def load_findings():
    out = []
    p = os.path.join(VERIF, "known_findings.txt")
    if not os.path.exists(p):
        return out
    for line in open(p):
        line = line.strip()
        if not line or line.startswith("#"):
            continue
        m = re.match(r"(fixed|known): property=(\S+) (?:(\S+) )?key=(\S+) replay=(\S+) (.*)$", line)
        if not m:
            continue
        status, prop, commit, key, replay, what = m.groups()
        out.append(Finding(status, prop, key, None if replay == "-" else replay, what, commit))
    return out


class Result:
    """accumulates the outcome of one property check"""

    def __init__(self, prop, tier, seed):
        self.prop, self.tier, self.seed = prop, tier, seed
        self.t0 = time.time()
        self.evaluations = 0
        self.nontrivial = set()
        self.hist = {}
        self.samples = []
        self.units = []
        self.violations = []  # (key, replay path, msg)
        self.known_hits = []  # Finding
        self.excluded_draws = 0
        self.inconclusive = 0
        self.inconclusive_kinds = {}
        self.replayed = 0
        self.notes = []
        self.printed_known = set()

    def known(self, f):
        if f.key not in self.printed_known:
            self.printed_known.add(f.key)
            print("KNOWN-FINDING: property=%s %s [%s]" % (self.prop, f.what, f.key), flush=True)
        self.known_hits.append(f.key)

    def violation(self, key, replay, msg):
        os.makedirs(os.path.join(VERIF, "replays"), exist_ok=True)
        dst = replay
        if replay and os.path.exists(replay) and not os.path.abspath(replay).startswith(os.path.join(VERIF, "replays")) \
                and not os.path.abspath(replay).startswith(os.path.join(VERIF, "corpus")):
            dst = os.path.join(VERIF, "replays", os.path.basename(replay))
            shutil.copy(replay, dst)
        self.violations.append((key, dst, msg))
        print("VIOLATION property=%s replay=%s" % (self.prop, dst), flush=True)
        print("  finding-key=%s %s" % (key, msg), flush=True)

    def merge_stats(self, d, unit):
        self.evaluations += d.get("evaluations", 0)
        self.inconclusive += d.get("inconclusive", 0)
        self.excluded_draws += d.get("excluded_draws", 0)
        for k, v in d.get("inconclusive_kinds", {}).items():
            self.inconclusive_kinds[k] = self.inconclusive_kinds.get(k, 0) + v
        for h in d.get("nontrivial_hashes", []):
            self.nontrivial.add(unit + ":" + str(h))
        for k, vv in d.get("hist", {}).items():
            hk = self.hist.setdefault(unit + "." + k, {})
            for a, b in vv.items():
                hk[a] = hk.get(a, 0) + b
        for s in d.get("samples", []):
            if sum(1 for x in self.samples if x.get("unit") == unit) < 4:
                self.samples.append({"unit": unit, **s} if isinstance(s, dict) else {"unit": unit, "case": s})

    def write_evidence(self, spec):
        os.makedirs(os.path.join(VERIF, "evidence"), exist_ok=True)
        hist = {}
        for k, v in self.hist.items():
            if len(v) > 40:
                items = sorted(v.items(), key=lambda kv: -kv[1])[:40]
                v = dict(items)
                v["..."] = "truncated"
            hist[k] = v
        ev = {
            "property_id": self.prop,
            "tier": self.tier,
            "seed": self.seed,
            "level": "exploration",
            "coverage": {
                "evaluations": self.evaluations,
                "distinct_nontrivial": len(self.nontrivial),
                "rule": spec.get("rule", ""),
                "samples": self.samples[:12],
                "class_distribution": hist,
                "units": self.units,
                "replay_tier_cases": self.replayed,
                "excluded_by_known_finding_draws": self.excluded_draws,
                "known_findings_hit": sorted(set(self.known_hits)),
                "inconclusive": self.inconclusive,
                "inconclusive_kinds": self.inconclusive_kinds,
                "notes": self.notes,
            },
            "assumptions": spec.get("assumptions", []),
            "wall_s": round(time.time() - self.t0, 2),
            "violations": len(self.violations),
        }
        p = os.path.join(VERIF, "evidence", self.prop + ".json")
        with open(p, "w") as f:
            json.dump(ev, f, indent=1)
        return p


# --------------------------------------------------------------- rc units
PY = "/opt/veriftools/pyvenv/bin/python"


def harness_path(name):
    return os.path.join(build.BUILD, "harness", name)


def harness_cmd(name):
    """command prefix of a harness: C++ binary, or a Hypothesis driver for names 'py:<module>'"""
    if name.startswith("py:"):
        return [PY, os.path.join(VERIF, "py", name[3:] + ".py")]
    return [harness_path(name)]


def harness_exists(name):
    if name.startswith("py:"):
        return os.path.exists(os.path.join(VERIF, "py", name[3:] + ".py"))
    return os.path.exists(harness_path(name))


def replay_file(path, times=3, env=None, timeout_ms=None, prop=None, sweep=1):
    if env is None and prop:
        env = dict(os.environ)
        env["VERIF_PROP"] = prop
    d = json.load(open(path))
    h = d["harness"]
    cmd = harness_cmd(h) + ["--replay", path, "--times", str(times), "--sweep", str(sweep)]
    if h.startswith("py:"):
        env = dict(env or os.environ)
        env.setdefault("VERIF_TMP", os.path.join(build.BUILD, "tmp"))
    if timeout_ms:
        cmd += ["--timeout-ms", str(timeout_ms)]
    p = subprocess.run(cmd, stdout=subprocess.PIPE, stderr=subprocess.DEVNULL, text=True, env=env)
    m = re.search(r"REPLAY .* runs=(\d+) fails=(\d+) inconclusive=(\d+) key=(\S*) msg=(.*)", p.stdout)
    if not m:
        return dict(runs=0, fails=0, inconclusive=0, key="", msg="replay driver error: " + p.stdout[-300:])
    r = dict(runs=int(m.group(1)), fails=int(m.group(2)), inconclusive=int(m.group(3)),
             key=m.group(4), msg=m.group(5))
    if "crashed with signal" in r["msg"]:
        # an in-process harness died on the first run: the remaining runs could not happen
        r["fails"] = max(r["fails"], 2)
    return r


def run_rc_unit(res, unit, findings, tier, seed, tmp):
    """rapidcheck fork-per-case harness, W parallel parents"""
    h = unit["harness"]
    if unit.get("enumerate"):
        # exhaustive enumeration of the harness' small finite sub-domain first
        out = os.path.join(tmp, "%s-enum.json" % h)
        env = dict(os.environ)
        env["VERIF_PROP"] = res.prop
        env["VERIF_TMP"] = tmp
        p = subprocess.run([harness_path(h), "--enum", "--out", out, "--replay-dir", tmp],
                           stdout=subprocess.PIPE, stderr=subprocess.DEVNULL, text=True, env=env)
        if os.path.exists(out):
            d = json.load(open(out))
            res.merge_stats(d, h + "/exhaustive")
            res.units.append({"unit": h + "/exhaustive", "kind": "exhaustive enumeration of the small sub-domain",
                              "exhaustive_small": True, "cases": d.get("evaluations", 0)})
        m = re.search(r"FALSIFIED harness=\S+ key=(\S+) replay=(\S+) msg=(.*)", p.stdout)
        if m:
            confirm_failure(res, findings, m.group(1), m.group(2), m.group(3), unit)
        elif p.returncode != 0:
            res.violations.append(("driver-error", "", p.stdout[-300:]))
            print("ERROR: harness %s enumeration exited %d" % (h, p.returncode), flush=True)
    budget = unit[tier]
    W = min(NCPU, unit.get("workers", NCPU))
    per = max(1, budget // W)
    excl = [f.key for f in findings if f.status == "known"] + unit.get("exclude", [])
    procs = []
    t0 = time.time()
    for w in range(W):
        env = dict(os.environ)
        env["RC_PARAMS"] = "seed=%d max_success=%d max_size=%d" % (seed * 1000 + w + 1, per, unit.get("max_size", 100))
        env["VERIF_EXCLUDE"] = ",".join(excl)
        env["VERIF_TIER"] = tier
        env["VERIF_PROP"] = res.prop
        env["VERIF_TMP"] = tmp
        env.update(unit.get("env", {}))
        out = os.path.join(tmp, "%s-w%d.json" % (h, w))
        cmd = [harness_path(h), "--gen", "--out", out, "--replay-dir", tmp, "--tag", "w%d" % w,
               "--timeout-ms", str(unit.get("timeout_ms", 20000 if tier == "quick" else 120000))]
        cmd += unit.get("args", [])
        procs.append((w, out, subprocess.Popen(cmd, stdout=subprocess.PIPE, stderr=subprocess.DEVNULL, text=True, env=env)))
    falsified = []
    for w, out, p in procs:
        so, _ = p.communicate()
        if os.path.exists(out):
            try:
                res.merge_stats(json.load(open(out)), h)
            except Exception as e:
                res.notes.append("worker %d stats unreadable: %s" % (w, e))
        m = re.search(r"FALSIFIED harness=\S+ key=(\S+) replay=(\S+) msg=(.*)", so)
        if m:
            falsified.append(m.groups())
        elif p.returncode != 0:
            res.notes.append("worker %d of %s exited %d: %s" % (w, h, p.returncode, so[-300:]))
            # a driver that dies is a broken check, not a pass
            res.violations.append(("driver-error", "", so[-300:]))
            print("ERROR: harness %s worker %d exited %d without verdict" % (h, w, p.returncode), flush=True)
    res.units.append({"unit": h, "kind": "rapidcheck+fork", "workers": W, "max_success_per_worker": per,
                      "wall_s": round(time.time() - t0, 1)})
    seen = set()
    for key, path, msg in falsified:
        if key in seen:
            continue
        seen.add(key)
        confirm_failure(res, findings, key, path, msg, unit)


def confirm_failure(res, findings, key, path, msg, unit=None):
    # real-thread harnesses (schedules sampled, oracle schedule independent) replay more often:
    # a race that shows in 1 of 10 runs is still a violation; one that never shows again is not reported
    runs = (unit or {}).get("confirm_runs", 3)
    r = replay_file(path, runs, timeout_ms=(unit or {}).get("timeout_ms"), prop=res.prop)
    need = (unit or {}).get("confirm", 2)
    if r["fails"] < need and os.path.exists(path + ".orig"):
        # the shrunk case does not fail in a fresh process: try the case that failed first (before shrinking)
        orig = path[:-5] + "-orig.json" if path.endswith(".json") else path + "-orig.json"
        os.replace(path + ".orig", orig)
        r2 = replay_file(orig, runs, timeout_ms=(unit or {}).get("timeout_ms"), prop=res.prop)
        if r2["fails"] >= need:
            path, r = orig, r2
            key = r2["key"] or key
            msg = r2["msg"] or msg
    if r["fails"] < need:
        res.notes.append("FLAKY: %s failed in search but reproduced %d/%d (%s)" % (key, r["fails"], runs, path))
        log("flaky, not reported:", key, r)
        return
    for f in findings:
        if f.status == "known" and f.key == key:
            res.known(f)
            return
    res.violation(key, path, msg)


def replay_tier(res, prop, findings, corpus_dir):
    """replay every saved case of this property; known entries print KNOWN-FINDING"""
    by_replay = {}
    for f in findings:
        if f.prop == prop and f.replay:
            by_replay[os.path.abspath(os.path.join(VERIF, f.replay))] = f
    files = sorted(glob.glob(os.path.join(corpus_dir, "*.json")))
    for p in files:
        try:
            d = json.load(open(p))
        except Exception:
            continue
        if "harness" not in d or not harness_exists(d["harness"]):
            continue
        f = by_replay.get(os.path.abspath(p))
        # saved schedule seeds reproduce only on an identical binary: sweep the
        # following schedule seeds of the same case as well
        r = replay_file(p, 1, prop=prop, sweep=int(d.get("sweep", 1 if d["harness"].startswith("py:") else 100)))
        if d["harness"].startswith("py:") and r["fails"] >= 1:
            r["fails"] = 2  # deterministic subject: one failing replay is a reproduction
        res.replayed += r["runs"]
        if r["fails"] >= 2:
            if f is not None and f.status == "known":
                res.known(f)
            else:
                k = next((x for x in findings if x.status == "known" and x.key == r["key"]), None)
                if k is not None:
                    res.known(k)
                else:
                    res.violation(r["key"], p, r["msg"] + (" (regression of fixed finding %s)" % f.key if f else ""))
        elif f is not None and f.status == "known":
            res.notes.append("known finding %s no longer reproduces from its replay" % f.key)
