"""Build orchestration: repo build variants (the repo's own CMake, out of tree
under /verif/_build/<variant>) and the harness binaries (generated ninja file
with depfiles, so edits to any Galois header rebuild the dependent harnesses).
Everything is rebuilt from /repo's current working tree on every check."""
import fcntl
import os
import subprocess
import sys
import time

VERIF = os.path.dirname(os.path.dirname(os.path.abspath(__file__)))
REPO = os.environ.get("VERIF_REPO", "/repo")
BUILD = os.path.join(VERIF, "_build")

GUARD = "-DGALOIS_VERIF"
# GALOIS_HAVE_PTHREAD: this CMake version no longer sets CMAKE_HAVE_PTHREAD_H,
# so the pthread barrier would be compiled out; define it so that the code the
# property names is part of what is tested.
COMMON_DEFS = GUARD + " -DGALOIS_HAVE_PTHREAD"

SCHED_FLAGS = ("-O1 -g -UNDEBUG -fsanitize=thread -mllvm -tsan-distinguish-volatile=1 "
               "-mllvm -tsan-instrument-func-entry-exit=0 " + COMMON_DEFS)
FUZZ_FLAGS = ("-O1 -g -UNDEBUG -fsanitize=fuzzer-no-link,address,undefined "
              "-fno-sanitize-recover=undefined -fno-omit-frame-pointer " + COMMON_DEFS)
NATIVE_FLAGS = "-O2 -g " + COMMON_DEFS

# same as sched but with assertions compiled out, like the baseline build:
# assert(is_locked()) in the lock fast paths performs an acquire load that
# would hide a missing acquire from the happens-before tracker
SCHEDN_FLAGS = SCHED_FLAGS.replace("-UNDEBUG", "-DNDEBUG")
VARIANTS = {
    "sched": dict(cxx="clang++", cc="clang", flags="-Wno-error " + SCHED_FLAGS, extra=[]),
    "schedn": dict(cxx="clang++", cc="clang", flags="-Wno-error " + SCHEDN_FLAGS, extra=[]),
    "fuzz": dict(cxx="clang++", cc="clang", flags="-Wno-error " + FUZZ_FLAGS, extra=[]),
    # library, tools and applications are built the way the baseline builds
    # them (assertions off: what a user runs); harness TUs re-enable asserts
    "native": dict(cxx="g++", cc="gcc", flags="-Wno-error " + NATIVE_FLAGS + " -DNDEBUG",
                   extra=["-DGALOIS_ENABLE_DIST=ON"]),
}


def log(*a):
    print("[build]", *a, file=sys.stderr, flush=True)


class Lock:
    def __init__(self, name):
        os.makedirs(BUILD, exist_ok=True)
        self.path = os.path.join(BUILD, name + ".lock")

    def __enter__(self):
        self.f = open(self.path, "w")
        fcntl.flock(self.f, fcntl.LOCK_EX)
        return self

    def __exit__(self, *a):
        fcntl.flock(self.f, fcntl.LOCK_UN)
        self.f.close()


def run(cmd, **kw):
    t = time.time()
    p = subprocess.run(cmd, stdout=subprocess.PIPE, stderr=subprocess.STDOUT, text=True, **kw)
    if p.returncode != 0:
        sys.stderr.write(p.stdout[-6000:])
        raise SystemExit("build step failed: %s" % (cmd if isinstance(cmd, str) else " ".join(cmd)))
    return time.time() - t


def variant_dir(v):
    return os.path.join(BUILD, v)


def ensure_variant(v, targets):
    """configure (once) and build `targets` of the repo in variant v"""
    d = variant_dir(v)
    spec = VARIANTS[v]
    with Lock("variant-" + v):
        if not os.path.exists(os.path.join(d, "build.ninja")):
            log("configuring variant", v)
            run(["cmake", "-G", "Ninja", "-S", REPO, "-B", d,
                 "-DCMAKE_BUILD_TYPE=RelWithDebInfo",
                 "-DCMAKE_CXX_COMPILER=" + spec["cxx"], "-DCMAKE_C_COMPILER=" + spec["cc"],
                 "-DCMAKE_CXX_FLAGS=" + spec["flags"],
                 "-DCMAKE_CXX_FLAGS_RELWITHDEBINFO="] + spec["extra"])
        dt = run(["ninja", "-C", d] + list(targets))
        if dt > 2:
            log("variant %s targets %s built in %.1fs" % (v, " ".join(targets), dt))
    return d


# ---------------------------------------------------------------- harnesses
# kind -> (compiler, compile flags, variant, link line suffix)
def _inc(v, extra=()):
    d = variant_dir(v)
    incs = ["-I%s/libgalois/include" % REPO, "-I%s/libgalois/include" % d,
            "-I%s/libsupport/include" % REPO,
            "-I%s/engine/gsched" % VERIF, "-I%s/harness/common" % VERIF]
    incs += list(extra)
    return " ".join(incs)


DIST_INCS = ["-I%s/libdist/include" % REPO, "-I%s/libcusp/include" % REPO,
             "-I%s/libgluon/include" % REPO, "-I/usr/lib/x86_64-linux-gnu/openmpi/include"]


def harness_ninja(harnesses):
    """harnesses: list of dict(name, kind, srcs, [libs])"""
    hd = os.path.join(BUILD, "harness")
    os.makedirs(hd, exist_ok=True)
    L = []
    L.append("rule cxx_sched\n  command = clang++ -std=c++17 %s -march=native %s $defs -MD -MF $out.d -c $in -o $out\n  depfile = $out.d\n  deps = gcc\n"
             % (SCHED_FLAGS, _inc("sched")))
    L.append("rule cxx_schedn\n  command = clang++ -std=c++17 %s -march=native %s $defs -MD -MF $out.d -c $in -o $out\n  depfile = $out.d\n  deps = gcc\n"
             % (SCHEDN_FLAGS, _inc("schedn")))
    L.append("rule link_schedn\n  command = clang++ -g $in %s/libgalois/libgalois_shmem.a -lrapidcheck -lnuma -lpthread -ldl -o $out\n" % variant_dir("schedn"))
    L.append("rule cxx_fuzz\n  command = clang++ -std=c++17 %s -march=native %s $defs -MD -MF $out.d -c $in -o $out\n  depfile = $out.d\n  deps = gcc\n"
             % (FUZZ_FLAGS.replace("fuzzer-no-link", "fuzzer"), _inc("fuzz", DIST_INCS)))
    L.append("rule cxx_asan\n  command = clang++ -std=c++17 %s -march=native %s $defs -MD -MF $out.d -c $in -o $out\n  depfile = $out.d\n  deps = gcc\n"
             % (FUZZ_FLAGS, _inc("fuzz", DIST_INCS)))
    L.append("rule link_asan\n  command = clang++ -g -fsanitize=address,undefined $in gsched_stub.o %s/libgalois/libgalois_shmem.a $libs -lrapidcheck -lnuma -lpthread -ldl -o $out\n" % variant_dir("fuzz"))
    L.append("rule cxx_native\n  command = g++ -std=c++17 %s -UNDEBUG -march=native %s $defs -MD -MF $out.d -c $in -o $out\n  depfile = $out.d\n  deps = gcc\n"
             % (NATIVE_FLAGS, _inc("native", DIST_INCS)))
    # distributed (MPI) harness built like a lonestar distributed application
    nat = variant_dir("native")
    L.append("rule cxx_dist\n  command = g++ -std=c++17 -Wno-error -O1 -g %s -DNDEBUG -march=native -I%s/libgluon/include -I%s/libgalois/include -I%s/libgalois/include "
             "-I%s/libpygalois/include -I%s/lonestar/libdistbench/include -I%s/libcusp/include -I%s/libdist/include -isystem /usr/lib/llvm-14/include "
             "-isystem /usr/lib/x86_64-linux-gnu/openmpi/include -isystem /usr/lib/x86_64-linux-gnu/openmpi/include/openmpi $defs -MD -MF $out.d -c $in -o $out\n"
             "  depfile = $out.d\n  deps = gcc\n" % (COMMON_DEFS, REPO, REPO, nat, REPO, REPO, REPO, REPO))
    L.append("rule link_dist\n  command = g++ -g $in -o $out -Wl,-rpath,/usr/lib/x86_64-linux-gnu/openmpi/lib %s/libgalois/libgalois_shmem.a /usr/lib/llvm-14/lib/libLLVMSupport.a "
             "%s/lonestar/libdistbench/libdistbench.a /usr/lib/llvm-14/lib/libLLVMSupport.a -ldl -lm /usr/lib/x86_64-linux-gnu/libz.so /usr/lib/x86_64-linux-gnu/libtinfo.so "
             "/usr/lib/llvm-14/lib/libLLVMDemangle.a %s/libgluon/libgalois_gluon.a %s/libdist/libgalois_dist_async.a %s/libgalois/libgalois_shmem.a -lrt "
             "/usr/lib/x86_64-linux-gnu/libnuma.so /usr/lib/x86_64-linux-gnu/openmpi/lib/libmpi_cxx.so /usr/lib/x86_64-linux-gnu/openmpi/lib/libmpi.so -lpthread\n"
             % (nat, nat, nat, nat, nat))
    L.append("rule cxx_gsched\n  command = g++ -std=c++17 -O2 -g -I%s/engine/gsched -MD -MF $out.d -c $in -o $out\n  depfile = $out.d\n  deps = gcc\n" % VERIF)
    L.append("rule link_sched\n  command = clang++ -g $in %s/libgalois/libgalois_shmem.a -lrapidcheck -lnuma -lpthread -ldl -o $out\n" % variant_dir("sched"))
    L.append("rule link_fuzz\n  command = clang++ -g -fsanitize=fuzzer,address,undefined $in %s/libgalois/libgalois_shmem.a $libs -lnuma -lpthread -ldl -o $out\n" % variant_dir("fuzz"))
    L.append("rule link_native\n  command = g++ -g $in $libs %s/libgalois/libgalois_shmem.a -lrapidcheck -lnuma -lpthread -ldl -o $out\n" % variant_dir("native"))
    L.append("build gsched.o: cxx_gsched %s/engine/gsched/gsched.cpp\n" % VERIF)
    # a stub so that native (real-thread) builds of E1 harnesses link
    L.append("build gsched_stub.o: cxx_gsched %s/engine/gsched/gsched_stub.cpp\n" % VERIF)
    for h in harnesses:
        kind = h["kind"]
        objs = []
        for s in h["srcs"]:
            o = "%s.%s.o" % (h["name"], os.path.basename(s).replace(".cpp", ""))
            L.append("build %s: cxx_%s %s/%s\n  defs = %s\n" % (o, kind, VERIF, s, " ".join(h.get("defs", []))))
            objs.append(o)
        libs = " ".join(h.get("libs", []))
        if kind == "sched":
            L.append("build %s: link_sched %s gsched.o | %s/libgalois/libgalois_shmem.a\n" % (h["name"], " ".join(objs), variant_dir("sched")))
        elif kind == "dist":
            L.append("build %s: link_dist %s | %s/libgalois/libgalois_shmem.a %s/libgluon/libgalois_gluon.a %s/libdist/libgalois_dist_async.a %s/lonestar/libdistbench/libdistbench.a\n"
                     % (h["name"], " ".join(objs), nat, nat, nat, nat))
        elif kind == "schedn":
            L.append("build %s: link_schedn %s gsched.o | %s/libgalois/libgalois_shmem.a\n" % (h["name"], " ".join(objs), variant_dir("schedn")))
        elif kind == "asan":
            L.append("build %s: link_asan %s | gsched_stub.o %s/libgalois/libgalois_shmem.a\n  libs = %s\n" % (h["name"], " ".join(objs), variant_dir("fuzz"), libs))
        elif kind == "fuzz":
            L.append("build %s: link_fuzz %s gsched_stub.o | %s/libgalois/libgalois_shmem.a\n  libs = %s -lrapidcheck\n" % (h["name"], " ".join(objs), variant_dir("fuzz"), libs))
        else:
            L.append("build %s: link_native %s gsched_stub.o | %s/libgalois/libgalois_shmem.a\n  libs = %s\n" % (h["name"], " ".join(objs), variant_dir("native"), libs))
    txt = "".join(L)
    p = os.path.join(hd, "build.ninja")
    old = open(p).read() if os.path.exists(p) else None
    if old != txt:
        open(p, "w").write(txt)
    return hd


def build_harnesses(all_harnesses, names):
    with Lock("harness"):
        hd = harness_ninja(all_harnesses)
        dt = run(["ninja", "-C", hd] + list(names))
        if dt > 2:
            log("harnesses %s built in %.1fs" % (" ".join(names), dt))
    return hd
