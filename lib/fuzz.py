"""Runner for libFuzzer builds of the in-process harnesses (-DVERIF_LIBFUZZER adapter in
harness/common/verif_e1.h).  Coverage-guided campaigns bounded by -runs; failures are
written by the adapter as the same JSON replay files the rapidcheck driver uses."""
import glob
import json
import os
import re
import shutil
import subprocess
import time

from . import runner


def run_unit(res, unit, findings, tier, seed, tmp):
    h = unit["harness"]  # the libFuzzer binary, e.g. c14bfz; replays go through unit["replay_harness"]
    W = min(runner.NCPU, unit.get("workers", runner.NCPU))
    per = max(1, unit[tier] // W)
    excl = [f.key for f in findings if f.status == "known"] + unit.get("exclude", [])
    procs = []
    t0 = time.time()
    # starting corpus: cases drawn from the rapidcheck generator of the same harness, in the
    # byte encoding of the libFuzzer adapter (half the workers start from them, half from empty)
    seeds_dir = os.path.join(tmp, "%s-seeds" % h)
    os.makedirs(seeds_dir, exist_ok=True)
    rc_h = unit.get("seed_harness", h[:-2] if h.endswith("fz") else None)
    if rc_h and runner.harness_exists(rc_h):
        env = dict(os.environ)
        env.update({"RC_PARAMS": "seed=%d max_success=%d max_size=%d" % (seed * 1000 + 777, unit.get("seeds", 300), unit.get("seed_size", 60)),
                    "VERIF_PROP": res.prop, "VERIF_EXCLUDE": ",".join(excl)})
        subprocess.run(runner.harness_cmd(rc_h) + ["--seeds", seeds_dir], stdout=subprocess.DEVNULL, stderr=subprocess.DEVNULL, env=env)
        maxlen = unit.get("max_len", 1200)
        for f in glob.glob(os.path.join(seeds_dir, "*")):
            if os.path.getsize(f) > maxlen:
                os.unlink(f)
    nseeds = len(os.listdir(seeds_dir))
    for w in range(W):
        cdir = os.path.join(tmp, "%s-corpus-%d" % (h, w))
        os.makedirs(cdir, exist_ok=True)
        if w % 2 == 1 and os.path.isdir(seeds_dir):  # half the workers start from the generated seeds, half from empty
            for f in glob.glob(os.path.join(seeds_dir, "*")):
                shutil.copy(f, cdir)
        env = dict(os.environ)
        stats = os.path.join(tmp, "%s-w%d.json" % (h, w))
        env.update({"VERIF_STATS": stats, "VERIF_REPLAY_DIR": tmp, "VERIF_EXCLUDE": ",".join(excl), "VERIF_PROP": res.prop,
                    "VERIF_TMP": tmp, "ASAN_OPTIONS": "detect_leaks=0:abort_on_error=1", "UBSAN_OPTIONS": "halt_on_error=1"})
        s = seed * 1000 + w + 1  # never 0 (= random for libFuzzer)
        cmd = [runner.harness_path(h), "-runs=%d" % per, "-seed=%d" % s, "-max_len=%d" % unit.get("max_len", 1200),
               "-artifact_prefix=%s/" % cdir, "-print_final_stats=1", "-timeout=60", "-len_control=0", cdir]
        procs.append((w, stats, cdir, subprocess.Popen(cmd, stdout=subprocess.PIPE, stderr=subprocess.STDOUT, text=True, env=env)))
    falsified = []
    cov = 0
    for w, stats, cdir, p in procs:
        so, _ = p.communicate()
        if os.path.exists(stats):
            try:
                res.merge_stats(json.load(open(stats)), h)
            except Exception as e:
                res.notes.append("fuzz worker %d stats unreadable: %s" % (w, e))
        m = re.search(r"FALSIFIED harness=\S+ key=(\S+) replay=(\S+) msg=(.*)", so)
        if m:
            falsified.append(m.groups())
        else:
            arts = [a for a in glob.glob(os.path.join(cdir, "crash-*")) + glob.glob(os.path.join(cdir, "leak-*"))]
            for a in arts[:1]:  # sanitizer abort: decode the artifact into a replay file
                rp = os.path.join(tmp, "%s-artifact-%d.json" % (h, w))
                env2 = dict(os.environ)
                env2.update({"VERIF_DUMP_CASE": rp, "VERIF_EXCLUDE": ",".join(excl)})
                subprocess.run([runner.harness_path(h), a], stdout=subprocess.DEVNULL, stderr=subprocess.DEVNULL, env=env2)
                if os.path.exists(rp):
                    d = json.load(open(rp))
                    falsified.append((d.get("finding_key", "crash"), rp, "sanitizer abort under libFuzzer"))
            if not arts and p.returncode != 0:
                res.notes.append("fuzz worker %d of %s exited %d: %s" % (w, h, p.returncode, so[-300:]))
        mc = re.findall(r"cov: (\d+)", so)
        if mc:
            cov = max(cov, int(mc[-1]))
    res.units.append({"unit": h, "kind": "libFuzzer (coverage guided, ASan+UBSan)", "workers": W, "runs_per_worker": per,
                      "max_edge_coverage": cov, "generated_seed_inputs": nseeds, "wall_s": round(time.time() - t0, 1)})
    seen = set()
    for key, path, msg in falsified:
        if key in seen:
            continue
        seen.add(key)
        runner.confirm_failure(res, findings, key, path, msg, dict(unit, confirm=1))
