"""Registry: harness binaries and, per property, the units a check runs."""

HARNESSES = [
    dict(name="c03", kind="sched", srcs=["harness/c03/c03_doall.cpp"]),
    dict(name="c04", kind="sched", srcs=["harness/c04/c04_term.cpp"]),
    dict(name="c06", kind="schedn", srcs=["harness/c06/c06_locks.cpp"]),
    dict(name="c10", kind="sched", srcs=["harness/c10/c10_morph.cpp"]),
    dict(name="dharness", kind="dist", srcs=["harness/dist/dharness.cpp"]),
    dict(name="netharness", kind="dist", srcs=["harness/dist/netharness.cpp"]),
    dict(name="dreduce", kind="dist", srcs=["harness/dist/dreduce.cpp"]),
    dict(name="c14a", kind="asan", srcs=["harness/c14/c14a_seq.cpp"]),
    dict(name="c14afz", kind="fuzz", srcs=["harness/c14/c14a_seq.cpp"], defs=["-DVERIF_LIBFUZZER"]),
    dict(name="c17a", kind="asan", srcs=["harness/c17/c17a_serialize.cpp"]),
    dict(name="c17afz", kind="fuzz", srcs=["harness/c17/c17a_serialize.cpp"], defs=["-DVERIF_LIBFUZZER"]),
    dict(name="c09", kind="asan", srcs=["harness/c09/c09_alloc.cpp"]),
    dict(name="c09s", kind="sched", srcs=["harness/c09/c09s_perbackend.cpp"]),
    dict(name="c11", kind="asan", srcs=["harness/c11/c11_graphs.cpp", "harness/c11/c11_graphs_b.cpp", "harness/c11/c11_graphs_c.cpp"]),
    dict(name="c11s", kind="sched", srcs=["harness/c11/c11s_transpose.cpp"]),
    dict(name="c11fz", kind="fuzz", srcs=["harness/c11/c11_graphs.cpp", "harness/c11/c11_graphs_b.cpp", "harness/c11/c11_graphs_c.cpp"], defs=["-DVERIF_LIBFUZZER"]),
    dict(name="c12a", kind="asan", srcs=["harness/c12/c12a_filegraph.cpp"]),
    dict(name="c12afz", kind="fuzz", srcs=["harness/c12/c12a_filegraph.cpp"], defs=["-DVERIF_LIBFUZZER"]),
    dict(name="c14b", kind="asan", srcs=["harness/c14/c14b_assoc.cpp"]),
    dict(name="c14bfz", kind="fuzz", srcs=["harness/c14/c14b_assoc.cpp"], defs=["-DVERIF_LIBFUZZER"]),
    dict(name="c05", kind="sched", srcs=["harness/c05/c05_barrier.cpp"]),
    dict(name="c04h", kind="native", srcs=["harness/c04/c04h_history.cpp"]),
    dict(name="c16", kind="native", srcs=["harness/c16/c16_pstl.cpp"]),
    dict(name="c16e1", kind="sched", srcs=["harness/c16/c16_pstl.cpp"], defs=["-DC16_E1"]),
    dict(name="c15", kind="native", srcs=["harness/c15/c15_reduce.cpp"]),
    dict(name="c15s", kind="sched", srcs=["harness/c15/c15s_atomics.cpp"]),
    dict(name="c13", kind="native", srcs=["harness/c13/c13_divide.cpp"]),
    dict(name="c07", kind="sched", srcs=["harness/foreach/c07_main.cpp"]),
    dict(name="foreach", kind="sched",
         srcs=["harness/foreach/fe_main.cpp", "harness/foreach/fe_op.cpp", "harness/foreach/fe_wl.cpp",
               "harness/foreach/fe_wl_a.cpp", "harness/foreach/fe_wl_b.cpp", "harness/foreach/fe_wl_c.cpp",
               "harness/foreach/fe_wl_d.cpp"]),
]

# variant -> repo targets needed
PROPS = {
    "C03": dict(
        variants={"sched": ["galois_shmem"]},
        units=[dict(type="rc", harness="c03", quick=36000, thorough=500000)],
        engine="gsched+rapidcheck",
        technique="property-based testing: rapidcheck-generated sequences of parallel regions (do_all over 7 range kinds, on_each, raw pool run, for_each) with changing thread counts, chunk sizes, stealing and busy-wait mode under controlled schedules and synthetic topologies; exactly-once counter oracle checked at return, vector-clock check of the entry and return edges",
        rule=("cases = (topology, 1..4 consecutive regions each with kind/threads/size/chunk/steal, busy-wait toggles, bag fill thread "
              "count, schedule); sizes from {0,1,<threads,chunk+-1,k*chunk+r,<400}; non-trivial = a region with >=2 threads in which a "
              "steal was observed (element executed by another thread than its block owner) or whose thread count differs from the "
              "previous region's; distinct = hash of the case"),
        level_text=("Generated search; oracle: per-element visit counters == 1 and nothing else touched at the instant the call returns, "
                    "on_each ids/thread identity/active count, no invocation after its region returned, payload written by the caller "
                    "before the region readable by workers and worker writes readable by the caller without a happens-before race. "
                    "Exploration only."),
        level_note="trusted: gsched, TSan instrumentation, hooks; ranges up to 400 elements under the scheduler",
        assumptions=["while busy-waiting (burnPower) every region uses the thread count given to burnPower (asserted by the pool)",
                     "InsertBag iterated with at least as many active threads as filled it, when the known finding is listed"],
    ),
    "C04": dict(
        variants={"sched": ["galois_shmem"], "native": ["galois_shmem"]},
        units=[dict(type="rc", harness="c04", quick=60000, thorough=800000),
               dict(type="rc", harness="c04h", quick=240000, thorough=3600000, workers=8)],
        engine="gsched+rapidcheck; rapidcheck history generator (in-process)",
        technique="stateful property-based testing: (c04h) rapidcheck-generated HISTORIES -- lists of thread ids, each entry advancing that pool thread by one step of the executor loop (process one unit | empty pop | localTermination) with the detector called on the real pool threads one step at a time, followed by fair sweeps; (c04) rapidcheck-generated work-passing histories (per-thread mailboxes, PRF fan-out to arbitrary threads incl. ones that already reported idle) driven through the real ring and tree detectors under controlled schedules; ledger oracle for soundness, epoch-bounded announcement for liveness, re-arming across rounds with changing thread counts",
        rule=("cases = (ring|tree detector, topology, 1..4 consecutive rounds with thread counts 1..8, initial units per thread, fan-out, "
              "depth, delays, work seed, schedule); non-trivial = >=2 threads AND a unit was delivered to another thread after that "
              "thread had already reported idle in the round; distinct = hash of the case"),
        level_text=("Soundness: whenever a thread observes globalTermination() the ledger (sent - processed, mailboxes, in-flight) is zero. "
                    "Liveness: after quiescence, termination is announced before every thread has made 8n+8 further idle reports (fair "
                    "tail enforced by the engine), and the run ends within the engine's step bound. Reuse: same oracles in every round "
                    "after initializeThread on all threads + barrier. Exploration only."),
        level_note="trusted: gsched (volatile accesses of the tree detector are scheduling points), harness mailboxes; the liveness bound is a bound on fair schedules of this harness, not a proof",
        assumptions=["every thread follows the executor's protocol: drain, then localTermination(didWork), until globalTermination()",
                     "re-arming = initializeThread() on every participant followed by a barrier, as the executors do"],
    ),
    "C05": dict(
        variants={"sched": ["galois_shmem"]},
        units=[dict(type="rc", harness="c05", quick=40000, thorough=600000)],
        rule=("cases = (barrier implementation, synthetic topology, 1..4 regions with participant counts and "
              "1..12 phases each, per-thread delay seed, schedule strategy/params/seed) generated by rapidcheck and "
              "executed in a forked child under the gsched scheduler; non-trivial = >=2 participants, >=2 phases and "
              "a thread entered phase k+1 before another thread had left phase k; distinct = hash of the full case "
              "descriptor incl. schedule seed"),
        engine="gsched+rapidcheck",
        technique="property-based testing: rapidcheck-generated barrier programs and schedules executed under a schedule-owning runtime, phase-separation + vector-clock happens-before oracle, shrinking to a replay file",
        level_text=("Generated search over barrier implementation x topology x participant counts x phases x reinit sequences x "
                    "thread schedules (random walk, PCT, round robin; spurious wake-ups; plain-access preemption). Oracle: arrival "
                    "counts at departure, stamps readable without a happens-before race, deadlock / spin-deadlock detection. "
                    "Exploration, not proof: finds interleaving bugs of small preemption depth with high probability."),
        level_note=("trusted: gsched runtime (mutex/condvar/barrier models, HB rules), clang TSan instrumentation, "
                    "GALOIS_VERIF hooks (spin, topology); SC interleavings only"),
        assumptions=["gsched serialises threads at atomic/volatile/mutex/condvar/spin points: SC interleavings only",
                     "happens-before judged by vector clocks over declared memory orders (DESIGN 3.1.3)",
                     "pthread barrier compiled in by defining GALOIS_HAVE_PTHREAD (the CMake in this image leaves it out)",
                     "synthetic topologies through the GALOIS_VERIF_TOPO hook"],
    ),
    "C01": dict(
        variants={"sched": ["galois_shmem"]},
        units=[dict(type="rc", harness="foreach", quick=36000, thorough=500000)],
        engine="gsched+rapidcheck",
        technique="property-based testing: rapidcheck-generated operator programs x 34 worklist configurations x topologies x schedules under a schedule-owning runtime; reference-closure oracle (every expected item commits exactly once, nothing else runs), bounded-liveness rule, shrinking to a replay file",
        rule=("cases = (worklist, synthetic topology, threads, conflict detection on/off, PRF-defined item forest: initial items, "
              "fan-out, depth, neighbourhoods, push positions, voluntary aborts, per-iteration allocator use; schedule "
              "strategy/params/seed); non-trivial = >=2 threads committed items AND >=1 pushed item committed AND (>=1 abort "
              "or >=1 item executed by a thread other than the one that pushed it); distinct = hash of the full case descriptor"),
        level_text=("Generated search over operator programs, all shipped worklist types/parameterisations the harness instantiates, "
                    "1..8 threads, 11 socket topologies (incl. uneven and 3-4 sockets) and thread schedules (random walk / PCT / round "
                    "robin, plain-access preemption). Oracle: sequentially computed closure of the program; committed==1 for every "
                    "expected item, no poison/unknown item, checked right after for_each returns; deadlock, spin-deadlock and the "
                    "bounded no-return rule (10^6 fair steps after the last commit). Exploration only."),
        level_note=("trusted: gsched runtime, clang TSan instrumentation, GALOIS_VERIF hooks; worklists parameterised by types the "
                    "harness does not instantiate are not covered; SC interleavings at the engine's scheduling points"),
        assumptions=["operators are cautious and hold no object with a destructor across an acquire (longjmp aborts)",
                     "voluntary ctx.abort() only with conflict detection and >=2 threads (with one thread the executor installs no abort frame)",
                     "OBIM indices >= 1 (the index type's minimum is reserved by the monotonic assertion); monotone programs for the monotonic/barrier variants",
                     "closure limited to 600 items per case"],
    ),
    "C02": dict(
        variants={"sched": ["galois_shmem"]},
        units=[dict(type="rc", harness="foreach", quick=30000, thorough=400000)],
        engine="gsched+rapidcheck",
        technique="property-based testing: generated cautious operator programs over shared lockables under controlled schedules; ownership-stamp, clean-abort, quiescence and commit-order serialisability (sequential replay of the ticket log) oracles; HB tracker on the object payload",
        rule=("cases as C01 restricted to conflict detection on and >=2 threads (bulk-synchronous scheduling not generated, see DESIGN 7.3); "
              "non-trivial = >=1 conflict abort (attempts beyond the voluntary ones) AND >=2 committed iterations shared an object; "
              "distinct = hash of the full case descriptor"),
        level_text=("Generated search over cautious operator programs with overlapping neighbourhoods (re-acquisition, voluntary aborts, "
                    "per-iteration allocations), worklists, threads 2..8, topologies (select basic vs double abort policy) and schedules. "
                    "Oracles: owner==context at commit point, stamps intact across scheduling points, nothing owned at attempt entry, poison "
                    "pushes never run, all objects free after return, final payload == sequential replay in commit order, hand-over is "
                    "happens-before (vector clocks over declared memory orders). Exploration only."),
        level_note="trusted: gsched runtime and HB rules, TSan instrumentation, hooks; READ/WRITE both lock in this runtime, UNPROTECTED paths are not generated",
        assumptions=["same operator preconditions as C01", "payload cells live in the HB-checked arena; harness bookkeeping is invisible to scheduler and tracker"],
    ),
    "C06": dict(
        variants={"sched": ["galois_shmem"], "schedn": ["galois_shmem"]},
        units=[dict(type="rc", harness="c06", quick=24000, thorough=360000),
               dict(type="rc", harness="foreach", quick=10000, thorough=150000, exclude=["C01/BulkSynchronous+conflicts/lost-item"]),
               dict(type="rc", harness="c05", quick=10000, thorough=150000),
               dict(type="rc", harness="c03", quick=10000, thorough=150000, exclude=["C03/do_all-InsertBag/fewer-active-threads", "C03/runDedicated-after-setActiveThreads/stale-active-count"])],
        engine="gsched+rapidcheck",
        technique="property-based testing: generated lock scripts (SimpleLock, PtrLock incl. unlock_and_set/clear/setValue/CAS, PaddedLock, ThreadRWlock, lock_guard) and generated programs around every promised edge under controlled schedules; mutual-exclusion counter oracle + vector-clock happens-before tracker that honours each operation's declared memory_order, applied to harness payload cells",
        rule=("unit c06: (lock kind, 2..6 threads, 1..12 operations per thread, critical-section delays, schedule); non-trivial = lock handed "
              "between different threads AND a preemption inside a critical section. Units foreach/c05/c03 re-run the C01/C05/C03 "
              "generators for their payload checks: worklist push->pop cells, lockable hand-over (stamp/value cells), barrier stamps, "
              "loop entry/return cells; their non-triviality rules are those of C01/C05/C03. distinct = hash of the case per unit"),
        level_text=("Mutual exclusion by in-section counters (readers/writer rules for the RW lock), lost-update check on a plain counter, "
                    "eventual admission by deadlock/spin-deadlock detection and the bounded fair tail; every promised edge (lock "
                    "release->acquire, lockable hand-over, barrier arrival->departure, loop entry/return in sleep and busy-wait mode, "
                    "worklist push->pop on 34 worklists) judged by vector clocks over the memory orders the code requests. SC "
                    "interleavings only; non-SC outcomes are represented through the HB judgement, not executed."),
        level_note="trusted: the HB rules of DESIGN 3.1.3 (C++20 release sequences, fences), gsched, TSan instrumentation (every atomic arrives with its declared order)",
        assumptions=["only harness-declared payload is race-checked; intentional benign races inside the runtime are not reported",
                     "out-of-scope configurations of the reused generators (C01/C03 known findings) are excluded by construction"],
    ),
    "C07": dict(
        variants={"sched": ["galois_shmem"]},
        units=[dict(type="rc", harness="c07", quick=9000, thorough=135000)],
        engine="gsched+rapidcheck",
        technique="property-based testing with a differential/metamorphic oracle: each generated cautious program (non-commutative updates, dynamic work creation) is executed 3-4 times under the deterministic scheduler with different thread counts and fresh interleavings; per-object commit sequences, final state and executed item multiset must be identical; C01/C02 oracles inside each execution; HB check of the object payload",
        rule=("cases = (trait variant plain|det_id|fixed_neighborhood|local_state|det_parallel_break|per_iter_alloc, 3-4 executions with "
              "thread counts from {1,2,3,4,8}, program: initial items, fan-out, depth, objects, neighbourhood size, delays, break "
              "threshold; schedule); non-trivial = an execution with >=2 threads AND >=2 committed items shared an object AND >=1 child "
              "was created; distinct = hash of the case"),
        level_text=("Differential across executions of the same program in one process (the scheduler's random stream gives each execution "
                    "new interleavings): commit order per object, final values, executed multiset, and with det_parallel_break the set "
                    "committed before the break. Exploration only."),
        level_note="trusted: gsched, the program model; intent_to_read is not instantiated; the fixed_neighborhood (DAG) variant is a known finding and excluded by construction while listed",
        assumptions=["operators follow the applications' deterministic style: acquire neighbourhood, ctx.cautiousPoint(), then writes and pushes that are functions of the item only",
                     "distinct item ids; det_id is injective; fixed_neighborhood requires det_id (static_assert)"],
    ),
    "C08": dict(
        variants={"sched": ["galois_shmem"]},
        units=[dict(type="rc", harness="foreach", quick=14000, thorough=200000)],
        engine="gsched+rapidcheck",
        technique="property-based testing: generated monotone operator programs on BulkSynchronous and OBIM-with-barrier under controlled schedules; event-log oracle on the engine's logical clock (no start of a later level while an earlier level's item is unfinished) plus the C01 conservation oracle",
        rule=("cases = level-synchronous worklists only (BulkSynchronous<FIFO4|LIFO1>, OBIM with_barrier plain/monotonic/descending), "
              "monotone priority programs, 2..8 threads, topologies, schedules; non-trivial = >=2 threads executed items AND >=3 "
              "distinct levels AND some level was executed by >=2 threads; distinct = hash of the case descriptor"),
        level_text=("Generated search; oracle compares first-start and operator-end clocks of all item pairs: bulk-synchronous rounds by "
                    "depth, priority levels for OBIM+barrier (an item counts as existing once its parent's operator ended). "
                    "Conservation as C01. Exploration only."),
        level_note="trusted: as C01; operator end is used as a sound under-approximation of the runtime's commit",
        assumptions=["programs create only work of strictly later level than their own", "as C01"],
    ),
    "C09": dict(
        variants={"fuzz": ["galois_shmem"], "sched": ["galois_shmem"]},
        units=[dict(type="rc", harness="c09", quick=24000, thorough=360000, enumerate=True),
               dict(type="rc", harness="c09s", quick=20000, thorough=300000)],
        engine="rapidcheck + fork per case (ASan+UBSan) + gsched",
        technique="model-based property testing: rapidcheck-generated allocation histories (alloc/free/clear, sizes at every class boundary, operations assigned to threads, cross-thread frees, storage create/destroy/move) executed in a fresh forked child per case against every Galois allocator; shadow interval map + per-block canaries re-verified after every step; real-thread rounds for the concurrent part; the per-thread-storage offset allocator (lock-free bump pointer + locked free list) additionally under the gsched schedule explorer with generated per-thread allocate/release lists on an almost full page",
        rule=("cases = (allocator family, topology 4|2,2|1,1,1,1|3,1, threads 1..4, operation list in the tail); non-trivial = a free/clear "
              "followed by a later allocation of the same size class, or a cross-thread free, or a size on a class boundary (<=1, 2^k, "
              "2^k+-1, within a few bytes of the 2 MB page); distinct = hash of the case"),
        level_text=("Oracle: every block non-null (size>0), aligned (8 B heaps, 128 B storage offsets with offset+size<=2 MB, 2 MB page pool "
                    "pages after a raw-mmap probe), mapped, disjoint from all live blocks, canaries intact after every step, not crossing "
                    "its pool page, reused only after free, bump blocks live until clear, per-iteration blocks intact until the iteration "
                    "ends, two-argument allocate returns 0 < allocated <= size. Exploration only."),
        level_note="trusted: the shadow map/canary oracle; process-global allocators get a fresh process per case; the concurrent part uses real threads (schedules sampled) with a schedule-independent oracle",
        assumptions=["one-argument bump allocations above a page abort by documented design and are not generated",
                     "'per-thread storage out of memory' (documented fragmentation limit) ends a case without verdict"],
    ),
    "C10": dict(
        variants={"sched": ["galois_shmem"]},
        units=[dict(type="rc", harness="c10", quick=16000, thorough=240000)],
        engine="gsched+rapidcheck",
        technique="model-based property testing: rapidcheck-generated cautious mutation programs (add/remove node, addEdge with duplicate check, addMultiEdge, removeEdge, findEdge, edge/node data updates, neighbour scans) inside for_each under controlled schedules; the commit-ticket log is replayed sequentially on a reference adjacency model and compared with a full structural dump through the public API, reads compared at their ticket",
        rule=("cases = (flavour directed|directed in/out|undirected|sorted neighbours|no-lockable(1 thread), threads 1..8, 1..12 initial "
              "nodes, initial edges, 1..149 PRF-defined operators over heavily overlapping node pairs, delays, schedule); non-trivial = "
              ">=2 threads AND >=1 conflict abort AND >=1 node removal AND >=1 duplicate-checked edge insertion; distinct = hash of case"),
        level_text=("Oracle: node set (each live node once), per node the multiset of (dst,data) out-edges and in-edges == serial replay in "
                    "commit order; findEdge/data/scan reads equal the model at their ticket; no edge to a removed node; sorted flavour in "
                    "destination order; an edge and its reverse entry share the same data cell (by address). Exploration only."),
        level_note="trusted: the reference model; Morph_SepInOut_Graph and MorphHyperGraph are not instantiated; self loops are not generated (an undirected self loop is stored as two entries)",
        assumptions=["operators are cautious: every node used is touched with getData(n, WRITE) (and scans iterate edges) before the commit point",
                     "removed nodes are never re-added; parallel edges of one pair carry equal data; where the implementation may legally pick either of several parallel edges the case is marked ambiguous and only structure is compared"],
    ),
    "C11": dict(
        variants={"fuzz": ["galois_shmem"], "sched": ["galois_shmem"]},
        units=[dict(type="rc", harness="c11", quick=24000, thorough=360000, workers=4, confirm_runs=40),
               dict(type="fuzz", harness="c11fz", quick=24000, thorough=360000, workers=4, max_len=300, confirm_runs=40),
               dict(type="rc", harness="c11s", quick=12000, thorough=180000)],
        engine="rapidcheck (in-process, real threads, ASan+UBSan) + libFuzzer + gsched",
        technique="property-based testing: rapidcheck-generated graphs (edge list in the case tail, written to .gr by the harness' own writer), edge-data types, 17 layout/construction kinds, option combinations, 1..16 construction threads on a 2x8 synthetic topology and a script of derived operations; oracle = reference adjacency lists built from the case, compared with a complete enumeration through the public graph API; libFuzzer explores the same decoder coverage-guided on graphs up to 64 nodes; the atomic-counter based builders (per-thread construction from a file, in-place transpose, in-edge construction by reference and by value) additionally run under the gsched schedule explorer with plain-access preemption on graphs up to 9 nodes",
        rule=("cases = (layout/construction kind, edge data void|uint32|int64|float|12-byte struct, option bits (NUMA blocked/interleaved, "
              "no-lockable, out-of-line locks, ids, file edge type ...), threads 1..16, node count 0..3000, data mode, up to four derived "
              "operations, edge triples); non-trivial = some node has >=2 out-edges AND (parallel edges, or a self loop, or an isolated "
              "last node, or >=2 construction threads); distinct = hash of the case"),
        level_text=("After construction: node count, edge count, per-node out-edges with destination and data (file order for the CSR "
                    "layouts, multiset for the others), degree, getEdgeData by value and reference; then the scripted derived operations "
                    "(in-edges of CSR+CSC / in-out graphs, in-place transpose, sortEdgesByDst / by data / sortAllEdgesByDst, in-edge sorting, "
                    "findEdge, findEdgeSortedByDst, findInEdge, second constructFrom on the same object, per-thread local ranges) are "
                    "compared with the model: permutations of the same multiset, exact membership answers, ranges that partition the nodes. "
                    "Construction interleavings are sampled with real threads in c11/c11fz and controlled by gsched in c11s (transpose, "
                    "constructIncomingEdges, readGraph of the CSR layouts). Exploration only."),
        level_note="trusted: the harness' .gr writer (harness/common/grfile.h, independent of the library) and the adjacency-list model; real threads (no schedule control) with a schedule-independent oracle",
        assumptions=["graphs up to 3000 nodes / 20000 edges", "constructFrom(arrays) cannot carry void edge data (no such container type): those kinds use uint32",
                     "LC_InOut_Graph over LC_Linear_Graph is built for void and uint32 edge data only"],
    ),
    "C12": dict(
        variants={"native": ["galois_shmem", "graph-convert", "graph-convert-huge"], "fuzz": ["galois_shmem"]},
        units=[dict(type="rc", harness="c12a", quick=24000, thorough=360000, workers=8),
               dict(type="fuzz", harness="c12afz", quick=6000, thorough=90000, workers=8, max_len=400),
               dict(type="hyp", harness="py:c12b", quick=2400, thorough=36000)],
        engine="hypothesis over subprocesses",
        technique="property-based testing: Hypothesis-generated text inputs (unambiguous grammar: blanks, CR/LF, comments, blank lines, missing weights, extra columns, id gaps, large ids, duplicates, self edges, no trailing newline) and binary .gr inputs written by an independent codec; graph-convert run as a subprocess; round-trip / reference-meaning oracle per conversion",
        rule=("cases = (conversion mode, edge type, up to 30 lines, CR/LF, trailing newline, inverse conversion, transforming "
              "conversion + parameter); non-trivial = >=3 edges AND (>=1 skipped line, or an odd edge count with edge data); distinct "
              "= sha1 of the case"),
        level_text=("Text->gr (edgelist2gr for all 7 edge types, csv2gr, dimacs2gr, mtx2gr, edgelist2binary): node count = max id+1, edge "
                    "multiset with weights, per-node input order. gr->text (7 inverse conversions): parsed output == graph. Transforms "
                    "(transpose, symmetrise, clean, sort by dst/weight/degree, random weights in range, big-endian, ring/line/tree "
                    "overlays): equal to the Python reference of the documented meaning. Exploration only."),
        level_note="trusted: the Python .gr codec (py/common.py) written from the documented layout; conversions whose help text does not fix the result (lowdegree, rand, part*) are only run for success",
        assumptions=["text inputs follow the unambiguous grammar of DESIGN 4/C12 (no single-number lines, no negative ids)",
                     "conversions marked 'undefined for void graphs' are not given void graphs",
                     "the library-level part (a) (FileGraph writer/readers) is unit c12a when present"],
    ),
    "C13": dict(
        variants={"native": ["galois_shmem"]},
        units=[dict(type="rc", harness="c13", quick=400000, thorough=6000000, enumerate=True, workers=8)],
        engine="rapidcheck (in-process)",
        technique="property-based testing: exhaustive enumeration of small (size, parts, id) triples plus rapidcheck-generated sizes at the 32/64-bit boundaries, degree sequences, weights, scale factors and sub-ranges; partition oracle (contiguous, ordered, disjoint, exact cover, edge ranges = prefix-sum image)",
        rule=("cases = one of 7 division routines (block_range integral/iterator, divideNodesBinarySearch with weights/scale factors/"
              "offsets, determineUnitRangesFromPrefixSum whole and sub-range, FileGraph::divideByNode/ByEdge and OfflineGraph::divideByNode "
              "on a file written by the harness, LC_CSR_Graph local ranges + determineUnitRangesFromGraph + SpecificRange clipping for every "
              "sub-range) with generated sizes/degree sequences; all part ids are checked inside one case; non-trivial = parts>=2 and "
              "(size not a multiple of parts, or parts>size, or a zero weight/zero degree, or a non-zero sub-range offset, or scale "
              "factors); distinct = hash of the case"),
        level_text=("Exhaustive for sizes<=48 x parts<=24 x 4 integer types and 2 iterator kinds; beyond that randomised with boundary "
                    "values (2^k+-2, type max minus parts) up to the overflow threshold the code imposes. Tests, does not prove, the "
                    "64-bit claim."),
        level_note="trusted: the harness' own .gr writer; in-process execution with the real thread pool for the per-thread range queries",
        assumptions=["size+parts and begin+size representable in the integer type (the code's own overflow threshold)",
                     "node and edge weight not both zero; scale factor vectors not all zero (division by zero otherwise)",
                     "DistGraph thread ranges are covered through determineUnitRangesFromGraph/PrefixSum which they call"],
    ),
    "C14": dict(
        variants={"fuzz": ["galois_shmem"]},
        units=[dict(type="rc", harness="c14a", quick=30000, thorough=450000, workers=8),
               dict(type="rc", harness="c14b", quick=50000, thorough=750000, workers=8),
               dict(type="fuzz", harness="c14afz", quick=30000, thorough=450000, workers=8),
               dict(type="fuzz", harness="c14bfz", quick=60000, thorough=900000, workers=8)],
        engine="rapidcheck (in-process, ASan+UBSan) + libFuzzer",
        technique="model-based property testing: rapidcheck-generated operation sequences (shrunk element-wise) and coverage-guided libFuzzer campaigns over the same decoder, executed against each Galois container and a std:: reference model after every operation; address-registry element type for exactly-once construction/destruction; ASan+UBSan",
        rule=("cases = (container family, variant, initial elements, up to 300 operations (opcode,a,b) in the case tail); non-trivial per "
              "family: size exceeded 3 / a chunk boundary and >=1 removal (maps, heaps, sets, deques, rings, lists), >=2 reallocations and "
              ">=1 removal (POD array), construct+destroy (lazy), set then reset (optional), empty and non-empty inner ranges plus a "
              "position operation (two-level iterators), >=2 elements and a destroy/re-construct or tear-down (LargeArray); distinct = hash"),
        level_text=("After every operation: return value, size/empty/front/back, full forward and backward (step-bounded) traversal equal the "
                    "std::map/vector/multiset/set/deque model; Tracked registry empty at the end, no unregistered address read, assigned or "
                    "destroyed. libFuzzer explores the same decoder coverage-guided. Exploration only."),
        level_note="trusted: the std:: reference models and the Tracked registry; members that do not compile when instantiated (flat_map::upper_bound/equal_range/operator==, LazyArray::at, optional converting ctor) cannot be tested",
        assumptions=["documented/asserted preconditions respected: no pop/top on empty, MinHeap::remove(x) only when x occurs at most once, PODResizeableArray::insert only at end(), new elements of resize() are indeterminate",
                     "single-threaded use"],
    ),
    "C15": dict(
        variants={"native": ["galois_shmem", "galois_dist_async", "galois_gluon", "distbench"], "sched": ["galois_shmem"]},
        extra_harnesses=["dreduce"],
        units=[dict(type="rc", harness="c15", quick=500000, thorough=7500000, enumerate=True, workers=8),
               dict(type="rc", harness="c15s", quick=24000, thorough=360000),
               dict(type="hyp", harness="py:c15d", quick=360, thorough=5400, workers=6)],
        engine="rapidcheck (in-process, real threads) + gsched",
        technique="property-based testing: rapidcheck-generated update multisets and thread assignments executed on the real thread pool; oracle = sequential fold / std::set / std::vector<bool> / sequential union-find; exhaustive enumeration of DynamicBitSet::reset(begin,end) alignments on sizes 1..200; the CAS loops (atomicMin/Max/Add/Subtract, DynamicBitSet set/reset, lock-free union-find merge/find) additionally run under the gsched schedule explorer with generated operation lists per thread",
        rule=("cases = (reducer or collection kind, value type, value-shape class incl. all-negative/mixed/extremes, 1..16 threads, "
              "PRF assignment of updates to threads, update values in the case tail, 1..3 update/reduce/reset rounds); dyadic floating-"
              "point values so every association order is exact; non-trivial = >=2 threads AND >=2 updates AND (value shape not small-"
              "positive, or a -= update, or a bitset larger than one word); distinct = hash of the case incl. values"),
        level_text=("Generated search over GAccumulator (+=, -=, update), GReduceMax/Min, logical and/or, make_reducible with user merges "
                    "(xor, set union, move-only max), InsertBag and PerThread containers filled concurrently, DynamicBitSet (range reset "
                    "exhaustive on sizes<=200, concurrent set/reset, bitwise ops, count, getOffsets), atomicMin/Max/Add/Subtract, concurrent "
                    "union-find. Real-thread schedules are sampled, not controlled, except for the CAS-loop helpers (c15s: atomic helpers incl. "
                    "returned old values, bitset test-and-set and neighbour bits of one word, union-find partition and merge count), whose "
                    "interleavings gsched explores. Distributed reducers (py:c15d): epoch scripts (fresh object or reset, set, parallel updates, one or two "
                    "reduce calls, read, reset's return value) on 1..4 hosts under mpirun against the fold over all hosts' updates. Exploration only."),
        level_note="trusted: the sequential models in the harness; real threads (no schedule control) for the reducers and containers -- values are schedule independent by construction; gsched for the CAS loops",
        assumptions=["32-bit and float sums are kept in range/exact by construction (overflow and rounding are outside the property)",
                     "concurrent bitset set/reset touch each index from one thread only (the final bit value must be schedule independent)",
                     "distributed reducers (py:c15d): DGAccumulator/DGReduceMax/DGReduceMin over int32/int64/uint32/uint64/float/double with small integer values (exact in every type); long double and LCI transport not driven"],
    ),
    "C16": dict(
        variants={"native": ["galois_shmem"], "sched": ["galois_shmem"]},
        units=[dict(type="rc", harness="c16", quick=50000, thorough=750000, workers=8),
               dict(type="rc", harness="c16e1", quick=16000, thorough=240000)],
        engine="rapidcheck (in-process, real threads) + gsched",
        technique="property-based testing: rapidcheck-generated sequences (sizes around the 1024 serial cut-off and block multiples, patterns, predicates, 1..16 threads); differential oracle against std:: algorithms; validity predicates for partition (point + permutation) and find_if (any match)",
        rule=("cases = (algorithm, element type, threads, size from {0,1,1023,1024,1025,2047..2049,<1024,k*1024+r<=20479}, pattern random/"
              "all-equal/sorted/reversed/few-distinct, predicate all-true/all-false/thresholds, value seed); non-trivial = size>1024 AND "
              "threads>=2; distinct = hash of the case"),
        level_text=("Differential against std::sort/partition/count_if/find_if/accumulate/partial_sum and a Tracked destructor count for "
                    "destroy; real threads sample the block-claiming interleavings. Exploration only."),
        level_note="trusted: libstdc++ algorithms as reference; unit c16 runs real threads (schedules sampled), unit c16e1 runs sort/partition/find_if/partial_sum with <=5000 elements under gsched-controlled schedules of the block-claiming helpers; <=16 threads (partial_sum's empty-block path needs more blocks than this machine has threads)",
        assumptions=["the 3-argument ParallelSTL::accumulate is ambiguous with std::accumulate via ADL when <numeric> is visible; the 4-argument form is tested",
                     "dyadic doubles for floating-point accumulation"],
    ),
    "C17": dict(
        variants={"fuzz": ["galois_shmem"], "native": ["galois_shmem", "galois_dist_async", "galois_gluon", "distbench"]},
        extra_harnesses=["netharness"],
        units=[dict(type="rc", harness="c17a", quick=60000, thorough=900000, workers=8, enumerate=True),
               dict(type="fuzz", harness="c17afz", quick=50000, thorough=750000, workers=8, max_len=600),
               dict(type="hyp", harness="py:c17b", quick=100, thorough=1500, workers=5)],
        engine="rapidcheck (in-process, ASan+UBSan) + libFuzzer + hypothesis over MPI subprocesses",
        technique="round-trip property testing: generated value trees (86 type menu entries, concatenations of 1..8 values, junk prefix/suffix, 7 ways of building the DeSerializeBuffer) serialised and deserialised into fresh targets, compared value-for-value and byte-count-for-byte-count, also coverage-guided; network part: PRF-defined global message plans executed by an MPI harness with 1..4 hosts x 1..4 sender threads, every host checks exactly-once, per-(source,thread,tag) order, checksums and barrier stamps",
        rule=("unit c17a/c17afz: case = menu slots + values in the tail; non-trivial = the tree contains a non-linear sequence (vector of "
              "non-copyable elements or gdeque) or a POD sequence whose payload is misaligned in the real buffer. unit py:c17b: case = "
              "(hosts, sender threads, phases, messages per thread, size class around 1400 B / 2^16 / up to 3 MB, tags, seed); non-trivial "
              "= >=2 hosts AND >=2 sender threads AND >=1 message > 1400 bytes; distinct = hash of the case"),
        level_text=("(a) decoded == original, consumed == produced == gSized where the library's formula is exact, suffix bytes untouched; "
                    "(b) every planned message delivered exactly once with identical payload and the source the network reports, sequence "
                    "numbers per (source, thread, tag) strictly increasing in receive order, no extra message, after the k-th host barrier "
                    "every rank's stamp >= k. Exploration only."),
        level_note="trusted: harness size model, PRF plan, OpenMPI on one machine (message arrival orders sampled); types that do not compile through gSerialize (std::deque, vector<bool>, std::tuple objects, ...) are unsupported and not tested",
        assumptions=["strings without embedded NUL; deserialisation into fresh targets; zero-length messages are not sent",
                     "ordering is checked per (source host, sender thread, tag): messages of different threads of one host are not ordered against each other by the sender"],
    ),
    "C18": dict(
        variants={"native": ["galois_shmem", "galois_dist_async", "galois_gluon", "distbench"], "sched": ["galois_shmem"]},
        extra_harnesses=["dharness"],
        units=[dict(type="hyp", harness="py:c18", quick=1200, thorough=18000, workers=8),
               dict(type="rc", harness="c15s", quick=9000, thorough=135000)],
        engine="hypothesis over MPI subprocesses; gsched for the update bitset",
        technique="property-based testing: (c15s unit) the update bitset's concurrent set()/reset() -- the dirty marks every sync depends on -- under the gsched schedule explorer; (py:c18) Hypothesis-generated graphs, host counts, partition policies, write/read locations, reductions (min, max, add, set), bitset on/off, forced wire encodings and multi-round write plans over eligible proxies; the distributed harness applies the plan with the library's own sync structures under mpirun and dumps every proxy before/after each sync; reference = reduction over the master's previous value and the written eligible contributions",
        rule=("cases = (graph <=60 nodes, hosts 1..4, 9 policies, write x read location (9 pairs), reduction, update bitset on/off, "
              "-metadata auto|bitset|offsets|gids|none, 1-2 threads, 1..4 rounds of <=40 write intents resolved to eligible proxies); "
              "non-trivial = >=2 hosts AND a mirror was written AND some round had both updated and non-updated nodes; distinct = sha1"),
        level_text=("Oracle per round and node: every proxy readable at the read location (observational eligibility: master always; "
                    "mirror iff it has a local out-edge / is a local destination / always) holds reduce(master_before, written eligible "
                    "mirror values); values come from the harness' own dumps, not from Gluon. BSP sync only. Exploration only."),
        level_note="trusted: the harness' dump/plan code, OpenMPI on one machine (arrival orders sampled, not controlled); asynchronous (BASP) sync, GPU and LCI paths are not exercised",
        assumptions=["non-transposed (CSR) graph construction; set reduction gets at most one writer per node and round; without a bitset only min/add are used",
                     "add-style fields are consumed (zeroed on every proxy) between rounds, as residual-like fields are by the applications"],
    ),
    "C19": dict(
        variants={"native": ["galois_shmem", "galois_dist_async", "galois_gluon", "distbench"]},
        extra_harnesses=["dharness"],
        units=[dict(type="hyp", harness="py:c19", quick=300, thorough=4500, workers=6)],
        engine="hypothesis over MPI subprocesses",
        technique="property-based testing: Hypothesis-generated graphs (isolated nodes, skew, fewer nodes than hosts, up to 300 nodes), host counts 1..4, all 11 partition policies, CSR and CSC variants; a distributed harness built like a lonestar app is run under mpirun and every host's dump (local edges, id maps, master/mirror lists, thread ranges) is checked against the input",
        rule=("cases = (graph, hosts in 1..4, policy in oec|iec|hovc|hivc|cvc|cvc-iec|ginger-o|ginger-i|fennel-o|fennel-i|sugar-o, CSR or CSC "
              "variant, 1-2 threads per host); non-trivial = >=2 hosts AND >=1 node has a mirror; distinct = sha1 of the case"),
        level_text=("Oracle: union of local edge multisets == input (reversed for CSC), data intact; exactly one owner per node and "
                    "getHostID agrees everywhere; id maps mutually inverse; masters precede mirrors; nodes with edges first; mirror list of "
                    "h for p == non-owned nodes of h owned by p == master list of p for h (same order, via the GALOIS_VERIF accessor); "
                    "oec/iec structural promises; per-thread ranges partition the all/master/with-edges ranges. Exploration only."),
        level_note="trusted: the Python .gr writer; OpenMPI on one machine; the harness' dump code; cartesian-cut block promises are not checked",
        assumptions=["inputs are written by our own codec (CSR file plus transposed file, both always supplied)",
                     "read-balancing options and masters-block files are not generated"],
    ),
    "C20": dict(
        variants={"native": ["bfs-cpu", "sssp-cpu", "connected-components-cpu", "minimum-spanningtree-cpu", "triangle-counting-cpu",
                             "k-core-cpu", "pagerank-pull-cpu", "pagerank-push-cpu", "maximal-independentset-cpu", "preflowpush-cpu",
                             "bfs-push-dist", "bfs-pull-dist", "sssp-push-dist", "sssp-pull-dist", "connected-components-push-dist",
                             "connected-components-pull-dist", "k-core-push-dist", "k-core-pull-dist", "pagerank-push-dist", "pagerank-pull-dist"]},
        units=[dict(type="hyp", harness="py:c20", quick=1200, thorough=18000, workers=8, confirm_runs=12, env={"VERIF_SHRINK_EVALS": "40", "C20_APPS": "cpu"}),
               dict(type="hyp", harness="py:c20", quick=240, thorough=3600, workers=6, env={"VERIF_SHRINK_EVALS": "40", "C20_APPS": "dist"})],
        engine="hypothesis over subprocesses (CPU apps) and MPI (distributed apps)",
        technique="property-based differential testing: Hypothesis-generated graphs (disconnected, self loops, parallel edges, hub skew, paths, up to 400 nodes), algorithm variants, thread counts 1..16, hosts 1..4 x partition policies; applications run as subprocesses / under mpirun; answers compared with references (BFS, Dijkstra, union-find, Kruskal, brute-force triangles, peeling, max-flow, power iteration) implemented in the driver",
        rule=("cases = (application, graph shape/size/edges, algorithm variant, threads in {1,2,4,8,16}, source/report node, parameter, hosts, "
              "policy, push|pull); non-trivial = (>=2 components or a parallel edge/self loop) AND (threads>=2 or hosts>=2) (flow/pagerank: "
              "threads>=2 and >=3 arcs); distinct = sha1 of the case"),
        level_text=("bfs/sssp: report-node distance, #visited, max, sum (CPU) and full distance vectors (distributed, -output files); cc: "
                    "component count / per-node labels; MST weight == Kruskal; triangles == brute force; k-core size / per-node flags == "
                    "peeling; max-flow value == networkx; pagerank within tolerance of power iteration; MIS cardinality must be the size "
                    "of some maximal independent set (brute force for n<=14). Exploration only."),
        level_note="trusted: the reference implementations (networkx for flow/cliques), the Python .gr writer; matching, direction-optimising bfs and the pagerank-dist apps are not driven; MIS only exposes its cardinality",
        assumptions=["input preconditions of each application's README respected (symmetric inputs with -symmetricGraph; simple graphs for triangles, k-core, independent set; transposed graph for pagerank-pull)",
                     "pagerank definition taken from the sources: rank = 0.15 + 0.85 * sum rank(u)/outdeg(u), unnormalised"],
    ),
}

ENGINES = [
    dict(name="gsched", path="engine/gsched", serves_properties=["C01", "C02", "C03", "C04", "C05", "C06", "C07", "C08", "C10", "C16"],
         kind_free_text="schedule-owning runtime behind clang's TSan instrumentation ABI + pthread interposition; vector-clock HB tracker"),
    dict(name="rapidcheck fork driver", path="harness/common/verif_e1.h", serves_properties=["C01", "C02", "C03", "C04", "C05", "C06", "C07", "C08", "C10", "C16"],
         kind_free_text="rapidcheck generation/shrinking in a parent process, one forked child per case, replay files"),
]

# properties not claimed yet -> reason (kept current)
NOT_YET = {}
