"""C17 (b) -- tagged messages arrive exactly once, in order per (source, tag),
intact, with several threads sending at once; host barriers separate phases.
Runs harness/dist/netharness.cpp under mpirun.  DESIGN.md 4/C17."""
import os
import sys

from hypothesis import strategies as st

sys.path.insert(0, os.path.dirname(os.path.abspath(__file__)))
import common  # noqa: E402
from common import Violation, run_cmd  # noqa: E402

HARNESS = "py:c17b"
NH = os.path.join(common.VERIF, "_build", "harness", "netharness")

case_strategy = st.fixed_dictionaries({
    "hosts": st.sampled_from([1, 2, 2, 3, 4, 4]),
    "threads": st.integers(1, 4),
    "phases": st.integers(1, 4),
    "msgs": st.sampled_from([0, 1, 5, 20, 40]),
    "sizeclass": st.sampled_from([0, 1, 1, 2, 3, 3, 4, 4]),
    "tags": st.integers(1, 3),
    "seed": st.integers(1, 1 << 30),
    # transport under the network layer: Open MPI's default on one node completes large receives synchronously
    # (single-copy shared memory); the other two complete them asynchronously, as a real network does
    "transport": st.sampled_from([0, 1, 1, 2]),
    "gap": st.sampled_from([0, 0, 50, 400]),
})
TRANSPORTS = [[], ["--mca", "btl_vader_single_copy_mechanism", "none"], ["--mca", "btl", "self,tcp"]]


def finding_key(case, failkey):
    return "C17/network/%s" % failkey


def check(case, work):
    hosts = case["hosts"]
    msgs = case["msgs"]
    if case["sizeclass"] >= 3:
        msgs = min(msgs, 20)  # multi-MB messages: keep the volume bounded
    shm = os.path.join(work, "stamps.bin")
    open(shm, "wb").write(b"\0" * 4096)
    for h in range(4):
        f = os.path.join(work, "net.%d.txt" % h)
        if os.path.exists(f):
            os.unlink(f)
    env = dict(os.environ)
    env["GALOIS_VERIF_TOPO"] = str(max(2, case["threads"]))
    env["GALOIS_DO_NOT_BIND_THREADS"] = "1"
    env["OMPI_MCA_mpi_yield_when_idle"] = "1"
    cmd = ["mpirun", "--allow-run-as-root", "--oversubscribe", "--bind-to", "none"] + TRANSPORTS[case.get("transport", 0)] + ["-np", str(hosts), NH, "-nseed=%d" % case["seed"],
           "-ngap=%d" % case.get("gap", 0),
           "-nthreads=%d" % case["threads"], "-nphases=%d" % case["phases"], "-nmsgs=%d" % msgs, "-nsizeclass=%d" % case["sizeclass"],
           "-ntags=%d" % case["tags"], "-nout=" + os.path.join(work, "net"), "-nshm=" + shm]
    rc, out, err = run_cmd(cmd, timeout=300, env=env, cwd=work)
    if rc != 0:
        msg = "\n".join(l for l in (err + out).split("\n") if l and not l.startswith(("DEBUG", "STAT", "PARAM")))[-400:]
        raise Violation("tool-failed", "netharness under mpirun -np %d exited %d: %s" % (hosts, rc, msg))
    big = total = 0
    for h in range(hosts):
        f = os.path.join(work, "net.%d.txt" % h)
        if not os.path.exists(f):
            raise Violation("tool-failed", "host %d wrote no result" % h)
        line = open(f).read().strip()
        if line.startswith("FAIL"):
            p = line.split(" ", 2)
            raise Violation(p[1], "host %d: %s" % (h, p[2] if len(p) > 2 else ""))
        p = line.split()
        total += int(p[4])
        big += int(p[6])
    labels = {"hosts": hosts, "threads": case["threads"], "sizeclass": case["sizeclass"], "phases": case["phases"],
              "transport": ["default", "sm-no-single-copy", "tcp"][case.get("transport", 0)], "gap": case.get("gap", 0),
              "messages": min(total, 400) // 50 * 50}
    return labels, hosts >= 2 and case["threads"] >= 2 and big >= 1


if __name__ == "__main__":
    sys.exit(common.main(HARNESS, case_strategy, check, finding_key))
