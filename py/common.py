"""Shared code of the Hypothesis drivers (engine E4): generated cases run a
subject on disk (graph-convert, MPI harnesses, lonestar apps) and are checked
against reference models implemented here.  Same command line and replay-file
conventions as the C++ drivers (harness/common/verif_e1.h)."""
import argparse
import hashlib
import json
import os
import struct
import subprocess
import sys
import time

from hypothesis import HealthCheck, Phase, given, seed, settings

VERIF = os.path.dirname(os.path.dirname(os.path.abspath(__file__)))
NATIVE = os.path.join(VERIF, "_build", "native")


class Violation(Exception):
    def __init__(self, key, msg):
        super().__init__(key + ": " + msg)
        self.key, self.msg = key, msg


class Inconclusive(Exception):
    pass


def excluded_keys():
    return set(k for k in os.environ.get("VERIF_EXCLUDE", "").split(",") if k)


EXCLUDED_DRAWS = [0]


def excluded(key):
    """known finding listed in VERIF_EXCLUDE: the generator avoids exactly its configuration"""
    return key in excluded_keys()


def count_excluded():
    EXCLUDED_DRAWS[0] += 1


# ------------------------------------------------------------------ .gr codec
# Written from the documented layout (FileGraph.h): uint64 version, sizeofEdge,
# numNodes, numEdges; uint64 outIdx[numNodes] (end offsets); V1: uint32
# dst[numEdges] (+4 bytes padding if numEdges odd), V2: uint64 dst[numEdges];
# then numEdges * sizeofEdge bytes of edge data.  Little endian.
FMT = {"void": None, "int32": "<i", "uint32": "<I", "int64": "<q", "uint64": "<Q", "float32": "<f", "float64": "<d"}


def write_gr(path, num_nodes, adj, edge_type="void", version=1):
    """adj: list (per node) of lists of (dst, data)"""
    fmt = FMT[edge_type]
    size = struct.calcsize(fmt) if fmt else 0
    ne = sum(len(a) for a in adj)
    out = bytearray(struct.pack("<QQQQ", version, size, num_nodes, ne))
    acc = 0
    for a in adj:
        acc += len(a)
        out += struct.pack("<Q", acc)
    for a in adj:
        for (d, _) in a:
            out += struct.pack("<I" if version == 1 else "<Q", d)
    if version == 1 and ne % 2:
        out += b"\0\0\0\0"
    if fmt:
        for a in adj:
            for (_, w) in a:
                out += struct.pack(fmt, w)
    with open(path, "wb") as f:
        f.write(out)


def read_gr(path, edge_type=None):
    """returns (num_nodes, adj) with adj[n] = list of (dst, data) in file order;
    data decoded per edge_type (or raw bytes if None and size>0)"""
    b = open(path, "rb").read()
    if len(b) < 32:
        raise Violation("malformed-output", "%s: shorter than a header (%d bytes)" % (path, len(b)))
    version, size, nn, ne = struct.unpack_from("<QQQQ", b, 0)
    if version not in (1, 2):
        raise Violation("malformed-output", "%s: version %d" % (path, version))
    off = 32
    need = off + 8 * nn
    if len(b) < need:
        raise Violation("malformed-output", "%s: truncated index" % path)
    idx = struct.unpack_from("<%dQ" % nn, b, off) if nn else ()
    off += 8 * nn
    w = 4 if version == 1 else 8
    if len(b) < off + w * ne:
        raise Violation("malformed-output", "%s: truncated destinations" % path)
    dst = struct.unpack_from("<%d%s" % (ne, "I" if w == 4 else "Q"), b, off) if ne else ()
    off += w * ne
    if version == 1 and ne % 2:
        off += 4
    if size == 0 and len(b) == off - 4 and version == 1 and ne % 2:
        off -= 4  # a void graph written without the final alignment padding: nothing follows, every reader accepts it
    if len(b) < off + size * ne:
        raise Violation("malformed-output", "%s: truncated edge data (%d < %d)" % (path, len(b), off + size * ne))
    fmt = FMT[edge_type] if edge_type else None
    data = []
    for i in range(ne):
        raw = b[off + i * size: off + (i + 1) * size]
        if fmt:
            if struct.calcsize(fmt) != size:
                raise Violation("edge-size", "%s: sizeofEdge %d, expected %d for %s" % (path, size, struct.calcsize(fmt), edge_type))
            data.append(struct.unpack(fmt, raw)[0])
        else:
            data.append(raw if size else None)
    adj = []
    prev = 0
    for n in range(nn):
        e = idx[n]
        if e < prev or e > ne:
            raise Violation("malformed-output", "%s: outIdx not monotone at node %d" % (path, n))
        adj.append([(dst[i], data[i]) for i in range(prev, e)])
        prev = e
    if nn and prev != ne:
        raise Violation("malformed-output", "%s: outIdx ends at %d, numEdges %d" % (path, prev, ne))
    return nn, adj, size, version


def edge_multiset(adj):
    m = {}
    for s, a in enumerate(adj):
        for (d, w) in a:
            k = (s, d, w)
            m[k] = m.get(k, 0) + 1
    return m


# --------------------------------------------------------------- driver
class Stats:
    def __init__(self):
        self.evaluations = 0
        self.nontrivial = set()
        self.hist = {}
        self.samples = []
        self.nt_samples = []
        self.inconclusive = 0
        self.excluded = 0

    def add(self, case, labels, nontrivial):
        self.evaluations += 1
        h = hashlib.sha1(json.dumps(case, sort_keys=True).encode()).hexdigest()[:16]
        if nontrivial:
            self.nontrivial.add(h)
        for k, v in labels.items():
            d = self.hist.setdefault(k, {})
            d[str(v)] = d.get(str(v), 0) + 1
        s = {"case": case, "labels": labels}
        if len(json.dumps(s)) < 3000:
            if len(self.samples) < 2:
                self.samples.append(s)
            if nontrivial and len(self.nt_samples) < 4:
                self.nt_samples.append(s)

    def dump(self, path):
        with open(path, "w") as f:
            json.dump({"evaluations": self.evaluations, "ok": self.evaluations, "inconclusive": self.inconclusive,
                       "excluded_draws": self.excluded + EXCLUDED_DRAWS[0], "nontrivial_hashes": sorted(self.nontrivial),
                       "inconclusive_kinds": {}, "hist": self.hist, "samples": self.nt_samples + self.samples}, f)


def main(harness, strategy, check, finding_key):
    """check(case, tmpdir) -> (labels dict, nontrivial bool); raises Violation"""
    ap = argparse.ArgumentParser()
    ap.add_argument("--gen", action="store_true")
    ap.add_argument("--out")
    ap.add_argument("--replay-dir", default=".")
    ap.add_argument("--tag", default="w0")
    ap.add_argument("--replay")
    ap.add_argument("--times", type=int, default=1)
    ap.add_argument("--sweep", type=int, default=1)
    ap.add_argument("--timeout-ms", type=int, default=0)
    a = ap.parse_args()
    tmp = os.environ.get("VERIF_TMP", "/tmp")
    work = os.path.join(tmp, "%s-%s-%d" % (harness.replace(":", "_"), a.tag, os.getpid()))
    os.makedirs(work, exist_ok=True)
    try:
        if a.replay:
            d = json.load(open(a.replay))
            case = d["case"]
            fails = 0
            key = msg = ""
            runs = max(1, a.times)
            for _ in range(runs):
                try:
                    check(case, work)
                except Violation as v:
                    fails += 1
                    key, msg = finding_key(case, v.key), v.msg
                except Inconclusive:
                    pass
            print("REPLAY harness=%s runs=%d fails=%d inconclusive=0 key=%s msg=%s" % (harness, runs, fails, key, msg.replace("\n", " ")))
            return 1 if fails else 0
        n = int(os.environ.get("VERIF_EXAMPLES", "100"))
        hseed = int(os.environ.get("VERIF_HSEED", "1"))
        stats = Stats()
        failure = {}
        # shrinking an expensive subject: after the first failure at most
        # VERIF_SHRINK_EVALS further cases are executed; later candidates are
        # waved through, so Hypothesis settles on the best failing case so far
        shrink_left = [int(os.environ.get("VERIF_SHRINK_EVALS", "60"))]

        @seed(hseed)
        @settings(max_examples=n, database=None, deadline=None, report_multiple_bugs=False,
                  suppress_health_check=list(HealthCheck), phases=[Phase.generate, Phase.shrink])
        @given(strategy)
        def prop(case):
            if failure:
                if case == failure["case"]:
                    # same exception object and traceback: Hypothesis identifies a failure by where it was raised
                    raise failure["exc"].with_traceback(failure["tb"])
                if shrink_left[0] <= 0:
                    return
                shrink_left[0] -= 1
            try:
                labels, nt = check(case, work)
            except Inconclusive:
                stats.inconclusive += 1
                return
            except Violation as v:
                failure["case"], failure["key"], failure["msg"] = case, v.key, v.msg
                failure["exc"], failure["tb"] = v, v.__traceback__
                raise
            stats.add(case, labels, nt)

        ok = True
        try:
            prop()
        except Violation:
            ok = False
        if a.out:
            stats.dump(a.out)
        if not ok:
            case = failure["case"]
            fkey = finding_key(case, failure["key"])
            h = hashlib.sha1(json.dumps(case, sort_keys=True).encode()).hexdigest()[:8]
            path = os.path.join(a.replay_dir, "%s-%s-%s.json" % (harness.replace(":", "_"), a.tag, h))
            with open(path, "w") as f:
                json.dump({"harness": harness, "finding_key": fkey, "fail_key": failure["key"],
                           "message": failure["msg"], "case": case}, f)
            print("FALSIFIED harness=%s key=%s replay=%s msg=%s" % (harness, fkey, path, failure["msg"].replace("\n", " ")))
            return 1
        print("PASSED harness=%s evaluations=%d nontrivial=%d inconclusive=%d" % (harness, stats.evaluations, len(stats.nontrivial), stats.inconclusive))
        return 0
    finally:
        subprocess.run(["rm", "-rf", work])


def run_cmd(cmd, timeout=120, env=None, cwd=None):
    try:
        p = subprocess.run(cmd, stdout=subprocess.PIPE, stderr=subprocess.PIPE, timeout=timeout, env=env, cwd=cwd)
    except subprocess.TimeoutExpired:
        raise Inconclusive()
    return p.returncode, p.stdout.decode(errors="replace"), p.stderr.decode(errors="replace")
