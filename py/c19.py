"""C19 -- partitioning: every edge once, one master per node, consistent ids.
Hypothesis generates graphs, host counts, policies and CSR/CSC variants; the
distributed harness (harness/dist/dharness.cpp, -vmode=dump) is run under mpirun
and every host's dump is checked against the input.  DESIGN.md 4/C19."""
import os
import sys

from hypothesis import strategies as st

sys.path.insert(0, os.path.dirname(os.path.abspath(__file__)))
import common  # noqa: E402
from common import Inconclusive, Violation, run_cmd, write_gr  # noqa: E402

HARNESS = "py:c19"
DH = os.path.join(common.VERIF, "_build", "harness", "dharness")
POLICIES = ["oec", "iec", "hovc", "hivc", "cvc", "cvc-iec", "ginger-o", "ginger-i", "fennel-o", "fennel-i", "sugar-o"]

graph_strategy = st.one_of(
    st.tuples(st.integers(1, 40), st.lists(st.tuples(st.integers(0, 39), st.integers(0, 39), st.integers(0, 1000)), max_size=80)),
    # skewed: one hub
    st.tuples(st.integers(2, 40), st.lists(st.tuples(st.just(0), st.integers(0, 39), st.integers(0, 1000)), min_size=5, max_size=60)),
    # larger
    st.tuples(st.integers(41, 300), st.lists(st.tuples(st.integers(0, 299), st.integers(0, 299), st.integers(0, 1000)), max_size=400)),
)
case_strategy = st.fixed_dictionaries({
    "graph": graph_strategy,
    "hosts": st.sampled_from([1, 2, 2, 3, 3, 4, 4]),
    "policy": st.sampled_from(POLICIES),
    "transposed": st.booleans(),
    "threads": st.sampled_from([1, 2]),
    # CuSP's own parameters (only for the CSR variant, >= 2 hosts): how hosts divide the reading, node/edge weights
    # of the mixed read policy, synchronous master assignment, rounds between partitioning-state synchronisations
    "readpolicy": st.sampled_from([-1, -1, 0, 1, 2]),
    "nodeweight": st.sampled_from([0, 1, 7, 100]),
    "edgeweight": st.sampled_from([0, 1, 3, 50]),
    "cuspsync": st.booleans(),
    "staterounds": st.sampled_from([100, 1, 2, 7]),
})


def finding_key(case, failkey):
    return "C19/%s%s/%s" % (case["policy"], "-csc" if case["transposed"] else "", failkey)


def normalize(case):
    n, edges = case["graph"]
    edges = [(s % n, d % n, w) for (s, d, w) in edges]
    return n, edges


def parse_dump(path):
    d = {"nodes": [], "edges": [], "mirrors": {}, "masters": {}, "threadranges": [], "complete": False}
    for line in open(path):
        p = line.split()
        if not p:
            continue
        if p[0] == "size":
            d.update(size=int(p[1]), nedges=int(p[3]), nmasters=int(p[5]), withedges=int(p[7]), gsize=int(p[9]), gedges=int(p[11]),
                     transposed=int(p[13]), vertexcut=int(p[15]))
        elif p[0] == "node":
            d["nodes"].append(dict(lid=int(p[1]), gid=int(p[2]), owned=int(p[4]), local=int(p[6]), lidback=int(p[8]), hostof=int(p[10])))
        elif p[0] == "edge":
            d["edges"].append((int(p[1]), int(p[2]), int(p[3])))
        elif p[0] == "mirrors":
            d["mirrors"][int(p[1])] = [int(x) for x in p[2:]]
        elif p[0] == "masters":
            d["masters"][int(p[1])] = [int(x) for x in p[2:]]
        elif p[0] == "threadrange":
            d["threadranges"].append([int(x) for x in p[2:]])
        elif p[0] == "ranges":
            d["ranges"] = (int(p[2]), int(p[3]), int(p[5]), int(p[6]), int(p[8]), int(p[9]))
        elif p[0] == "end":
            d["complete"] = True
    return d


def check(case, work):
    n, edges = normalize(case)
    hosts, policy, transposed = case["hosts"], case["policy"], case["transposed"]
    adj = [[] for _ in range(n)]
    tadj = [[] for _ in range(n)]
    for (s, d, w) in edges:
        adj[s].append((d, w))
        tadj[d].append((s, w))
    gr, tgr = os.path.join(work, "g.gr"), os.path.join(work, "g.tgr")
    write_gr(gr, n, adj, "uint32")
    write_gr(tgr, n, tadj, "uint32")
    for h in range(4):
        f = os.path.join(work, "dump.%d.txt" % h)
        if os.path.exists(f):
            os.unlink(f)
    env = dict(os.environ)
    env["GALOIS_VERIF_TOPO"] = str(case["threads"])
    env["GALOIS_DO_NOT_BIND_THREADS"] = "1"
    env["OMPI_MCA_mpi_yield_when_idle"] = "1"  # ranks are oversubscribed on one machine
    cmd = ["mpirun", "--allow-run-as-root", "--oversubscribe", "--bind-to", "none", "-np", str(hosts), DH, gr, "-graphTranspose=" + tgr,
           "-partition=" + policy, "-t", str(case["threads"]), "-vmode=dump", "-vout=" + os.path.join(work, "dump")]
    if transposed:
        cmd.append("-vtransposed")
    elif case.get("readpolicy", -1) >= 0 and hosts > 1:
        cmd += ["-vreadpolicy=%d" % case["readpolicy"], "-vnodeweight=%d" % case["nodeweight"], "-vedgeweight=%d" % case["edgeweight"],
                "-vstaterounds=%d" % case["staterounds"]] + (["-vcuspsync"] if case["cuspsync"] else [])
    rc, out, err = run_cmd(cmd, timeout=120, env=env, cwd=work)
    labels = {"policy": policy, "hosts": hosts, "transposed": transposed,
              "readpolicy": case.get("readpolicy", -1) if (not transposed and hosts > 1) else -1, "n": min(n, 50) // 10 * 10, "edges": min(len(edges), 100) // 20 * 20}
    if rc != 0:
        msg = "\n".join(l for l in (err + out).split("\n") if l and not l.startswith(("DEBUG", "STAT", "PARAM")))[-400:]
        raise Violation("tool-failed", "dharness under mpirun -np %d exited %d: %s" % (hosts, rc, msg))
    dumps = []
    for h in range(hosts):
        f = os.path.join(work, "dump.%d.txt" % h)
        if not os.path.exists(f):
            raise Violation("tool-failed", "host %d wrote no dump" % h)
        d = parse_dump(f)
        if not d["complete"]:
            raise Violation("tool-failed", "host %d dump incomplete" % h)
        dumps.append(d)
    # ---- every edge exactly once, data intact
    want = {}
    for (s, d, w) in edges:
        k = (d, s, w) if transposed else (s, d, w)  # CSC variant stores the reversed orientation
        want[k] = want.get(k, 0) + 1
    got = {}
    for d in dumps:
        for e in d["edges"]:
            got[e] = got.get(e, 0) + 1
    if got != want:
        missing = [k for k in want if got.get(k, 0) < want[k]][:3]
        extra = [k for k in got if want.get(k, 0) < got[k]][:3]
        raise Violation("edge-multiset", "union of local edges != input: missing %s extra %s (%d vs %d)" %
                        (missing, extra, sum(got.values()), sum(want.values())))
    owner = {}
    mirror_hosts = 0
    for h, d in enumerate(dumps):
        if d["size"] != len(d["nodes"]) or d["gsize"] != n or d["gedges"] != len(edges):
            raise Violation("counts", "host %d: size %d (%d node lines), globalSize %d (input %d), globalSizeEdges %d (input %d)" %
                            (h, d["size"], len(d["nodes"]), d["gsize"], n, d["gedges"], len(edges)))
        if d["nedges"] != len(d["edges"]):
            raise Violation("counts", "host %d: sizeEdges %d but %d edges iterated" % (h, d["nedges"], len(d["edges"])))
        gids = set()
        for nd in d["nodes"]:
            if nd["lidback"] != nd["lid"]:
                raise Violation("id-maps", "host %d: getLID(getGID(%d)) = %d" % (h, nd["lid"], nd["lidback"]))
            if nd["gid"] in gids or not (0 <= nd["gid"] < n):
                raise Violation("id-maps", "host %d: global id %d appears twice or is out of range" % (h, nd["gid"]))
            gids.add(nd["gid"])
            if not nd["local"]:
                raise Violation("id-maps", "host %d: isLocal(%d) false for a local node" % (h, nd["gid"]))
            if bool(nd["owned"]) != (nd["lid"] < d["nmasters"]):
                raise Violation("masters-first", "host %d: local id %d owned=%d with numMasters=%d" % (h, nd["lid"], nd["owned"], d["nmasters"]))
            if nd["owned"]:
                if nd["gid"] in owner:
                    raise Violation("two-masters", "node %d is owned by hosts %d and %d" % (nd["gid"], owner[nd["gid"]], h))
                owner[nd["gid"]] = h
            else:
                mirror_hosts += 1
    for g in range(n):
        if g not in owner:
            raise Violation("no-master", "node %d has no master on any host" % g)
    for h, d in enumerate(dumps):
        for nd in d["nodes"]:
            if nd["hostof"] != owner[nd["gid"]]:
                raise Violation("host-of", "host %d: getHostID(%d) = %d, the master is on host %d" % (h, nd["gid"], nd["hostof"], owner[nd["gid"]]))
        # mirror lists: exactly the non-owned local nodes grouped by owner
        for p in range(hosts):
            mine = sorted(nd["gid"] for nd in d["nodes"] if not nd["owned"] and owner[nd["gid"]] == p)
            if sorted(d["mirrors"].get(p, [])) != mine:
                raise Violation("mirror-list", "host %d: mirror list for peer %d is %s, its non-owned nodes owned by %d are %s" %
                                (h, p, d["mirrors"].get(p, [])[:8], p, mine[:8]))
            if d["masters"]:
                peer = dumps[p]["mirrors"].get(h, [])
                if d["masters"].get(p, []) != peer:
                    raise Violation("master-list", "host %d: master list for peer %d is %s, peer's mirror list for %d is %s" %
                                    (h, p, d["masters"].get(p, [])[:8], h, peer[:8]))
        # thread ranges partition the local ranges
        T = len(d["threadranges"])
        ra = d.get("ranges")
        if ra is None or ra[0] != 0 or ra[1] != d["size"] or ra[2] != 0 or ra[3] != d["nmasters"] or ra[4] != 0 or ra[5] != d["withedges"]:
            raise Violation("ranges", "host %d: all/master/with-edges ranges %s, size %d masters %d withedges %d" %
                            (h, ra, d["size"], d["nmasters"], d["withedges"]))
        for k, end in ((0, d["size"]), (2, d["nmasters"]), (4, d["withedges"])):
            cur = 0
            for t in range(T):
                b, e = d["threadranges"][t][k], d["threadranges"][t][k + 1]
                if b > e:
                    raise Violation("thread-ranges", "host %d thread %d: inverted range [%d,%d)" % (h, t, b, e))
                if b != e:
                    if b != cur:
                        raise Violation("thread-ranges", "host %d thread %d: range [%d,%d) does not continue at %d" % (h, t, b, e, cur))
                    cur = e
            if cur != end:
                raise Violation("thread-ranges", "host %d: thread ranges cover [0,%d) of [0,%d)" % (h, cur, end))
        # nodes with edges come first
        has_out = set(e[0] for e in d["edges"])
        for nd in d["nodes"]:
            if nd["gid"] in has_out and nd["lid"] >= d["withedges"]:
                raise Violation("with-edges", "host %d: node %d has local edges but its local id %d >= numNodesWithEdges %d" %
                                (h, nd["gid"], nd["lid"], d["withedges"]))
        # policy promises (non-transposed CSR variants)
        if hosts > 1 and not transposed:
            if policy == "oec":
                for (s, dd, w) in d["edges"]:
                    if owner[s] != h:
                        raise Violation("policy-oec", "outgoing edge cut: host %d holds edge %d->%d whose source is owned by %d" % (h, s, dd, owner[s]))
            if policy == "iec":
                for (s, dd, w) in d["edges"]:
                    if owner[dd] != h:
                        raise Violation("policy-iec", "incoming edge cut: host %d holds edge %d->%d whose destination is owned by %d" % (h, s, dd, owner[dd]))
    labels["mirrors"] = mirror_hosts > 0
    return labels, hosts >= 2 and mirror_hosts > 0


if __name__ == "__main__":
    sys.exit(common.main(HARNESS, case_strategy, check, finding_key))
