"""C12 (b) -- graph-convert conversions preserve the graph.  Hypothesis
generates text inputs from an unambiguous grammar (and binary .gr inputs written
by our own codec), runs graph-convert, and compares the decoded outputs with the
reference meaning of each conversion.  DESIGN.md 4/C12."""
import math
import os
import random
import sys

from hypothesis import strategies as st

sys.path.insert(0, os.path.dirname(os.path.abspath(__file__)))
import common  # noqa: E402
from common import Violation, read_gr, run_cmd, write_gr  # noqa: E402

GC = os.path.join(common.NATIVE, "tools", "graph-convert", "graph-convert")
GCH = os.path.join(common.NATIVE, "tools", "graph-convert", "graph-convert-huge")
HARNESS = "py:c12b"

INT_TYPES = ["int32", "uint32", "int64", "uint64"]
TYPES = ["void"] + INT_TYPES + ["float32", "float64"]

# ------------------------------------------------------------ case strategy
edge = st.tuples(st.integers(0, 40), st.integers(0, 40), st.integers(0, 1000))
big_edge = st.tuples(st.integers(0, 1 << 20), st.integers(0, 1 << 20), st.integers(0, 1000))
noise = st.sampled_from(["#comment", "% note", "", "   ", "abc def", "#1 2 3"])
line = st.one_of(
    st.tuples(st.just("e"), edge, st.sampled_from([" ", "  ", "\t", " \t "]), st.sampled_from(["", " ", " extra 99"])),
    st.tuples(st.just("e"), big_edge, st.just(" "), st.just("")),
    st.tuples(st.just("n"), noise),
    st.tuples(st.just("m"), edge),  # missing weight: must be skipped for weighted types
)
case_strategy = st.fixed_dictionaries({
    "mode": st.sampled_from(["edgelist2gr", "csv2gr", "dimacs", "mtx", "gr-text", "gr-transform", "edgelist2binary", "huge"]),
    "etype": st.sampled_from(TYPES),
    "lines": st.lists(line, min_size=0, max_size=30),
    "crlf": st.booleans(),
    "trailing_newline": st.booleans(),
    "inverse": st.sampled_from(["gr2edgelist", "gr2edgelist1ind", "gr2dimacs", "gr2mtx", "gr2pbbsedges", "gr2adjacencylist", "gr2pbbs"]),
    "transform": st.sampled_from(["gr2tgr", "gr2sgr", "gr2cgr", "gr2sorteddstgr", "gr2sortedweightgr", "gr2sorteddegreegr",
                                  "gr2randomweightgr", "gr2biggr", "gr2ringgr", "gr2linegr", "gr2treegr", "gr2lowdegreegr"]),
    "param": st.integers(1, 9),
})


def finding_key(case, failkey):
    sub = case["mode"]
    if case["mode"] == "huge" and failkey == "unsorted-inconsistent-file":
        return "C12/huge/unsorted-inconsistent-file"
    if case["mode"] == "gr-text":
        sub = case["inverse"]
    if case["mode"] == "gr-transform":
        sub = case["transform"]
    return "C12/%s/%s" % (sub, failkey)


def conv(weight, etype):
    if etype == "void":
        return None
    if etype.startswith("float"):
        return float(weight)
    return int(weight)


def edges_of(case, weighted):
    """reference parse of the generated lines"""
    out = []
    skipped = 0
    for l in case["lines"]:
        if l[0] == "e":
            out.append(l[1])
        elif l[0] == "m":
            if weighted:
                skipped += 1
            else:
                out.append((l[1][0], l[1][1], 0))
        else:
            skipped += 1
    return out, skipped


def render(case, weighted, delim=None, one_indexed=False, allow_extra=True):
    rows = []
    for l in case["lines"]:
        if l[0] == "e":
            (s, d, w), sep, tail = l[1], l[2], l[3]
            if one_indexed:
                s, d = s + 1, d + 1
            if delim:
                sep = sep.replace("\t", " ") + delim + " "
                tail = ""
            row = "%d%s%d" % (s, sep, d)
            if weighted:
                row += sep + str(w)
            else:
                row += "" if (delim or not allow_extra) else tail.replace(" extra 99", " 99")
            rows.append(row)
        elif l[0] == "m":
            s, d, _ = l[1]
            if one_indexed:
                s, d = s + 1, d + 1
            rows.append("%d%s%d" % (s, (" " + delim + " ") if delim else " ", d))
        else:
            rows.append(l[1])
    nl = "\r\n" if case["crlf"] else "\n"
    text = nl.join(rows)
    if rows and case["trailing_newline"]:
        text += nl
    return text


def adj_from(edges, n, etype):
    adj = [[] for _ in range(n)]
    for (s, d, w) in edges:
        adj[s].append((d, conv(w, etype)))
    return adj


def same_multiset(got_adj, want_adj, what):
    g, w = common.edge_multiset(got_adj), common.edge_multiset(want_adj)
    if g != w:
        missing = [k for k in w if g.get(k, 0) < w[k]][:3]
        extra = [k for k in g if w.get(k, 0) < g[k]][:3]
        raise Violation("edge-multiset", "%s: edge multisets differ; missing %s extra %s (%d vs %d edges)" %
                        (what, missing, extra, sum(g.values()), sum(w.values())))


class Rejected(Exception):
    pass


def gc(args, work):
    env = dict(os.environ)
    env["GALOIS_VERIF_TOPO"] = "2"  # hook: a 2-thread pool is enough for a converter run
    rc, out, err = run_cmd([GC] + args, timeout=120, cwd=work, env=env)
    err = "\n".join(l for l in err.split("\n") if not l.startswith("DEBUG"))
    if rc != 0 and "conversion undefined for void graphs" in err:
        raise Rejected()  # documented clean refusal, not a violation
    return rc, out, err


def check(case, work):
    try:
        return check_inner(case, work)
    except Rejected:
        return {"mode": case["mode"], "rejected_void": True}, False


def check_inner(case, work):
    mode, etype = case["mode"], case["etype"]
    weighted = etype != "void"
    labels = {"mode": mode, "etype": etype, "crlf": case["crlf"]}
    inp = os.path.join(work, "in.txt")
    out = os.path.join(work, "out.gr")
    for f in (inp, out):
        if os.path.exists(f):
            os.unlink(f)
    if mode == "huge":
        # graph-convert-huge: out-of-core text edge list -> .gr.  Lines "src dst [integer]" (read from its regexes);
        # the weight column is a 64-bit integer (or 32-bit with -32bitData), 0 when absent.
        small = etype in ("int32", "uint32", "float32")
        edges = []
        rows = []
        for l in case["lines"]:
            if l[0] == "e":
                (s0, d0, w0) = l[1]
                edges.append((s0, d0, w0))
                rows.append("%d%s%d%s%d" % (s0, l[2], d0, l[2], w0))
            elif l[0] == "m":
                (s0, d0, _) = l[1]
                edges.append((s0, d0, 0))
                rows.append("%d %d" % (s0, d0))
            elif l[1].startswith("#") or l[1].startswith("%"):
                rows.append(l[1])  # comment lines match none of its patterns
        n = max([0] + [max(s0, d0) for (s0, d0, _) in edges]) + 1 if edges else 0
        # two paths: the general one (any edge order, edge data kept) and -edgesSorted -numNodes=N (sources ascending,
        # no edge data).  The general path is a known finding when listed: then only the sorted path is generated.
        sorted_path = case["param"] % 2 == 0
        if not sorted_path and common.excluded("C12/huge/unsorted-inconsistent-file"):
            common.count_excluded()
            sorted_path = True
        if sorted_path:
            if not edges:
                return {"mode": mode, "huge_path": "sorted", "edges": 0}, False
            order = sorted(range(len(edges)), key=lambda i: edges[i][0])  # stable: input order per source is kept
            edges = [edges[i] for i in order]
            rows = ["%d %d" % (s0, d0) for (s0, d0, _) in edges]
        text = "\n".join(rows) + ("\n" if rows else "")
        open(inp, "w", newline="").write(text)
        env = dict(os.environ)
        env["GALOIS_VERIF_TOPO"] = "2"
        args = ["-edgesSorted", "-numNodes=%d" % n] if sorted_path else (["-32bitData"] if small else [])
        rc, o, e = run_cmd([GCH] + args + [inp, out], timeout=120, cwd=work, env=env)
        if rc != 0:
            raise Violation("tool-failed", "graph-convert-huge %s exited %d: %s" % (" ".join(args), rc, (e + o)[-300:]))
        labels["huge_path"] = "sorted" if sorted_path else "general"
        labels["edges"] = min(len(edges), 20)
        try:
            nn, adj, size, ver = read_gr(out, "void" if sorted_path else ("uint32" if small else "uint64"))
            if nn != n:
                raise Violation("node-count", "graph-convert-huge: %d nodes in output, max id + 1 = %d" % (nn, n))
            for a in adj:
                for (d0, _) in a:
                    if d0 >= nn:
                        raise Violation("malformed-output", "graph-convert-huge: destination %d in a graph of %d nodes" % (d0, nn))
            want = adj_from([(s0, d0, None if sorted_path else w0) for (s0, d0, w0) in edges], n, "void" if sorted_path else "uint64")
            same_multiset(adj, want, "graph-convert-huge")
        except Violation as v:
            if not sorted_path:
                # one root cause (header of the general path does not describe the body): one key
                raise Violation("unsorted-inconsistent-file", "general path: " + v.msg)
            raise
        return labels, len(edges) >= 3
    if mode in ("edgelist2gr", "csv2gr", "edgelist2binary"):
        if mode == "edgelist2binary":
            etype, weighted = "void", False
        edges, skipped = edges_of(case, weighted)
        # edgelist2binary is a token based reader documented as "assumes no edge data": no extra columns
        text = render(case, weighted, delim="," if mode == "csv2gr" else None, allow_extra=mode != "edgelist2binary")
        if mode == "csv2gr":
            text = "src,dst,w" + ("\r\n" if case["crlf"] else "\n") + text
        open(inp, "w", newline="").write(text)
        rc, o, e = gc(["-" + mode, "-edgeType=" + etype, inp, out], work)
        if rc != 0:
            raise Violation("tool-failed", "graph-convert -%s exited %d: %s" % (mode, rc, e[-300:]))
        n = max([0] + [max(s, d) for (s, d, _) in edges]) + 1
        if mode == "edgelist2binary":
            raw = open(out, "rb").read()
            import struct
            vals = struct.unpack("<%dI" % (len(raw) // 4), raw)
            got = sorted(zip(vals[0::2], vals[1::2]))
            want = sorted((s, d) for (s, d, _) in edges)
            if got != want:
                raise Violation("edge-multiset", "binary edge list has %d pairs, input %d (or different pairs)" % (len(got), len(want)))
        else:
            nn, adj, size, ver = read_gr(out, etype)
            if nn != n:
                raise Violation("node-count", "-%s: %d nodes in output, max id + 1 = %d" % (mode, nn, n))
            same_multiset(adj, adj_from(edges, n, etype), "-" + mode)
            # the writer keeps input order per source node
            for s in range(n):
                want = [(d, conv(w, etype)) for (ss, d, w) in edges if ss == s]
                if adj[s] != want:
                    raise Violation("edge-order", "-%s: node %d edges %s, input order %s" % (mode, s, adj[s][:5], want[:5]))
        labels["skipped"] = skipped > 0
        labels["edges"] = min(len(edges), 20)
        return labels, len(edges) >= 3 and (skipped > 0 or (len(edges) % 2 == 1 and weighted))
    # ----- inputs that start from a .gr written by our own codec
    edges, _ = edges_of(case, True)
    edges = [(s % 41, d % 41, w) for (s, d, w) in edges]
    n = max([0] + [max(s, d) for (s, d, _) in edges]) + 1
    if mode == "dimacs" or mode == "mtx":
        # text formats with headers: write, convert to gr, compare
        et = etype if etype in INT_TYPES else "int32"
        if mode == "dimacs":
            text = "c generated\np sp %d %d\n" % (n, len(edges)) + "".join("a %d %d %d\n" % (s + 1, d + 1, w) for (s, d, w) in edges)
            flag = "-dimacs2gr"
        else:
            text = "%%%%MatrixMarket matrix coordinate integer general\n%% c\n%d %d %d\n" % (n, n, len(edges)) + \
                "".join("%d %d %d\n" % (s + 1, d + 1, w) for (s, d, w) in edges)
            flag = "-mtx2gr"
        open(inp, "w").write(text)
        rc, o, e = gc([flag, "-edgeType=" + et, inp, out], work)
        if rc != 0:
            raise Violation("tool-failed", "graph-convert %s exited %d: %s" % (flag, rc, e[-300:]))
        nn, adj, size, ver = read_gr(out, et)
        if nn != n:
            raise Violation("node-count", "%s: %d nodes in output, header says %d" % (flag, nn, n))
        same_multiset(adj, adj_from(edges, n, et), flag)
        labels["edges"] = min(len(edges), 20)
        return labels, len(edges) >= 3 and len(edges) % 2 == 1
    et = etype if (mode == "gr-transform" or etype in INT_TYPES + ["void"]) else "uint32"
    if mode == "gr-transform" and case["transform"] in ("gr2sortedweightgr", "gr2randomweightgr", "gr2ringgr", "gr2linegr", "gr2treegr", "gr2biggr") \
            and et in ("void", "float32", "float64"):  # these conversions refuse void graphs ("conversion undefined")
        et = "uint32"
    src_adj = adj_from(edges, n, et)
    gr = os.path.join(work, "in.gr")
    write_gr(gr, n, src_adj, et)
    labels["edges"] = min(len(edges), 20)
    nt = len(edges) >= 3 and (len(edges) % 2 == 1 and et != "void")
    if mode == "gr-text":
        inv = case["inverse"]
        labels["inverse"] = inv
        txt = os.path.join(work, "out.txt")
        rc, o, e = gc(["-" + inv, "-edgeType=" + et, gr, txt], work)
        if rc != 0:
            raise Violation("tool-failed", "graph-convert -%s exited %d: %s" % (inv, rc, e[-300:]))
        lines = open(txt).read().split("\n")
        got = []
        w_ok = et != "void"
        try:
            if inv in ("gr2edgelist", "gr2edgelist1ind", "gr2pbbsedges"):
                off = 1 if inv == "gr2edgelist1ind" else 0
                body = lines[1:] if inv == "gr2pbbsedges" else lines
                for l in body:
                    if not l.strip():
                        continue
                    p = l.split()
                    got.append((int(p[0]) - off, int(p[1]) - off, int(p[2]) if (w_ok and len(p) > 2) else None))
            elif inv == "gr2dimacs":
                for l in lines:
                    if l.startswith("a "):
                        p = l.split()
                        got.append((int(p[1]) - 1, int(p[2]) - 1, int(p[3]) if w_ok else None))
                    elif l.startswith("p "):
                        p = l.split()
                        if int(p[2]) != n or int(p[3]) != len(edges):
                            raise Violation("header", "dimacs header %s, graph has %d nodes %d edges" % (l, n, len(edges)))
            elif inv == "gr2mtx":
                hdr = lines[0].split()
                if [int(x) for x in hdr] != [n, n, len(edges)]:
                    raise Violation("header", "mtx header %s, graph has %d nodes %d edges" % (lines[0], n, len(edges)))
                for l in lines[1:]:
                    if l.strip():
                        p = l.split()
                        got.append((int(p[0]) - 1, int(p[1]) - 1, int(float(p[2])) if w_ok else None))
            elif inv == "gr2adjacencylist":
                for l in lines:
                    if l.strip():
                        p = l.split()
                        for d in p[1:]:
                            got.append((int(p[0]), int(d), None))
                w_ok = False
            elif inv == "gr2pbbs":
                # (Weighted)AdjacencyGraph: n, m, n offsets, m targets [, m weights]
                vals = [x for x in lines[1:] if x.strip()]
                nn, mm = int(vals[0]), int(vals[1])
                offs = [int(x) for x in vals[2:2 + nn]] + [mm]
                tg = [int(x) for x in vals[2 + nn:2 + nn + mm]]
                ws = [int(x) for x in vals[2 + nn + mm:2 + nn + 2 * mm]] if (w_ok and lines[0].startswith("Weighted")) else None
                if nn != n or mm != len(edges):
                    raise Violation("header", "pbbs header %d %d, graph has %d nodes %d edges" % (nn, mm, n, len(edges)))
                for s in range(nn):
                    for i in range(offs[s], offs[s + 1]):
                        got.append((s, tg[i], ws[i] if ws else None))
                if ws is None:
                    w_ok = False
        except (ValueError, IndexError) as ex:
            raise Violation("unparsable-output", "-%s output cannot be parsed: %s" % (inv, ex))
        want = sorted((s, d, (w if w_ok else None)) for (s, d, w) in edges)
        got = sorted((s, d, (w if w_ok else None)) for (s, d, w) in got)
        if got != want:
            raise Violation("edge-multiset", "-%s: %d edges in text output, %d in the graph (or different edges): got %s want %s" %
                            (inv, len(got), len(want), got[:4], want[:4]))
        return labels, nt
    # ----- transforming conversions
    tr = case["transform"]
    labels["transform"] = tr
    args = ["-" + tr, "-edgeType=" + et]
    if tr == "gr2randomweightgr":
        args += ["-minValue=3", "-maxValue=%d" % (3 + case["param"])]
    if tr in ("gr2ringgr", "gr2linegr", "gr2treegr"):
        args += ["-maxValue=%d" % (1000 + case["param"])]
    if tr == "gr2lowdegreegr":
        args += ["-maxDegree=%d" % case["param"]]
    rc, o, e = gc(args + [gr, out], work)
    if rc != 0:
        raise Violation("tool-failed", "graph-convert -%s exited %d: %s" % (tr, rc, e[-300:]))
    out_type = et
    nn, adj, size, ver = read_gr(out, None)
    import struct

    def dec(adjx, t):
        f = common.FMT[t]
        return [[(d, struct.unpack(f, w)[0] if (f and w is not None) else None) for (d, w) in a] for a in adjx]

    def dec_big(adjx, t):
        f = common.FMT[t]
        return [[(d, struct.unpack(f.replace("<", ">"), w)[0] if (f and w is not None) else None) for (d, w) in a] for a in adjx]
    if tr == "gr2biggr":
        if nn != n:
            raise Violation("node-count", "-gr2biggr: %d nodes, input %d" % (nn, n))
        same_multiset(dec_big(adj, et), src_adj, "-gr2biggr")
        return labels, nt
    if tr == "gr2randomweightgr":
        if nn != n or [[d for (d, _) in a] for a in adj] != [[d for (d, _) in a] for a in src_adj]:
            raise Violation("structure", "-gr2randomweightgr changed the structure")
        got = dec(adj, et if size == struct.calcsize(common.FMT[et]) else "uint32")
        lo, hi = 3, 3 + case["param"]
        for a in got:
            for (_, w) in a:
                if not (lo <= w <= hi):
                    raise Violation("weight-range", "-gr2randomweightgr produced weight %s outside [%d,%d]" % (w, lo, hi))
        return labels, nt
    got = dec(adj, out_type) if size == (struct.calcsize(common.FMT[out_type]) if common.FMT[out_type] else 0) else None
    if got is None:
        raise Violation("edge-size", "-%s: output sizeofEdge %d, input type %s" % (tr, size, et))
    if tr == "gr2tgr":
        want = [[] for _ in range(n)]
        for s, a in enumerate(src_adj):
            for (d, w) in a:
                want[d].append((s, w))
        if nn != n:
            raise Violation("node-count", "-gr2tgr: %d nodes, input %d" % (nn, n))
        same_multiset(got, want, "-gr2tgr")
    elif tr == "gr2sgr":
        want = [list(a) for a in src_adj]
        for s, a in enumerate(src_adj):
            for (d, w) in a:
                if d != s:
                    want[d].append((s, w))
        if nn != n:
            raise Violation("node-count", "-gr2sgr: %d nodes, input %d" % (nn, n))
        # documented meaning: add reverse edges; self loops need no reverse
        g, w = common.edge_multiset(got), common.edge_multiset(want)
        # accept either convention for self loops (kept once or twice)
        for k in list(g):
            if k[0] == k[1]:
                g.pop(k)
        for k in list(w):
            if k[0] == k[1]:
                w.pop(k)
        if g != w:
            raise Violation("edge-multiset", "-gr2sgr: result is not input + reverse edges (%d vs %d non-loop edges)" %
                            (sum(g.values()), sum(w.values())))
    elif tr == "gr2cgr":
        # remove self edges and multi-edges: one edge per (src,dst), src != dst; which weight survives is not documented
        gotset = sorted((s, d) for s, a in enumerate(got) for (d, _) in a)
        wantset = sorted(set((s, d) for s, a in enumerate(src_adj) for (d, _) in a if s != d))
        if nn != n or gotset != wantset:
            raise Violation("edge-set", "-gr2cgr: edges %s, expected the distinct non-loop pairs %s" % (gotset[:6], wantset[:6]))
        allw = {}
        for s, a in enumerate(src_adj):
            for (d, w) in a:
                allw.setdefault((s, d), set()).add(w)
        for s, a in enumerate(got):
            for (d, w) in a:
                if w not in allw[(s, d)]:
                    raise Violation("edge-data", "-gr2cgr: edge %d->%d carries weight %s that no input edge had" % (s, d, w))
    elif tr in ("gr2sorteddstgr", "gr2sortedweightgr"):
        if nn != n:
            raise Violation("node-count", "-%s: %d nodes, input %d" % (tr, nn, n))
        same_multiset(got, src_adj, "-" + tr)
        for s, a in enumerate(got):
            keys = [d for (d, _) in a] if tr == "gr2sorteddstgr" else [w for (_, w) in a]
            if keys != sorted(keys):
                raise Violation("not-sorted", "-%s: edges of node %d are not sorted: %s" % (tr, s, a[:8]))
    elif tr == "gr2sorteddegreegr":
        # nodes renumbered by degree: the result must be isomorphic via a
        # permutation under which degrees are monotone; check degree sequence
        # monotone and multiset of (deg(src), deg(dst), w) preserved
        if nn != n:
            raise Violation("node-count", "-gr2sorteddegreegr: %d nodes, input %d" % (nn, n))
        degs = [len(a) for a in got]
        if degs != sorted(degs) and degs != sorted(degs, reverse=True):
            raise Violation("not-sorted", "-gr2sorteddegreegr: node degrees are not monotone: %s" % degs[:12])
        sd = [len(a) for a in src_adj]

        def sig(adjx, deg):
            return sorted((deg[s], deg[d], w) for s, a in enumerate(adjx) for (d, w) in a)
        if sig(got, degs) != sig(src_adj, sd):
            raise Violation("edge-multiset", "-gr2sorteddegreegr: the (deg(src),deg(dst),weight) multiset changed")
    elif tr in ("gr2ringgr", "gr2linegr", "gr2treegr"):
        # overlays add edges of weight maxValue; the input edges must all survive
        if nn != n:
            raise Violation("node-count", "-%s: %d nodes, input %d" % (tr, nn, n))
        g, w = common.edge_multiset(got), common.edge_multiset(src_adj)
        for k, c in w.items():
            if g.get(k, 0) < c:
                raise Violation("edge-multiset", "-%s: input edge %s lost by the overlay" % (tr, k))
        extra = sum(g.values()) - sum(w.values())
        want_extra = {"gr2ringgr": n, "gr2linegr": max(0, n - 1), "gr2treegr": max(0, n - 1)}[tr]
        if extra != want_extra:
            raise Violation("overlay-size", "-%s on %d nodes added %d edges, expected %d" % (tr, n, extra, want_extra))
    elif tr == "gr2lowdegreegr":
        pass  # semantics (which endpoints count) not documented precisely: only that the tool succeeds and output parses
    return labels, nt


if __name__ == "__main__":
    sys.exit(common.main(HARNESS, case_strategy, check, finding_key))
