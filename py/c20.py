"""C20 -- lonestar applications compute the correct answer.  Hypothesis generates
graphs and option sets; the applications are run as subprocesses (CPU) or under
mpirun (distributed); results are compared with references implemented here
(BFS, Dijkstra, union-find, Kruskal, brute-force triangles, peeling, power
iteration, max-flow).  DESIGN.md 4/C20."""
import heapq
import os
import re
import sys

from hypothesis import strategies as st

sys.path.insert(0, os.path.dirname(os.path.abspath(__file__)))
import common  # noqa: E402
from common import Inconclusive, Violation, run_cmd, write_gr  # noqa: E402

HARNESS = "py:c20"
CPU = os.path.join(common.NATIVE, "lonestar", "analytics", "cpu")
DIST = os.path.join(common.NATIVE, "lonestar", "analytics", "distributed")
BIN = {
    "bfs": CPU + "/bfs/bfs-cpu", "sssp": CPU + "/sssp/sssp-cpu", "cc": CPU + "/connected-components/connected-components-cpu",
    "mst": CPU + "/spanningtree/minimum-spanningtree-cpu", "tc": CPU + "/triangle-counting/triangle-counting-cpu",
    "kcore": CPU + "/k-core/k-core-cpu", "pfp": CPU + "/preflowpush/preflowpush-cpu", "prpush": CPU + "/pagerank/pagerank-push-cpu",
    "prpull": CPU + "/pagerank/pagerank-pull-cpu", "mis": CPU + "/independentset/maximal-independentset-cpu",
    "bfs-dist": DIST + "/bfs/bfs-%s-dist", "sssp-dist": DIST + "/sssp/sssp-%s-dist",
    "cc-dist": DIST + "/connected-components/connected-components-%s-dist", "kcore-dist": DIST + "/k-core/k-core-%s-dist",
    "pr-dist": DIST + "/pagerank/pagerank-%s-dist",
}
ALGOS = {
    "bfs": ["AsyncTile", "Async", "SyncTile", "Sync"],
    "sssp": ["deltaTile", "deltaStep", "deltaStepBarrier", "serDeltaTile", "serDelta", "dijkstraTile", "dijkstra", "topo", "topoTile", "AutoAlgo"],
    "cc": ["Async", "EdgeAsync", "EdgetiledAsync", "BlockedAsync", "LabelProp", "Serial", "Sync", "Afforest", "EdgeAfforest", "EdgetiledAfforest"],
    "tc": ["nodeiterator", "edgeiterator", "orderedCount"],
    "kcore": ["Sync", "Async"],
    "prpush": ["Async", "Sync"],
    "prpull": ["Topo", "Residual"],
    "mis": ["serial", "pull", "nondet", "detBase", "prio", "edgetiledprio"],
}
APPS = ["bfs", "sssp", "cc", "mst", "tc", "kcore", "pfp", "prpush", "prpull", "mis", "bfs-dist", "sssp-dist", "cc-dist", "kcore-dist", "pr-dist"]
# the registered check runs two units: the shared-memory applications (cheap, many cases) and the distributed ones
_sel = os.environ.get("C20_APPS", "")
if _sel == "cpu":
    APPS = [a for a in APPS if not a.endswith("-dist")]
elif _sel == "dist":
    APPS = [a for a in APPS if a.endswith("-dist")]
elif _sel:
    APPS = [a for a in APPS if a in _sel.split(",")]

edge = st.tuples(st.integers(0, 399), st.integers(0, 399), st.integers(0, 1000))
case_strategy = st.fixed_dictionaries({
    "app": st.sampled_from(APPS),
    "n": st.one_of(st.integers(1, 12), st.integers(1, 60), st.integers(1, 400)),
    "edges": st.lists(edge, max_size=600),
    "shape": st.sampled_from(["random", "random", "hub", "two-components", "path", "tree", "ring-satellites", "star-forest"]),
    "algo": st.integers(0, 9),
    "threads": st.sampled_from([1, 2, 4, 8, 16]),
    "start": st.integers(0, 399),
    "report": st.integers(0, 399),
    "param": st.integers(0, 20),
    "hosts": st.sampled_from([1, 2, 3, 4]),
    "policy": st.sampled_from(["oec", "iec", "hovc", "cvc", "hivc", "cvc-iec"]),
    "pushpull": st.sampled_from(["push", "pull"]),
})


def finding_key(case, failkey):
    app = case["app"]
    algo = ALGOS.get(app.replace("-dist", ""), [""])
    a = algo[case["algo"] % len(algo)] if algo and algo[0] else ""
    if app.endswith("-dist"):
        return "C20/%s-%s/%s" % (app, case["pushpull"], failkey)
    return "C20/%s%s/%s" % (app, ("-" + a) if a else "", failkey)


def build_graph(case):
    n = case["n"]
    shape = case["shape"]
    es = []
    p = case["param"]
    if shape == "tree" and n >= 3:
        # random tree: node i hangs under an earlier node chosen by the generated edge list (or a
        # PRF of it); the generated weights decide the order in which the edges enter the file
        # (adjacency order matters to sampling-based algorithms)
        src = case["edges"] or [(0, 0, 0)]
        for i in range(1, n):
            s0, d0, w0 = src[i % len(src)]
            es.append((i, (s0 * 7919 + d0 * 31 + i * (w0 | 1)) % i, w0))
        es.sort(key=lambda e: (e[2] * 2654435761 + e[0] * 40503) % 1000003)
        return n, es
    if shape == "ring-satellites" and n >= 8:
        # one large cycle plus small trees attached to it by a single edge each
        ring = max(4, n * (2 + p % 3) // 5)
        for i in range(ring):
            es.append((i, (i + 1) % ring, 1 + i % 7))
        src = case["edges"] or [(0, 0, 0)]
        for i in range(ring, n):
            s0, d0, w0 = src[i % len(src)]
            # a new satellite root hangs on the ring, the others under a recent satellite node
            parent = (s0 + d0) % ring if (w0 + i) % 4 == 0 else ring + (s0 + i) % (i - ring) if i > ring else (s0 % ring)
            es.append((i, parent, 1 + w0 % 9))
        es.sort(key=lambda e: (e[2] * 2654435761 + e[0] * 40503 + p) % 1000003)
        return n, es
    if shape == "star-forest":
        # a few hubs with many leaves each (leaf -> hub and, for half of the hubs, hub -> leaf): all leaves
        # push into their hub at the same time.  Much larger than the generated n: sizes come from the case.
        hubs = 1 + p % 8
        leaves = [40, 150, 600, 1500][(case["n"] + p) % 4]
        n = hubs * (leaves + 1)
        for h in range(hubs):
            hub = h * (leaves + 1)
            for j in range(1, leaves + 1):
                es.append((hub + j, hub, 1 + (j * 7 + h) % 50))
                if h % 2:
                    es.append((hub, hub + j, 1 + (j * 3 + h) % 50))
        for h in range(1, hubs):  # hubs form a chain so that the graph is connected
            es.append(((h - 1) * (leaves + 1), h * (leaves + 1), 3))
            # shortcuts from some leaves of the previous hub: a hub is first reached over one heavy edge and later
            # improved over a lighter two-hop path, while it may be in the middle of relaxing its many out-edges
            for j in range(5, leaves + 1, 5):
                es.append(((h - 1) * (leaves + 1) + j, h * (leaves + 1), 150 + j % 50))
        return n, es
    for (s, d, w) in case["edges"]:
        s, d = s % n, d % n
        if shape == "hub":
            s = 0 if (s + d) % 3 else s
        elif shape == "two-components" and n >= 4:
            h = n // 2
            s, d = s % h, d % h
            if w % 2:
                s, d = s + h, d + h
        elif shape == "path":
            d = (s + 1) % n
        es.append((s, d, w))
    return n, es


def bfs_ref(n, adj, src):
    dist = [None] * n
    dist[src] = 0
    q = [src]
    for u in q:
        for v in adj[u]:
            if dist[v] is None:
                dist[v] = dist[u] + 1
                q.append(v)
    return dist


def dijkstra_ref(n, wadj, src):
    dist = [None] * n
    dist[src] = 0
    pq = [(0, src)]
    while pq:
        d, u = heapq.heappop(pq)
        if d > dist[u]:
            continue
        for (v, w) in wadj[u]:
            nd = d + w
            if dist[v] is None or nd < dist[v]:
                dist[v] = nd
                heapq.heappush(pq, (nd, v))
    return dist


class UF:
    def __init__(self, n):
        self.p = list(range(n))

    def find(self, x):
        while self.p[x] != x:
            self.p[x] = self.p[self.p[x]]
            x = self.p[x]
        return x

    def union(self, a, b):
        a, b = self.find(a), self.find(b)
        if a == b:
            return False
        self.p[a] = b
        return True


TOPO = [""]  # set per case by check()


def run_app(cmd, work, threads, hosts=None, timeout=180):
    env = dict(os.environ)
    env["GALOIS_DO_NOT_BIND_THREADS"] = "1"
    env["OMPI_MCA_mpi_yield_when_idle"] = "1"
    if not hosts and TOPO[0]:
        env["GALOIS_VERIF_TOPO"] = TOPO[0]  # synthetic socket layout for the shared-memory applications (hook)
    if hosts:
        env["GALOIS_VERIF_TOPO"] = str(max(1, threads))
        cmd = ["mpirun", "--allow-run-as-root", "--oversubscribe", "--bind-to", "none", "-np", str(hosts)] + cmd
    rc, out, err = run_cmd(cmd, timeout=timeout, env=env, cwd=work)
    txt = "\n".join(l for l in (out + "\n" + err).split("\n") if l and not l.startswith(("DEBUG", "STAT", "PARAM")))
    if rc != 0:
        raise Violation("app-failed", "%s exited %d: %s" % (os.path.basename(cmd[-1] if not hosts else cmd[5]), rc, txt[-400:]))
    return txt


def grab(txt, pattern, what, cast=int):
    m = re.search(pattern, txt)
    if not m:
        raise Violation("unparsable-output", "cannot find '%s' in the output: %s" % (what, txt[-300:]))
    return cast(m.group(1))


def sym_simple(n, es):
    """simple undirected graph (no loops, no parallel edges) as sorted adjacency"""
    und = set()
    for (s, d, w) in es:
        if s != d:
            und.add((min(s, d), max(s, d)))
    adj = [[] for _ in range(n)]
    for (a, b) in und:
        adj[a].append(b)
        adj[b].append(a)
    for a in adj:
        a.sort()
    return adj, und


def check_sp_output(txt, ref, report, visited, start, n):
    if ref[report] is not None:
        got = grab(txt, r"Node %d has distance (\d+)" % report, "report node distance")
        if got != ref[report]:
            raise Violation("wrong-distance", "node %d: app says %d, reference %d (start %d, n=%d)" % (report, got, ref[report], start, n))
    gv = grab(txt, r"# visited nodes is (\d+)", "# visited")
    gm = grab(txt, r"Max distance is (\d+)", "max distance")
    gs = grab(txt, r"Sum of visited distances is (\d+)", "sum of distances")
    if (gv, gm, gs) != (len(visited), max(visited), sum(visited)):
        raise Violation("wrong-summary", "visited/max/sum: app %s, reference %s (start %d, n=%d)" %
                        ((gv, gm, gs), (len(visited), max(visited), sum(visited)), start, n))


def check(case, work):
    app = case["app"]
    n, es = build_graph(case)
    threads = case["threads"]
    if case["shape"] == "star-forest" and app not in ("bfs", "sssp", "cc", "prpush", "prpull", "pr-dist"):
        case = dict(case, shape="hub")  # the large shape only where the reference is cheap
        n, es = build_graph(case)
    # socket layout: the machine's own (one socket), or the threads split over two or more synthetic sockets
    # (several code paths -- stealing, per-socket worklists, socket-dependent algorithm variants -- depend on it)
    TOPO[0] = ""
    if not app.endswith("-dist") and threads >= 2 and case["start"] % 3:
        if case["start"] % 3 == 1 or threads < 4:
            TOPO[0] = "%d,%d" % (threads - threads // 2, threads // 2)
        else:
            q = threads // 4
            TOPO[0] = ",".join(str(x) for x in [threads - 3 * q, q, q, q])
    labels = {"app": app, "threads": threads, "shape": case["shape"], "topo": TOPO[0] or "machine", "n": "<=12" if n <= 12 else "<=60" if n <= 60 else "<=400" if n <= 400 else ">400"}
    has_multi = len(set((s, d) for (s, d, _) in es)) < len(es) or any(s == d for (s, d, _) in es)
    gr = os.path.join(work, "g.gr")
    tgr = os.path.join(work, "g.tgr")
    multi_comp = False
    algos = ALGOS.get(app.replace("-dist", ""))
    algo = algos[case["algo"] % len(algos)] if algos else None
    if algo:
        labels["algo"] = algo
    t = ["-t", str(threads)]
    start, report = case["start"] % n, case["report"] % n
    if app in ("bfs", "sssp", "bfs-dist", "sssp-dist"):
        weighted = app.startswith("sssp")
        adj = [[] for _ in range(n)]
        tadj = [[] for _ in range(n)]
        for (s, d, w) in es:
            adj[s].append((d, w if weighted else 1))
            tadj[d].append((s, w if weighted else 1))
        write_gr(gr, n, adj, "uint32")
        write_gr(tgr, n, tadj, "uint32")
        ref = dijkstra_ref(n, adj, start) if weighted else bfs_ref(n, [[d for (d, _) in a] for a in adj], start)
        visited = [d for d in ref if d is not None]
        multi_comp = len(visited) < n
        if not app.endswith("-dist"):
            cmd = [BIN[app], gr] + t + ["-startNode=%d" % start, "-reportNode=%d" % report, "-algo=" + algo]
            if app == "bfs":
                ex = ["SERIAL", "PARALLEL"][case["param"] % 2]
                cmd.append("-exec=" + ex)
                labels["exec"] = ex
            else:
                cmd.append("-delta=%d" % (case["param"] % 14))
            # schedule dependent variants on the large shape: sample a few schedules
            for _rep in range(3 if (case["shape"] == "star-forest" and threads >= 2) else 1):
                txt = run_app(cmd, work, threads)
                check_sp_output(txt, ref, report, visited, start, n)
        else:
            hosts = case["hosts"]
            pp = case["pushpull"]
            outd = os.path.join(work, "out")
            os.system("rm -rf %s; mkdir -p %s" % (outd, outd))
            cmd = [BIN[app] % pp, gr, "-graphTranspose=" + tgr] + t + ["-startNode=%d" % start, "-output", "-outputLocation=" + outd,
                                                                          "-partition=" + case["policy"], "-runs=1", "-exec=" + ["Async", "Sync"][case["param"] % 2]]
            labels.update(hosts=hosts, policy=case["policy"], pushpull=pp, exec=["Async", "Sync"][case["param"] % 2])
            txt = run_app(cmd, work, min(threads, 2), hosts=hosts)
            got = {}
            for f in os.listdir(outd):
                for line in open(os.path.join(outd, f)):
                    p = line.split()
                    if len(p) == 2:
                        got[int(p[0])] = int(p[1])
            if len(got) != n:
                raise Violation("output-incomplete", "%d of %d nodes in the output files" % (len(got), n))
            inf = max(got.values())
            for v in range(n):
                want = ref[v]
                if want is None:
                    if got[v] < 1000000:  # unreachable nodes keep the app's infinity
                        raise Violation("wrong-distance", "unreachable node %d has distance %d" % (v, got[v]))
                elif got[v] != want:
                    raise Violation("wrong-distance", "node %d: app says %d, reference %d (start %d, %d hosts, %s)" %
                                    (v, got[v], want, start, hosts, case["policy"]))
        return labels, (multi_comp or has_multi) and (threads >= 2 or case.get("hosts", 1) >= 2)
    if app in ("cc", "cc-dist", "mst", "tc", "kcore", "kcore-dist", "mis"):
        if app in ("tc", "kcore", "kcore-dist", "mis"):
            adjs, und = sym_simple(n, es)  # documented inputs are simple symmetric graphs
            write_gr(gr, n, [[(d, None) for d in a] for a in adjs], "void")
            sym_edges = [(a, b, 1) for (a, b) in und]
        else:
            adj = [[] for _ in range(n)]
            for (s, d, w) in es:
                w = w + 1 if app == "mst" else w
                adj[s].append((d, w))
                if s != d:
                    adj[d].append((s, w))
            write_gr(gr, n, adj, "uint32")
            sym_edges = [(s, d, (w + 1 if app == "mst" else w)) for (s, d, w) in es]
            adjs = [[d for (d, _) in a] for a in adj]
        uf = UF(n)
        for (a, b, w) in sym_edges:
            uf.union(a, b)
        comps = len(set(uf.find(v) for v in range(n)))
        multi_comp = comps >= 2
        if app == "cc":
            cmd = [BIN[app], gr, "-symmetricGraph"] + t + ["-algo=" + algo]
            if "Afforest" in algo:
                vns = [2, 0, 1, 3][case["param"] % 4]  # neighbour sampling rounds (documented option, default 2)
                cmd.append("-vns=%d" % vns)
                labels["vns"] = vns
            txt = run_app(cmd, work, threads)
            got = grab(txt, r"Total components: (\d+)", "Total components")
            if got != comps:
                raise Violation("wrong-components", "app counts %d components, union-find %d (n=%d, %d edges, %s)" % (got, comps, n, len(es), algo))
        elif app == "cc-dist":
            hosts, pp = case["hosts"], case["pushpull"]
            outd = os.path.join(work, "out")
            os.system("rm -rf %s; mkdir -p %s" % (outd, outd))
            cmd = [BIN[app] % pp, gr, "-symmetricGraph"] + t + ["-output", "-outputLocation=" + outd, "-partition=" + case["policy"], "-runs=1", "-exec=" + ["Async", "Sync"][case["param"] % 2]]
            labels.update(hosts=hosts, policy=case["policy"], pushpull=pp, exec=["Async", "Sync"][case["param"] % 2])
            run_app(cmd, work, min(threads, 2), hosts=hosts)
            got = {}
            for f in os.listdir(outd):
                for line in open(os.path.join(outd, f)):
                    p = line.split()
                    if len(p) == 2:
                        got[int(p[0])] = int(p[1])
            if len(got) != n:
                raise Violation("output-incomplete", "%d of %d nodes in the output files" % (len(got), n))
            for (a, b, w) in sym_edges:
                if got[a] != got[b]:
                    raise Violation("wrong-components", "nodes %d and %d are adjacent but labelled %d and %d" % (a, b, got[a], got[b]))
            if len(set(got.values())) != comps:
                raise Violation("wrong-components", "%d distinct labels, union-find finds %d components" % (len(set(got.values())), comps))
        elif app == "mst":
            if not sym_edges:
                raise Inconclusive()  # the app refuses a graph without edges ("Edge weights of graph out of range")
            txt = run_app([BIN[app], gr, "-symmetricGraph"] + t, work, threads)
            uf2 = UF(n)
            wsum = 0
            for (a, b, w) in sorted(sym_edges, key=lambda e: e[2]):
                if uf2.union(a, b):
                    wsum += w
            got = grab(txt, r"MST weight: (\d+)", "MST weight")
            if got != wsum:
                raise Violation("wrong-weight", "app says MST weight %d, Kruskal %d (n=%d, %d edges)" % (got, wsum, n, len(es)))
        elif app == "tc":
            cmd = [BIN[app], gr, "-symmetricGraph"] + t + ["-algo=" + algo]
            if case["param"] % 3 == 0:
                cmd.append("-relabel")
            txt = run_app(cmd, work, threads)
            sets = [set(a) for a in adjs]
            tri = sum(1 for a in range(n) for b in adjs[a] if b > a for c in adjs[b] if c > b and c in sets[a])
            got = grab(txt, r"Num ?Triangles: (\d+)", "Num Triangles")
            if got != tri:
                raise Violation("wrong-count", "app counts %d triangles, brute force %d (n=%d, %s)" % (got, tri, n, algo))
        elif app in ("kcore", "kcore-dist"):
            k = 1 + case["param"] % 6
            deg = [len(a) for a in adjs]
            alive = [True] * n
            stack = [v for v in range(n) if deg[v] < k]
            for v in stack:
                alive[v] = False
            while stack:
                v = stack.pop()
                for u in adjs[v]:
                    if alive[u]:
                        deg[u] -= 1
                        if deg[u] < k:
                            alive[u] = False
                            stack.append(u)
            want = sum(alive)
            labels["k"] = k
            if app == "kcore":
                txt = run_app([BIN[app], gr, "-symmetricGraph"] + t + ["-algo=" + algo, "-kcore=%d" % k], work, threads)
                got = grab(txt, r"Number of nodes in the %d-core is (\d+)" % k, "k-core size")
                if got != want:
                    raise Violation("wrong-count", "app says %d nodes in the %d-core, peeling gives %d (n=%d, %s)" % (got, k, want, n, algo))
            else:
                hosts, pp = case["hosts"], case["pushpull"]
                outd = os.path.join(work, "out")
                os.system("rm -rf %s; mkdir -p %s" % (outd, outd))
                cmd = [BIN[app] % pp, gr, "-symmetricGraph"] + t + ["-kcore=%d" % k, "-output", "-outputLocation=" + outd,
                                                                    "-partition=" + case["policy"], "-runs=1", "-exec=" + ["Async", "Sync"][case["param"] % 2]]
                labels.update(hosts=hosts, policy=case["policy"], pushpull=pp, exec=["Async", "Sync"][case["param"] % 2])
                run_app(cmd, work, min(threads, 2), hosts=hosts)
                got = {}
                for f in os.listdir(outd):
                    for line in open(os.path.join(outd, f)):
                        p = line.split()
                        if len(p) == 2:
                            got[int(p[0])] = int(p[1])
                if len(got) != n:
                    raise Violation("output-incomplete", "%d of %d nodes in the output files" % (len(got), n))
                for v in range(n):
                    if bool(got[v]) != alive[v]:
                        raise Violation("wrong-count", "node %d: app flag %d, peeling says %s (k=%d)" % (v, got[v], alive[v], k))
        else:  # mis: only the cardinality is printed -> it must be the size of SOME maximal independent set
            txt = run_app([BIN[app], gr, "-symmetricGraph"] + t + ["-algo=" + algo], work, threads)
            got = grab(txt, r"Cardinality of maximal independent set: (\d+)", "MIS cardinality")
            if n <= 14:
                import networkx as nx
                g = nx.Graph()
                g.add_nodes_from(range(n))
                g.add_edges_from(und)
                sizes = set(len(c) for c in nx.find_cliques(nx.complement(g)))
                if got not in sizes:
                    raise Violation("wrong-cardinality", "app reports a maximal independent set of size %d; the maximal independent sets of "
                                    "this graph have sizes %s" % (got, sorted(sizes)))
            else:
                isolated = sum(1 for a in adjs if not a)
                if got < max(isolated, 1 if n else 0) or got > n:
                    raise Violation("wrong-cardinality", "MIS cardinality %d impossible (n=%d, %d isolated nodes)" % (got, n, isolated))
            if "erification" in txt and "fail" in txt.lower():
                raise Violation("app-verify-failed", txt[-200:])
        return labels, (multi_comp or has_multi) and (threads >= 2 or case.get("hosts", 1) >= 2)
    if app == "pfp":
        if n < 2:
            raise Inconclusive()
        src, snk = start, report
        if src == snk:
            snk = (src + 1) % n
        cap = {}
        for (s, d, w) in es:
            if s != d:
                cap[(s, d)] = cap.get((s, d), 0) + w % 50
        adj = [[] for _ in range(n)]
        for (s, d), w in sorted(cap.items()):
            adj[s].append((d, w))
        pdir = os.path.join(work, "pfp")
        os.system("rm -rf %s; mkdir -p %s" % (pdir, pdir))
        gr = os.path.join(pdir, "g.gr")  # the app writes a derived file next to its input
        write_gr(gr, n, adj, "uint32")
        cmd = [BIN[app], gr] + t + ["-sourceNode=%d" % src, "-sinkNode=%d" % snk]
        var = case["param"] % 4
        if var == 1:
            cmd.append("-useHLOrder")
        elif var == 2:
            cmd.append("-detBase")
        elif var == 3:
            cmd.append("-detDisjoint")
        labels["variant"] = var
        txt = run_app(cmd, work, threads)
        import networkx as nx
        g = nx.DiGraph()
        g.add_nodes_from(range(n))
        for (s, d), w in cap.items():
            g.add_edge(s, d, capacity=w)
        want = nx.maximum_flow_value(g, src, snk)
        got = grab(txt, r"Flow is (\d+)", "Flow is")
        if got != want:
            raise Violation("wrong-flow", "app says flow %d, max-flow %d (n=%d, %d arcs, %d->%d, variant %d)" % (got, want, n, len(cap), src, snk, var))
        return labels, threads >= 2 and len(cap) >= 3
    if app == "pr-dist":
        # distributed PageRank (push and pull): same unnormalised definition as the shared-memory apps
        adj = [[] for _ in range(n)]
        tadj = [[] for _ in range(n)]
        seen = set()
        for (s, d, w) in es:
            if (s, d) in seen:
                continue
            seen.add((s, d))
            adj[s].append((d, None))
            tadj[d].append((s, None))
        write_gr(gr, n, adj, "void")
        write_gr(tgr, n, tadj, "void")
        hosts, pp = case["hosts"], case["pushpull"]
        outd = os.path.join(work, "out")
        os.system("rm -rf %s; mkdir -p %s" % (outd, outd))
        ex = ["Async", "Sync"][case["param"] % 2]
        cmd = [BIN[app] % pp, gr, "-graphTranspose=" + tgr] + t + ["-output", "-outputLocation=" + outd, "-partition=" + case["policy"], "-runs=1",
                                                                      "-exec=" + ex, "-tolerance=1e-6", "-maxIterations=10000"]
        labels.update(hosts=hosts, policy=case["policy"], pushpull=pp, exec=ex)
        run_app(cmd, work, min(threads, 2), hosts=hosts)
        got = {}
        for f in os.listdir(outd):
            for line in open(os.path.join(outd, f)):
                q = line.split()
                if len(q) == 2:
                    got[int(q[0])] = float(q[1])
        if len(got) != n:
            raise Violation("output-incomplete", "%d of %d nodes in the output files" % (len(got), n))
        out = [len(a) for a in adj]
        r = [0.15] * n
        for _ in range(2000):
            nr = [0.15] * n
            for u in range(n):
                if out[u]:
                    c = 0.85 * r[u] / out[u]
                    for (v, _) in adj[u]:
                        nr[v] += c
            delta = max(abs(a - b) for a, b in zip(r, nr))
            r = nr
            if delta < 1e-10:
                break
        for v in range(n):
            if abs(got[v] - r[v]) > 1e-3 * max(1.0, r[v]):
                raise Violation("wrong-rank", "node %d: app rank %.6f, power iteration %.6f (n=%d, %s, %d hosts, %s, %s)" %
                                (v, got[v], r[v], n, pp, hosts, case["policy"], ex))
        return labels, hosts >= 2 and len(seen) >= 3
    if app in ("prpush", "prpull"):
        adj = [[] for _ in range(n)]
        tadj = [[] for _ in range(n)]
        seen = set()
        for (s, d, w) in es:
            if (s, d) in seen:
                continue
            seen.add((s, d))
            adj[s].append((d, None))
            tadj[d].append((s, None))
        tol = 1e-6
        # asynchronous variants are schedule dependent: sample a few schedules per case
        reps = 3 if threads >= 2 and algo in ("Async", "Residual") else 1
        txts = []
        for _ in range(reps):
            if app == "prpush":
                write_gr(gr, n, adj, "void")
                txts.append(run_app([BIN[app], gr] + t + ["-algo=" + algo, "-tolerance=%g" % tol], work, threads))
            else:
                write_gr(gr, n, tadj, "void")
                txts.append(run_app([BIN[app], gr, "-transposedGraph"] + t + ["-algo=" + algo, "-tolerance=%g" % tol], work, threads))
        # reference: rank = 0.15 + 0.85 * sum_{u->v} rank(u)/outdeg(u)   (definition read from the sources)
        out = [len(a) for a in adj]
        r = [0.15] * n
        for _ in range(2000):
            nr = [0.15] * n
            for u in range(n):
                if out[u]:
                    c = 0.85 * r[u] / out[u]
                    for (v, _) in adj[u]:
                        nr[v] += c
            delta = max(abs(a - b) for a, b in zip(r, nr))
            r = nr
            if delta < 1e-10:
                break
        if app == "prpull" and algo == "Topo":
            # the topological pull variant uses the normalised definition (base score (1-alpha)/n, read from the
            # source); the equations are linear, so its fixpoint is the unnormalised one divided by n
            r = [x / n for x in r]
        for txt in txts:
            got = {}
            for m in re.finditer(r"^\d+: ([0-9.eE+-]+) (\d+)$", txt, re.M):
                got[int(m.group(2))] = float(m.group(1))
            if not got and n:
                raise Violation("unparsable-output", "no rank lines in the output: %s" % txt[-200:])
            # accumulated error bound: tolerance is per residual; allow a generous factor
            for v, x in got.items():
                if abs(x - r[v]) > max(1e-3, 200 * tol) * max(1.0, r[v]):
                    raise Violation("wrong-rank", "node %d: app rank %.6f, power iteration %.6f (n=%d, %s, %d threads)" % (v, x, r[v], n, algo, threads))
        return labels, threads >= 2 and len(seen) >= 3
    raise Inconclusive()


if __name__ == "__main__":
    sys.exit(common.main(HARNESS, case_strategy, check, finding_key))
