"""C15 (distributed reducers) -- DGAccumulator / DGReduceMax / DGReduceMin give the
fold of all hosts' updates.  Hypothesis generates host and thread counts, value
types and shapes and an epoch script (fresh object or reset, optional set(),
parallel updates, reduce, read); harness/dist/dreduce.cpp runs it under mpirun and
every host compares with the model it derives from the same seed.  DESIGN.md 4/C15."""
import os
import sys

from hypothesis import strategies as st

sys.path.insert(0, os.path.dirname(os.path.abspath(__file__)))
import common  # noqa: E402
from common import Violation, run_cmd  # noqa: E402

HARNESS = "py:c15d"
RH = os.path.join(common.VERIF, "_build", "harness", "dreduce")
KINDS = ["DGAccumulator", "DGReduceMax", "DGReduceMin"]
TYPES = ["int32", "int64", "uint32", "uint64", "float", "double"]

case_strategy = st.fixed_dictionaries({
    "hosts": st.sampled_from([1, 2, 2, 3, 4]),
    "threads": st.integers(1, 3),
    "kind": st.integers(0, 2),
    "type": st.integers(0, 5),
    "epochs": st.integers(1, 4),
    "updates": st.sampled_from([0, 1, 3, 3, 10, 10, 40]),
    "shape": st.integers(0, 3),
    "fresh": st.integers(0, 15),
    "set": st.integers(0, 15),
    "twice": st.integers(0, 15),
    "seed": st.integers(1, 1 << 30),
})


def normalize(case):
    c = dict(case)
    # a second reduce() of the same epoch after further updates returns the cached first value:
    # known finding when listed, then not generated
    if common.excluded("C15/DGReducible/second-reduce-stale") and c["twice"]:
        common.count_excluded()
        c["twice"] = 0
    if c["kind"] != 0:
        c["set"] = 0
    return c


def finding_key(case, failkey):
    if failkey == "second-reduce":
        return "C15/DGReducible/second-reduce-stale"
    return "C15/%s/%s" % (KINDS[case["kind"]], failkey)


def check(case, work):
    case = normalize(case)
    hosts = case["hosts"]
    for h in range(4):
        f = os.path.join(work, "red.%d.txt" % h)
        if os.path.exists(f):
            os.unlink(f)
    env = dict(os.environ)
    env["GALOIS_VERIF_TOPO"] = str(max(1, case["threads"]))
    env["GALOIS_DO_NOT_BIND_THREADS"] = "1"
    env["OMPI_MCA_mpi_yield_when_idle"] = "1"
    cmd = ["mpirun", "--allow-run-as-root", "--oversubscribe", "--bind-to", "none", "-np", str(hosts), RH, "-rseed=%d" % case["seed"],
           "-rthreads=%d" % case["threads"], "-rkind=%d" % case["kind"], "-rtype=%d" % case["type"], "-repochs=%d" % case["epochs"],
           "-rupdates=%d" % case["updates"], "-rshape=%d" % case["shape"], "-rfresh=%d" % case["fresh"], "-rset=%d" % case["set"],
           "-rtwice=%d" % case["twice"], "-rout=" + os.path.join(work, "red")]
    rc, out, err = run_cmd(cmd, timeout=120, env=env, cwd=work)
    if rc != 0:
        msg = "\n".join(l for l in (err + out).split("\n") if l and not l.startswith(("DEBUG", "STAT", "PARAM")))[-400:]
        raise Violation("tool-failed", "dreduce under mpirun -np %d exited %d: %s" % (hosts, rc, msg))
    total = 0
    for h in range(hosts):
        f = os.path.join(work, "red.%d.txt" % h)
        if not os.path.exists(f):
            raise Violation("tool-failed", "host %d wrote no result" % h)
        line = open(f).read().strip()
        if line.startswith("FAIL"):
            p = line.split(" ", 2)
            raise Violation(p[1], p[2] if len(p) > 2 else "")
        total += int(line.split()[2])
    labels = {"hosts": hosts, "threads": case["threads"], "kind": KINDS[case["kind"]], "type": TYPES[case["type"]], "shape": case["shape"],
              "epochs": case["epochs"], "updates": min(total, 100) // 20 * 20}
    return labels, hosts >= 2 and total >= 2 and (case["shape"] in (1, 2) or case["epochs"] >= 2)


if __name__ == "__main__":
    sys.exit(common.main(HARNESS, case_strategy, check, finding_key))
