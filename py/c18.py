"""C18 -- Gluon sync makes every readable proxy agree with the reduced value.
Two mpirun invocations per case: a dump run to learn the partition (eligible
proxies), then a sync run that applies a generated write plan and dumps all
proxy values before and after every sync.  DESIGN.md 4/C18."""
import os
import sys

from hypothesis import strategies as st

sys.path.insert(0, os.path.dirname(os.path.abspath(__file__)))
import common  # noqa: E402
import c19  # noqa: E402
from common import Inconclusive, Violation, run_cmd, write_gr  # noqa: E402

HARNESS = "py:c18"
DH = c19.DH
LOC = ["Source", "Destination", "Any"]
RED = ["min", "add", "set", "max"]

intent = st.tuples(st.integers(0, 59), st.integers(0, 7), st.integers(1, 1000))
case_strategy = st.fixed_dictionaries({
    "graph": st.tuples(st.integers(1, 60), st.lists(st.tuples(st.integers(0, 59), st.integers(0, 59), st.integers(0, 9)), max_size=150)),
    "hosts": st.sampled_from([1, 2, 2, 3, 3, 4, 4]),
    "policy": st.sampled_from(["oec", "iec", "hovc", "hivc", "cvc", "cvc-iec", "ginger-o", "fennel-o", "sugar-o"]),
    "write": st.integers(0, 2),
    "read": st.integers(0, 2),
    "reduce": st.integers(0, 3),
    "bitset": st.booleans(),
    "metadata": st.sampled_from(["auto", "auto", "bitset", "offsets", "gids", "none"]),
    "threads": st.sampled_from([1, 2]),
    "rounds": st.lists(st.lists(intent, max_size=40), min_size=1, max_size=4),
})


def finding_key(case, failkey):
    return "C18/%s/write%s-read%s-%s%s/%s" % (case["policy"], LOC[case["write"]], LOC[case["read"]], RED[case["reduce"]],
                                              "" if case["bitset"] else "-nobitset", failkey)


def mpirun(hosts, args, work, threads):
    env = dict(os.environ)
    env["GALOIS_VERIF_TOPO"] = str(threads)
    env["GALOIS_DO_NOT_BIND_THREADS"] = "1"
    env["OMPI_MCA_mpi_yield_when_idle"] = "1"  # ranks are oversubscribed on one machine
    rc, out, err = run_cmd(["mpirun", "--allow-run-as-root", "--oversubscribe", "--bind-to", "none", "-np", str(hosts), DH] + args, timeout=120, env=env, cwd=work)
    if rc != 0:
        msg = "\n".join(l for l in (err + out).split("\n") if l and not l.startswith(("DEBUG", "STAT", "PARAM")))[-400:]
        raise Violation("tool-failed", "dharness under mpirun -np %d exited %d: %s" % (hosts, rc, msg))


def check(case, work):
    n, edges = c19.normalize(case)
    hosts, policy = case["hosts"], case["policy"]
    wloc, rloc, red, bitset = case["write"], case["read"], case["reduce"], case["bitset"]
    if not bitset and red >= 2:
        bitset = True  # without an update bitset every mirror is sent: set/max of untouched mirrors is not a defined use
    metadata = case["metadata"]
    if metadata == "none" and red == 2:
        # the dense encoding is documented as "sends non-updated values": with the set reduction an untouched mirror
        # then overwrites its master by design, so this pair is outside the defined use
        metadata = "auto"
    adj = [[] for _ in range(n)]
    tadj = [[] for _ in range(n)]
    for (s, d, w) in edges:
        adj[s].append((d, w))
        tadj[d].append((s, w))
    gr, tgr = os.path.join(work, "g.gr"), os.path.join(work, "g.tgr")
    write_gr(gr, n, adj, "uint32")
    write_gr(tgr, n, tadj, "uint32")
    for h in range(4):
        for pre in ("sync", "sync.vals"):
            f = os.path.join(work, "%s.%d.txt" % (pre, h))
            if os.path.exists(f):
                os.unlink(f)
    base = [gr, "-graphTranspose=" + tgr, "-partition=" + policy, "-t", str(case["threads"])]
    init = {0: 1000000, 1: 0, 2: 7, 3: 0}[red]
    plan = ["init %d" % init, "rounds %d" % len(case["rounds"])]
    for r, intents in enumerate(case["rounds"]):
        for (g, k, v) in intents:
            plan.append("i %d %d %d %d" % (r, g % n, k, v))
    open(os.path.join(work, "plan.txt"), "w").write("\n".join(plan) + "\n")
    # one run: the harness dumps its partition, resolves the intents against it and syncs
    # (streaming partitioners do not reproduce the same partition in a second run)
    args = base + ["-vmode=sync", "-vout=" + os.path.join(work, "sync"), "-vplan=" + os.path.join(work, "plan.txt"),
                   "-vwrite=%d" % wloc, "-vread=%d" % rloc, "-vreduce=%d" % red, "-metadata=" + metadata]
    if not bitset:
        args.append("-vbitset=false")
    mpirun(hosts, args, work, case["threads"])
    dumps = [c19.parse_dump(os.path.join(work, "sync.%d.txt" % h)) for h in range(hosts)]
    owner = {}
    proxies = {}  # gid -> list of hosts holding a proxy (ascending)
    has_out = [set(e[0] for e in d["edges"]) for d in dumps]
    has_in = [set(e[1] for e in d["edges"]) for d in dumps]
    for h, d in enumerate(dumps):
        if not d["complete"]:
            raise Violation("tool-failed", "host %d partition dump incomplete" % h)
        for nd in d["nodes"]:
            proxies.setdefault(nd["gid"], []).append(h)
            if nd["owned"]:
                owner[nd["gid"]] = h

    def eligible(h, g, loc):
        if owner[g] == h:
            return True
        if loc == 0:
            return g in has_out[h]
        if loc == 1:
            return g in has_in[h]
        return True
    # the same intent resolution as the harness
    planned = []
    mirror_written = False
    seen = set()
    for r, intents in enumerate(case["rounds"]):
        for (g, k, v) in intents:
            g %= n
            el = [h for h in proxies.get(g, []) if eligible(h, g, wloc)]
            if not el:
                continue
            if red == 2:
                if (r, g) in seen:
                    continue
                seen.add((r, g))
            h = el[k % len(el)]
            planned.append((r, h, g, v))
            if h != owner[g]:
                mirror_written = True
    # ---- parse value dumps
    before = [dict() for _ in case["rounds"]]
    after = [dict() for _ in case["rounds"]]
    for h in range(hosts):
        f = os.path.join(work, "sync.vals.%d.txt" % h)
        if not os.path.exists(f):
            raise Violation("tool-failed", "host %d wrote no value dump" % h)
        for line in open(f):
            p = line.split()
            if p and p[0] in ("before", "after"):
                tgt = (before if p[0] == "before" else after)[int(p[1])]
                for kv in p[2:]:
                    g, v = kv.split(":")
                    tgt[(h, int(g))] = int(v)
    written = [set((h, g) for (r, h, g, v) in planned if r == rr) for rr in range(len(case["rounds"]))]
    nontrivial = False
    for r in range(len(case["rounds"])):
        if len(before[r]) != sum(len(d["nodes"]) for d in dumps) or len(after[r]) != len(before[r]):
            raise Violation("tool-failed", "round %d: value dumps incomplete" % r)
        some_updated = some_not = False
        for g in range(n):
            o = owner[g]
            mv = before[r][(o, g)]
            contrib = []
            for h in proxies[g]:
                if h == o or not eligible(h, g, wloc):
                    continue
                if (h, g) in written[r] or not bitset:
                    contrib.append(before[r][(h, g)])
            if (o, g) in written[r] or contrib:
                some_updated = True
            else:
                some_not = True
            if red == 0:
                ref = min([mv] + contrib)
            elif red == 1:
                ref = mv + sum(contrib)
            elif red == 3:
                ref = max([mv] + contrib)
            else:
                ref = contrib[0] if contrib else mv
            for h in proxies[g]:
                if h != o and not eligible(h, g, rloc):
                    continue
                got = after[r][(h, g)]
                if got != ref:
                    raise Violation("wrong-value", "round %d node %d: %s on host %d holds %d after sync, the %s over master %d and written "
                                    "eligible mirrors %s is %d" % (r, g, "master" if h == o else "mirror", h, got, RED[red], mv, contrib[:6], ref))
        if some_updated and some_not:
            nontrivial = True
    labels = {"policy": policy, "hosts": hosts, "write": LOC[wloc], "read": LOC[rloc], "reduce": RED[red], "bitset": bitset,
              "metadata": metadata, "mirror_written": mirror_written}
    return labels, hosts >= 2 and mirror_written and nontrivial


if __name__ == "__main__":
    sys.exit(common.main(HARNESS, case_strategy, check, finding_key))
